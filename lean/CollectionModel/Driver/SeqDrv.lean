/- driver for the sequence family (C01, and shared by Stack/Set/Catalog drivers) -/
import Driver.Json
import CollectionModel.Spec.SeqSpec
open Lean CM CM.Seq

namespace Drv

def parseRes (j : Json) : Res Int :=
  if has j "v" then .val (int j "v")
  else if has j "l" then .vals (ints j "l")
  else if has j "n" then .nat (nat j "n")
  else if has j "b" then .bool (bool j "b")
  else .unit

def parsePanic (s : String) : Panic :=
  match s with
  | "emptyIndex" => .emptyIndex | "zeroIndex" => .zeroIndex | "outOfRange" => .outOfRange
  | "slot" => .slot | "stackFull" => .stackFull | "stackEmpty" => .stackEmpty
  | "capacity" => .capacity | "depth" => .depth | "syntax" => .syntax | "rt" => .rt
  | _ => .lib

def parseObs (j : Json) : Obs Int :=
  match str j "out" with
  | "ret" => .ret (ints j "post") (parseRes (fld j "res"))
  | "panic" => .panic (ints j "post") (parsePanic (str j "pc"))
  | _ => .hang

def parseSeqOp (j : Json) : Option (Op Int) :=
  let a := ints j "a"
  let a0 := a.getD 0 0
  let a1 := a.getD 1 0
  let vs := ints j "vs"
  match str j "op" with
  | "getValue" => some (.getValue a0)
  | "getValues" => some (.getValues a0 a1)
  | "setValue" => some (.setValue a0 a1)
  | "setValues" => some (.setValues a0 vs)
  | "insertValue" => some (.insertValue a0.toNat a1)
  | "insertValues" => some (.insertValues a0.toNat vs)
  | "appendValue" => some (.appendValue a0)
  | "appendValues" => some (.appendValues vs)
  | "removeValue" => some (.removeValue a0)
  | "removeValues" => some (.removeValues a0 a1)
  | "removeAll" => some .removeAll
  | "getIndex" => some (.getIndex a0)
  | "containsValue" => some (.containsValue a0)
  | "containsAny" => some (.containsAny vs)
  | "containsAll" => some (.containsAll vs)
  | "sort" => some .sort
  | "reverse" => some .reverse
  | "shuffle" => some (.shuffle [])
  | "asArray" => some .asArray
  | "iterate" => some .iterate
  | "getSize" => some .getSize
  | "isEmpty" => some .isEmpty
  | "make" => some (.make vs)
  | "concatenate" => some (.concatenate vs (ints j "ws"))
  | _ => none

def resStr : Res Int → String
  | .unit => "-" | .val a => s!"v{a}" | .vals l => s!"l{l}" | .nat n => s!"n{n}" | .bool b => s!"b{b}"

def obsStr : Obs Int → String
  | .ret s r => s!"ret {s} {resStr r}"
  | .panic s c => s!"panic {s} {c.toString}"
  | .hang => "hang"

/-- correspondence: same outcome kind, same state, same result; panic classes
    are compared only as library-vs-runtime (messages may be reworded). -/
def obsAgree (m i : Obs Int) : Bool :=
  match m, i with
  | .ret s r, .ret s' r' => s == s' && r == r'
  | .panic s c, .panic s' c' => s == s' && ((c == .rt) == (c' == .rt))
  | .hang, .hang => true
  | _, _ => false

def rankerOf (name : String) : Int → Int → Rank :=
  match name with
  | "rev" => fun a b => rankInt b a
  | "coarse" => fun a b => rankInt (a / 3) (b / 3)
  | _ => rankInt

def seqLine (j : Json) : String :=
  match parseSeqOp j with
  | none => verdict false true "bad-op" ""
  | some op =>
    let pre := ints j "pre"
    let impl := parseObs j
    let rank := rankerOf (str j "rk")
    let eqv : Int → Int → Bool := fun a b => a == b
    match op with
    | .shuffle _ =>
      -- the index stream is external (crypto/rand): only the spec judges a shuffle
      verdict true (SeqSpec.allowed eqv rank pre op impl) "C01/shuffle" "-"
    | _ =>
      let m := step eqv rank pre op
      -- `stale`: a result handed out earlier changed afterwards, or writing through a
      -- result reached the receiver (results must be copies)
      if has j "stale" then verdict true false s!"C01/result-aliased/{str j "stale"}" (obsStr m) else
      verdict (obsAgree m impl) (SeqSpec.allowed eqv rank pre op impl) s!"C01/{str j "op"}" (obsStr m)

end Drv
