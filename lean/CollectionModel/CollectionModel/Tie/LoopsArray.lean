import CollectionModel.Generated.LoopsArray
import CollectionModel.Model.Seq
import CollectionModel.Lemmas.GoSemLemmas
/-
  T3L obligations for C01 (array.go): `array_.GetValue`, `GetValues`, `SetValue`, `SetValues`, `AsArray`, `GetSize`,
  `IsEmpty`, TRANSLATED from the current text of array.go onto the memory of arrays (the receiver is a slice;
  indexing, re-slicing, `make` and `copy` with Go's bounds checks), compute what `Model/Seq.lean` computes on the
  array's contents.  (`toZeroBased` is the Seq model's in both; its own tie is `toZeroBased_tie`.)
-/
namespace CM
namespace Tie
open CM.GoSem CM.Seq

set_option linter.unusedSectionVars false
set_option linter.unusedVariables false

variable {α : Type} [Inhabited α]

/-- the slice that shows the whole of an array of `n` values -/
def wholeA (a n : Nat) : Slice := ⟨a, 0, n, n⟩

theorem toZeroBased_lt (n : Nat) (i : Int) (p : Nat) (h : Seq.toZeroBased n i = .ok p) : p < n := by
  unfold Seq.toZeroBased at h
  split at h
  · cases h
  · split at h
    · cases h
    · split at h
      · cases h
      · split at h <;> (injection h with h; omega)

theorem arr_setArr_sameA (m : Mem α) (a : Nat) (l : List α) (h : a < m.length) : (m.setArr a l).arr a = l := by
  rw [arr_setArr]; simp [h]

theorem arr_setArr_otherA (m : Mem α) (a c : Nat) (l : List α) (h : c ≠ a) : (m.setArr a l).arr c = m.arr c := by
  rw [arr_setArr]; simp [h]

/-- `array_.GetValue` as written in array.go = `Seq.getValue` on the contents -/
theorem arrayGetValue_tie (mem : Mem α) (p : Nat) (index : Int) (fuel : Nat) :
    Generated.arrayGetValue (wholeA p (mem.arr p).length) index mem fuel
      = some ((Seq.getValue (mem.arr p) index).map (fun x => (x, mem))) := by
  unfold Generated.arrayGetValue Seq.getValue
  simp only [wholeA]
  cases h : Seq.toZeroBased (mem.arr p).length index with
  | error e => simp [Except.map]
  | ok i =>
    have := toZeroBased_lt _ _ _ h
    simp only [natResult_ok, bindE_ok]
    rw [read_ok mem ⟨p, 0, (mem.arr p).length, (mem.arr p).length⟩ i this]
    simp [Except.map]

/-- `array_.SetValue` as written in array.go = `Seq.setValue` on the contents -/
theorem arraySetValue_tie (mem : Mem α) (p : Nat) (index : Int) (value : α) (fuel : Nat) :
    Generated.arraySetValue (wholeA p (mem.arr p).length) index value mem fuel
      = some ((Seq.setValue (mem.arr p) index value).map (fun l => mem.setArr p l)) := by
  unfold Generated.arraySetValue Seq.setValue
  simp only [wholeA]
  cases h : Seq.toZeroBased (mem.arr p).length index with
  | error e => simp [Except.map]
  | ok i =>
    have := toZeroBased_lt _ _ _ h
    simp only [natResult_ok, bindE_ok]
    rw [write_ok mem ⟨p, 0, (mem.arr p).length, (mem.arr p).length⟩ i value this]
    simp [Except.map]

theorem view_wholeA (mem : Mem α) (p : Nat) : mem.view (wholeA p (mem.arr p).length) = mem.arr p := by
  simp [Mem.view, wholeA]

/-- `array_.AsArray` as written in array.go: a fresh array with the same contents -/
theorem arrayAsArray_tie (mem : Mem α) (p : Nat) (fuel : Nat) (hp : p < mem.length) (hint : IsInt64 ((mem.arr p).length : Int)) :
    ∃ mem', Generated.arrayAsArray (wholeA p (mem.arr p).length) mem fuel = some (.ok (wholeA mem.length (mem.arr p).length, mem'))
      ∧ mem'.arr mem.length = mem.arr p ∧ mem'.length = mem.length + 1 ∧ ∀ c, c < mem.length → mem'.arr c = mem.arr c := by
  unfold Generated.arrayAsArray
  have e : ((wholeA p (mem.arr p).length).len : Int) = ((mem.arr p).length : Int) := rfl
  simp only [e, make_ok mem _ hint, bindE_ok]
  rw [copy_eq]
  have hne : p ≠ mem.length := by omega
  have hv : (mem ++ [List.replicate (mem.arr p).length (default : α)]).view ⟨p, 0, (mem.arr p).length, (mem.arr p).length⟩ = mem.arr p := by
    have : (mem ++ [List.replicate (mem.arr p).length (default : α)]).arr p = mem.arr p := by rw [arr_append_new]; simp [hne]
    simp [Mem.view, this]
  have hn : (mem ++ [List.replicate (mem.arr p).length (default : α)]).arr mem.length = List.replicate (mem.arr p).length default := by
    rw [arr_append_new]; simp
  simp only [hv, hn, Nat.min_self, wholeA]
  rw [List.take_of_length_le (Nat.le_refl _), splice_full _ _ (by simp)]
  refine ⟨_, rfl, ?_, by simp, ?_⟩
  · rw [arr_setArr_sameA _ _ _ (by simp)]
  · intro c hc
    rw [arr_setArr_otherA _ _ _ _ (by omega), arr_append_new]; simp [Nat.ne_of_lt hc]

/-- `array_.GetValues` as written in array.go = `Seq.getValues` on the contents, delivered in a fresh array -/
theorem arrayGetValues_tie (mem : Mem α) (p : Nat) (first last : Int) (fuel : Nat) (hp : p < mem.length)
    (hint : IsInt64 (((mem.arr p).length : Int) + 1)) :
    match Seq.getValues (mem.arr p) first last with
    | .error e => Generated.arrayGetValues (wholeA p (mem.arr p).length) first last mem fuel = some (.error e)
    | .ok data => ∃ mem', Generated.arrayGetValues (wholeA p (mem.arr p).length) first last mem fuel
          = some (.ok (wholeA mem.length data.length, mem'))
        ∧ mem'.arr mem.length = data ∧ mem'.length = mem.length + 1 ∧ ∀ c, c < mem.length → mem'.arr c = mem.arr c := by
  unfold Generated.arrayGetValues Seq.getValues
  simp only [wholeA]
  cases hf : Seq.toZeroBased (mem.arr p).length first with
  | error e => simp [Except.map]
  | ok f =>
    cases hl : Seq.toZeroBased (mem.arr p).length last with
    | error e => simp [Except.map]
    | ok la =>
      have h1 := toZeroBased_lt _ _ _ hf
      have h2 := toZeroBased_lt _ _ _ hl
      rw [natResult_ok, bindE_ok, natResult_ok, bindE_ok]
      have e1 : w64 ((la : Int) + 1) = ((la + 1 : Nat) : Int) := by rw [w64_id (by unfold IsInt64 at *; omega)]; omega
      rw [e1]
      clear e1
      by_cases hgt : f > la + 1
      · simp only [hgt, if_true]
        have : Slice.sub ⟨p, 0, (mem.arr p).length, (mem.arr p).length⟩ (f : Int) ((la + 1 : Nat) : Int) = .error .rt := by
          unfold Slice.sub
          have : ¬ ((0 : Int) ≤ (f : Int) ∧ (f : Int) ≤ ((la + 1 : Nat) : Int) ∧ ((la + 1 : Nat) : Int) ≤ (((⟨p, 0, (mem.arr p).length, (mem.arr p).length⟩ : Slice).cap : Nat) : Int)) := by
            simp only; omega
          rw [if_neg this]
        rw [this]
        rfl
      · simp only [hgt, if_false]
        rw [sub_ok _ f (la + 1) (by omega) (by simp; omega)]
        simp only [bindE_ok]
        have e2 : w64 (w64 ((la : Int) - (f : Int)) + 1) = ((la + 1 - f : Nat) : Int) := by
          rw [w64_id (x := (la : Int) - (f : Int)) (by unfold IsInt64 at *; omega), w64_id (by unfold IsInt64 at *; omega)]; omega
        rw [e2]
        clear e2
        simp only [make_ok mem (la + 1 - f) (by unfold IsInt64 at *; omega), bindE_ok]
        rw [copy_eq]
        have hne : p ≠ mem.length := by omega
        have ha : (mem ++ [List.replicate (la + 1 - f) (default : α)]).arr p = mem.arr p := by rw [arr_append_new]; simp [hne]
        have hn : (mem ++ [List.replicate (la + 1 - f) (default : α)]).arr mem.length = List.replicate (la + 1 - f) default := by
          rw [arr_append_new]; simp
        simp only [Mem.view, ha, hn, Nat.zero_add, Nat.min_self]
        have hlen : ((mem.arr p).drop f |>.take (la + 1 - f)).length = la + 1 - f := by simp; omega
        rw [List.take_of_length_le (by rw [hlen]; exact Nat.le_refl _), splice_full _ _ (by simp [hlen])]
        refine ⟨_, by rw [hlen], ?_, by simp, ?_⟩
        · rw [arr_setArr_sameA _ _ _ (by simp)]
        · intro c hc
          rw [arr_setArr_otherA _ _ _ _ (by omega), arr_append_new]; simp [Nat.ne_of_lt hc]

/-- `array_.SetValues` as written in array.go = `Seq.setValues` on the contents (the operand's `AsArray()` is a fresh
    array, so the memory grows by it) -/
theorem arraySetValues_tie (mem : Mem α) (p : Nat) (index : Int) (vs : List α) (fuel : Nat) (hp : p < mem.length)
    (hint : IsInt64 (((mem.arr p).length : Int) + (vs.length : Int) + 1)) :
    match Seq.setValues (mem.arr p) index vs with
    | .error e => Generated.arraySetValues (wholeA p (mem.arr p).length) index vs mem fuel = some (.error e)
    | .ok l => ∃ mem', Generated.arraySetValues (wholeA p (mem.arr p).length) index vs mem fuel = some (.ok mem')
        ∧ mem'.arr p = l ∧ ∀ c, c < mem.length → c ≠ p → mem'.arr c = mem.arr c := by
  unfold Generated.arraySetValues Seq.setValues
  simp only [wholeA]
  cases hf : Seq.toZeroBased (mem.arr p).length index with
  | error e => simp [Except.map]
  | ok first =>
    have h1 := toZeroBased_lt _ _ _ hf
    rw [natResult_ok, bindE_ok]
    have e1 : w64 ((first : Int) + (vs.length : Int)) = ((first + vs.length : Nat) : Int) := by
      rw [w64_id (by unfold IsInt64 at *; omega)]; omega
    rw [e1]
    clear e1
    by_cases hgt : first + vs.length > (mem.arr p).length
    · have hc : (((first + vs.length : Nat) : Int) > ((mem.arr p).length : Int)) := by omega
      simp only [hgt, hc, decide_true, if_true]
    · have : ¬ (((first + vs.length : Nat) : Int) > ((mem.arr p).length : Int)) := by omega
      simp only [hgt, this, decide_false, Bool.false_eq_true, if_false]
      rw [sub_ok _ first (first + vs.length) (by omega) (by simp; omega)]
      simp only [bindE_ok, Mem.alloc]
      rw [copy_eq]
      have hne : p ≠ mem.length := by omega
      have ha : (mem ++ [vs]).arr p = mem.arr p := by rw [arr_append_new]; simp [hne]
      have hn : (mem ++ [vs]).arr mem.length = vs := by rw [arr_append_new]; simp
      simp only [Mem.view, ha, hn, Nat.zero_add, List.drop_zero]
      have e3 : first + vs.length - first = vs.length := by omega
      rw [e3, Nat.min_self, List.take_of_length_le (Nat.le_refl _), List.take_of_length_le (Nat.le_refl _)]
      refine ⟨_, rfl, ?_, ?_⟩
      · rw [arr_setArr_sameA _ _ _ (by simp; omega)]
        simp [splice, Seq.overwrite]
      · intro c hc hcp
        rw [arr_setArr_otherA _ _ _ _ hcp, arr_append_new]; simp [Nat.ne_of_lt hc]

/-- `array_.GetSize`, `array_.IsEmpty` as written in array.go -/
theorem arrayGetSize_tie (mem : Mem α) (p : Nat) (fuel : Nat) :
    Generated.arrayGetSize (wholeA p (mem.arr p).length) mem fuel = some (.ok (((mem.arr p).length : Int), mem)) := rfl

theorem arrayIsEmpty_tie (mem : Mem α) (p : Nat) (fuel : Nat) :
    Generated.arrayIsEmpty (wholeA p (mem.arr p).length) mem fuel = some (.ok ((((mem.arr p).length : Int) == 0), mem)) := rfl

/-! ### the class constructors: what they hand out is a fresh array (C18: nothing passed in is kept) -/

/-- `arrayClass_.MakeFromArray` as written in array.go: a fresh array (a new array id) with the contents of the Go array
    passed in, which is not touched -/
theorem arrayClassMakeFromArray_tie (mem : Mem α) (p : Nat) (fuel : Nat) (hp : p < mem.length) (hint : IsInt64 ((mem.arr p).length : Int)) :
    ∃ mem', Generated.arrayClassMakeFromArray (wholeA p (mem.arr p).length) mem fuel
        = some (.ok (wholeA mem.length (mem.arr p).length, mem'))
      ∧ mem'.arr mem.length = mem.arr p ∧ mem'.length = mem.length + 1 ∧ ∀ c, c < mem.length → mem'.arr c = mem.arr c :=
  arrayAsArray_tie mem p fuel hp hint

/-- `arrayClass_.Make` as written in array.go: a fresh array of zero values -/
theorem arrayClassMake_tie (mem : Mem α) (n : Nat) (fuel : Nat) (h : IsInt64 (n : Int)) :
    Generated.arrayClassMake (n : Int) mem fuel
      = some (.ok (wholeA mem.length n, mem ++ [List.replicate n (default : α)])) := by
  unfold Generated.arrayClassMake
  simp only [make_ok mem n h, bindE_ok, wholeA]

/-- … and a size beyond the range of `int` is a Go runtime error, not a huge array -/
theorem arrayClassMake_huge (mem : Mem α) (size : Int) (fuel : Nat) (h : 9223372036854775808 ≤ size) :
    Generated.arrayClassMake size mem fuel = some (.error .rt) := by
  unfold Generated.arrayClassMake Mem.make
  have : ¬ (0 ≤ size ∧ size < 9223372036854775808) := by omega
  simp [this]

/-! ### `GetIterator`: the iterator walks over a private copy (C17: an iterator enumerates the collection as it was) -/

/-- `array_.GetIterator` as written in array.go: the iterator is made from `v.AsArray()`, a NEW array with the current
    contents -/
theorem arrayGetIterator_tie (mem : Mem α) (p : Nat) (fuel : Nat) (hp : p < mem.length) (hint : IsInt64 ((mem.arr p).length : Int)) :
    ∃ mem', Generated.arrayGetIterator (wholeA p (mem.arr p).length) mem fuel
        = some (.ok (wholeA mem.length (mem.arr p).length, mem'))
      ∧ mem'.arr mem.length = mem.arr p ∧ mem'.length = mem.length + 1 ∧ ∀ c, c < mem.length → mem'.arr c = mem.arr c := by
  obtain ⟨mem', h1, h2, h3, h4⟩ := arrayAsArray_tie mem p fuel hp hint
  refine ⟨mem', ?_, h2, h3, h4⟩
  unfold Generated.arrayGetIterator
  rw [h1]
  rfl

/-- … so a later `SetValue` on the array (any write to array `p`) leaves what the iterator walks over untouched -/
theorem iterator_snapshot_unaffected (mem' : Mem α) (p it : Nat) (l : List α) (h : it ≠ p) :
    (mem'.setArr p l).arr it = mem'.arr it := arr_setArr_otherA mem' p it l h

/-- non-vacuity -/
example : Generated.arrayGetValue (wholeA 0 3) (-1 : Int) [[(10 : Int), 20, 30]] 1 = some (.ok (30, [[10, 20, 30]])) := by rfl
example : Generated.arrayGetValue (wholeA 0 3) (4 : Int) [[(10 : Int), 20, 30]] 1 = some (.error .outOfRange) := by rfl

end Tie
end CM
