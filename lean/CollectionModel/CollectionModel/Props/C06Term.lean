/-
  C06, termination half — **Fork terminates, closes every output and lets the wait group
  return**, for every input stream, fan-out n ≥ 1, capacity ≥ 1 and interleaving of the
  feeder, the helper goroutine and the n readers (each reading until ok=false):

  * `C06_fork_step_decreases`: a potential (remaining work: feeds, receives, sends, reads,
    closes) strictly decreases with every atomic step, so no run is infinite
    (`C06_fork_run_bounded`);
  * `C06_fork_no_deadlock`: in every reachable state that is not final some step is enabled
    (nobody waits for ever: a full queue has a reader, an empty one a writer or a close);
  * `C06_fork_terminates`: hence every maximal run is finite and ends in the final state:
    helper at `group.Done()`, every output closed and drained, every reader has seen
    ok=false after reading exactly the input.
-/
import CollectionModel.Props.C06
namespace CM
open CM.Pipes

variable {α : Type}

/-- sum of `f k` for `k < n` -/
def sumTo (n : Nat) (f : Nat → Nat) : Nat := ((List.range n).map f).sum

theorem sumTo_succ (n : Nat) (f : Nat → Nat) : sumTo (n + 1) f = sumTo n f + f n := by
  simp [sumTo, List.range_succ]

theorem sumTo_congr (n : Nat) (f g : Nat → Nat) (h : ∀ k, k < n → f k = g k) : sumTo n f = sumTo n g := by
  induction n with
  | zero => rfl
  | succ n ih => rw [sumTo_succ, sumTo_succ, ih (fun k hk => h k (by omega)), h n (by omega)]

/-- changing the summand at one index `k < n` -/
theorem sumTo_upd (n : Nat) (f g : Nat → Nat) (k : Nat) (hk : k < n) (h : ∀ j, j ≠ k → g j = f j) :
    sumTo n g + f k = sumTo n f + g k := by
  induction n with
  | zero => omega
  | succ n ih =>
    rw [sumTo_succ, sumTo_succ]
    by_cases hkn : k = n
    · subst hkn
      rw [sumTo_congr k g f (fun j hj => h j (by omega))]
      omega
    · have := ih (by omega)
      rw [h n (fun e => hkn e.symm)]
      omega

/-- remaining work of the helper -/
def hpot (n : Nat) : H α → Nat
  | .recv => n + 1
  | .send _ k => n + 1 + 2 * (n - k)
  | .close k => n - k
  | .done => 0

/-- remaining work of the whole Fork network -/
def forkPot (n : Nat) (s : FS α) : Nat :=
  (2 * n + 2) * s.rest.length + (2 * n + 1) * s.inq.length + hpot n s.h + sumTo n (fun k => (s.buf k).length)
    + (if s.inClosed then 0 else 1) + sumTo n (fun k => if s.readerDone k then 0 else 1)

/-- **every atomic step does one unit of the remaining work** -/
theorem C06_fork_step_decreases (n cap : Nat) (s t : FS α) (h : Step n cap s t) : forkPot n t < forkPot n s := by
  cases h with
  | feed v r h1 h2 h3 =>
    simp only [forkPot, h1, h3, List.length_cons, List.length_append, List.length_nil]
    simp only [Nat.mul_add, Nat.add_mul]; omega
  | feedClose h1 h3 => simp only [forkPot, h3]; simp
  | hRecv v q h1 h2 =>
    simp only [forkPot, h1, h2, hpot, List.length_cons]
    simp only [Nat.mul_add, Nat.add_mul]; omega
  | hRecvClosed h1 h2 h3 => simp only [forkPot, h1, hpot]; omega
  | hSend v k h1 hk h2 h3 =>
    have hs := sumTo_upd n (fun j => (s.buf j).length) (fun j => (upd s.buf k (s.buf k ++ [v]) j).length) k hk
      (fun j hj => by simp [upd, hj])
    simp only [upd_same, List.length_append, List.length_cons, List.length_nil] at hs
    simp only [forkPot, h1]
    by_cases hk1 : k + 1 < n
    · simp only [hk1, if_true, hpot]; omega
    · simp only [hk1, if_false, hpot]; omega
  | hClose k h1 hk =>
    simp only [forkPot, h1]
    by_cases hk1 : k + 1 < n
    · simp only [hk1, if_true, hpot]; omega
    · simp only [hk1, if_false, hpot]; omega
  | read k v b hk h1 h2 =>
    have hs := sumTo_upd n (fun j => (s.buf j).length) (fun j => (upd s.buf k b j).length) k hk
      (fun j hj => by simp [upd, hj])
    simp only [upd_same, h1, List.length_cons] at hs
    simp only [forkPot]
    omega
  | readClosed k hk h1 h2 h3 =>
    have hs := sumTo_upd n (fun j => if s.readerDone j then 0 else 1) (fun j => if upd s.readerDone k true j then 0 else 1) k hk
      (fun j hj => by simp [upd, hj])
    simp only [upd_same, h3] at hs
    simp only [forkPot]
    simp at hs
    omega

/-- a run of `m` steps -/
inductive Run (n cap : Nat) : FS α → Nat → FS α → Prop
  | zero (s) : Run n cap s 0 s
  | succ {s t u m} : Step n cap s t → Run n cap t m u → Run n cap s (m + 1) u

/-- **no infinite run**: a run of m steps exists only if m ≤ the potential of its first state -/
theorem C06_fork_run_bounded (n cap : Nat) : ∀ (m : Nat) (s u : FS α), Run n cap s m u → m + forkPot n u ≤ forkPot n s
  | 0, s, u, h => by cases h; omega
  | m+1, s, u, h => by
    cases h with
    | succ hs hr =>
      have := C06_fork_run_bounded n cap m _ u hr
      have := C06_fork_step_decreases n cap _ _ hs
      omega

/-- what the helper has done so far, and what the readers may conclude from it -/
structure ForkProg (n : Nat) (s : FS α) : Prop where
  sendLt : ∀ v k, s.h = .send v k → k < n
  closeLt : ∀ k, s.h = .close k → k < n
  closedBelow : ∀ j, s.h = .close j → ∀ k, k < j → s.oclosed k = true
  closedAll : s.h = .done → ∀ k, k < n → s.oclosed k = true
  doneClosed : ∀ k, s.readerDone k = true → s.oclosed k = true
  doneEmpty : ∀ k, s.readerDone k = true → s.buf k = []

theorem fork_prog_init (input : List α) (n : Nat) : ForkProg n (initFS input) := by
  refine ⟨?_, ?_, ?_, ?_, ?_, ?_⟩ <;> intros <;> simp_all [initFS]

theorem fork_prog_step (n cap : Nat) (hn : 1 ≤ n) (s t : FS α) (hp : ForkProg n s) (hs : Step n cap s t) : ForkProg n t := by
  cases hs with
  | feed v r h1 h2 h3 => exact ⟨hp.sendLt, hp.closeLt, hp.closedBelow, hp.closedAll, hp.doneClosed, hp.doneEmpty⟩
  | feedClose h1 h3 => exact ⟨hp.sendLt, hp.closeLt, hp.closedBelow, hp.closedAll, hp.doneClosed, hp.doneEmpty⟩
  | hRecv v q h1 h2 =>
    refine ⟨?_, ?_, ?_, ?_, hp.doneClosed, hp.doneEmpty⟩
    · intro v' k e; simp at e; omega
    · intro k e; simp at e
    · intro j e; simp at e
    · intro e; simp at e
  | hRecvClosed h1 h2 h3 =>
    refine ⟨?_, ?_, ?_, ?_, hp.doneClosed, hp.doneEmpty⟩
    · intro v' k e; simp at e
    · intro k e; simp at e; omega
    · intro j e k hk; simp at e; omega
    · intro e; simp at e
  | hSend v k h1 hk h2 h3 =>
    refine ⟨?_, ?_, ?_, ?_, hp.doneClosed, ?_⟩
    rotate_right
    · intro k' e
      have hne : k' ≠ k := by
        intro ek; subst ek
        have := hp.doneClosed k' e; rw [h3] at this; cases this
      simp only [upd, hne, if_false]; exact hp.doneEmpty k' e
    · intro v' k' e; simp only at e; split at e <;> simp at e; omega
    · intro k' e; simp only at e; split at e <;> simp at e
    · intro j e; simp only at e; split at e <;> simp at e
    · intro e; simp only at e; split at e <;> simp at e
  | hClose k h1 hk =>
    refine ⟨?_, ?_, ?_, ?_, ?_, ?_⟩
    · intro v' k' e; simp only at e; split at e <;> simp at e
    · intro k' e; simp only at e; split at e <;> simp at e; omega
    · intro j e k' hk'
      simp only at e; split at e <;> simp at e
      subst e
      by_cases hkk : k' = k
      · subst hkk; simp [upd]
      · simp only [upd, hkk, if_false]; exact hp.closedBelow k h1 k' (by omega)
    · intro e k' hk'
      simp only at e; split at e <;> simp at e
      by_cases hkk : k' = k
      · subst hkk; simp [upd]
      · simp only [upd, hkk, if_false]; exact hp.closedBelow k h1 k' (by omega)
    · intro k' e
      by_cases hkk : k' = k
      · subst hkk; simp [upd]
      · simp only [upd, hkk, if_false]; exact hp.doneClosed k' e
    · exact hp.doneEmpty
  | read k v b hk h1 h2 =>
    refine ⟨hp.sendLt, hp.closeLt, hp.closedBelow, hp.closedAll, hp.doneClosed, ?_⟩
    intro k' e
    have hne : k' ≠ k := by intro ek; subst ek; rw [h2] at e; cases e
    simp only [upd, hne, if_false]; exact hp.doneEmpty k' e
  | readClosed k hk h1 h2 h3 =>
    refine ⟨hp.sendLt, hp.closeLt, hp.closedBelow, hp.closedAll, ?_, ?_⟩
    · intro k' e
      by_cases hkk : k' = k
      · subst hkk; exact h2
      · simp only [upd, hkk, if_false] at e; exact hp.doneClosed k' e
    · intro k' e
      by_cases hkk : k' = k
      · subst hkk; exact h1
      · simp only [upd, hkk, if_false] at e; exact hp.doneEmpty k' e

theorem fork_prog_reach (input : List α) (n cap : Nat) (hn : 1 ≤ n) (s : FS α) (h : Reach n cap (initFS input) s) : ForkProg n s := by
  induction h with
  | init => exact fork_prog_init input n
  | step _ hs ih => exact fork_prog_step n cap hn _ _ ih hs

/-- the final state: the helper is at `group.Done()`, every output is closed and drained and every
    reader has seen ok=false -/
def ForkFinal (n : Nat) (s : FS α) : Prop :=
  s.h = .done ∧ ∀ k, k < n → s.oclosed k = true ∧ s.buf k = [] ∧ s.readerDone k = true

/-- **nobody waits for ever**: a reachable state is final or some step is enabled -/
theorem C06_fork_no_deadlock (input : List α) (n cap : Nat) (hn : 1 ≤ n) (hcap : 1 ≤ cap) (s : FS α)
    (hr : Reach n cap (initFS input) s) : ForkFinal n s ∨ ∃ t, Step n cap s t := by
  have inv := C06_fork_prefix_inv input n cap s hr
  have hp := fork_prog_reach input n cap hn s hr
  -- a reader that can move, or the output is not what blocks
  have reader : ∀ k, k < n → s.readerDone k = false → (s.buf k ≠ [] ∨ s.oclosed k = true) → ∃ t, Step n cap s t := by
    intro k hk hd hb
    cases hbk : s.buf k with
    | nil =>
      rcases hb with hb | hb
      · exact absurd hbk hb
      · exact ⟨_, Step.readClosed s k hk hbk hb hd⟩
    | cons v b => exact ⟨_, Step.read s k v b hk hbk hd⟩
  cases hh : s.h with
  | recv =>
    right
    cases hq : s.inq with
    | cons v q => exact ⟨_, Step.hRecv s v q hh hq⟩
    | nil =>
      cases hc : s.inClosed with
      | true => exact ⟨_, Step.hRecvClosed s hh hq hc⟩
      | false =>
        cases hrest : s.rest with
        | nil => exact ⟨_, Step.feedClose s hrest hc⟩
        | cons v r => exact ⟨_, Step.feed s v r hrest (by rw [hq]; simp; omega) hc⟩
  | send v k =>
    right
    have hk := hp.sendLt v k hh
    have hnc : s.oclosed k = false := by
      cases hc : s.oclosed k with
      | false => rfl
      | true =>
        rcases inv.noLate k hc with ⟨j, hj, _⟩ | hd
        · rw [hh] at hj; cases hj
        · rw [hh] at hd; cases hd
    by_cases hfull : (s.buf k).length < cap
    · exact ⟨_, Step.hSend s v k hh hk hfull hnc⟩
    · have hne : s.buf k ≠ [] := by intro e; rw [e] at hfull; simp at hfull; omega
      have hnd : s.readerDone k = false := by
        cases hd : s.readerDone k with
        | false => rfl
        | true => have := hp.doneClosed k hd; rw [hnc] at this; cases this
      exact reader k hk hnd (Or.inl hne)
  | close k => exact Or.inr ⟨_, Step.hClose s k hh (hp.closeLt k hh)⟩
  | done =>
    by_cases hall : ∀ k, k < n → s.buf k = [] ∧ s.readerDone k = true
    · exact Or.inl ⟨hh, fun k hk => ⟨hp.closedAll hh k hk, (hall k hk).1, (hall k hk).2⟩⟩
    · right
      have : ∃ k, k < n ∧ ¬ (s.buf k = [] ∧ s.readerDone k = true) := by
        apply Classical.byContradiction
        intro hne
        apply hall
        intro k hk
        apply Classical.byContradiction
        intro hnk
        exact hne ⟨k, hk, hnk⟩
      obtain ⟨k, hk, hnk⟩ := this
      have hcl := hp.closedAll hh k hk
      cases hd : s.readerDone k with
      | false => exact reader k hk hd (Or.inr hcl)
      | true => exact absurd ⟨hp.doneEmpty k hd, hd⟩ hnk

theorem reach_of_run (n cap : Nat) (s0 : FS α) : ∀ (m : Nat) (s u : FS α), Reach n cap s0 s → Run n cap s m u → Reach n cap s0 u
  | 0, s, u, hr, h => by cases h; exact hr
  | m+1, s, u, hr, h => by
    cases h with
    | succ hs hrun => exact reach_of_run n cap s0 m _ u (Reach.step hr hs) hrun

theorem sumTo_const (n c : Nat) : sumTo n (fun _ => c) = n * c := by
  induction n with
  | zero => simp [sumTo]
  | succ n ih => rw [sumTo_succ, ih]; simp [Nat.add_mul]

/-- the work of a whole Fork run: 2n+2 steps per value (feed, receive, n sends, n reads) plus 2n+2
    for closing down (close the input, notice it, n closes, n final reads) -/
theorem forkPot_init (input : List α) (n : Nat) : forkPot n (initFS input) = (2 * n + 2) * input.length + (2 * n + 2) := by
  simp only [forkPot, initFS, hpot, List.length_nil, Bool.false_eq_true, if_false]
  rw [sumTo_const, sumTo_const]; omega

/-- **Fork terminates** — for every input, fan-out ≥ 1, capacity ≥ 1 and every interleaving:
    (1) no run from the initial state is longer than (2n+2)·(|input|+1) steps;
    (2) a run that cannot be extended has reached the final state – the helper goroutine is at
        `group.Done()` (the caller's wait group returns), every output queue is closed and drained,
        every reader has seen ok=false – and every reader has read exactly the input, in order. -/
theorem C06_fork_terminates (input : List α) (n cap : Nat) (hn : 1 ≤ n) (hcap : 1 ≤ cap) (m : Nat) (u : FS α)
    (hrun : Run n cap (initFS input) m u) :
    m ≤ (2 * n + 2) * input.length + (2 * n + 2) ∧
    ((¬ ∃ t, Step n cap u t) → ForkFinal n u ∧ ∀ k, k < n → u.reads k = input) := by
  refine ⟨?_, fun hstuck => ?_⟩
  · have := C06_fork_run_bounded n cap m _ u hrun
    rw [forkPot_init] at this; omega
  · have hr := reach_of_run n cap (initFS input) m _ u Reach.init hrun
    rcases C06_fork_no_deadlock input n cap hn hcap u hr with hf | hstep
    · exact ⟨hf, C06_fork_final input n cap u hr hf.1 (fun k hk => (hf.2 k hk).2.1)⟩
    · exact absurd hstep hstuck

/-- the premises are satisfiable and the bound is tight enough to be meaningful: the empty stream
    with one output takes exactly four steps (close the input, notice it, close the output, final read) -/
example : ∃ u : FS Nat, Run 1 1 (initFS []) 4 u ∧ ForkFinal 1 u := by
  refine ⟨_, Run.succ (Step.feedClose _ rfl rfl) (Run.succ (Step.hRecvClosed _ rfl rfl rfl)
    (Run.succ (Step.hClose _ 0 rfl (by decide)) (Run.succ (Step.readClosed _ 0 (by decide) rfl (by simp [upd]) rfl) (Run.zero _)))), ?_⟩
  refine ⟨by simp, fun k hk => ?_⟩
  have : k = 0 := by omega
  subst this
  simp [upd, initFS]

end CM
