/-
  C09 — Sorting yields an ordered permutation for every ranker.
-/
import CollectionModel.Lemmas.SorterLemmas
namespace CM
open CM.Sorter

variable {α : Type}

/-! ### rankers with internal state (random, call-counting, inconsistent) -/

theorem mergeM_perm {σ : Type} (rank : σ → α → α → Rank × σ) :
    ∀ st l r, (mergeM rank st l r).1.Perm (l ++ r)
  | st, [], r => by simp [mergeM]
  | st, a :: l, [] => by simp [mergeM]
  | st, a :: l, b :: r => by
    simp only [mergeM]
    split
    · exact (mergeM_perm rank _ l (b :: r)).cons a
    · have h := (mergeM_perm rank (rank st a b).2 (a :: l) r).cons b
      refine h.trans ?_
      simpa using (List.perm_middle (a := b) (l₁ := a :: l) (l₂ := r)).symm

theorem mergePassM_perm {σ : Type} (rank : σ → α → α → Rank × σ) (w : Nat) :
    ∀ f st xs, (mergePassM rank w f st xs).1.Perm xs
  | 0, st, xs => by simp [mergePassM]
  | f+1, st, [] => by simp [mergePassM]
  | f+1, st, x :: xs => by
    simp only [mergePassM]
    have h1 := mergeM_perm rank st ((x :: xs).take w) (((x :: xs).drop w).take w)
    have h2 := mergePassM_perm rank w f
      (mergeM rank st ((x :: xs).take w) (((x :: xs).drop w).take w)).2 ((x :: xs).drop (2*w))
    have h3 : (x :: xs) = (x :: xs).take w ++ (((x :: xs).drop w).take w ++ (x :: xs).drop (2*w)) := by
      have : (x :: xs).drop (2*w) = ((x :: xs).drop w).drop w := by
        rw [List.drop_drop]; congr 1; omega
      rw [this, List.take_append_drop, List.take_append_drop]
    conv => rhs; rw [h3]
    rw [← List.append_assoc]
    exact h1.append h2

theorem sortLoopM_perm {σ : Type} (rank : σ → α → α → Rank × σ) :
    ∀ f w st xs, (sortLoopM rank f w st xs).1.Perm xs
  | 0, _, st, xs => by simp [sortLoopM]
  | f+1, w, st, xs => by
    simp only [sortLoopM]
    split
    · exact (sortLoopM_perm rank f (2*w) _ _).trans (mergePassM_perm rank w _ st xs)
    · exact List.Perm.refl _

/-- **for every ranking function – stateful, random or inconsistent – SortValues
    leaves a permutation of the input** (the model is a total function, so the
    call also terminates; see `C09_fuel_irrelevant` for the doubling loop) -/
theorem C09_sort_perm_any_ranker {σ : Type} (rank : σ → α → α → Rank × σ) (st : σ) (xs : List α) :
    (sortValuesM rank st xs).1.Perm xs :=
  sortLoopM_perm rank _ _ _ _

/-- the same for a pure ranker (the model the driver runs) -/
theorem C09_sort_perm (rank : α → α → Rank) (xs : List α) : (sortValues rank xs).Perm xs :=
  sortValues_perm rank xs

/-- **when the ranker is a total preorder the result is ascending**: no earlier
    value ranks Greater than a later one (in particular no adjacent pair) -/
theorem C09_sort_ascending (rank : α → α → Rank) (hr : TotalPreorder rank) (xs : List α) :
    (sortValues rank xs).Pairwise (fun a b => rank a b ≠ .gt) :=
  sortValues_asc rank hr xs

/-- the doubling loop stops because the width reached the length, not because the
    model's fuel ran out: more fuel changes nothing -/
theorem C09_fuel_irrelevant (rank : α → α → Rank) :
    ∀ f w (xs : List α), 0 < w → xs.length ≤ w * 2^f → sortLoop rank (f+1) w xs = sortLoop rank f w xs
  | 0, w, xs, _, h => by
    have : ¬ w < xs.length := by simp at h; omega
    simp [sortLoop, this]
  | f+1, w, xs, hw, h => by
    have e1 : sortLoop rank (f+1+1) w xs =
        if w < xs.length then sortLoop rank (f+1) (2*w) (mergePass rank w xs.length xs) else xs := rfl
    have e2 : sortLoop rank (f+1) w xs =
        if w < xs.length then sortLoop rank f (2*w) (mergePass rank w xs.length xs) else xs := rfl
    rw [e1, e2]
    split
    · apply C09_fuel_irrelevant rank f (2*w) _ (by omega)
      rw [mergePass_length, Nat.pow_succ] at *
      calc xs.length ≤ w * (2^f * 2) := h
        _ = 2*w*2^f := by rw [Nat.mul_comm (2^f) 2, ← Nat.mul_assoc, Nat.mul_comm w 2]
    · rfl

/-- **ReverseValues reverses exactly** -/
theorem C09_reverse [Inhabited α] (l : List α) : reverseValues l = l.reverse := reverseValues_eq l

/-- **applying ReverseValues twice is the identity** -/
theorem C09_reverse_involutive [Inhabited α] (l : List α) : reverseValues (reverseValues l) = l := by
  rw [reverseValues_eq, reverseValues_eq, List.reverse_reverse]

/-- **ShuffleValues yields a permutation** (random indices in `[0,size)`, one per position) -/
theorem C09_shuffle_perm [Inhabited α] (rs : List Nat) (l : List α)
    (h1 : rs.length ≤ l.length) (h2 : ∀ r ∈ rs, r < l.length) : (shuffleValues rs l).Perm l :=
  shuffleLoop_perm rs 0 l (by simpa using h1) h2

/-- **the Sort methods of Array, List and Catalog have the same effect as the
    sorter on the equivalent Go array** (the `size > 1` guard only skips inputs
    on which the sorter is the identity) -/
theorem C09_collection_sort_delegates (rank : α → α → Rank) (l : List α) :
    arraySort rank l = sortValues rank l := by
  unfold arraySort
  split
  · rfl
  · match l with
    | [] => simp [sortValues, sortLoop]
    | [a] => simp [sortValues, sortLoop]
    | _ :: _ :: _ => simp at *

/-- non-vacuity: `rankInt` is a total preorder and an inconsistent ranker is still permuted -/
example : TotalPreorder rankInt := rankInt_total
example : sortValues rankInt [5, 3, 9, 1, 1, 8] = [1, 1, 3, 5, 8, 9] := by
  simp [sortValues, sortLoop, mergePass, merge, rankInt]
example : (sortValues (fun (_ _ : Int) => Rank.lt) [5, 3, 9, 1]).length = 4 := by
  simp [sortValues, sortLoop, mergePass, merge]

end CM
