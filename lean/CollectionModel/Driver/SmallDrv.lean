/- drivers for Stack (C13) and Iterator (C17) lines -/
import Driver.SeqDrv
import CollectionModel.Model.Stack
import CollectionModel.Model.Iterator
open Lean CM

namespace Drv

def parseStackOp (j : Json) : Option (Stack.Op Int) :=
  let a0 := (ints j "a").getD 0 0
  match str j "op" with
  | "make" => some .make
  | "makeWithCapacity" => some (.makeWithCapacity a0.toNat)
  | "makeFrom" => some (.makeFrom (ints j "vs"))
  | "addValue" => some (.addValue a0)
  | "removeTop" => some .removeTop
  | "removeAll" => some .removeAll
  | "asArray" => some .asArray
  | "iterate" => some .iterate
  | "getSize" => some .getSize
  | "getCapacity" => some .getCapacity
  | "isEmpty" => some .isEmpty
  | _ => none

def stackObs (j : Json) : Stack.Obs Int :=
  let st : Stack.St Int := { cap := nat j "pcap", vals := ints j "post" }
  match str j "out" with
  | "ret" => .ret st (parseRes (fld j "res"))
  | "panic" => .panic st (parsePanic (str j "pc"))
  | _ => .hang

def stackObsStr : Stack.Obs Int → String
  | .ret s r => s!"ret cap={s.cap} {s.vals} {resStr r}"
  | .panic s c => s!"panic cap={s.cap} {s.vals} {c.toString}"
  | .hang => "hang"

def stackAgree (m i : Stack.Obs Int) : Bool :=
  match m, i with
  | .ret s r, .ret s' r' => s == s' && r == r'
  | .panic s c, .panic s' c' => s == s' && ((c == .rt) == (c' == .rt))
  | .hang, .hang => true
  | _, _ => false

def stackLine (j : Json) : String :=
  match parseStackOp j with
  | none => verdict false true "bad-op" ""
  | some op =>
    let pre : Stack.St Int := { cap := nat j "cap", vals := ints j "pre" }
    let impl := stackObs j
    let m := Stack.step (nat j "dflt") pre op
    verdict (stackAgree m impl) (Stack.allowed pre op impl) s!"C13/{str j "op"}" (stackObsStr m)

def parseIterOp (j : Json) : Option Iter.Op :=
  match str j "op" with
  | "getNext" => some .getNext | "getPrevious" => some .getPrevious
  | "hasNext" => some .hasNext | "hasPrevious" => some .hasPrevious
  | "toStart" => some .toStart | "toEnd" => some .toEnd
  | "toSlot" => some (.toSlot ((ints j "a").getD 0 0))
  | "getSlot" => some .getSlot | "getSize" => some .getSize | "isEmpty" => some .isEmpty
  | _ => none

def iterRes (j : Json) : Iter.Res Int :=
  if has j "v" then .val (int j "v")
  else if has j "n" then .int (int j "n")
  else if has j "b" then .bool (bool j "b")
  else .unit

def iterResStr : Iter.Res Int → String
  | .unit => "-" | .val a => s!"v{a}" | .int n => s!"n{n}" | .bool b => s!"b{b}"

def iterLine (j : Json) : String :=
  match parseIterOp j with
  | none => verdict false true "bad-op" ""
  | some op =>
    let pre : Iter.St Int := { values := ints j "vals", slot := int j "slot" }
    if str j "out" != "ret" then verdict false false s!"C17/{str j "op"}/panic" "" else
    let impl : Iter.St Int × Iter.Res Int := ({ values := ints j "vals", slot := int j "pslot" }, iterRes (fld j "res"))
    let m := Iter.step pre op
    verdict (m == impl) (Iter.allowed pre op impl) s!"C17/{str j "op"}" s!"slot={m.1.slot} {iterResStr m.2}"

end Drv
