// T3L — methods with loops, slices and calls on other objects, translated statement by
// statement into Lean definitions (Generated/Loops*.lean).
//
// Subset: int / uint / bool / element (type parameter) / []element locals; `var`, `=`,
// `:=`, `++`, `--`, parallel assignment; `if`/`else if`/`else`; expression-less and tagged
// `switch` (no fallthrough); `for cond`, three-clause `for`, `continue`; `return`; `panic`;
// `len`, `copy`, `make`, slice indexing and re-slicing; calls listed in the target's
// binding table (anything else makes the translator refuse).
//
// Semantics emitted (Model/GoSem.lean): `int` arithmetic wraps at 64 bits (`w64`), `uint`
// arithmetic modulo 2^64 (`u64`), `/` truncates (`Int.tdiv`, literal non-zero divisor only),
// slices are windows (array id, offset, length, capacity) on a memory of arrays, every index
// and re-slice is bounds-checked (Go runtime error otherwise), `copy` is a memmove, `make`
// allocates a zero-filled array.  A loop becomes a recursive definition over a fuel argument
// (`none` = fuel exhausted); the tie theorems show the driver's fuel is enough.
package main

import (
	"fmt"
	"go/ast"
	"go/token"
	"go/types"
	"strings"
)

type callSpec struct {
	postVar  string // the variable the post line declares (same placeholders), and its Lean type
	postType string
	post string   // an extra line after the call: %v = the value of the call, %1 ... = arguments, %l = the declared name
	kind string   // "pure" | "let" | "except" | "opt"
	tmpl string   // Lean text; %r receiver expression, %1 %2 ... arguments
	sets []string // names bound by the result ("_" = the value of the call expression)
}

type ltarget struct {
	file, pkg, recv, name, lean string
	params  string              // Lean binders for externals and receiver state (before the Go parameters)
	args    string              // the same names, as passed on in recursive calls
	state   []string            // state variables returned after the result(s)
	calls   map[string]callSpec // normalised callee -> binding
	fields  map[string]string   // receiver field -> Lean variable
	retFlds []string            // fields of a returned composite literal that make up the result
	resTy   string              // overrides the result types derived from the Go signature (";"-separated)
	slices  string              // Lean type of []V and Sequential[V] values: "Slice" (memory model) or "List α"
	doc     string
}

type lvar struct{ name, ty string }

type ltr struct {
	pending []lvar  // variables declared by post lines, to be added to the scope by the enclosing statement
	lhs    []string // names on the left of a multi-value assignment from one call
	tg     *ltarget
	info   *types.Info
	recv   string
	fn     string
	tmp    int
	nloop  int
	defs   []string // loop definitions, innermost first
	gparam []lvar   // Go parameters
	// per-emission context
	loop *loopCtx
}

type loopCtx struct {
	name  string
	vars  []lvar
	post  ast.Stmt
	modeB bool
}

func (t *ltr) fail(n ast.Node, what string) {
	die("%s: cannot translate %s at %s", t.fn, what, fset.Position(n.Pos()))
}

func (t *ltr) fresh() string { t.tmp++; return fmt.Sprintf("t%d", t.tmp) }

func (t *ltr) leanType(ty types.Type, n ast.Node) string {
	switch u := ty.(type) {
	case *types.Basic:
		switch u.Kind() {
		case types.Int, types.Uint, types.UntypedInt:
			return "Int"
		case types.Bool, types.UntypedBool:
			return "Bool"
		}
	case *types.TypeParam:
		return "α"
	case *types.Slice:
		if _, ok := u.Elem().(*types.TypeParam); ok {
			return t.tg.slices
		}
	case *types.Named:
		if sl, ok := u.Underlying().(*types.Slice); ok {
			if _, ok := sl.Elem().(*types.TypeParam); ok {
				return t.tg.slices // array_[V]
			}
		}
		switch u.Obj().Name() {
		case "Rank":
			return "Rank"
		case "Sequential", "ListLike", "ArrayLike", "SetLike":
			return "List α" // an iterator is what it still has to deliver
		case "IteratorLike":
			if t.tg.slices == "Slice" {
				return "Slice"
			}
			return "List α"
		case "ArrayClassLike", "ListClassLike", "CollatorLike":
			return "Unit"
		}
	case *types.Alias:
		return t.leanType(types.Unalias(ty), n)
	}
	t.fail(n, "type "+ty.String())
	return ""
}

func (t *ltr) zero(ty types.Type, n ast.Node) string {
	switch t.leanType(ty, n) {
	case "Int":
		return "(0 : Int)"
	case "Bool":
		return "false"
	case "α":
		return "(default : α)"
	}
	t.fail(n, "zero value of "+ty.String())
	return ""
}

func isUint(ty types.Type) bool {
	b, ok := ty.Underlying().(*types.Basic)
	return ok && b.Kind() == types.Uint
}

// callee normalises the function part of a call
func (t *ltr) callee(call *ast.CallExpr) (key string, recvExpr ast.Expr) {
	switch f := call.Fun.(type) {
	case *ast.Ident:
		return f.Name, nil
	case *ast.IndexExpr:
		if id, ok := f.X.(*ast.Ident); ok {
			return id.Name + "[]", nil
		}
	case *ast.SelectorExpr:
		// chain rooted at the receiver?
		var parts []string
		var e ast.Expr = f
		for {
			if s, ok := e.(*ast.SelectorExpr); ok {
				parts = append([]string{s.Sel.Name}, parts...)
				e = s.X
				continue
			}
			break
		}
		if id, ok := e.(*ast.Ident); ok && id.Name == t.recv && t.recv != "" {
			return "$." + strings.Join(parts, "."), nil
		}
		// method on some other value: keyed by the static type of the receiver expression
		return typeName(t.info.TypeOf(f.X)) + "." + f.Sel.Name, f.X
	}
	return "", nil
}

type emitter struct {
	b      strings.Builder
	indent string
}

func (e *emitter) line(s string) { e.b.WriteString(e.indent + s + "\n") }

// expr translates an expression; effectful sub-expressions are bound to temporaries by lines
// written to em first (Go evaluates operands left to right)
func (t *ltr) expr(x ast.Expr, em *emitter) string {
	switch e := x.(type) {
	case *ast.BasicLit:
		if e.Kind == token.INT {
			return "(" + e.Value + " : Int)"
		}
	case *ast.Ident:
		switch e.Name {
		case "true", "false":
			return e.Name
		case "LesserRank":
			return "Rank.lt"
		case "EqualRank":
			return "Rank.eq"
		case "GreaterRank":
			return "Rank.gt"
		}
		return e.Name
	case *ast.ParenExpr:
		return "(" + t.expr(e.X, em) + ")"
	case *ast.UnaryExpr:
		switch e.Op {
		case token.SUB:
			return "(w64 (-" + t.expr(e.X, em) + "))"
		case token.NOT:
			return "(!" + t.expr(e.X, em) + ")"
		}
	case *ast.BinaryExpr:
		if e.Op == token.LAND || e.Op == token.LOR {
			// short-circuit: the right operand must be free of effects
			l := t.expr(e.X, em)
			sub := &emitter{}
			r := t.expr(e.Y, sub)
			if sub.b.Len() > 0 {
				t.fail(e, "effectful right operand of && / ||")
			}
			op := "&&"
			if e.Op == token.LOR {
				op = "||"
			}
			return "(" + l + " " + op + " " + r + ")"
		}
		l := t.expr(e.X, em)
		r := t.expr(e.Y, em)
		wrap := "w64"
		if isUint(t.info.TypeOf(e)) {
			wrap = "u64"
		}
		switch e.Op {
		case token.ADD:
			return "(" + wrap + " (" + l + " + " + r + "))"
		case token.SUB:
			return "(" + wrap + " (" + l + " - " + r + "))"
		case token.MUL:
			return "(" + wrap + " (" + l + " * " + r + "))"
		case token.QUO:
			if lit, ok := e.Y.(*ast.BasicLit); !ok || lit.Kind != token.INT || lit.Value == "0" {
				t.fail(e, "division by a non-literal")
			}
			return "(Int.tdiv " + l + " " + r + ")"
		case token.EQL:
			return "(" + l + " == " + r + ")"
		case token.NEQ:
			return "(" + l + " != " + r + ")"
		case token.LSS:
			return "(decide (" + l + " < " + r + "))"
		case token.GTR:
			return "(decide (" + l + " > " + r + "))"
		case token.LEQ:
			return "(decide (" + l + " ≤ " + r + "))"
		case token.GEQ:
			return "(decide (" + l + " ≥ " + r + "))"
		}
	case *ast.SelectorExpr:
		if id, ok := e.X.(*ast.Ident); ok {
			if id.Name == t.recv {
				if lv, ok := t.tg.fields[e.Sel.Name]; ok {
					return lv
				}
			}
			if id.Name == "age" {
				return t.expr(e.Sel, em)
			}
		}
	case *ast.IndexExpr:
		if t.tg.slices == "Slice" {
			s := t.expr(e.X, em)
			i := t.expr(e.Index, em)
			v := t.fresh()
			em.line("bindE (Mem.read mem " + s + " " + i + ") fun " + v + " =>")
			return v
		}
	case *ast.SliceExpr:
		if t.tg.slices == "Slice" && !e.Slice3 {
			s := t.expr(e.X, em)
			lo, hi := "(0 : Int)", "("+s+".len : Int)"
			if e.Low != nil {
				lo = t.expr(e.Low, em)
			}
			if e.High != nil {
				hi = t.expr(e.High, em)
			}
			v := t.fresh()
			em.line("bindE (Slice.sub " + s + " " + lo + " " + hi + ") fun " + v + " =>")
			return v
		}
	case *ast.CallExpr:
		return t.call(e, em, true)
	}
	t.fail(x, fmt.Sprintf("expression %T", x))
	return ""
}

// call translates a call; wantValue says whether the value of the call expression is used
func (t *ltr) call(e *ast.CallExpr, em *emitter, wantValue bool) string {
	// conversions and builtins
	if id, ok := e.Fun.(*ast.Ident); ok {
		if tv, ok := t.info.Types[e.Fun]; ok && tv.IsType() && len(e.Args) == 1 {
			switch id.Name {
			case "uint":
				return "(u64 " + t.expr(e.Args[0], em) + ")"
			case "int":
				return "(w64 " + t.expr(e.Args[0], em) + ")"
			}
		}
		switch id.Name {
		case "len":
			if len(e.Args) == 1 {
				s := t.expr(e.Args[0], em)
				if t.tg.slices == "Slice" {
					return "(" + s + ".len : Int)"
				}
				return "(" + s + ".length : Int)"
			}
		case "copy":
			if len(e.Args) == 2 && t.tg.slices == "Slice" && !wantValue {
				d := t.expr(e.Args[0], em)
				s := t.expr(e.Args[1], em)
				em.line("let mem := Mem.copy mem " + d + " " + s)
				return ""
			}
		case "make":
			if len(e.Args) == 2 && t.tg.slices == "Slice" {
				if _, ok := t.info.TypeOf(e.Args[0]).(*types.Slice); ok {
					n := t.expr(e.Args[1], em)
					v := t.fresh()
					em.line("bindE (Mem.make mem " + n + ") fun (mem, " + v + ") =>")
					return v
				}
			}
		}
	}
	if tv, ok := t.info.Types[e.Fun]; ok && tv.IsType() && len(e.Args) == 1 {
		if _, isSlice := tv.Type.Underlying().(*types.Slice); isSlice {
			return t.expr(e.Args[0], em) // array_[V](x): the same slice under another name
		}
	}
	key, rx := t.callee(e)
	cs, ok := t.tg.calls[key]
	if !ok {
		t.fail(e, "call of "+key+" (no binding)")
	}
	text := cs.tmpl
	rtext := ""
	wantsR := strings.Contains(text, "%r")
	for _, st := range cs.sets {
		wantsR = wantsR || st == "%r"
	}
	if wantsR {
		if rx == nil {
			t.fail(e, "binding wants a receiver")
		}
		rtext = t.expr(rx, em)
		text = strings.ReplaceAll(text, "%r", rtext)
	}
	argText := make([]string, len(e.Args))
	for i, a := range e.Args {
		if strings.Contains(text, fmt.Sprintf("%%%d", i+1)) || strings.Contains(cs.post, fmt.Sprintf("%%%d", i+1)) {
			argText[i] = t.expr(a, em) // in source order: Go evaluates operands left to right
		}
	}
	for i := len(e.Args); i >= 1; i-- {
		text = strings.ReplaceAll(text, fmt.Sprintf("%%%d", i), argText[i-1])
	}
	emitPost := func(val string) {
		if cs.post == "" {
			return
		}
		p := strings.ReplaceAll(cs.post, "%v", val)
		if strings.Contains(p, "%l") {
			if len(t.lhs) != 1 {
				t.fail(e, "binding wants a declared name")
			}
			p = strings.ReplaceAll(p, "%l", t.lhs[0])
		}
		for i := len(e.Args); i >= 1; i-- {
			p = strings.ReplaceAll(p, fmt.Sprintf("%%%d", i), argText[i-1])
		}
		em.line(p)
		if cs.postVar != "" {
			v := strings.ReplaceAll(cs.postVar, "%v", val)
			if len(t.lhs) == 1 {
				v = strings.ReplaceAll(v, "%l", t.lhs[0])
			}
			t.pending = append(t.pending, lvar{v, cs.postType})
		}
	}
	if cs.kind == "pure" {
		emitPost(text)
		return text
	}
	val := ""
	var names []string
	for _, s := range cs.sets {
		if s == "_" {
			val = t.fresh()
			names = append(names, val)
		} else if strings.HasPrefix(s, "$") {
			k := int(s[1] - '1')
			if k < 0 || k >= len(t.lhs) {
				t.fail(e, "binding wants more names on the left")
			}
			if t.lhs[k] == "_" {
				names = append(names, t.fresh())
			} else {
				names = append(names, t.lhs[k])
			}
		} else if s == "%r" {
			if _, ok := rx.(*ast.Ident); !ok {
				t.fail(e, "binding updates a receiver that is not a variable")
			}
			names = append(names, rtext)
		} else {
			names = append(names, s)
		}
	}
	pat := strings.Join(names, ", ")
	if len(names) > 1 {
		pat = "(" + pat + ")"
	}
	switch cs.kind {
	case "let":
		em.line("let " + pat + " := " + text)
	case "except":
		em.line("bindE (" + text + ") fun " + pat + " =>")
	case "opt":
		em.line("bindO (" + text + ") fun " + pat + " =>")
	default:
		t.fail(e, "binding kind "+cs.kind)
	}
	if wantValue && val == "" {
		t.fail(e, "call of "+key+" has no value")
	}
	emitPost(val)
	return val
}

func (t *ltr) panicClass(call *ast.CallExpr) string {
	c := panicClassOf(call)
	if c != ".lib" {
		return c
	}
	msg := ""
	ast.Inspect(call, func(n ast.Node) bool {
		if l, ok := n.(*ast.BasicLit); ok && l.Kind == token.STRING && msg == "" {
			msg = strings.Trim(l.Value, "\"`")
		}
		return true
	})
	switch {
	case strings.HasPrefix(msg, "Attempted to add a value onto a stack"):
		return ".stackFull"
	case strings.HasPrefix(msg, "Attempted to remove the top of an empty stack"):
		return ".stackEmpty"
	case strings.HasPrefix(msg, "A stack must have a capacity"):
		return ".capacity"
	case strings.HasPrefix(msg, "The specified slot is outside"):
		return ".slot"
	}
	return ".lib"
}

// result text for a normal return
func (t *ltr) done(results []string) string {
	all := append(append([]string{}, results...), t.tg.state...)
	switch len(all) {
	case 0:
		return "some (.ok ())"
	case 1:
		return "some (.ok " + all[0] + ")"
	}
	return "some (.ok (" + strings.Join(all, ", ") + "))"
}

func (t *ltr) tuple(vars []lvar) string {
	var n []string
	for _, v := range vars {
		n = append(n, v.name)
	}
	n = append(n, t.tg.state...)
	if len(n) == 1 {
		return n[0]
	}
	return "(" + strings.Join(n, ", ") + ")"
}

// onlyPureAssigns: the body consists of plain assignments to identifiers with effect-free
// right-hand sides (such an `if` without `else` becomes conditional lets instead of a
// duplicated continuation)
func (t *ltr) onlyPureAssigns(list []ast.Stmt) bool {
	for _, s := range list {
		a, ok := s.(*ast.AssignStmt)
		if !ok || a.Tok != token.ASSIGN || len(a.Lhs) != 1 {
			return false
		}
		if _, ok := a.Lhs[0].(*ast.Ident); !ok {
			return false
		}
		sub := &emitter{}
		t.expr(a.Rhs[0], sub)
		if sub.b.Len() > 0 {
			return false
		}
	}
	return len(list) > 0
}

// stmts emits `list` followed by the continuation `k` (a closure that emits what comes after)
func (t *ltr) stmts(list []ast.Stmt, scope []lvar, em *emitter, k func(scope []lvar, em *emitter)) {
	if len(list) == 0 {
		k(scope, em)
		return
	}
	s, tail := list[0], list[1:]
	next := func(sc []lvar, em *emitter) {
		for _, pv := range t.pending {
			dup := false
			for _, v := range sc {
				dup = dup || v.name == pv.name
			}
			if !dup {
				sc = append(sc[:len(sc):len(sc)], pv)
			}
		}
		t.pending = nil
		t.stmts(tail, sc, em, k)
	}
	declare := func(name string, ty types.Type, n ast.Node) {
		for _, v := range scope {
			if v.name == name {
				return
			}
		}
		scope = append(scope[:len(scope):len(scope)], lvar{name, t.leanType(ty, n)})
	}
	switch x := s.(type) {
	case *ast.DeclStmt:
		gd := x.Decl.(*ast.GenDecl)
		for _, sp := range gd.Specs {
			vs, ok := sp.(*ast.ValueSpec)
			if !ok {
				t.fail(s, "declaration")
			}
			if len(vs.Names) > 1 && len(vs.Values) == 1 {
				call, ok := vs.Values[0].(*ast.CallExpr)
				if !ok {
					t.fail(s, "multi-value declaration")
				}
				t.lhs = nil
				for _, n := range vs.Names {
					t.lhs = append(t.lhs, n.Name)
				}
				t.call(call, em, false)
				t.lhs = nil
				for _, n := range vs.Names {
					if n.Name != "_" {
						declare(n.Name, t.info.TypeOf(n), n)
					}
				}
				continue
			}
			for i, n := range vs.Names {
				ty := t.info.TypeOf(n)
				if len(vs.Values) > i {
					t.lhs = []string{n.Name}
					v := t.expr(vs.Values[i], em)
					t.lhs = nil
					em.line("let " + n.Name + " := " + v)
				} else if len(vs.Values) == 0 {
					em.line("let " + n.Name + " := " + t.zero(ty, n))
				} else {
					t.fail(s, "multi-value declaration")
				}
				declare(n.Name, ty, n)
			}
		}
		next(scope, em)
	case *ast.AssignStmt:
		if x.Tok == token.ADD_ASSIGN || x.Tok == token.SUB_ASSIGN || x.Tok == token.MUL_ASSIGN {
			id, ok := x.Lhs[0].(*ast.Ident)
			if !ok || len(x.Lhs) != 1 {
				t.fail(s, "operator assignment target")
			}
			wrap := "w64"
			if isUint(t.info.TypeOf(id)) {
				wrap = "u64"
			}
			op := map[token.Token]string{token.ADD_ASSIGN: "+", token.SUB_ASSIGN: "-", token.MUL_ASSIGN: "*"}[x.Tok]
			em.line("let " + id.Name + " := (" + wrap + " (" + id.Name + " " + op + " " + t.expr(x.Rhs[0], em) + "))")
			next(scope, em)
			return
		}
		if x.Tok != token.ASSIGN && x.Tok != token.DEFINE {
			t.fail(s, "assignment operator")
		}
		if len(x.Lhs) != len(x.Rhs) {
			t.fail(s, "assignment arity")
		}
		// evaluate the right-hand sides first, then assign left to right
		vals := make([]string, len(x.Rhs))
		for i, r := range x.Rhs {
			vals[i] = t.expr(r, em)
		}
		if len(x.Lhs) > 1 {
			for i := range vals {
				v := t.fresh()
				em.line("let " + v + " := " + vals[i])
				vals[i] = v
			}
		}
		for i, l := range x.Lhs {
			switch lh := l.(type) {
			case *ast.Ident:
				em.line("let " + lh.Name + " := " + vals[i])
				if x.Tok == token.DEFINE {
					declare(lh.Name, t.info.TypeOf(lh), lh)
				}
			case *ast.IndexExpr:
				if t.tg.slices != "Slice" {
					t.fail(s, "indexed assignment")
				}
				sl := t.expr(lh.X, em)
				ix := t.expr(lh.Index, em)
				em.line("bindE (Mem.write mem " + sl + " " + ix + " " + vals[i] + ") fun mem =>")
			case *ast.SelectorExpr:
				id, ok := lh.X.(*ast.Ident)
				lv, ok2 := t.tg.fields[lh.Sel.Name]
				if !ok || id.Name != t.recv || !ok2 {
					t.fail(s, "assignment target")
				}
				em.line("let " + lv + " := " + vals[i])
			default:
				t.fail(s, "assignment target")
			}
		}
		next(scope, em)
	case *ast.IncDecStmt:
		id, ok := x.X.(*ast.Ident)
		if !ok {
			t.fail(s, "++/-- target")
		}
		wrap := "w64"
		if isUint(t.info.TypeOf(id)) {
			wrap = "u64"
		}
		op := "+"
		if x.Tok == token.DEC {
			op = "-"
		}
		em.line("let " + id.Name + " := (" + wrap + " (" + id.Name + " " + op + " (1 : Int)))")
		next(scope, em)
	case *ast.ExprStmt:
		call, ok := x.X.(*ast.CallExpr)
		if !ok {
			t.fail(s, "expression statement")
		}
		if id, ok := call.Fun.(*ast.Ident); ok && id.Name == "panic" {
			em.line("some (.error " + t.panicClass(call) + ")")
			return
		}
		t.call(call, em, false)
		next(scope, em)
	case *ast.IfStmt:
		if x.Init != nil {
			t.fail(s, "if with init")
		}
		cond := t.expr(x.Cond, em)
		if x.Else == nil && t.onlyPureAssigns(x.Body.List) {
			c := t.fresh()
			em.line("let " + c + " := " + cond)
			for _, st := range x.Body.List {
				a := st.(*ast.AssignStmt)
				n := a.Lhs[0].(*ast.Ident).Name
				em.line("let " + n + " := if " + c + " then " + t.expr(a.Rhs[0], em) + " else " + n)
			}
			next(scope, em)
			return
		}
		em.line("if " + cond + " then")
		in := &emitter{indent: em.indent + "  "}
		t.stmts(x.Body.List, scope, in, func(_ []lvar, e2 *emitter) { next(scope, e2) })
		em.b.WriteString(in.b.String())
		em.line("else")
		in = &emitter{indent: em.indent + "  "}
		switch el := x.Else.(type) {
		case nil:
			next(scope, in)
		case *ast.BlockStmt:
			t.stmts(el.List, scope, in, func(_ []lvar, e2 *emitter) { next(scope, e2) })
		case *ast.IfStmt:
			t.stmts([]ast.Stmt{el}, scope, in, func(_ []lvar, e2 *emitter) { next(scope, e2) })
		default:
			t.fail(s, "else form")
		}
		em.b.WriteString(in.b.String())
	case *ast.SwitchStmt:
		if x.Init != nil {
			t.fail(s, "switch with init")
		}
		tag := ""
		if x.Tag != nil {
			tag = t.fresh()
			em.line("let " + tag + " := " + t.expr(x.Tag, em))
		}
		var def []ast.Stmt
		hasDef := false
		cur := em
		var stack []*emitter
		for _, c := range x.Body.List {
			cc := c.(*ast.CaseClause)
			for _, st := range cc.Body {
				if b, ok := st.(*ast.BranchStmt); ok && b.Tok == token.FALLTHROUGH {
					t.fail(st, "fallthrough")
				}
			}
			if cc.List == nil {
				def, hasDef = cc.Body, true
				continue
			}
			if len(cc.List) != 1 {
				t.fail(cc, "case list")
			}
			sub := &emitter{}
			g := t.expr(cc.List[0], sub)
			if sub.b.Len() > 0 {
				t.fail(cc, "effectful case guard")
			}
			if tag != "" {
				g = "(" + tag + " == " + g + ")"
			}
			cur.line("if " + g + " then")
			in := &emitter{indent: cur.indent + "  "}
			t.stmts(cc.Body, scope, in, func(_ []lvar, e2 *emitter) { next(scope, e2) })
			cur.b.WriteString(in.b.String())
			cur.line("else")
			stack = append(stack, cur)
			cur = &emitter{indent: cur.indent + "  "}
		}
		_ = hasDef
		t.stmts(def, scope, cur, func(_ []lvar, e2 *emitter) { next(scope, e2) })
		for i := len(stack) - 1; i >= 0; i-- {
			stack[i].b.WriteString(cur.b.String())
			cur = stack[i]
		}
	case *ast.ReturnStmt:
		if t.loop != nil && t.loop.modeB {
			t.fail(s, "return inside a nested loop")
		}
		var res []string
		if len(x.Results) == 1 {
			if u, ok := x.Results[0].(*ast.UnaryExpr); ok && u.Op == token.AND {
				if cl, ok := u.X.(*ast.CompositeLit); ok {
					got := map[string]string{}
					for _, el := range cl.Elts {
						kv, ok := el.(*ast.KeyValueExpr)
						if !ok {
							t.fail(s, "composite literal element")
						}
						name := kv.Key.(*ast.Ident).Name
						want := false
						for _, f := range t.tg.retFlds {
							want = want || f == name
						}
						if want {
							got[name] = t.expr(kv.Value, em)
						}
					}
					for _, f := range t.tg.retFlds {
						v, ok := got[f]
						if !ok {
							t.fail(s, "returned literal lacks field "+f)
						}
						res = append(res, v)
					}
					em.line(t.done(res))
					return
				}
			}
		}
		for _, r := range x.Results {
			res = append(res, t.expr(r, em))
		}
		em.line(t.done(res))
	case *ast.ForStmt:
		t.forLoop(x, scope, em, next)
	case *ast.BranchStmt:
		if x.Tok != token.CONTINUE || x.Label != nil || t.loop == nil {
			t.fail(s, "branch statement")
		}
		t.loopAgain(scope, em)
	case *ast.BlockStmt:
		t.stmts(x.List, scope, em, func(_ []lvar, e2 *emitter) { next(scope, e2) })
	default:
		t.fail(s, fmt.Sprintf("statement %T", s))
	}
}

// loopAgain emits the post statement and the recursive call of the enclosing loop
func (t *ltr) loopAgain(scope []lvar, em *emitter) {
	lc := t.loop
	emit := func(_ []lvar, e2 *emitter) {
		var a []string
		for _, v := range lc.vars {
			a = append(a, v.name)
		}
		a = append(a, t.tg.state...)
		e2.line(lc.name + " " + t.fixedArgs() + "fuel " + strings.Join(a, " "))
	}
	if lc.post != nil {
		saved := t.loop
		t.loop = nil // the post statement itself contains no continue
		t.stmts([]ast.Stmt{lc.post}, scope, em, emit)
		t.loop = saved
		return
	}
	emit(scope, em)
}

func (t *ltr) fixedArgs() string {
	s := t.tg.args
	if s != "" {
		s += " "
	}
	for _, p := range t.gparam {
		s += p.name + " "
	}
	return s
}

func (t *ltr) fixedBinders() string {
	s := "{α : Type} [Inhabited α] " + t.tg.params
	for _, p := range t.gparam {
		s += " (" + p.name + " : " + p.ty + ")"
	}
	return s
}

func (t *ltr) stateTypes() []string {
	var r []string
	for _, s := range t.tg.state {
		switch s {
		case "mem":
			r = append(r, "Mem α")
		case "w":
			r = append(r, "σ")
		case "values_":
			r = append(r, "List α")
		default:
			die("%s: unknown state variable %s", t.fn, s)
		}
	}
	return r
}

func (t *ltr) forLoop(x *ast.ForStmt, scope []lvar, em *emitter, next func([]lvar, *emitter)) {
	if x.Cond == nil {
		t.fail(x, "for without condition")
	}
	outer := scope
	if x.Init != nil {
		// the init statement runs before the loop; its variables are loop-carried
		t.stmts([]ast.Stmt{x.Init}, scope, em, func(sc []lvar, e2 *emitter) { scope = sc })
	}
	t.nloop++
	nested := t.loop != nil
	lc := &loopCtx{name: fmt.Sprintf("%s_loop%d", t.tg.lean, t.nloop), vars: append([]lvar{}, scope...), post: x.Post, modeB: nested}
	// the loop definition
	var d emitter
	var tys []string
	for _, v := range lc.vars {
		tys = append(tys, v.ty)
	}
	tys = append(tys, t.stateTypes()...)
	resTy := "%RES%"
	if nested {
		resTy = strings.Join(tys, " × ")
		if len(tys) > 1 {
			resTy = "(" + resTy + ")"
		}
	}
	pat := ""
	under := ""
	for _, v := range lc.vars {
		pat += ", " + v.name
		under += ", _"
	}
	for _, s := range t.tg.state {
		pat += ", " + s
		under += ", _"
	}
	d.line(fmt.Sprintf("/-- the `for` loop at %s -/", fset.Position(x.Pos())))
	d.line("def " + lc.name + " " + t.fixedBinders() + " :")
	d.line("    Nat → " + strings.Join(tys, " → ") + " → Option (Except Panic " + resTy + ")")
	d.line("  | 0" + under + " => none")
	d.line("  | fuel+1" + pat + " =>")
	body := &emitter{indent: "    "}
	sub := &emitter{}
	cond := t.expr(x.Cond, sub)
	if sub.b.Len() > 0 {
		t.fail(x.Cond, "effectful loop condition")
	}
	body.line("if " + cond + " then")
	in := &emitter{indent: "      "}
	saved := t.loop
	t.loop = lc
	t.stmts(x.Body.List, scope, in, func(sc []lvar, e2 *emitter) { t.loopAgain(sc, e2) })
	t.loop = saved
	body.b.WriteString(in.b.String())
	body.line("else")
	in = &emitter{indent: "      "}
	if nested {
		in.line("some (.ok " + t.tuple(lc.vars) + ")")
	} else {
		// the statements after the loop are its exit continuation (variables declared by the
		// init clause go out of scope, which the continuation cannot observe)
		next(outer, in)
	}
	body.b.WriteString(in.b.String())
	d.b.WriteString(body.b.String())
	t.defs = append(t.defs, d.b.String())
	// the use
	var a []string
	for _, v := range lc.vars {
		a = append(a, v.name)
	}
	a = append(a, t.tg.state...)
	callText := lc.name + " " + t.fixedArgs() + "fuel " + strings.Join(a, " ")
	if nested {
		em.line("bindO (" + callText + ") fun " + t.tuple(lc.vars) + " =>")
		next(outer, em)
	} else {
		em.line(callText)
	}
}

func genLoops(file string, targets []*ltarget) string {
	var b strings.Builder
	b.WriteString("import CollectionModel.Model.GoSem\nimport CollectionModel.Model.Seq\n")
	b.WriteString(header("Methods with loops, slices and calls on other objects, translated statement by statement\n   (semantics: Model/GoSem.lean; `none` = fuel exhausted)."))
	b.WriteString("open CM.GoSem\nset_option linter.unusedVariables false\n\n")
	for _, tg := range targets {
		if tg.file != file {
			continue
		}
		p := pkgNamed("/" + tg.pkg)
		fd := findMethod(p, tg.recv, tg.name)
		if fd == nil {
			die("method %s.%s not found", tg.recv, tg.name)
		}
		t := &ltr{tg: tg, info: p.TypesInfo, fn: tg.recv + "." + tg.name}
		if len(fd.Recv.List[0].Names) > 0 {
			t.recv = fd.Recv.List[0].Names[0].Name
		}
		var scope []lvar
		assigned := map[string]bool{}
		ast.Inspect(fd.Body, func(n ast.Node) bool {
			switch a := n.(type) {
			case *ast.AssignStmt:
				for _, l := range a.Lhs {
					if id, ok := l.(*ast.Ident); ok {
						assigned[id.Name] = true
					}
				}
			case *ast.IncDecStmt:
				if id, ok := a.X.(*ast.Ident); ok {
					assigned[id.Name] = true
				}
			}
			return true
		})
		mainBinders := ""
		if fd.Type.Params != nil {
			for _, f := range fd.Type.Params.List {
				for _, n := range f.Names {
					v := lvar{n.Name, t.leanType(t.info.TypeOf(n), n)}
					mainBinders += " (" + v.name + " : " + v.ty + ")"
					if assigned[n.Name] {
						scope = append(scope, v) // a parameter that is assigned is a loop-carried local
					} else {
						t.gparam = append(t.gparam, v)
					}
				}
			}
		}
		for i, st := range tg.state {
			mainBinders += " (" + st + " : " + t.stateTypes()[i] + ")"
		}
		// result type
		var rtys []string
		if tg.resTy != "" {
			for _, f := range strings.Split(tg.resTy, ";") {
				rtys = append(rtys, strings.TrimSpace(f))
			}
		} else if tg.retFlds != nil {
			for range tg.retFlds {
				rtys = append(rtys, "") // filled below
			}
			rtys = nil
			for _, f := range strings.Split(tg.doc[strings.Index(tg.doc, "RET:")+4:], ";") {
				rtys = append(rtys, strings.TrimSpace(f))
			}
		} else if fd.Type.Results != nil {
			for _, f := range fd.Type.Results.List {
				n := len(f.Names)
				if n == 0 {
					n = 1
				}
				for i := 0; i < n; i++ {
					rtys = append(rtys, t.leanType(t.info.TypeOf(f.Type), f.Type))
				}
			}
		}
		rtys = append(rtys, t.stateTypes()...)
		resTy := "Unit"
		for i := range rtys {
			if strings.Contains(rtys[i], " ") && len(rtys) > 0 {
				rtys[i] = "(" + rtys[i] + ")"
			}
		}
		if len(rtys) == 1 {
			resTy = rtys[0]
		} else if len(rtys) > 1 {
			resTy = "(" + strings.Join(rtys, " × ") + ")"
		}
		em := &emitter{indent: "  "}
		t.stmts(fd.Body.List, scope, em, func(_ []lvar, e2 *emitter) { e2.line(t.done(nil)) })
		for _, d := range t.defs {
			b.WriteString(strings.ReplaceAll(d, "%RES%", resTy) + "\n")
		}
		doc := tg.doc
		if i := strings.Index(doc, "RET:"); i >= 0 {
			doc = strings.TrimSpace(doc[:i])
		}
		fmt.Fprintf(&b, "/-- %s.%s (%s) %s -/\n", tg.recv, tg.name, fset.Position(fd.Pos()), doc)
		fmt.Fprintf(&b, "def %s {α : Type} [Inhabited α] %s%s (fuel : Nat) : Option (Except Panic %s) :=\n", tg.lean, tg.params, mainBinders, resTy)
		b.WriteString(em.b.String() + "\n")
	}
	b.WriteString(footer)
	return b.String()
}

// ---------------------------------------------------------------- targets

// the list_ methods: `values_` is the list's array as a Lean list, a fresh array is a list of zero values, an iterator
// is the list of values it still has to deliver, `SetValue` / `GetValue` / `toNormalized` are the Seq model's (array.go and
// the index normalisation have their own ties)
var listCalls = map[string]callSpec{
			"$.GetSize":               {kind: "pure", tmpl: "(values_.length : Int)"},
			"$.GetIterator":           {kind: "pure", tmpl: "values_"},
			"$.GetValue":              {kind: "except", tmpl: "Seq.getValue values_ %1", sets: []string{"_"}},
			"$.toNormalized":          {kind: "except", tmpl: "Seq.toNormalized values_.length %1", sets: []string{"_"}},
			"Array[]":                 {kind: "pure", tmpl: "()"},
			"ArrayClassLike.Make":     {kind: "except", tmpl: "makeArray %1", sets: []string{"_"}},
			"ArrayLike.SetValue":      {kind: "except", tmpl: "Seq.setValue %r %1 %2", sets: []string{"%r"}},
			"IteratorLike.GetNext":    {kind: "let", tmpl: "Seq.itNext %r", sets: []string{"_", "%r"}},
			"IteratorLike.HasNext":    {kind: "pure", tmpl: "(!(%r).isEmpty)"},
			"Sequential.GetSize":      {kind: "pure", tmpl: "((%r).length : Int)"},
			"Sequential.GetIterator":  {kind: "pure", tmpl: "%r"},
		}

// the set_ methods: the binary search is the translated `findIndex` above, the list underneath is the Seq model
var setCalls = map[string]callSpec{
			"$.findIndex":           {kind: "opt", tmpl: "findIndex (values_.length : Int) (fun i => Seq.getValue values_ i) rankValues %1 fuel", sets: []string{"$1", "$2"}},
			"$.values_.InsertValue": {kind: "except", tmpl: "Seq.insertValue values_ (%1).toNat %2", sets: []string{"values_"}},
			"$.values_.RemoveValue": {kind: "except", tmpl: "Seq.removeValue values_ %1", sets: []string{"_", "values_"}},
			"$.values_.RemoveAll":   {kind: "let", tmpl: "([] : List α)", sets: []string{"values_"}},
			"$.AddValue":            {kind: "opt", tmpl: "setAddValue rankValues %1 values_ fuel", sets: []string{"values_"}},
			"$.RemoveValue":         {kind: "opt", tmpl: "setRemoveValue rankValues %1 values_ fuel", sets: []string{"values_"}},
			"$.ContainsValue":       {kind: "opt", tmpl: "setContainsValue rankValues %1 values_ fuel", sets: []string{"_", "values_"}},
			"Sequential.GetIterator": {kind: "pure", tmpl: "%r"},
			"IteratorLike.GetNext":   {kind: "let", tmpl: "Seq.itNext %r", sets: []string{"_", "%r"}},
			"IteratorLike.HasNext":   {kind: "pure", tmpl: "(!(%r).isEmpty)"},
		}

// the class functions of the Set: a set is the list of its members; `rank_first`, `rank_second` are the operands' collators,
// `rank_result` (= `rank_first`: the result is made with the first operand's collator) and `rank_set` (the default collator)
// those of the sets the functions create
var setClassCalls = map[string]callSpec{
	"$.Make":                 {kind: "pure", tmpl: "([] : List α)", post: "let rank_%l := rank_default", postVar: "rank_%l", postType: "(α → α → Rank)"},
	"$.MakeWithCollator":     {kind: "pure", tmpl: "([] : List α)", post: "let rank_%l := %1", postVar: "rank_%l", postType: "(α → α → Rank)"},
	"SetLike.GetCollator":    {kind: "pure", tmpl: "rank_%r"},
	"SetLike.GetIterator":    {kind: "pure", tmpl: "%r"},
	"Sequential.GetIterator": {kind: "pure", tmpl: "%r"},
	"IteratorLike.GetNext":   {kind: "let", tmpl: "Seq.itNext %r", sets: []string{"_", "%r"}},
	"IteratorLike.HasNext":   {kind: "pure", tmpl: "(!(%r).isEmpty)"},
	"SetLike.AddValue":       {kind: "opt", tmpl: "setAddValue rank_%r %1 %r fuel", sets: []string{"%r"}},
	"SetLike.AddValues":      {kind: "opt", tmpl: "setAddValues rank_%r %1 %r fuel", sets: []string{"%r"}},
	"SetLike.RemoveValues":   {kind: "opt", tmpl: "setRemoveValues rank_%r %1 %r fuel", sets: []string{"%r"}},
	"SetLike.ContainsValue":  {kind: "opt", tmpl: "setContainsValue rank_%r %1 %r fuel", sets: []string{"_", "%r"}},
	"$.Sans":                 {kind: "opt", tmpl: "setSans rank_%1 rank_%2 %1 %2 fuel", sets: []string{"_"}, post: "let rank_%v := rank_%1", postVar: "rank_%v", postType: "(α → α → Rank)"},
	"$.Or":                   {kind: "opt", tmpl: "setOr rank_%1 rank_%2 %1 %2 fuel", sets: []string{"_"}, post: "let rank_%v := rank_%1", postVar: "rank_%v", postType: "(α → α → Rank)"},
}

// the array_ methods on the memory of arrays: the receiver `v` is a slice, a Sequential operand is the list of its values
// (its AsArray() is a fresh array), `toZeroBased` is the Seq model's (its own tie is `toZeroBased_tie`)
var arrayCalls = map[string]callSpec{
			"$.toZeroBased":      {kind: "except", tmpl: "natResult (Seq.toZeroBased v.len %1)", sets: []string{"_"}},
			"Sequential.GetSize": {kind: "pure", tmpl: "((%r).length : Int)"},
			"Sequential.AsArray": {kind: "let", tmpl: "Mem.alloc mem %r", sets: []string{"mem", "_"}},
		}

// the list_ methods that hand the call on to the array underneath
var listDelegCalls = map[string]callSpec{
	"$.values_.GetValue":  {kind: "except", tmpl: "Seq.getValue values_ %1", sets: []string{"_"}},
	"$.values_.GetValues": {kind: "except", tmpl: "Seq.getValues values_ %1 %2", sets: []string{"_"}},
	"$.values_.SetValue":  {kind: "except", tmpl: "Seq.setValue values_ %1 %2", sets: []string{"values_"}},
	"$.values_.SetValues": {kind: "except", tmpl: "Seq.setValues values_ %1 %2", sets: []string{"values_"}},
	"$.values_.GetSize":   {kind: "pure", tmpl: "(values_.length : Int)"},
	"$.values_.IsEmpty":   {kind: "pure", tmpl: "(values_.length == 0)"},
}

// the class functions of the List
var listClassCalls = map[string]callSpec{
	"$.Make":                 {kind: "pure", tmpl: "([] : List α)"},
	"Sequential.GetIterator": {kind: "pure", tmpl: "%r"},
	"IteratorLike.GetNext":   {kind: "let", tmpl: "Seq.itNext %r", sets: []string{"_", "%r"}},
	"IteratorLike.HasNext":   {kind: "pure", tmpl: "(!(%r).isEmpty)"},
	"ListLike.AppendValue":   {kind: "opt", tmpl: "listAppendValue %1 %r fuel", sets: []string{"%r"}},
	"ListLike.AppendValues":  {kind: "opt", tmpl: "listAppendValues %1 %r fuel", sets: []string{"%r"}},
}

var arrayClassCalls = map[string]callSpec{}

// array_.GetIterator: an iterator is represented by the slice it walks over (`Iterator[V]().MakeFromArray(a)` keeps `a`)
var arrayIterCalls = map[string]callSpec{
	"$.AsArray":                      {kind: "opt", tmpl: "arrayAsArray v mem fuel", sets: []string{"_", "mem"}},
	"IteratorClassLike.MakeFromArray": {kind: "pure", tmpl: "%1"},
}

var rankerParams = "{σ : Type} (ranker : σ → α → α → Rank × σ)"

var loopTargets = []*ltarget{
	// C02: the binary search of the Set
	{file: "LoopsSet.lean", pkg: "collection", recv: "set_", name: "findIndex", lean: "findIndex",
		params: "(getSize : Int) (getValue : Int → Except Panic α) (rankValues : α → α → Rank)", args: "getSize getValue rankValues",
		calls: map[string]callSpec{
			"$.GetSize":              {kind: "pure", tmpl: "getSize"},
			"$.GetValue":             {kind: "except", tmpl: "getValue %1", sets: []string{"_"}},
			"$.collator_.RankValues": {kind: "pure", tmpl: "(rankValues %1 %2)"},
		}, slices: "List α",
		doc: "`getSize` = v.GetSize(), `getValue` = v.GetValue, `rankValues` = v.collator_.RankValues"},
	{file: "LoopsSet.lean", pkg: "collection", recv: "set_", name: "AddValue", lean: "setAddValue",
		params: "(rankValues : α → α → Rank)", args: "rankValues", state: []string{"values_"}, fields: map[string]string{"values_": "values_"},
		calls: setCalls, slices: "List α"},
	{file: "LoopsSet.lean", pkg: "collection", recv: "set_", name: "RemoveValue", lean: "setRemoveValue",
		params: "(rankValues : α → α → Rank)", args: "rankValues", state: []string{"values_"}, fields: map[string]string{"values_": "values_"},
		calls: setCalls, slices: "List α"},
	{file: "LoopsSet.lean", pkg: "collection", recv: "set_", name: "ContainsValue", lean: "setContainsValue",
		params: "(rankValues : α → α → Rank)", args: "rankValues", state: []string{"values_"}, fields: map[string]string{"values_": "values_"},
		calls: setCalls, slices: "List α"},
	{file: "LoopsSet.lean", pkg: "collection", recv: "set_", name: "AddValues", lean: "setAddValues",
		params: "(rankValues : α → α → Rank)", args: "rankValues", state: []string{"values_"}, fields: map[string]string{"values_": "values_"},
		calls: setCalls, slices: "List α"},
	{file: "LoopsSet.lean", pkg: "collection", recv: "set_", name: "RemoveValues", lean: "setRemoveValues",
		params: "(rankValues : α → α → Rank)", args: "rankValues", state: []string{"values_"}, fields: map[string]string{"values_": "values_"},
		calls: setCalls, slices: "List α"},
	{file: "LoopsSet.lean", pkg: "collection", recv: "set_", name: "ContainsAny", lean: "setContainsAny",
		params: "(rankValues : α → α → Rank)", args: "rankValues", state: []string{"values_"}, fields: map[string]string{"values_": "values_"},
		calls: setCalls, slices: "List α"},
	{file: "LoopsSet.lean", pkg: "collection", recv: "set_", name: "ContainsAll", lean: "setContainsAll",
		params: "(rankValues : α → α → Rank)", args: "rankValues", state: []string{"values_"}, fields: map[string]string{"values_": "values_"},
		calls: setCalls, slices: "List α"},
	{file: "LoopsSet.lean", pkg: "collection", recv: "set_", name: "GetIndex", lean: "setGetIndex",
		params: "(rankValues : α → α → Rank)", args: "rankValues", state: []string{"values_"}, fields: map[string]string{"values_": "values_"},
		calls: setCalls, slices: "List α"},
	{file: "LoopsSet.lean", pkg: "collection", recv: "set_", name: "RemoveAll", lean: "setRemoveAll",
		params: "(rankValues : α → α → Rank)", args: "rankValues", state: []string{"values_"}, fields: map[string]string{"values_": "values_"},
		calls: setCalls, slices: "List α"},
	{file: "LoopsSet.lean", pkg: "collection", recv: "setClass_", name: "MakeFromSequence", lean: "setMakeFromSequence",
		params: "(rank_default : α → α → Rank)", args: "rank_default", calls: setClassCalls, slices: "List α"},
	{file: "LoopsSet.lean", pkg: "collection", recv: "setClass_", name: "And", lean: "setAnd",
		params: "(rank_first rank_second : α → α → Rank)", args: "rank_first rank_second", calls: setClassCalls, slices: "List α"},
	{file: "LoopsSet.lean", pkg: "collection", recv: "setClass_", name: "Or", lean: "setOr",
		params: "(rank_first rank_second : α → α → Rank)", args: "rank_first rank_second", calls: setClassCalls, slices: "List α"},
	{file: "LoopsSet.lean", pkg: "collection", recv: "setClass_", name: "Sans", lean: "setSans",
		params: "(rank_first rank_second : α → α → Rank)", args: "rank_first rank_second", calls: setClassCalls, slices: "List α"},
	{file: "LoopsSet.lean", pkg: "collection", recv: "setClass_", name: "Xor", lean: "setXor",
		params: "(rank_first rank_second : α → α → Rank)", args: "rank_first rank_second", calls: setClassCalls, slices: "List α"},
	// C13: the guards and constructors of the Stack (the list underneath is the Seq model)
	{file: "LoopsStack.lean", pkg: "collection", recv: "stack_", name: "AddValue", lean: "stackAddValue",
		params: "(capacity_ : Int)", args: "capacity_", state: []string{"values_"},
		fields: map[string]string{"capacity_": "capacity_"},
		calls: map[string]callSpec{
			"$.values_.GetSize":     {kind: "pure", tmpl: "(values_.length : Int)"},
			"$.values_.InsertValue": {kind: "except", tmpl: "Seq.insertValue values_ (%1).toNat %2", sets: []string{"values_"}},
		}, slices: "List α"},
	{file: "LoopsStack.lean", pkg: "collection", recv: "stack_", name: "RemoveTop", lean: "stackRemoveTop",
		params: "(capacity_ : Int)", args: "capacity_", state: []string{"values_"},
		fields: map[string]string{"capacity_": "capacity_"},
		calls: map[string]callSpec{
			"$.values_.IsEmpty":     {kind: "pure", tmpl: "(values_.length == 0)"},
			"$.values_.RemoveValue": {kind: "except", tmpl: "Seq.removeValue values_ %1", sets: []string{"_", "values_"}},
		}, slices: "List α"},
	{file: "LoopsStack.lean", pkg: "collection", recv: "stackClass_", name: "Make", lean: "stackMake",
		params: "(defaultCapacity_ : Int)", args: "defaultCapacity_",
		fields: map[string]string{"defaultCapacity_": "defaultCapacity_"}, retFlds: []string{"capacity_", "values_"},
		calls: map[string]callSpec{"ListClassLike.Make": {kind: "pure", tmpl: "([] : List α)"}, "List": {kind: "pure", tmpl: "()"}},
		slices: "List α", doc: "result: (capacity_, values_) RET: Int; List α"},
	{file: "LoopsStack.lean", pkg: "collection", recv: "stackClass_", name: "MakeWithCapacity", lean: "stackMakeWithCapacity",
		params: "(defaultCapacity_ : Int)", args: "defaultCapacity_",
		fields: map[string]string{"defaultCapacity_": "defaultCapacity_"}, retFlds: []string{"capacity_", "values_"},
		calls: map[string]callSpec{"ListClassLike.Make": {kind: "pure", tmpl: "([] : List α)"}},
		slices: "List α", doc: "result: (capacity_, values_) RET: Int; List α"},
	{file: "LoopsStack.lean", pkg: "collection", recv: "stackClass_", name: "MakeFromArray", lean: "stackMakeFromArray",
		params: "(defaultCapacity_ : Int)", args: "defaultCapacity_",
		fields: map[string]string{"defaultCapacity_": "defaultCapacity_"}, retFlds: []string{"capacity_", "values_"},
		calls: map[string]callSpec{
			"ListClassLike.MakeFromArray": {kind: "pure", tmpl: "(Seq.makeFromSequence %1)"},
			"ListLike.GetSize":            {kind: "pure", tmpl: "((%r).length : Int)"},
		}, slices: "List α", doc: "result: (capacity_, values_) RET: Int; List α"},
	{file: "LoopsStack.lean", pkg: "collection", recv: "stackClass_", name: "MakeFromSequence", lean: "stackMakeFromSequence",
		params: "(defaultCapacity_ : Int)", args: "defaultCapacity_",
		fields: map[string]string{"defaultCapacity_": "defaultCapacity_"}, retFlds: []string{"capacity_", "values_"},
		calls: map[string]callSpec{
			"ListClassLike.MakeFromSequence": {kind: "pure", tmpl: "(Seq.makeFromSequence %1)"},
			"ListLike.GetSize":               {kind: "pure", tmpl: "((%r).length : Int)"},
		}, slices: "List α", doc: "result: (capacity_, values_) RET: Int; List α"},
	{file: "LoopsList.lean", pkg: "collection", recv: "list_", name: "InsertValue", lean: "listInsertValue",
		params: "", args: "", state: []string{"values_"}, fields: map[string]string{"values_": "values_"},
		calls: listCalls, slices: "List α"},
	{file: "LoopsList.lean", pkg: "collection", recv: "list_", name: "InsertValues", lean: "listInsertValues",
		params: "", args: "", state: []string{"values_"}, fields: map[string]string{"values_": "values_"},
		calls: listCalls, slices: "List α"},
	{file: "LoopsList.lean", pkg: "collection", recv: "list_", name: "AppendValue", lean: "listAppendValue",
		params: "", args: "", state: []string{"values_"}, fields: map[string]string{"values_": "values_"},
		calls: listCalls, slices: "List α"},
	{file: "LoopsList.lean", pkg: "collection", recv: "list_", name: "AppendValues", lean: "listAppendValues",
		params: "", args: "", state: []string{"values_"}, fields: map[string]string{"values_": "values_"},
		calls: listCalls, slices: "List α"},
	{file: "LoopsList.lean", pkg: "collection", recv: "list_", name: "RemoveValue", lean: "listRemoveValue",
		params: "", args: "", state: []string{"values_"}, fields: map[string]string{"values_": "values_"},
		calls: listCalls, slices: "List α"},
	{file: "LoopsList.lean", pkg: "collection", recv: "list_", name: "RemoveValues", lean: "listRemoveValues",
		params: "", args: "", state: []string{"values_"}, fields: map[string]string{"values_": "values_"},
		calls: listCalls, slices: "List α"},
	{file: "LoopsList.lean", pkg: "collection", recv: "list_", name: "RemoveAll", lean: "listRemoveAll",
		params: "", args: "", state: []string{"values_"}, fields: map[string]string{"values_": "values_"},
		calls: listCalls, slices: "List α"},
	{file: "LoopsArray.lean", pkg: "collection", recv: "array_", name: "GetValue", lean: "arrayGetValue",
		params: "(v : Slice)", args: "v", state: []string{"mem"}, calls: arrayCalls, slices: "Slice", resTy: ""},
	{file: "LoopsArray.lean", pkg: "collection", recv: "array_", name: "GetValues", lean: "arrayGetValues",
		params: "(v : Slice)", args: "v", state: []string{"mem"}, calls: arrayCalls, slices: "Slice", resTy: "Slice"},
	{file: "LoopsArray.lean", pkg: "collection", recv: "array_", name: "SetValue", lean: "arraySetValue",
		params: "(v : Slice)", args: "v", state: []string{"mem"}, calls: arrayCalls, slices: "Slice", resTy: ""},
	{file: "LoopsArray.lean", pkg: "collection", recv: "array_", name: "SetValues", lean: "arraySetValues",
		params: "(v : Slice)", args: "v", state: []string{"mem"}, calls: arrayCalls, slices: "Slice", resTy: ""},
	{file: "LoopsArray.lean", pkg: "collection", recv: "array_", name: "AsArray", lean: "arrayAsArray",
		params: "(v : Slice)", args: "v", state: []string{"mem"}, calls: arrayCalls, slices: "Slice", resTy: "Slice"},
	{file: "LoopsArray.lean", pkg: "collection", recv: "array_", name: "GetSize", lean: "arrayGetSize",
		params: "(v : Slice)", args: "v", state: []string{"mem"}, calls: arrayCalls, slices: "Slice", resTy: ""},
	{file: "LoopsArray.lean", pkg: "collection", recv: "array_", name: "IsEmpty", lean: "arrayIsEmpty",
		params: "(v : Slice)", args: "v", state: []string{"mem"}, calls: arrayCalls, slices: "Slice", resTy: ""},
	{file: "LoopsList.lean", pkg: "collection", recv: "list_", name: "GetValue", lean: "listGetValue",
		params: "", args: "", state: []string{"values_"}, fields: map[string]string{"values_": "values_"},
		calls: listDelegCalls, slices: "List α"},
	{file: "LoopsList.lean", pkg: "collection", recv: "list_", name: "GetValues", lean: "listGetValues",
		params: "", args: "", state: []string{"values_"}, fields: map[string]string{"values_": "values_"},
		calls: listDelegCalls, slices: "List α"},
	{file: "LoopsList.lean", pkg: "collection", recv: "list_", name: "SetValue", lean: "listSetValue",
		params: "", args: "", state: []string{"values_"}, fields: map[string]string{"values_": "values_"},
		calls: listDelegCalls, slices: "List α"},
	{file: "LoopsList.lean", pkg: "collection", recv: "list_", name: "SetValues", lean: "listSetValues",
		params: "", args: "", state: []string{"values_"}, fields: map[string]string{"values_": "values_"},
		calls: listDelegCalls, slices: "List α"},
	{file: "LoopsList.lean", pkg: "collection", recv: "list_", name: "GetSize", lean: "listGetSize",
		params: "", args: "", state: []string{"values_"}, fields: map[string]string{"values_": "values_"},
		calls: listDelegCalls, slices: "List α"},
	{file: "LoopsList.lean", pkg: "collection", recv: "list_", name: "IsEmpty", lean: "listIsEmpty",
		params: "", args: "", state: []string{"values_"}, fields: map[string]string{"values_": "values_"},
		calls: listDelegCalls, slices: "List α"},
	{file: "LoopsList.lean", pkg: "collection", recv: "listClass_", name: "MakeFromSequence", lean: "listMakeFromSequence",
		params: "", args: "", calls: listClassCalls, slices: "List α"},
	{file: "LoopsList.lean", pkg: "collection", recv: "listClass_", name: "Concatenate", lean: "listConcatenate",
		params: "", args: "", calls: listClassCalls, slices: "List α"},
	{file: "LoopsArray.lean", pkg: "collection", recv: "array_", name: "GetIterator", lean: "arrayGetIterator",
		params: "(v : Slice)", args: "v", state: []string{"mem"}, calls: arrayIterCalls, slices: "Slice", resTy: "Slice"},
	{file: "LoopsArray.lean", pkg: "collection", recv: "arrayClass_", name: "Make", lean: "arrayClassMake",
		params: "", args: "", state: []string{"mem"}, calls: arrayClassCalls, slices: "Slice", resTy: "Slice"},
	{file: "LoopsArray.lean", pkg: "collection", recv: "arrayClass_", name: "MakeFromArray", lean: "arrayClassMakeFromArray",
		params: "", args: "", state: []string{"mem"}, calls: arrayClassCalls, slices: "Slice", resTy: "Slice"},
	// C09: the sorter on a memory of arrays
	{file: "LoopsSorter.lean", pkg: "agent", recv: "sorter_", name: "mergeArrays", lean: "mergeArrays",
		params: rankerParams, args: "ranker", state: []string{"mem", "w"},
		calls: map[string]callSpec{"$.ranker_": {kind: "let", tmpl: "ranker w %1 %2", sets: []string{"_", "w"}}},
		slices: "Slice", doc: "`ranker` = v.ranker_ with its own state `w` threaded through the calls"},
	{file: "LoopsSorter.lean", pkg: "agent", recv: "sorter_", name: "sortValues", lean: "sortValues",
		params: rankerParams, args: "ranker", state: []string{"mem", "w"},
		calls: map[string]callSpec{"$.mergeArrays": {kind: "opt", tmpl: "mergeArrays ranker %1 %2 %3 mem w fuel", sets: []string{"mem", "w"}}},
		slices: "Slice"},
	{file: "LoopsSorter.lean", pkg: "agent", recv: "sorter_", name: "SortValues", lean: "sortValuesPublic",
		params: rankerParams, args: "ranker", state: []string{"mem", "w"},
		calls: map[string]callSpec{"$.sortValues": {kind: "opt", tmpl: "sortValues ranker %1 mem w fuel", sets: []string{"mem", "w"}}},
		slices: "Slice", doc: "the exported method: nothing but the call of sortValues"},
	{file: "LoopsSorter.lean", pkg: "agent", recv: "sorter_", name: "ReverseValues", lean: "reverseValues",
		params: "", args: "", state: []string{"mem"}, calls: map[string]callSpec{}, slices: "Slice"},
	{file: "LoopsSorter.lean", pkg: "agent", recv: "sorter_", name: "ShuffleValues", lean: "shuffleValues",
		params: "{σ : Type} (randomizeIndex : σ → Int → Int × σ)", args: "randomizeIndex", state: []string{"mem", "w"},
		calls: map[string]callSpec{"$.randomizeIndex": {kind: "let", tmpl: "randomizeIndex w %1", sets: []string{"_", "w"}}},
		slices: "Slice", doc: "`randomizeIndex` = crypto/rand, an external with its own state `w`"},
}
