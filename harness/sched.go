package main

// A controlled scheduler for goroutines that use queues.  Every queue
// synchronisation point in the library (build tag verif) reports to the hook
// below and waits for a grant; exactly one goroutine runs between grants, so a
// run is a sequence of atomic steps chosen by the scheduler (PRNG or a choice
// prefix for exhaustive DFS).  A channel operation is granted only when it can
// proceed ("withheld" mode), so no goroutine ever parks inside the runtime.

import (
	"bytes"
	"os"
	"runtime"
	"strconv"
	"sync"
	"time"

	col "github.com/craterdog/go-collection-framework/v4/collection"
)

type gState struct {
	label   int
	state   int // 0 running, 1 waiting, 2 done
	ev      string
	q       any
	cond    func() bool // custom wait
	grant   chan struct{}
	helper  bool
}

type sched struct {
	mu       sync.Mutex
	cv       *sync.Cond
	byID     map[int64]*gState
	gs       []*gState
	closed   map[any]bool
	qlabel   map[any]int
	trace    []J
	choices  []int // prefix of choices (DFS); beyond it: rng or first
	branch   []int // branching factor at every decision of this run
	picked   []int
	rng      *Rng
	free     bool
	status   string
	expected int
	patience time.Duration
}

func goid() int64 {
	var buf [64]byte
	n := runtime.Stack(buf[:], false)
	b := bytes.TrimPrefix(buf[:n], []byte("goroutine "))
	i := bytes.IndexByte(b, ' ')
	id, _ := strconv.ParseInt(string(b[:i]), 10, 64)
	return id
}

func newSched(rng *Rng, choices []int) *sched {
	// how long a granted goroutine may take to reach its next synchronisation point before the run is
	// declared stuck (it is then really blocked inside the Go runtime); generous, so that a loaded
	// machine does not turn slowness into a verdict
	patience := 2 * time.Second
	if ms, err := strconv.Atoi(os.Getenv("VERIF_PATIENCE_MS")); err == nil && ms > 0 {
		patience = time.Duration(ms) * time.Millisecond
	}
	s := &sched{byID: map[int64]*gState{}, closed: map[any]bool{}, qlabel: map[any]int{}, rng: rng, choices: choices, patience: patience}
	s.cv = sync.NewCond(&s.mu)
	col.VerifHook = s.hook
	return s
}

func (s *sched) stop() { col.VerifHook = nil }

func (s *sched) queueLabel(q any) int {
	if l, ok := s.qlabel[q]; ok {
		return l
	}
	l := len(s.qlabel)
	s.qlabel[q] = l
	return l
}

// hook is called by the library at every synchronisation point.
func (s *sched) hook(ev string, q any, length, capacity int) {
	if s.free {
		return
	}
	id := goid()
	s.mu.Lock()
	g := s.byID[id]
	if g == nil { // a goroutine started by the library (Fork/Split/Join helper)
		g = &gState{label: len(s.gs), grant: make(chan struct{}, 1), helper: true}
		s.byID[id] = g
		s.gs = append(s.gs, g)
	}
	g.state, g.ev, g.q, g.cond = 1, ev, q, nil
	s.cv.Broadcast()
	s.mu.Unlock()
	<-g.grant
}

// await is a cooperative wait on a condition of the test program itself.
func (s *sched) await(cond func() bool) {
	if s.free {
		for !cond() {
			time.Sleep(time.Millisecond)
		}
		return
	}
	id := goid()
	s.mu.Lock()
	g := s.byID[id]
	g.state, g.ev, g.q, g.cond = 1, "await", nil, cond
	s.cv.Broadcast()
	s.mu.Unlock()
	<-g.grant
}

// spawn starts a worker goroutine under the scheduler's control.
func (s *sched) spawn(f func(label int)) int {
	s.mu.Lock()
	g := &gState{label: len(s.gs), grant: make(chan struct{}, 1), state: 3}
	s.gs = append(s.gs, g)
	s.mu.Unlock()
	started := make(chan struct{})
	go func() {
		s.mu.Lock()
		s.byID[goid()] = g
		s.mu.Unlock()
		close(started)
		<-g.grant // released by run(): then it runs up to its first synchronisation point
		defer func() {
			s.mu.Lock()
			g.state = 2
			s.cv.Broadcast()
			s.mu.Unlock()
		}()
		f(g.label)
	}()
	<-started
	return g.label
}

// record appends an entry to the trace (called by the running goroutine only).
func (s *sched) record(j J) {
	s.mu.Lock()
	s.trace = append(s.trace, j)
	s.mu.Unlock()
}

// helperDone is called (through the wait group) when a library goroutine exits.
func (s *sched) helperDone() {
	id := goid()
	s.mu.Lock()
	if g := s.byID[id]; g != nil {
		g.state = 2
	}
	s.cv.Broadcast()
	s.mu.Unlock()
}

func (s *sched) enabled(g *gState) bool {
	switch g.ev {
	case "await":
		return g.cond()
	case "add.send":
		l, c, _ := col.VerifQueueState(g.q)
		return l < c || s.closed[g.q]
	case "rem.recv":
		l, _, _ := col.VerifQueueState(g.q)
		return l > 0 || s.closed[g.q]
	}
	return true // lock sections never block (no yield lies inside one)
}

// run drives the goroutines until all are done, none can proceed, or one gets stuck.
func (s *sched) run(maxSteps int) string {
	s.mu.Lock()
	defer s.mu.Unlock()
	// release the workers one after another: each runs up to its first synchronisation point
	for _, g := range s.gs {
		if g.state == 3 {
			g.state = 0
			g.grant <- struct{}{}
			for g.state == 0 {
				waitWithTimeout(s.cv, 50*time.Millisecond)
			}
		}
	}
	for step := 0; ; step++ {
		// wait until nobody is running (and the expected helpers have shown up)
		deadline := time.Now().Add(s.patience)
		for {
			running := 0
			for _, g := range s.gs {
				if g.state == 0 {
					running++
				}
			}
			helpers := 0
			for _, g := range s.gs {
				if g.helper {
					helpers++
				}
			}
			if running == 0 && helpers >= s.expected {
				break
			}
			if time.Now().After(deadline) {
				s.status = "stuck"
				s.free = true
				for _, g := range s.gs {
					if g.state == 1 {
						g.state = 0
						g.grant <- struct{}{}
					}
				}
				return s.status
			}
			waitWithTimeout(s.cv, 50*time.Millisecond)
		}
		var en []*gState
		alive := 0
		for _, g := range s.gs {
			if g.state == 1 {
				alive++
				if s.enabled(g) {
					en = append(en, g)
				}
			}
		}
		if alive == 0 {
			s.status = "done"
			return s.status
		}
		if len(en) == 0 || step >= maxSteps {
			if len(en) == 0 {
				s.status = "deadlock"
			} else {
				s.status = "steplimit"
			}
			// release everybody: the blocked ones stay parked in the runtime and are abandoned
			s.free = true
			for _, g := range s.gs {
				if g.state == 1 {
					g.state = 0
					g.grant <- struct{}{}
				}
			}
			return s.status
		}
		k := 0
		if d := len(s.picked); d < len(s.choices) {
			k = s.choices[d] % len(en)
		} else if s.rng != nil {
			k = s.rng.Intn(len(en))
		}
		s.branch = append(s.branch, len(en))
		s.picked = append(s.picked, k)
		g := en[k]
		if g.ev != "await" {
			l, c, _ := col.VerifQueueState(g.q)
			s.trace = append(s.trace, J{"t": g.label, "ev": g.ev, "q": s.queueLabel(g.q), "len": l, "cap": c, "closed": s.closed[g.q]})
			if g.ev == "close.lock" {
				s.closed[g.q] = true
			}
			if g.ev == "removeall.lock" {
				delete(s.closed, g.q) // the queue gets a fresh, open channel
			}
		}
		g.state = 0
		g.grant <- struct{}{}
	}
}

func waitWithTimeout(cv *sync.Cond, d time.Duration) {
	t := time.AfterFunc(d, func() { cv.Broadcast() })
	cv.Wait()
	t.Stop()
}

// group is the Synchronized handed to Fork/Split/Join: Done() tells the scheduler the helper has finished.
type group struct {
	s  *sched
	wg sync.WaitGroup
	n    int
	adds int // total registered so far
	mu   sync.Mutex
}

func (g *group) registered() int {
	g.mu.Lock()
	defer g.mu.Unlock()
	return g.adds
}

func (g *group) Add(delta int) {
	g.mu.Lock()
	g.n += delta
	g.adds += delta
	g.mu.Unlock()
	g.wg.Add(delta)
}
func (g *group) Done() {
	g.mu.Lock()
	g.n--
	g.mu.Unlock()
	g.wg.Done()
	g.s.helperDone()
}
func (g *group) Wait() { g.wg.Wait() }
func (g *group) count() int {
	g.mu.Lock()
	defer g.mu.Unlock()
	return g.n
}
