/-
  C20 obligation: the case order of the constructor-selecting switch of every
  universal constructor in Module.go (Generated/Facade.lean, regenerated on
  every run) is the order that `Model/Facade.lean` implements
  (`buildArray` … `buildMap`), and the argument type switches have the case
  heads the model's `Arg` constructors stand for.
-/
import CollectionModel.Generated.Facade
namespace CM
namespace Tie

def expectedFinalSwitch : List (String × List String) := [
  ("Array", ["hasSize", "values != nil", "sequence != nil", "len(source) > 0", "default"]),
  ("Catalog", ["len(associations) > 0", "len(mappings) > 0", "sequence != nil", "len(source) > 0", "default"]),
  ("List", ["len(values) > 0", "sequence != nil", "len(source) > 0", "default"]),
  ("Map", ["len(associations) > 0", "len(mappings) > 0", "sequence != nil", "len(source) > 0", "default"]),
  ("Queue", ["capacity > 0", "len(values) > 0", "sequence != nil", "len(source) > 0", "default"]),
  ("Set", ["collator != nil", "collator != nil / len(values) > 0", "collator != nil / sequence != nil",
           "collator != nil / len(source) > 0", "len(values) > 0", "sequence != nil", "len(source) > 0", "default"]),
  ("Stack", ["capacity > 0", "len(values) > 0", "sequence != nil", "len(source) > 0", "default"])]

def expectedTypeSwitch : List (String × List String) := [
  ("Array", ["int", "uint", "[]V", "string", "default"]),
  ("Catalog", ["[]col.AssociationLike[K, V]", "map[K]V", "string", "default"]),
  ("List", ["[]V", "string", "default"]),
  ("Map", ["[]col.AssociationLike[K, V]", "map[K]V", "string", "default"]),
  ("Queue", ["int", "uint", "[]V", "string", "default"]),
  ("Set", ["[]V", "string", "age.CollatorLike[V]", "default"]),
  ("Stack", ["int", "uint", "[]V", "string", "default"])]

theorem final_switch_tie : Generated.finalSwitch = expectedFinalSwitch := by decide
theorem type_switch_tie : Generated.typeSwitch = expectedTypeSwitch := by decide

end Tie
end CM
