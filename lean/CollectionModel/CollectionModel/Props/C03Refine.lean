/-
  C03, continued — the executable specification `catAllowed` (the one that judges the real
  catalog's observations in the check) accepts every call of the model: one refinement
  theorem in the style of C01 / C02 / C13, for every catalog satisfying the invariant,
  every operation and every total-preorder ranker.
-/
import CollectionModel.Props.C03
import CollectionModel.Props.C16
import CollectionModel.Props.C09
namespace CM
open CM.Assoc CM.Seq CM.Sorter

variable {K V : Type} [DecidableEq K] [Inhabited K] [Inhabited V] [DecidableEq V]

theorem coherent_of_inv (c : Cat K V) (h : CatInv c) : coherent c = true := by
  unfold coherent sameMap
  simp only [Bool.and_eq_true, decide_eq_true_eq, List.all_eq_true, beq_iff_eq]
  refine ⟨h.nodupA, ⟨⟨h.nodupA, h.nodupK⟩, ?_⟩, ?_⟩
  · intro p hp; rw [h.same]; exact lookup_of_mem h.nodupA hp
  · intro p hp; rw [← h.same]; exact lookup_of_mem h.nodupK hp

/-- operations whose arguments are well formed: shuffle indices in range, Merge's first operand
    is a catalog's content (distinct keys) -/
def Assoc.COp.wf2 (c : Cat K V) : COp K V → Prop
  | .shuffle rs => rs.length ≤ c.assocs.length ∧ ∀ r ∈ rs, r < c.assocs.length
  | .merge a _ => NodupKeys a
  | _ => True

/-- **insertion-ordered-map refinement, one step** -/
theorem C03_step_refines (rank : (K × V) → (K × V) → Rank) (hr : TotalPreorder rank) (c : Cat K V) (h : CatInv c)
    (op : COp K V) (hwf : op.wf2 c) : catAllowed rank c op (catStep rank c op) = true := by
  have hc := coherent_of_inv c h
  cases op with
  | setValue k v =>
    have := C03_set c h k v
    simp [catAllowed, catStep, coherent_of_inv _ this.2, this.1]
  | getValue k => simp [catAllowed, catStep, hc, (C03_views_agree c h k).1]
  | getValues ks =>
    simp only [catAllowed, catStep, hc, Bool.true_and, Bool.and_eq_true, beq_iff_eq, and_true]
    congr 1
    apply List.map_congr_left
    intro k _; exact (C03_views_agree c h k).1
  | getKeys => simp [catAllowed, catStep, hc]
  | removeValue k =>
    obtain ⟨c', h1, h2, h3⟩ := C03_remove c h k
    simp [catAllowed, catStep, h1, coherent_of_inv _ h3, h2]
  | removeValues ks =>
    obtain ⟨c', h1, h2, h3⟩ := C03_removeValues ks c h
    simp [catAllowed, catStep, h1, coherent_of_inv _ h3, h2]
  | removeAll =>
    have he := coherent_of_inv _ (catEmpty_inv (K := K) (V := V))
    simp only [catEmpty] at he
    simp [catAllowed, catStep, catEmpty, he]
  | sort =>
    have hp : (arraySort rank c.assocs).Perm c.assocs := by
      unfold arraySort; split
      · exact sortValues_perm rank _
      · exact List.Perm.refl _
    have hasc : SeqSpec.ascending rank (arraySort rank c.assocs) = true := by
      unfold arraySort; split
      · exact ascending_of_asc rank _ (sortValues_asc rank hr _)
      · rename_i hlen
        cases hl : c.assocs with
        | nil => rfl
        | cons a rest =>
          cases rest with
          | nil => rfl
          | cons b r => rw [hl] at hlen; simp at hlen
    simp [catAllowed, catStep, coherent_of_inv _ (cat_perm_inv c h _ hp).1, List.isPerm_iff, hp, hasc]
  | reverse =>
    have hp : (reverseValues c.assocs).Perm c.assocs := by rw [reverseValues_eq]; exact List.reverse_perm _
    have hco := coherent_of_inv _ (cat_perm_inv c h _ hp).1
    rw [reverseValues_eq] at hco
    simp [catAllowed, catStep, reverseValues_eq, hco]
  | shuffle rs =>
    have hp : (shuffleValues rs c.assocs).Perm c.assocs :=
      shuffleLoop_perm rs 0 c.assocs (by simpa using hwf.1) hwf.2
    simp [catAllowed, catStep, coherent_of_inv _ (cat_perm_inv c h _ hp).1, List.isPerm_iff, hp]
  | asArray => simp [catAllowed, catStep, hc]
  | iterate => simp [catAllowed, catStep, hc]
  | getSize => simp [catAllowed, catStep, hc]
  | isEmpty => simp [catAllowed, catStep, hc]
  | make ps =>
    have := catMakeFrom_fold ps catEmpty catEmpty_inv
    simp only [catAllowed, catStep, Bool.and_eq_true, beq_iff_eq]
    refine ⟨coherent_of_inv _ this.1, by simp, ?_⟩
    have e : (catMakeFrom ps).assocs = _ := this.2
    rw [e]; simp [catEmpty]
  | merge a b =>
    have h1 := catMakeFrom_fold a catEmpty catEmpty_inv
    have h2 := catMakeFrom_fold b _ h1.1
    have ea : (catMakeFrom a).assocs = a := by
      have : (catMakeFrom a).assocs = a.foldl (fun acc p => specSet acc p.1 p.2) [] := h1.2
      have hna : NodupKeys a := hwf
      rw [this, fold_specSet_fresh a [] (by simpa using hna)]
      simp
    simp only [catAllowed, catStep, Bool.and_eq_true, beq_iff_eq]
    refine ⟨coherent_of_inv _ h2.1, by simp, ?_⟩
    have e : (catMerge a b).assocs = _ := h2.2
    rw [e]
    have ea' : (List.foldl (fun c p => catSetValue c p.1 p.2) catEmpty a).assocs = a := ea
    rw [ea']
  | extract src ks =>
    have := C16_extract src ks
    simp only [catAllowed, catStep, Bool.and_eq_true, beq_iff_eq]
    exact ⟨coherent_of_inv _ this.1, by simp, this.2.2⟩

end CM
