package main

// C11: every sentence of the CDCN grammar is accepted with its intended meaning.

import (
	"math"
	"runtime"
	"strconv"
	"strings"
	"sync"
	"unicode/utf8"

	cdc "github.com/craterdog/go-collection-framework/v4/cdcn"
	col "github.com/craterdog/go-collection-framework/v4/collection"
)

// lit: a literal alternative of the grammar with its standard Go meaning
type lit struct {
	text string
	val  any
}

func mustInt(s string) any  { i, _ := strconv.ParseInt(s, 10, 64); return i }
func mustHex(s string) any  { u, _ := strconv.ParseUint(s[2:], 16, 64); return u }
func mustFlt(s string) any  { f, _ := strconv.ParseFloat(s, 64); return f }
func mustCpx(s string) any  { z, _ := strconv.ParseComplex(s, 128); return z }
func mustStr(s string) any  { u, _ := strconv.Unquote(s); return u }
func mustRune(s string) any { u, _ := strconv.Unquote(s); r, _ := utf8.DecodeRuneInString(u); return r }

func grammarLiterals() []lit {
	var ls []lit
	ls = append(ls, lit{"true", true}, lit{"false", false}, lit{"nil", nil})
	for _, s := range []string{"0", "1", "-1", "+1", "7", "+42", "-42", "9223372036854775807", "-9223372036854775808", "+9223372036854775807", "10", "100"} {
		ls = append(ls, lit{s, mustInt(s)})
	}
	for _, s := range []string{"0x0", "0x1", "0xa", "0xff", "0x1f", "0xffffffffffffffff", "0xdeadbeef", "0x00ff"} {
		ls = append(ls, lit{s, mustHex(s)})
	}
	for _, s := range []string{"0.0", "0.5", "1.5", "-1.5", "+2.25", "10.01", "1.5E+3", "1.5e-3", "-2.5E+10", "1.0E+300", "1.0E-300", "4.9E-324",
		"1.7976931348623157E+308", "0.1", "123456789.125", "3.0e+1", "2.0E-7", "9.75E+123"} {
		ls = append(ls, lit{s, mustFlt(s)})
	}
	for _, s := range []string{"(1.5+2.5i)", "(-1.5-2.5i)", "(0.0+0.0i)", "(+1.0E+3-2.0E-3i)", "(0.5+1.0e+1i)"} {
		ls = append(ls, lit{s, mustCpx(s)})
	}
	for _, s := range []string{`'a'`, `'Z'`, `'0'`, `' '`, `'"'`, `'é'`, `'日'`, `'😀'`, `'~'`, `'['`, `','`,
		// the escaped forms the formatter itself writes (strconv.QuoteRune)
		`'\''`, `'\\'`, `'\n'`, `'\t'`, `'\x41'`, `'\u00e9'`, `'\U0001f600'`, `'\U000e0001'`, `'\U0010ffff'`, `'\a'`} {
		ls = append(ls, lit{s, mustRune(s)})
	}
	for _, s := range []string{`""`, `"a"`, `"abc"`, `"with space"`, `"[1, 2](List)"`, `"é日😀"`, `"it's"`, `"a\"b"`, `"tab\tnew\nline"`, `"\\"`,
		`"\x41é\U0001f600"`, `"\a\b\f\r\v"`, `"\u0000"`, `"'"`, `":,()[]"`} {
		ls = append(ls, lit{s, mustStr(s)})
	}
	return ls
}

type sentence struct {
	text string
	val  any
	size int
}

type c11gen struct {
	rng  Rng
	lits []lit
}

func (g *c11gen) intrinsic() lit { return g.lits[g.rng.Intn(len(g.lits))] }

func (g *c11gen) value(depth int) sentence {
	if depth == 0 || g.rng.Intn(3) > 0 {
		l := g.intrinsic()
		return sentence{l.text, l.val, 1}
	}
	return g.collection(depth - 1)
}

var contexts = []string{"Array", "Catalog", "List", "Map", "Queue", "Set", "Stack"}

func build(ctx string, items []any, pairs [][2]any, keyed bool) any {
	if keyed {
		switch ctx {
		case "Catalog":
			c := col.Catalog[any, any](notation).Make()
			for _, p := range pairs {
				c.SetValue(p[0], p[1])
			}
			return c
		case "Map":
			m := col.Map[any, any](notation).Make()
			for _, p := range pairs {
				m.SetValue(p[0], p[1])
			}
			return m
		}
		// associations under a non-keyed context: the items are the associations of the catalog of pairs
		c := col.Catalog[any, any](notation).Make()
		for _, p := range pairs {
			c.SetValue(p[0], p[1])
		}
		items = nil
		for _, a := range c.AsArray() {
			items = append(items, a)
		}
	}
	switch ctx {
	case "Array":
		return col.Array[any](notation).MakeFromArray(items)
	case "List":
		return col.List[any](notation).MakeFromArray(items)
	case "Queue":
		return col.Queue[any](notation).MakeFromArray(items)
	case "Set":
		return col.Set[any](notation).MakeFromArray(items)
	case "Stack":
		return col.Stack[any](notation).MakeFromArray(items)
	case "Catalog":
		return col.Catalog[any, any](notation).Make()
	case "Map":
		return col.Map[any, any](notation).Make()
	}
	return nil
}

func (g *c11gen) collection(depth int) sentence {
	r := g.rng
	n := r.pick([]int{0, 1, 1, 2, 3, 4})
	if r.Intn(25) == 0 {
		n = 15 + r.Intn(8) // longer than the scanner queue (16) and the default capacities
	}
	keyed := r.Intn(3) == 0
	ctx := contexts[r.Intn(len(contexts))]
	if !keyed && n > 0 && (ctx == "Catalog" || ctx == "Map") {
		ctx = "List"
	}
	multiline := n > 0 && r.Intn(2) == 0
	sp := func() string { return strings.Repeat(" ", r.Intn(3)) }
	indent := strings.Repeat(" ", 4*r.Intn(3))
	var texts []string
	var items []any
	var pairs [][2]any
	size := 1
	for i := 0; i < n; i++ {
		if keyed {
			k := g.intrinsic()
			v := g.value(depth)
			texts = append(texts, k.text+sp()+":"+sp()+v.text)
			pairs = append(pairs, [2]any{k.val, v.val})
			size += 1 + v.size
		} else {
			v := g.value(depth)
			texts = append(texts, v.text)
			items = append(items, v.val)
			size += v.size
		}
	}
	var body string
	switch {
	case n == 0 && keyed:
		body = ":"
	case n == 0:
		body = " "
	case multiline:
		body = "\n" + indent + strings.Join(texts, "\n"+indent) + "\n"
	default:
		body = strings.Join(texts, ","+sp())
	}
	text := "[" + body + "]" + sp() + "(" + ctx + ")"
	return sentence{text, build(ctx, items, pairs, keyed), size}
}

// deterministic: parse the same source several times concurrently under varying GOMAXPROCS
func deterministic(src string, want J) bool {
	old := runtime.GOMAXPROCS(0)
	defer runtime.GOMAXPROCS(old)
	ok := true
	var mu sync.Mutex
	for _, procs := range []int{1, 2, 8} {
		runtime.GOMAXPROCS(procs)
		var wg sync.WaitGroup
		for i := 0; i < 3; i++ {
			wg.Add(1)
			go func() {
				defer wg.Done()
				defer func() { recover() }()
				got := encVal(cdc.Notation().Make().ParseSource(src))
				a, _ := jsonMarshal(canonJSON(got))
				b, _ := jsonMarshal(canonJSON(want))
				if string(a) != string(b) {
					mu.Lock()
					ok = false
					mu.Unlock()
				}
			}()
		}
		wg.Wait()
	}
	return ok
}

// canonJSON sorts Go-map entries so that two encodings of equal values are textually equal
func canonJSON(j J) J {
	out := J{}
	for k, v := range j {
		switch x := v.(type) {
		case J:
			out[k] = canonJSON(x)
		case []J:
			ys := make([]J, len(x))
			for i := range x {
				ys[i] = canonJSON(x[i])
			}
			out[k] = ys
		case [][2]J:
			ys := make([]string, len(x))
			for i := range x {
				b, _ := jsonMarshal([]J{canonJSON(x[i][0]), canonJSON(x[i][1])})
				ys[i] = string(b)
			}
			sortStrings(ys)
			out[k] = ys
		default:
			out[k] = v
		}
	}
	return out
}

func runC11(tier string, seed int64, out *Out) {
	rng := newRng(seed)
	g := &c11gen{rng: rng, lits: grammarLiterals()}
	caseID := 0
	emit := func(s sentence, extra J) {
		caseID++
		extra["expect"] = encVal(s.val)
		pj, _ := cdcnLine(out, "C11", caseID, s.text, extra)
		_ = pj
	}
	// every literal alternative alone, inline and multi-line, as value and as key
	for _, l := range g.lits {
		emit(sentence{"[" + l.text + "](List)", col.List[any](notation).MakeFromArray([]any{l.val}), 2}, J{"gen": "literal"})
		emit(sentence{"[\n    " + l.text + "\n](Array)\n", col.Array[any](notation).MakeFromArray([]any{l.val}), 2}, J{"gen": "literal"})
		c := col.Catalog[any, any](notation).Make()
		c.SetValue(l.val, l.val)
		emit(sentence{"[" + l.text + ": " + l.text + "](Catalog)", c, 3}, J{"gen": "literal"})
	}
	// the empty forms with every context
	for _, ctx := range contexts {
		emit(sentence{"[ ](" + ctx + ")", build(ctx, nil, nil, false), 1}, J{"gen": "empty"})
		emit(sentence{"[:](" + ctx + ")", build(ctx, nil, nil, true), 1}, J{"gen": "empty"})
	}
	// random derivations, nested
	n := 1500
	if tier == "thorough" {
		n = 20000
	}
	for i := 0; i < n; i++ {
		s := g.collection(1 + rng.Intn(4))
		if rng.Intn(4) == 0 {
			s.text += strings.Repeat("\n", 1+rng.Intn(3)) // AST: Collection EOL* EOF
		}
		extra := J{"gen": "derivation", "size": s.size}
		if i%10 == 0 {
			extra["det"] = deterministic(s.text, encVal(s.val))
		}
		emit(s, extra)
	}
	// the same notation used again after it rejected a document
	for _, bad := range []string{"[1, 2](List) 3", "[ ](Array)[", "[1 2](List)", "[1: ](Map)"} {
		nt := cdc.Notation().Make()
		cdcnLineWith(nt, out, "C12", 0, bad, J{"gen": "seq-bad"})
		for i := 0; i < 4; i++ {
			sn := g.collection(2)
			caseID++
			cdcnLineWith(nt, out, "C11", caseID, sn.text, J{"gen": "after-rejection", "expect": encVal(sn.val)})
		}
	}
	// ... and after it rejected a LONG document near its top (thousands of unread tokens behind the error point):
	// whatever cleans up after the abandoned parse must not touch the next document's tokens
	for round := 0; round < 12; round++ {
		nt := cdc.Notation().Make()
		bad := "[1 2](List)" + strings.Repeat(" 1 , 2 [ ] : nil \n", 60+10*round)
		cdcnLineWith(nt, out, "C12", 0, bad, J{"gen": "seq-bad-long"})
		for i := 0; i < 3; i++ {
			sn := g.collection(2 + i)
			caseID++
			cdcnLineWith(nt, out, "C11", caseID, sn.text, J{"gen": "after-long-rejection", "expect": encVal(sn.val)})
		}
	}
	// sets and repeated keys: ordering, de-duplication, first position / last value
	emit(sentence{"[3, 1, 2, 3, 1](Set)", col.Set[any](notation).MakeFromArray([]any{int64(1), int64(2), int64(3)}), 6}, J{"gen": "set"})
	emit(sentence{"[\"b\", \"a\", 2, 1, nil, true](Set)", col.Set[any](notation).MakeFromArray([]any{nil, true, int64(1), int64(2), "a", "b"}), 7}, J{"gen": "set"})
	{
		c := col.Catalog[any, any](notation).Make()
		c.SetValue("a", int64(3))
		c.SetValue("b", int64(2))
		emit(sentence{"[\"a\": 1, \"b\": 2, \"a\": 3](Catalog)", c, 7}, J{"gen": "repeated-key"})
		emit(sentence{"[\n    \"a\": 1\n    \"b\": 2\n    \"a\": 3\n](Catalog)", c, 7}, J{"gen": "repeated-key"})
	}
	// the published rune rule derives a quote or a backslash between quotes
	emit(sentence{"['''](List)", col.List[any](notation).MakeFromArray([]any{'\''}), 2}, J{"gen": "rune-quote"})
	emit(sentence{"['\\'](List)", col.List[any](notation).MakeFromArray([]any{'\\'}), 2}, J{"gen": "rune-backslash"})
	// literals that cannot be represented exactly must be rejected, never replaced
	for _, bad := range []string{"99999999999999999999", "-9223372036854775809", "+9223372036854775808", "0x10000000000000000", "0xfffffffffffffffff",
		"1.0E+999", "-1.0E+999", "(1.0E+999+1.0i)", `"\q"`, `"\'"`, `'\"'`, `"\xZZ"`, `"\ud800"`, `"\U00110000"`, `'\ud800'`, `"a\"`} {
		for _, form := range []string{"[%s](List)", "[%s: 1](Catalog)", "[1: %s](Map)", "[\n    %s\n](Set)"} {
			caseID++
			src := strings.Replace(form, "%s", bad, 1)
			cdcnLine(out, "C11", caseID, src, J{"gen": "inexact", "inexact": true})
		}
	}
	_ = math.Pi
}
