/-
  C16 — Merge, Extract and Concatenate obey their documented laws and are pure.
-/
import CollectionModel.Props.C03
namespace CM
open CM.Assoc CM.Seq

variable {K V : Type} [DecidableEq K] [Inhabited K] [Inhabited V]

/-- **Concatenate(a, b) is a followed by b** -/
theorem C16_concatenate {α : Type} (a b : List α) : concatenate a b = a ++ b := concatenate_spec a b

theorem specSet_eq_mset (l : List (K × V)) (k : K) (v : V) : specSet l k v = mset l k v := by
  unfold specSet mset
  rw [any_key_iff]
  cases lookup k l <;> simp

theorem specSet_keys (l : List (K × V)) (k : K) (v : V) :
    (specSet l k v).map (·.1) = if k ∈ l.map (·.1) then l.map (·.1) else l.map (·.1) ++ [k] := by
  unfold specSet
  have hiff : (l.any (fun p => p.1 = k) = true) ↔ k ∈ l.map (·.1) := by simp
  by_cases h : k ∈ l.map (·.1)
  · simp only [hiff.mpr h, if_true, h, keys_map_replace]
  · have : ¬ (l.any (fun p => decide (p.1 = k)) = true) := fun x => h (hiff.mp x)
    simp [this, h]

theorem fold_specSet_lookup (k : K) : ∀ (ps acc : List (K × V)),
    lookup k (ps.foldl (fun acc p => specSet acc p.1 p.2) acc) =
      match lookup k ps.reverse with | some v => some v | none => lookup k acc
  | [], acc => by simp [lookup]
  | (a, b) :: rest, acc => by
    simp only [List.foldl_cons, List.reverse_cons]
    rw [fold_specSet_lookup k rest, lookup_append, specSet_eq_mset, lookup_mset]
    cases lookup k rest.reverse with
    | some x => rfl
    | none =>
      by_cases h2 : k = a
      · subst h2; simp
      · have : ¬ a = k := fun e => h2 e.symm
        simp [h2, this]

theorem fold_specSet_keys : ∀ (ps acc : List (K × V)), NodupKeys ps →
    (ps.foldl (fun acc p => specSet acc p.1 p.2) acc).map (·.1) =
      acc.map (·.1) ++ (ps.map (·.1)).filter (fun k => !(acc.map (·.1)).contains k)
  | [], acc, _ => by simp
  | (a, b) :: rest, acc, hn => by
    unfold NodupKeys at hn
    simp only [List.map_cons, List.nodup_cons] at hn
    simp only [List.foldl_cons, List.map_cons]
    rw [fold_specSet_keys rest _ hn.2, specSet_keys]
    by_cases h : a ∈ acc.map (·.1)
    · simp [h, List.filter_cons]
    · have hfil : (rest.map (·.1)).filter (fun k => !(acc.map (·.1) ++ [a]).contains k) =
          (rest.map (·.1)).filter (fun k => !(acc.map (·.1)).contains k) := by
        apply List.filter_congr
        intro x hx
        have : x ≠ a := fun e => hn.1 (e ▸ hx)
        simp [this]
      have hna : (acc.map (·.1)).contains a = false := by simpa using h
      simp only [h, if_false, List.filter_cons, hna, Bool.not_false, if_true, hfil, List.append_assoc,
        List.singleton_append]

theorem lookup_reverse (l : List (K × V)) (h : NodupKeys l) (k : K) : lookup k l.reverse = lookup k l := by
  apply lookup_perm (List.reverse_perm l)
  unfold NodupKeys at *
  rw [List.map_reverse]
  exact (List.reverse_perm _).nodup_iff.mpr h

theorem fold_specSet_fresh : ∀ (ps acc : List (K × V)), NodupKeys (acc ++ ps) →
    ps.foldl (fun acc p => specSet acc p.1 p.2) acc = acc ++ ps
  | [], acc, _ => by simp
  | (k, v) :: rest, acc, hn => by
    have hk : ¬ k ∈ acc.map (·.1) := by
      unfold NodupKeys at hn
      simp only [List.map_append, List.map_cons] at hn
      have := (List.nodup_append.mp hn).2.2
      intro hin
      exact this k hin k (by simp) rfl
    have e : specSet acc k v = acc ++ [(k, v)] := by
      unfold specSet
      have : ¬ (acc.any (fun p => decide (p.1 = k)) = true) := by
        intro h; apply hk; simpa using h
      simp [this]
    simp only [List.foldl_cons, e]
    rw [fold_specSet_fresh rest (acc ++ [(k, v)]) (by simpa using hn)]
    simp

/-- **Merge(a, b)**: a's keys in a's order followed by b's new keys in b's order, b's value
    winning for shared keys; the result satisfies the catalog invariant -/
theorem C16_merge (a b : List (K × V)) (ha : NodupKeys a) (hb : NodupKeys b) :
    CatInv (catMerge a b) ∧
    (catMerge a b).assocs.map (·.1) = a.map (·.1) ++ (b.map (·.1)).filter (fun k => !(a.map (·.1)).contains k) ∧
    ∀ k, lookup k (catMerge a b).assocs = match lookup k b with | some v => some v | none => lookup k a := by
  have h1 := catMakeFrom_fold a catEmpty catEmpty_inv
  have ea : (catMakeFrom a).assocs = a := by
    have : (catMakeFrom a).assocs = a.foldl (fun acc p => specSet acc p.1 p.2) [] := h1.2
    rw [this, fold_specSet_fresh a [] (by simpa using ha)]
    simp
  have h2 := catMakeFrom_fold b (catMakeFrom a) h1.1
  refine ⟨h2.1, ?_, ?_⟩
  · unfold catMerge; rw [h2.2, ea, fold_specSet_keys b a hb]
  · intro k
    unfold catMerge; rw [h2.2, ea, fold_specSet_lookup, lookup_reverse b hb]

theorem extract_fold (src : List (K × V)) : ∀ (ks : List K) (r : Cat K V), CatInv r →
    (ks.foldl (fun r k => match lookup k src with | some v => catSetValue r k v | none => r) r).assocs =
      (ks.filter (fun k => (lookup k src).isSome)).foldl
        (fun acc k => specSet acc k ((lookup k src).getD default)) r.assocs
  | [], r, _ => rfl
  | k :: ks, r, hr => by
    simp only [List.foldl_cons, List.filter_cons]
    cases hl : lookup k src with
    | none => simp only [Option.isSome_none, Bool.false_eq_true, if_false]; exact extract_fold src ks r hr
    | some v =>
      simp only [Option.isSome_some, if_true, List.foldl_cons, hl, Option.getD_some]
      rw [extract_fold src ks _ (catSetValue_inv r hr k v), catSetValue_assocs r hr]

/-- **Extract(c, keys)**: in the order of `keys`, exactly the associations of `c` whose keys
    were requested – nothing for a key that `c` does not contain -/
theorem C16_extract (c : List (K × V)) (ks : List K) :
    CatInv (catExtract c ks) ∧
    (∀ k, lookup k (catExtract c ks).assocs = if k ∈ ks then lookup k c else none) ∧
    (catExtract c ks).assocs =
      (ks.filter (fun k => (lookup k c).isSome)).foldl (fun acc k => specSet acc k ((lookup k c).getD default)) [] := by
  refine ⟨catExtract_inv c ks _ catEmpty_inv, ?_, extract_fold c ks catEmpty catEmpty_inv⟩
  intro k
  have e := extract_fold c ks catEmpty catEmpty_inv
  have e' : (catExtract c ks).assocs = _ := e
  rw [e']
  -- rewrite the fold over keys as a fold over (key, value) pairs
  have hmap : ∀ (l : List K) (acc : List (K × V)),
      l.foldl (fun acc k => specSet acc k ((lookup k c).getD default)) acc =
      (l.map (fun k => (k, (lookup k c).getD default))).foldl (fun acc p => specSet acc p.1 p.2) acc := by
    intro l; induction l with
    | nil => intro acc; rfl
    | cons x xs ih => intro acc; simp [ih]
  rw [hmap, fold_specSet_lookup]
  simp only [catEmpty, lookup]
  -- lookup in the reversed list of requested present pairs
  have key : ∀ (l : List K), lookup k ((l.filter (fun k => (lookup k c).isSome)).map (fun k => (k, (lookup k c).getD default))) =
      if k ∈ l then lookup k c else none := by
    intro l; induction l with
    | nil => simp [lookup]
    | cons x xs ih =>
      simp only [List.filter_cons]
      by_cases hx : (lookup x c).isSome = true
      · simp only [hx, if_true, List.map_cons, lookup]
        by_cases e : x = k
        · subst e
          obtain ⟨v, hv⟩ := Option.isSome_iff_exists.mp hx
          simp [hv]
        · have : ¬ k = x := fun q => e q.symm
          simp [e, ih, this]
      · simp only [hx, Bool.false_eq_true, if_false, ih]
        by_cases e : k = x
        · subst e
          have : lookup k c = none := by simpa using hx
          simp [this]
        · simp [e]
  have hrev : ∀ (l : List K), lookup k (((l.filter (fun k => (lookup k c).isSome)).map (fun k => (k, (lookup k c).getD default))).reverse) =
      if k ∈ l then lookup k c else none := by
    intro l
    rw [← List.map_reverse, ← List.filter_reverse]
    rw [key l.reverse]; simp
  rw [hrev]
  by_cases h : k ∈ ks <;> simp [h]
  cases lookup k c <;> rfl

/-- purity in the model: the class functions are functions of the operands' contents (their
    results are new values; the operands, being arguments, cannot change) — also for the same
    catalog passed twice -/
theorem C16_merge_same (a : List (K × V)) (ha : NodupKeys a) :
    ∀ k, lookup k (catMerge a a).assocs = lookup k a := by
  intro k
  rw [(C16_merge a a ha ha).2.2 k]
  cases lookup k a <;> rfl

example : (catExtract [((1 : Int), (0 : Int)), (2, 7)] [9, 2, 1, 2]).assocs = [(2, 7), (1, 0)] := by decide
example : (catMerge [((1 : Int), (11 : Int)), (2, 12)] [(3, 23), (1, 21)]).assocs = [(1, 21), (2, 12), (3, 23)] := by decide

end CM
