/- lookup / update lemmas for association lists with distinct keys -/
import CollectionModel.Model.AssocOps
import CollectionModel.Lemmas.SeqLemmas
namespace CM
namespace Assoc
open CM.Seq

variable {K V : Type} [DecidableEq K]

/-- the keys of an association list are pairwise distinct -/
def NodupKeys (m : List (K × V)) : Prop := (m.map (·.1)).Nodup

theorem lookup_mem {k : K} {v : V} : ∀ {m : List (K × V)}, lookup k m = some v → (k, v) ∈ m
  | [], h => by simp [lookup] at h
  | (k', v') :: rest, h => by
    simp only [lookup] at h
    split at h
    · rename_i hk; cases h; subst hk; simp
    · exact List.mem_cons_of_mem _ (lookup_mem h)

theorem lookup_none_iff {k : K} : ∀ {m : List (K × V)}, lookup k m = none ↔ ∀ p ∈ m, p.1 ≠ k
  | [] => by simp [lookup]
  | (k', v') :: rest => by
    simp only [lookup]
    split
    · rename_i hk; simp [hk]
    · rename_i hk; rw [lookup_none_iff]; simp [hk]

theorem lookup_of_mem {k : K} {v : V} : ∀ {m : List (K × V)}, NodupKeys m → (k, v) ∈ m → lookup k m = some v
  | [], _, h => by simp at h
  | (k', v') :: rest, hn, h => by
    unfold NodupKeys at hn
    simp only [List.map_cons, List.nodup_cons] at hn
    simp only [lookup]
    rcases List.mem_cons.mp h with h | h
    · cases h; simp
    · have hne : ¬ k' = k := by
        intro he; subst he
        exact hn.1 (List.mem_map.mpr ⟨(k', v), h, rfl⟩)
      simp only [hne, if_false]
      exact lookup_of_mem hn.2 h

theorem any_key_iff (m : List (K × V)) (k : K) : m.any (fun p => p.1 = k) = (lookup k m).isSome := by
  induction m with
  | nil => simp [lookup]
  | cons p rest ih =>
    obtain ⟨k', v'⟩ := p
    simp only [List.any_cons, lookup]
    by_cases h : k' = k
    · simp [h]
    · simp [h, ih]

theorem lookup_map_replace (m : List (K × V)) (k k' : K) (v : V) :
    lookup k' (m.map (fun p => if p.1 = k then (k, v) else p)) =
      if k' = k then (lookup k m).map (fun _ => v) else lookup k' m := by
  induction m with
  | nil => simp [lookup]
  | cons p rest ih =>
    obtain ⟨a, b⟩ := p
    simp only [List.map_cons, lookup]
    by_cases h1 : a = k
    · subst h1
      by_cases h2 : k' = a
      · subst h2; simp [lookup]
      · have : ¬ a = k' := fun e => h2 e.symm
        simp [lookup, this, h2, ih]
    · by_cases h2 : k' = k
      · subst h2
        have : ¬ a = k' := h1
        simp [lookup, h1, ih]
      · by_cases h3 : a = k'
        · subst h3; simp [lookup, h1, h2]
        · simp [lookup, h1, h2, h3, ih]

theorem lookup_append (m : List (K × V)) (k k' : K) (v : V) :
    lookup k' (m ++ [(k, v)]) = match lookup k' m with | some x => some x | none => if k = k' then some v else none := by
  induction m with
  | nil => simp [lookup]
  | cons p rest ih =>
    obtain ⟨a, b⟩ := p
    simp only [List.cons_append, lookup]
    by_cases h : a = k'
    · simp [h]
    · simp [h, ih]

/-- **reading after writing** -/
theorem lookup_mset (m : List (K × V)) (k k' : K) (v : V) :
    lookup k' (mset m k v) = if k' = k then some v else lookup k' m := by
  unfold mset
  cases h : lookup k m with
  | some x =>
    simp only
    rw [lookup_map_replace]
    by_cases h2 : k' = k <;> simp [h2, h]
  | none =>
    simp only
    rw [lookup_append]
    by_cases h2 : k' = k
    · subst h2; simp [h]
    · have : ¬ k = k' := fun e => h2 e.symm
      cases lookup k' m <;> simp [h2, this]

theorem lookup_mremove (m : List (K × V)) (k k' : K) :
    lookup k' (mremove m k) = if k' = k then none else lookup k' m := by
  unfold mremove
  induction m with
  | nil => simp [lookup]
  | cons p rest ih =>
    obtain ⟨a, b⟩ := p
    rw [List.filter_cons]
    by_cases h1 : a = k
    · subst h1
      simp only [decide_true, Bool.not_true, Bool.false_eq_true, if_false, ih, lookup]
      by_cases h2 : k' = a
      · simp [h2]
      · have : ¬ a = k' := fun e => h2 e.symm
        simp [this, h2]
    · simp only [h1, decide_false, Bool.not_false, if_true, lookup, ih]
      by_cases h2 : a = k'
      · subst h2; simp [h1]
      · simp [h2]

theorem keys_map_replace (m : List (K × V)) (k : K) (v : V) :
    (m.map (fun p => if p.1 = k then (k, v) else p)).map (·.1) = m.map (·.1) := by
  induction m with
  | nil => rfl
  | cons p rest ih =>
    simp only [List.map_cons, ih]
    by_cases h : p.1 = k <;> simp [h]

theorem nodup_mset (m : List (K × V)) (k : K) (v : V) (h : NodupKeys m) : NodupKeys (mset m k v) := by
  unfold mset NodupKeys at *
  cases hl : lookup k m with
  | some x => simp only; rw [keys_map_replace]; exact h
  | none =>
    simp only [List.map_append, List.map_cons, List.map_nil]
    refine List.nodup_append.mpr ⟨h, by simp, ?_⟩
    intro a ha b hb
    simp at hb; subst hb
    obtain ⟨p, hp, rfl⟩ := List.mem_map.mp ha
    exact lookup_none_iff.mp hl p hp

theorem nodup_filter (m : List (K × V)) (p : K × V → Bool) (h : NodupKeys m) : NodupKeys (m.filter p) := by
  unfold NodupKeys at *
  exact List.Nodup.sublist (List.Sublist.map _ List.filter_sublist) h

theorem nodup_mremove (m : List (K × V)) (k : K) (h : NodupKeys m) : NodupKeys (mremove m k) :=
  nodup_filter m _ h

/-- a permutation of a list with distinct keys denotes the same map -/
theorem lookup_perm {a b : List (K × V)} (hp : a.Perm b) (hn : NodupKeys a) (k : K) : lookup k a = lookup k b := by
  have hnb : NodupKeys b := by
    unfold NodupKeys at *; exact (hp.map _).nodup_iff.mp hn
  cases h : lookup k b with
  | some v => exact lookup_of_mem hn (hp.mem_iff.mpr (lookup_mem h))
  | none =>
    apply lookup_none_iff.mpr
    intro p hp'
    exact lookup_none_iff.mp h p (hp.mem_iff.mp hp')

end Assoc
end CM

namespace CM
namespace Assoc
open CM.Seq CM.SeqSpec
variable {K V : Type} [DecidableEq K]

/-- the catalog's representation invariant: the list and the key index hold the
    same associations and no key occurs twice -/
structure CatInv (c : Cat K V) : Prop where
  nodupA : NodupKeys c.assocs
  nodupK : NodupKeys c.keys
  same : ∀ k, lookup k c.keys = lookup k c.assocs

theorem catEmpty_inv : CatInv (catEmpty : Cat K V) :=
  ⟨by simp [catEmpty, NodupKeys], by simp [catEmpty, NodupKeys], fun _ => rfl⟩

theorem catSetValue_assocs (c : Cat K V) (h : CatInv c) (k : K) (v : V) :
    (catSetValue c k v).assocs = specSet c.assocs k v := by
  unfold catSetValue specSet
  rw [any_key_iff, ← h.same k]
  cases lookup k c.keys <;> simp [appendValue]

theorem catSetValue_inv (c : Cat K V) (h : CatInv c) (k : K) (v : V) : CatInv (catSetValue c k v) := by
  have hs := h.same k
  unfold catSetValue
  cases hl : lookup k c.keys with
  | some x =>
    simp only
    refine ⟨?_, nodup_mset _ _ _ h.nodupK, ?_⟩
    · unfold NodupKeys; rw [keys_map_replace]; exact h.nodupA
    · intro k'
      rw [lookup_mset, lookup_map_replace, ← hs, hl, h.same k']
      by_cases e : k' = k <;> simp [e]
  | none =>
    simp only [appendValue]
    have hla : lookup k c.assocs = none := by rw [← hs, hl]
    refine ⟨?_, nodup_mset _ _ _ h.nodupK, ?_⟩
    · unfold NodupKeys
      simp only [List.map_append, List.map_cons, List.map_nil]
      refine List.nodup_append.mpr ⟨h.nodupA, by simp, ?_⟩
      intro a ha b hb
      simp at hb; subst hb
      obtain ⟨p, hp, rfl⟩ := List.mem_map.mp ha
      exact lookup_none_iff.mp hla p hp
    · intro k'
      rw [lookup_mset, lookup_append, h.same k']
      by_cases e : k' = k
      · subst e; simp [hla]
      · have : ¬ k = k' := fun x => e x.symm
        cases lookup k' c.assocs <;> simp [e, this]

/-- where the key sits in the list -/
theorem keyIndexFrom_spec (k : K) : ∀ (l : List (K × V)) (i : Nat) (v : V), NodupKeys l → lookup k l = some v →
    ∃ p, keyIndexFrom k i l = i + p + 1 ∧ p < l.length ∧ l.eraseIdx p = l.filter (fun q => !decide (q.1 = k))
  | [], _, _, _, h => by simp [lookup] at h
  | (a, b) :: rest, i, v, hn, h => by
    unfold NodupKeys at hn
    simp only [List.map_cons, List.nodup_cons] at hn
    by_cases e : a = k
    · subst e
      refine ⟨0, by simp [keyIndexFrom], by simp, ?_⟩
      have : rest.filter (fun q => !decide (q.1 = a)) = rest := by
        apply List.filter_eq_self.mpr
        intro q hq
        have : q.1 ≠ a := fun x => hn.1 (List.mem_map.mpr ⟨q, hq, x⟩)
        simpa using this
      simp [List.filter_cons, this]
    · simp only [lookup, e, if_false] at h
      obtain ⟨p, h1, h2, h3⟩ := keyIndexFrom_spec k rest (i+1) v hn.2 h
      refine ⟨p + 1, by simp [keyIndexFrom, e, h1]; omega, by simp; omega, ?_⟩
      simp [List.filter_cons, e, h3]

theorem catRemoveValue_spec [Inhabited V] [Inhabited K] (c : Cat K V) (h : CatInv c) (k : K) :
    ∃ c', catRemoveValue c k = .ok ((lookup k c.assocs).getD default, c') ∧
      c'.assocs = specDel c.assocs k ∧ CatInv c' := by
  unfold catRemoveValue
  have hs := h.same k
  cases hl : lookup k c.keys with
  | none =>
    have hla : lookup k c.assocs = none := by rw [← hs, hl]
    refine ⟨c, by simp [hla], ?_, h⟩
    unfold specDel
    symm; apply List.filter_eq_self.mpr
    intro p hp; simpa using lookup_none_iff.mp hla p hp
  | some old =>
    have hla : lookup k c.assocs = some old := by rw [← hs, hl]
    obtain ⟨p, h1, h2, h3⟩ := keyIndexFrom_spec k c.assocs 0 old h.nodupA hla
    have hp : pos c.assocs.length ((keyIndexFrom k 0 c.assocs : Nat) : Int) = some p := by
      rw [h1]; unfold pos
      have : (1 : Int) ≤ ((0 + p + 1 : Nat) : Int) ∧ ((0 + p + 1 : Nat) : Int) ≤ (c.assocs.length : Int) := by omega
      simp only [this, and_self, if_true]
      congr 1; omega
    simp only [removeValue_some _ _ _ hp, hla, Option.getD_some]
    refine ⟨_, rfl, by simp [h3, specDel], ?_⟩
    refine ⟨?_, nodup_mremove _ _ h.nodupK, ?_⟩
    · simp only [h3]; exact nodup_filter _ _ h.nodupA
    · intro k'
      simp only [h3]
      have e : c.assocs.filter (fun q => !decide (q.1 = k)) = mremove c.assocs k := rfl
      rw [e, lookup_mremove, lookup_mremove, h.same k']

/-- reordering the associations (sort / reverse / shuffle) keeps the invariant and the mapping -/
theorem cat_perm_inv (c : Cat K V) (h : CatInv c) (l : List (K × V)) (hp : l.Perm c.assocs) :
    CatInv { c with assocs := l } ∧ ∀ k, lookup k l = lookup k c.assocs := by
  have hn : NodupKeys l := by
    unfold NodupKeys; exact (hp.map _).nodup_iff.mpr h.nodupA
  have hl : ∀ k, lookup k l = lookup k c.assocs := fun k => lookup_perm hp hn k
  exact ⟨⟨hn, h.nodupK, fun k => by rw [h.same k, hl k]⟩, hl⟩

end Assoc
end CM
