/-
  The value universe seen by the reflective collator (`agent/collator.go`) and by
  the CDCN formatter/parser.  Reflection (`Kind`, `Type().String()`,
  `MethodByName`) is replaced by constructor tags.
-/
import CollectionModel.Model.Basic
namespace CM

/-- a float as far as ordering and equality are concerned: NaN, or a number
    identified by the order-preserving integer image of its IEEE bits (±0 ↦ 0) -/
inductive Fl
  | nan
  | num (key : Int)
  deriving DecidableEq, Repr, Inhabited

/-- a complex number: its two parts plus `cmplx.Abs` and `cmplx.Phase` (externals
    evaluated by the harness and shipped with the value) -/
structure Cx where
  re : Fl
  im : Fl
  abs : Fl
  ph : Fl
  deriving DecidableEq, Repr, Inhabited

/-- the collection classes that are pointers to structs with an `AsArray` method -/
inductive CK | catalog | list | queue | set | stack
  deriving DecidableEq, Repr, Inhabited

inductive Val
  | undef                                        -- invalid reflect.Value / nil interface element
  | bool (b : Bool)
  | byte (n : Nat)                                -- uint8
  | uns (n : Nat)                                 -- uint, uint16, uint32, uint64
  | int (i : Int)                                 -- int, int8, int16, int64
  | rune (i : Int)                                -- int32
  | flt (f : Fl)
  | cpx (z : Cx)
  | str (bytes : List Nat)
  | arr (cls : Bool) (isNil : Bool) (items : List Val)           -- Go slice (`cls`: collection.array_)
  | gomap (cls : Bool) (isNil : Bool) (entries : List (Val × Val)) -- Go map (`cls`: collection.map_)
  | coll (k : CK) (items : List Val)              -- *list_, *set_, *stack_, *queue_, *catalog_
  | assoc (key value : Val)                       -- *association_
  deriving Repr, Inhabited

/-- the position of `getType(v.Type())` in the byte-wise order of the type-name strings:
    array < boolean < byte < collection.array_ < collection.association_ < collection.catalog_
    < collection.list_ < collection.map_ < collection.queue_ < collection.set_ < collection.stack_
    < complex < float < integer < map < rune < string < unsigned -/
def Val.tcode : Val → Nat
  | .undef => 100
  | .arr false _ _ => 0
  | .bool _ => 1
  | .byte _ => 2
  | .arr true _ _ => 3
  | .assoc _ _ => 4
  | .coll .catalog _ => 5
  | .coll .list _ => 6
  | .gomap true _ _ => 7
  | .coll .queue _ => 8
  | .coll .set _ => 9
  | .coll .stack _ => 10
  | .cpx _ => 11
  | .flt _ => 12
  | .int _ => 13
  | .gomap false _ _ => 14
  | .rune _ => 15
  | .str _ => 16
  | .uns _ => 17

/-- `rankFloats` (after fix D07a): a NaN ranks before every number and equal to a NaN -/
def rankFl : Fl → Fl → Rank
  | .num a, .num b => rankInt a b
  | .nan, .nan => .eq
  | .nan, .num _ => .lt
  | .num _, .nan => .gt

/-- Go's raw `<` / `>` on floats as used by `rankComplex` on magnitudes and phases
    (every comparison with a NaN is false, so a NaN "ranks equal" to everything there) -/
def rankFlRaw : Fl → Fl → Rank
  | .num a, .num b => rankInt a b
  | _, _ => .eq

/-- Go `==` on floats -/
def eqFl : Fl → Fl → Bool
  | .num a, .num b => a == b
  | _, _ => false

/-- `rankComplex`: the `==` shortcut, then magnitude, then phase -/
def rankCx (a b : Cx) : Rank :=
  if eqFl a.re b.re && eqFl a.im b.im then .eq
  else match rankFlRaw a.abs b.abs with
    | .lt => .lt
    | .gt => .gt
    | .eq => rankFlRaw a.ph b.ph

def eqCx (a b : Cx) : Bool := eqFl a.re b.re && eqFl a.im b.im

/-- byte-wise string order (`rankStrings`) -/
def rankBytes : List Nat → List Nat → Rank
  | [], [] => .eq
  | [], _ :: _ => .lt
  | _ :: _, [] => .gt
  | a :: as, b :: bs => match rankNat a b with
    | .eq => rankBytes as bs
    | r => r

def rankBool : Bool → Bool → Rank
  | false, true => .lt
  | true, false => .gt
  | _, _ => .eq

end CM

namespace CM

/-- Go `==` on the comparable leaf values that can be keys of a Go map -/
def Val.keyEq : Val → Val → Bool
  | .undef, .undef => true
  | .bool x, .bool y => x == y
  | .byte x, .byte y => x == y
  | .uns x, .uns y => x == y
  | .int x, .int y => x == y
  | .rune x, .rune y => x == y
  | .flt x, .flt y => eqFl x y
  | .cpx x, .cpx y => eqCx x y
  | .str x, .str y => x == y
  | _, _ => false

/-- `catalog.SetValue` on the ordered pairs: replace in place or append -/
def Val.catalogSet (acc : List (Val × Val)) (k v : Val) : List (Val × Val) :=
  if acc.any (fun p => Val.keyEq p.1 k) then acc.map (fun p => if Val.keyEq p.1 k then (p.1, v) else p)
  else acc ++ [(k, v)]

/-- a Catalog built from pairs in order (repeated key: first position, last value) -/
def Val.catalogOf (ps : List (Val × Val)) : List Val :=
  (ps.foldl (fun acc p => Val.catalogSet acc p.1 p.2) []).map (fun p => .assoc p.1 p.2)

/-- a Go map built from pairs in order (last value wins) -/
def Val.mapOf (ps : List (Val × Val)) : List (Val × Val) :=
  ps.foldl (fun acc p => Val.catalogSet acc p.1 p.2) []

end CM
