"""per-property configuration for bin/check"""

def size_class(n):
    return 0 if n == 0 else 1 if n == 1 else 2 if n <= 3 else 3 if n <= 8 else 4 if n <= 17 else 5

def seq_key(l):
    a = l.get('a', [])
    n = len(l.get('pre', []))
    def idx_class(i):
        if i == 0: return 'zero'
        if abs(i) > n: return 'out'
        if abs(i) == n: return 'edge'
        return 'neg' if i < 0 else 'pos'
    return (l.get('ty'), l.get('tg'), l.get('op'), l.get('out'), size_class(n), l.get('alias', ''),
            size_class(len(l.get('vs', []))), [idx_class(i) for i in a[:2]] if l.get('op') in
            ('getValue','getValues','setValue','setValues','removeValue','removeValues','insertValue','insertValues') else [])

def seq_nontrivial(l):
    return l.get('op') != 'make'

PROPS = {}
PENDING = {}

PROPS['C01'] = dict(
    trusted=["T3L: the loop translator verif/extract/loops.go with its binding tables and the Go-semantics kit Model/GoSem.lean (w64/u64 wrap-around, truncating division, memory of arrays with bounds-checked slices, copy as memmove, make failing beyond the int range): the Tie/Loops*.lean theorems are about the translation; that the translation means what the Go compiler means is trusted"],
    id='C01',
    modules=['CollectionModel.Props.C01', 'CollectionModel.Tie.Fns', 'CollectionModel.Tie.LoopsList', 'CollectionModel.Tie.LoopsArray'],
    key=seq_key, nontrivial=seq_nontrivial,
    rule="cases = single List/Array calls (pre-state, operation, observation) taken from exhaustive boundary "
         "enumeration at small sizes and from random histories; a case is non-trivial when it is not a constructor "
         "line; distinct = distinct (element type, target, operation, outcome kind, size class, operand aliasing, "
         "operand size class, index class per index argument)",
    exhaustive_subspaces="every operation with every index/slot/range in ±(n+2) and six operand shapes on 3 contents "
                         "per size n ≤ 3 (quick) / n ≤ 5 (thorough), element types int,string,float64,[]int,any, List and Array",
    level_text="Lean 4 theorems C01_step_refines / C01_history / C01_returns / C01_panic_unchanged / C01_insert_frame: the loop-by-loop model of list.go and array.go refines the abstract ordinal-indexed sequence for every state, operation, index, slot, range, operand and finite history (no size bound). Tied to /repo on every run (a) by translation: toZeroBased / toNormalized (T3) and the rebuild loops of list_ – InsertValue, InsertValues, AppendValue, AppendValues, RemoveValue, RemoveValues, RemoveAll – are re-translated statement by statement (Generated/LoopsList.lean: a fresh array of zero values filled through SetValue, an iterator that hands out the zero value once exhausted, int/uint arithmetic with wrap-around, make failing beyond the int range) and Tie.listInsertValue_tie … listRemoveValues_tie prove them equal to the model's functions for every list shorter than 2^62, every slot, index and range; array_'s GetValue, GetValues, SetValue, SetValues, AsArray, GetSize, IsEmpty are re-translated onto a memory of arrays (Generated/LoopsArray.lean: bounds-checked indexing and re-slicing, make, copy) and Tie.arrayGetValue_tie … arraySetValues_tie prove them equal to the model's functions on the array's contents; (b) by a differential run (real code vs compiled Lean model on the same calls) and by the executable spec judging the real observations.",
    level_note="The theorems are about the hand-written model (the searching methods GetIndex / Contains* and the class functions are tied by the differential run only); the correspondence is sampled (exhaustive only in the stated small sub-spaces). Go int is unbounded in the model; element equality is taken on canonical ids; crypto/rand is external (shuffle judged by the spec only).",
    assumptions=["Go int is unbounded in the model (indices near MaxInt not generated)",
                 "element equality is structural equality of the canonical ids (NaN excluded as the property states)",
                 "ShuffleValues: crypto/rand indices are in range (model hypothesis Op.wf); the run only judges the result by the spec"],
)

def stack_key(l):
    return (l.get('op'), l.get('out'), size_class(len(l.get('pre', []))), min(l.get('cap', 0), 5),
            len(l.get('pre', [])) == l.get('cap'), size_class(len(l.get('vs', []))))

PROPS['C13'] = dict(
    trusted=["T3L: the loop translator verif/extract/loops.go with its binding tables and the Go-semantics kit Model/GoSem.lean (w64/u64 wrap-around, truncating division, memory of arrays with bounds-checked slices, copy as memmove, make failing beyond the int range): the Tie/Loops*.lean theorems are about the translation; that the translation means what the Go compiler means is trusted"],
    id='C13',
    modules=['CollectionModel.Props.C13', 'CollectionModel.Tie.Facts', 'CollectionModel.Tie.LoopsStack'],
    key=stack_key, nontrivial=lambda l: l.get('op') not in ('getSize', 'isEmpty', 'getCapacity'),
    rule="cases = single Stack calls (pre-state incl. capacity, operation, observation) from all mutator histories up to "
         "depth 5 (quick) / 8 (thorough) for capacities 1..4, constructors from 0..2*default+1 initial values pushed past "
         "capacity and popped past empty, and random histories; non-trivial = not a pure size/capacity observer; distinct = "
         "distinct (operation, outcome, size class, capacity, full?, operand size class)",
    exhaustive_subspaces="all histories over {AddValue, RemoveTop, RemoveAll} up to the depth bound for capacities 1..4",
    level_text="Lean 4 theorems C13_step_refines (LIFO refinement of the guard+rebuild-loop model), C13_step_bounded / C13_bound_history (size <= capacity after every call of every history, for every capacity >= 1 and every constructor), C13_constructors_bounded, C13_panic_unchanged. Tied to /repo (a) by translation: the guards of stack_.AddValue / RemoveTop and the capacity logic of Make, MakeWithCapacity, MakeFromArray, MakeFromSequence are re-translated on every run (Generated/LoopsStack.lean, uint arithmetic modulo 2^64) and Tie.stackAddValue_tie … stackMakeFromSequence_tie prove them equal to the model's for every capacity and size below 2^64; (b) by the differential run and the executable LIFO spec on the real observations.",
    level_note="Model parametric in the default capacity (read from the class at run time and shipped in every line). Sampled correspondence.",
    assumptions=["the default capacity is read from Stack[int].DefaultCapacity() at run time"],
)

def iter_key(l):
    n = len(l.get('vals', []))
    s = l.get('slot', 0)
    k = (l.get('a') or [0])[0]
    return (l.get('src'), l.get('op'), min(n, 5), 'start' if s == 0 else 'end' if s == n else 'mid',
            ('neg' if k < 0 else 'pos' if k > 0 else 'zero', abs(k) > n) if l.get('op') == 'toSlot' else None,
            l.get('after'), l.get('it'))

PROPS['C17'] = dict(
    trusted=["T3L: the loop translator verif/extract/loops.go with its binding tables and the Go-semantics kit Model/GoSem.lean (w64/u64 wrap-around, truncating division, memory of arrays with bounds-checked slices, copy as memmove, make failing beyond the int range): the Tie/Loops*.lean theorems are about the translation; that the translation means what the Go compiler means is trusted"],
    id='C17',
    modules=['CollectionModel.Props.C17', 'CollectionModel.Tie.Fns', 'CollectionModel.Tie.LoopsArray'],
    key=iter_key, nontrivial=lambda l: True,
    rule="cases = single iterator moves (snapshot, slot before, move, slot after, result) on iterators obtained from all "
         "seven collection kinds: every move from every (size 0..4, slot) state, all move sequences up to length 2 (quick) / "
         "3 (thorough), random walks interleaved with mutations of the source collection and moves of a second iterator; "
         "distinct = distinct (source kind, move, size, slot position, ToSlot argument class, after-mutation?, which iterator)",
    exhaustive_subspaces="every move (ToSlot k for k in -size-2..size+2) from every state (size 0..4, slot 0..size) for all seven kinds",
    level_text="Lean 4 theorems C17_step_inv / C17_run_inv (0 <= slot <= size and the snapshot is never written, for every move sequence), C17_step_refines (every move is what the abstract cursor allows: HasNext/HasPrevious iff a value exists, GetNext/GetPrevious, zero value at the ends, ToSlot clamping and negative slots), C17_next_prev, C17_ends, C17_independent. Snapshot semantics are tied to the code by the correspondence run: the line carries the snapshot taken when the iterator was obtained and the real iterator is moved after the collection was mutated.",
    level_note="Storage aliasing: for Array (and the collections that delegate to it) array_.GetIterator is translated from the source and Tie.arrayGetIterator_tie shows that the iterator walks over a NEW array that no later write to the collection reaches; for Catalog, Map and Queue it is checked dynamically by the interleaved-mutation walks. Iterator[V]().MakeFromArray(a) called directly keeps the caller's array by design and is out of scope (the property speaks of iterators obtained from collections).",
)

PROPS['C09'] = dict(
    trusted=["T3L: the loop translator verif/extract/loops.go with its binding tables and the Go-semantics kit Model/GoSem.lean (w64/u64 wrap-around, truncating division, memory of arrays with bounds-checked slices, copy as memmove, make failing beyond the int range): the Tie/Loops*.lean theorems are about the translation; that the translation means what the Go compiler means is trusted"],
    id='C09',
    modules=['CollectionModel.Props.C09', 'CollectionModel.Tie.LoopsSorter', 'CollectionModel.Props.C09Source'],
    key=lambda l: (l.get('via'), l.get('op'), l.get('rk'), size_class(l.get('n', 0)) if l.get('n', 0) < 40 else 6 + min(l.get('n', 0) // 300, 4), l.get('out')),
    nontrivial=lambda l: l.get('n', 0) >= 2,
    rule="cases = one SortValues / ReverseValues / ShuffleValues call (input array, ranker, route: sorter / Array / List / "
         "Catalog method, output); all arrays of length 0..6 (quick) / 0..9 (thorough) over a 4-value alphabet with 8 rankers "
         "(natural, reversed, coarse, constant, always-Lesser, always-Greater, pure pseudo-random, call-counting stateful), all "
         "arrays to length 4 through the three collection kinds, random shapes (duplicates, presorted, reversed, saw-tooth) up "
         "to length 600 / 5000; non-trivial = length >= 2; distinct = distinct (route, operation, ranker, length class, outcome)",
    exhaustive_subspaces="all arrays of length 0..6 (quick) / 0..9 (thorough) over the alphabet {1,4,5,9} through the sorter; length 0..4 over 3 values through Array, List, Catalog",
    level_text="Lean 4 theorems C09_sort_perm_any_ranker (permutation for EVERY ranking function, including stateful/inconsistent ones, by induction over the merge passes as written: left head only on Lesser, copy-the-rest arms, doubling width, clamped middle/right), C09_sort_ascending (total preorder => no earlier value ranks Greater than a later one; chunk invariant of the bottom-up passes), C09_fuel_irrelevant (the doubling loop ends by width, i.e. terminates), C09_reverse / C09_reverse_involutive (half-length swap loop = List.reverse), C09_shuffle_perm, C09_collection_sort_delegates. Tied to /repo (a) by translation: sorter.go's mergeArrays, sortValues, ReverseValues and ShuffleValues are re-translated statement by statement on every run onto a memory of arrays (Generated/LoopsSorter.lean: 64-bit wrap-around index arithmetic, bounds-checked slices and re-slices, copy as memmove, make, the two arrays swapping roles) and Tie.mergeArrays_tie / sortValues_tie / reverseValues_tie / shuffleValues_tie prove that this code computes the list-level model for every array shorter than 2^61 and every stateful ranker, so C09_source_sort_perm / C09_source_sort_ascending / C09_source_reverse / C09_source_shuffle_perm state the property of the code as it is written now; (b) by the differential run (model output vs real output modulo rank-equal ties) and the executable spec.",
    level_note="Correspondence compares outputs modulo the order inside rank-equal runs (stability is not part of the property) and only as multisets for inconsistent rankers. crypto/rand is external (hypothesis of shuffleValues_tie: indices within [0,size)). The translator (verif/extract/loops.go) and the Go-semantics kit (Model/GoSem.lean) are trusted; the Sort/Reverse/Shuffle methods of Array, List and Catalog that delegate to the sorter are tied by the differential run only.",
    assumptions=["rankers are shared by name between harness and driver (identical arithmetic on both sides)"],
)

def set_key(l):
    return (l.get('ty'), l.get('rk'), l.get('op'), l.get('out'), size_class(len(l.get('pre', []))),
            size_class(len(l.get('vs', []))), size_class(len(l.get('ws', []))), l.get('alias', ''),
            str(l.get('res'))[:12] if l.get('op') in ('containsValue', 'containsAny', 'containsAll') else '')

PROPS['C02'] = dict(
    trusted=["T3L: the loop translator verif/extract/loops.go with its binding tables and the Go-semantics kit Model/GoSem.lean (w64/u64 wrap-around, truncating division, memory of arrays with bounds-checked slices, copy as memmove, make failing beyond the int range): the Tie/Loops*.lean theorems are about the translation; that the translation means what the Go compiler means is trusted"],
    id='C02',
    modules=['CollectionModel.Props.C02', 'CollectionModel.Tie.LoopsSet'],
    key=set_key, nontrivial=lambda l: l.get('op') != 'make',
    rule="cases = single Set calls (pre-state, collator, operation, observation): every operation with every universe and "
         "outside value from every subset state of a 5-6 value universe (quick: every third subset for the 6-value one), bulk "
         "operands (empty, singleton, shuffled with duplicates, disjoint, self), random histories over a 9-value domain and a "
         "growth run to size 200/1000; collators default, reversed, coarse; element types int, string, []int, any, Set[int]; "
         "non-trivial = not the constructor line; distinct = distinct (type, collator, operation, outcome, sizes, aliasing, boolean result)",
    exhaustive_subspaces="all single steps from all subset states of the universe, per element type and collator (thorough tier)",
    level_text="Lean 4 theorems: C02_findIndex (the binary search as written – first/last/size triple, middle = first + size/2 – returns found=(member up to rank-equivalence) with the rank-equal index, else the insertion slot <= size with everything before below and everything after above the probe), C02_step_refines (every Set call refines the abstract ordered duplicate-free set), C02_step_sorted / C02_history_sorted (strictly ascending after every call of every history, for ANY total-preorder collator), C02_add_members / C02_remove_members (membership = added and not removed), C02_slot_in_range. Tied to /repo (a) by translation: set_.findIndex is re-translated statement by statement on every run (Generated/LoopsSet.lean, int arithmetic with 64-bit wrap-around, truncating division) and Tie.findIndex_tie proves it equal to the model's binary search for every list shorter than 2^63, every collator and every probe; AddValue, RemoveValue, AddValues, RemoveValues, ContainsValue, ContainsAny, ContainsAll, GetIndex, RemoveAll and the class functions MakeFromSequence, And, Or, Sans, Xor are re-translated likewise (composed of the translated findIndex and the Seq model's InsertValue / RemoveValue; the collator a new set gets is read off the source) and Tie.setAddValue_tie … setXor_tie prove them equal to the SetM model; (b) by the differential run and the executable spec on the real observations.",
    level_note="Collators are shared by name between harness and driver; the default collator is exercised through canonical ids whose order equals the default collator's order (C07 is about the collator itself). Sampled correspondence.",
)

PROPS['C15'] = dict(
    trusted=["T3L: the loop translator verif/extract/loops.go with its binding tables and the Go-semantics kit Model/GoSem.lean (w64/u64 wrap-around, truncating division, memory of arrays with bounds-checked slices, copy as memmove, make failing beyond the int range): the Tie/Loops*.lean theorems are about the translation; that the translation means what the Go compiler means is trusted"],
    id='C15',
    modules=['CollectionModel.Props.C15', 'CollectionModel.Tie.LoopsSet'],
    key=set_key, nontrivial=lambda l: len(l.get('vs', [])) + len(l.get('ws', [])) > 0,
    rule="cases = one And/Or/Sans/Xor call on two freshly built sets (operands, result, operands afterwards, independence "
         "probe: mutate the result / the operands afterwards and re-read the other side); all pairs of subsets of a 6-value "
         "universe x 4 operations for int and string (quick: every 5th pair plus all equal pairs; thorough: all 4096), custom "
         "collators, composite elements ([]int, Set[int], any), the same set passed twice, random pairs over a 40-value universe; "
         "non-trivial = at least one operand non-empty",
    exhaustive_subspaces="thorough tier: all 4096 pairs of subsets of a 6-value universe x 4 operations, element types int and string",
    level_text="Lean 4 theorems C15_and / C15_or / C15_sans / C15_xor: the class functions as written (And: filter-by-ContainsValue then AddValue; Or: AddValues twice; Sans: AddValues then RemoveValues; Xor: Or of two Sans) return a strictly ascending duplicate-free set whose members are exactly the intersection / union / difference / symmetric difference up to rank-equivalence, for every pair of sets and every total-preorder collator; C15_step_refines (they refine the executable spec the driver applies to the real observations); C15_same_operand (A op A). Tied to /repo by translation as well: And, Or, Sans, Xor and MakeFromSequence are re-translated from set.go on every run (Generated/LoopsSet.lean; which collator the result is made with is read off the source) and Tie.setAnd_tie / setOr_tie / setSans_tie / setXor_tie prove them equal to the SetM functions these theorems are about. Operand immutability and result independence are runtime aliasing facts checked dynamically by the harness probes.",
    level_note="In the model operands are values, so 'operands unchanged' is by construction; the storage-independence half of the property is validated by the harness's mutate-and-reread probes (aft_a, aft_b, indep fields), not proved.",
)

def assoc_key(l):
    return (l.get('k'), l.get('ty'), l.get('op'), l.get('out'), size_class(len(l.get('pre', []))), size_class(len(l.get('vs', []))),
            l.get('rk', ''), l.get('alias', ''),
            'present' if l.get('a') and any(p[0] == l['a'][0] for p in l.get('pre', [])) else 'absent' if l.get('a') else '')

PROPS['C14'] = dict(
    id='C14', modules=['CollectionModel.Props.C14'], key=assoc_key, nontrivial=lambda l: l.get('op') != 'make' or len(l.get('ps', [])) > 1,
    rule="cases = single Map calls (contents before sorted by key, operation, result, contents after): every operation with every "
         "present and absent key from states built over ordered subsets of the universe through all three constructors, key "
         "sequences with duplicates and absent keys, constructors with repeated keys, random histories; key types string, int, "
         "rune, any; distinct = distinct (key type, operation, outcome, size classes, key present/absent)",
    exhaustive_subspaces="all single steps from every ordered subset of a 3-key (quick) / 4-key (thorough) universe",
    level_text="Lean 4 theorems C14_set / C14_remove / C14_removeValues (reading after SetValue / RemoveValue(s) equals the abstract Go map k -> lookup, absent keys read and remove as zero, a key requested twice reads zero the second time), C14_make_last_wins (constructors: the last association wins, keys distinct), C14_step_nodup / C14_history_nodup (keys stay distinct under every call of every history), C14_views (array view, iteration and key list enumerate exactly the associations of the abstract map, each once). Tied to /repo by the differential run (finite-map equality, unordered views compared as permutations) and the executable spec mapAllowed. C14_step_refines: every call of the Map model is accepted by the executable specification mapAllowed that also judges the real observations.",
    level_note="A Go map is modelled as an association list with distinct keys in unspecified order; key identity is Go == on canonical ids. The executable spec mapAllowed is written against lookup, independently of mset/mremove; its agreement with the model on every line is part of the correspondence run.",
)

PROPS['C03'] = dict(
    id='C03', modules=['CollectionModel.Props.C03', 'CollectionModel.Props.C03Refine'], key=assoc_key, nontrivial=lambda l: l.get('op') != 'make' or len(l.get('ps', [])) > 1,
    rule="cases = single Catalog calls (associations in order + observable key index GetValue(k) for every universe key, before "
         "and after): every operation with every present/absent key from states over ordered subsets, bulk key sequences, "
         "constructors with repeated keys, sort (default and custom ranker) / reverse / shuffle, random histories; key types "
         "string, int, rune, float64, any and *int (distinct pointers with equal content); values repeating across keys",
    exhaustive_subspaces="all single steps from every ordered subset of a 3-key (quick) / 4-key (thorough) universe per key type",
    level_text="Lean 4 theorems over the two-component model (association list + key index as separate structures, updated as catalog.go updates them): C03_set (new key appended, existing key replaced in place, invariant kept), C03_remove / C03_removeValues (exactly that association deleted, value-or-zero returned, located by key), C03_views_agree, C03_reorder (sort/reverse/shuffle permute only; mapping unchanged), C03_step_inv / C03_history_inv (list and key index describe the same associations with distinct keys after EVERY call of EVERY history), C03_step_refines (every call of the model, for every catalog satisfying the invariant, every operation and every total-preorder ranker, is accepted by the executable specification catAllowed – the same function that judges the real observations). Tied to /repo by the differential run and the executable spec catAllowed + observable-coherence check.",
    level_note="The private key index is observed through GetValue on every universe key. Association objects shared between list and index are modelled by updating both components. Sampled correspondence.",
)

PROPS['C16'] = dict(
    trusted=["T3L: the loop translator verif/extract/loops.go with its binding tables and the Go-semantics kit Model/GoSem.lean (w64/u64 wrap-around, truncating division, memory of arrays with bounds-checked slices, copy as memmove, make failing beyond the int range): the Tie/Loops*.lean theorems are about the translation; that the translation means what the Go compiler means is trusted"],
    id='C16', modules=['CollectionModel.Props.C16', 'CollectionModel.Tie.LoopsList'], key=lambda l: (l.get('k'), l.get('op'), l.get('out'), size_class(len(l.get('ps', l.get('vs', [])))), size_class(len(l.get('qs', l.get('ws', [])))), l.get('alias', ''), size_class(len(l.get('post', [])))),
    nontrivial=lambda l: len(l.get('ps', l.get('vs', []))) + len(l.get('qs', l.get('ws', []))) > 0,
    rule="cases = one Merge / Extract / Concatenate call on freshly built operands with purity probes (operands re-read after "
         "the call, result and operands mutated afterwards and the other side re-read): Merge over pairs of catalogs whose keys "
         "are ordered subsets of a 4-key universe (quick: every 7th of 4225 pairs + all aliased), Extract over 65 catalogs x 9 key "
         "sequences (present, absent, repeated, own keys, zero values under present keys), Concatenate over pairs of lists over a "
         "3-value alphabet up to length 4 (quick: every 23rd of 14641 + all aliased), random larger cases",
    exhaustive_subspaces="thorough tier: all 4225 catalog pairs for Merge, all 14641 list pairs for Concatenate",
    level_text="Lean 4 theorems C16_concatenate (a ++ b), C16_merge (a's keys in a's order then b's new keys in b's order, b's value wins, invariant holds), C16_extract (in request order exactly the requested associations the catalog contains, nothing for an absent key), C16_merge_same (aliased operands). Purity (operands unchanged, no shared mutable state) is by construction in the value model and is validated on the real code by the harness probes.",
    level_note="Purity/aliasing is a runtime storage fact checked dynamically (aft_a / aft_b / indep / stale fields), not proved.",
)

def coll_key(l):
    def shape(v, d=0):
        if not isinstance(v, dict): return '?'
        t = v.get('t')
        if t in ('arr', 'coll'):
            return t[0] + (v.get('k', '')[:2]) + '(' + ','.join(sorted(set(shape(x, d + 1) for x in v.get('xs', [])[:3]))) + ')' if d < 1 else t[0]
        if t == 'gomap': return 'm'
        if t == 'assoc': return 'as'
        return t
    if l.get('k') == 'collcyc':
        return ('cyc', l.get('shape'), l.get('max'))
    return (l.get('k'), shape(l.get('a')), shape(l.get('b')), (l.get('rab') or {}).get('r'), (l.get('rab') or {}).get('out'),
            l.get('copy', False), l.get('mut', False), l.get('nest'), l.get('max'))

COLL_RULE = ("cases = one ordered pair (or triple) of values, with RankValues and CompareValues asked in both orders, on each value "
             "with itself, and again on independently rebuilt copies with a fresh collator – all on ONE collator reused for the whole "
             "run: every pair of boundary values of every primitive kind (bool, byte, unsigned and signed widths, rune, float incl. "
             "+-0, +-Inf, NaN, subnormals, complex incl. signed zeros, strings incl. non-UTF-8, nil), values nested to depth 3 over "
             "Go slices and maps, Arrays, Lists, Sets, Stacks, Queues, Catalogs, Maps and associations, rebuilt copies, single-point "
             "mutations, random and related triples, homogeneously typed Go containers, nests around the depth limit for maxima "
             "0..3 and 16, and six self-containing shapes; distinct = distinct (line kind, value shapes, result, copy/mutation flag, nest, maximum)")

PROPS['C07'] = dict(
    id='C07', modules=['CollectionModel.Props.C07'], key=coll_key, nontrivial=lambda l: True, rule=COLL_RULE,
    exhaustive_subspaces="thorough tier: all pairs of the ~110 boundary leaves (quick: all same-kind pairs, every third cross-kind pair)",
    level_text="Lean 4 theorems on the universe U (every primitive kind incl. NaN and signed zeros, Go slices, Arrays, Lists, Sets, Stacks, Queues, Catalogs, associations, nested without bound; Go maps and complex numbers excluded): C07_rank_canonical (whenever the fuel/depth-bounded model of rankValues – type-name arm, kind dispatch, swap-and-flip rankArrays, association getters – returns, it returns the comparison of canonical images, for every fuel, depth and maximum), hence C07_refl, C07_mirror, C07_trans, C07_total_preorder; C07_natural, C07_undef_first, C07_prefix_first, C07_collator_unchanged. Negative results: C07_counterexample_complex / C07_full_statement_fails (the full statement is false of model and code: recorded finding). Tied to /repo by the differential run over the whole universe incl. Go maps, complex numbers, depth panics and cyclic values (the model agrees with the code on every generated line).",
    level_note="PARTIAL: order laws for Go maps (rankMaps sorts keys with the sorter and the ranker itself) are modelled and correspondence-checked but not proved; complex numbers violate transitivity (known finding). Reflection is replaced by constructor tags; integer widths are canonical (one Go type per type name); termination/fuel sufficiency of the model is checked by the run (no hang lines), not proved.",
)

PROPS['C08'] = dict(
    id='C08', modules=['CollectionModel.Props.C08', 'CollectionModel.Tie.Facts'], key=coll_key, nontrivial=lambda l: True, rule=COLL_RULE,
    exhaustive_subspaces="as C07",
    level_text="Lean 4 theorems on the universe U: C08_agrees_with_rank (CompareValues true exactly when RankValues Equal), C08_structural (true exactly when the canonical images coincide: rebuilt copies equal, any single changed part unequal), C08_refl / C08_symm / C08_trans, C08_deep_panics (a value nested deeper than the limit ends in the depth-limit panic, never a hang, for every maximum), C08_collator_reusable (calls leave the collator as found, also after a panic). Negative: C08_counterexample_complex (recorded finding). Tied to /repo by the differential run incl. self-containing collections (cycle length 1..3, alone or among siblings) and call sequences on one collator.",
    level_note="PARTIAL as C07 (Go maps by correspondence only, complex recorded). Process-level crashes (stack exhaustion) are outside the model; the run executes the cyclic cases for real.",
)

def cdcn_key(l):
    p = l.get('parse', {})
    toks = [t.get('tt') for t in l.get('toks', [])]
    return (l.get('gen'), p.get('out'), p.get('pc'), p.get('tt'), min(len(toks), 12), tuple(sorted(set(toks)))[:8])

PROPS['C12'] = dict(
    id='C12', modules=['CollectionModel.Props.C12', 'CollectionModel.Props.C12Total', 'CollectionModel.Tie.Facts', 'CollectionModel.Tie.Scanner', 'CollectionModel.Tie.QueueSync'], key=cdcn_key, nontrivial=lambda l: len(l.get('src', [])) > 0,
    timeout=dict(quick=900, thorough=3000),
    rule="cases = one ParseSource call on one source string, observed as: the real scanner's token stream (kind, length, line, "
         "column per token), strconv's verdict on every literal token, the outcome (value / located diagnostic with token kind, "
         "line, column / Go runtime error / other panic / hang by watchdog) and whether a scanner goroutine is still alive "
         "afterwards: 13 valid documents with every prefix, every single-character deletion, substitution and insertion, an "
         "illegal character injected at every token boundary of the multi-line documents (reported line/column checked), random "
         "sequences of valid and invalid fragments (tokens in invalid orders), item kinds against every context, long tails "
         "after the error point, random byte strings; non-trivial = non-empty source",
    exhaustive_subspaces="every prefix and every single-character deletion of the 13 documents; thorough: also every substitution/insertion by 4 characters at every position",
    level_text="Lean 4 theorems for EVERY source string: C12_scan_shape (the token stream ends with exactly one EOF, no EOF before it, an error token only right before it – so the parser can never read past the end), C12_token_positions (each token carries the line and column obtained by advancing over exactly the runes before it: the diagnostics' positions), C12_token_line_in_range (the diagnostic formatter's source-line lookup cannot go out of range). The parser model (every parse* method with the push-back stack of capacity 4, the named-return-token convention, literal conversion errors as diagnostics, checked context assertion) is executable and agrees with the real parser on every generated input incl. the exact diagnostic token kind, line and column; and its totality is PROVED (Props/C12Total.lean): C12_parse_total / C12_parse_total_statement_holds – for every source string, every literal-conversion oracle and every push-back capacity >= 4 the parser model returns a value or the located diagnostic: it never dereferences a missing token, never looks up a source line out of range, never overflows the push-back stack (C12_pushback_bounded: at most 3 tokens are ever pushed back), never reads past the EOF sentinel and never exhausts its fuel (8 per token + 16: it terminates). Proof: an invariant on the virtual token stream stack ++ rest (a failed alternative restores it exactly, a successful one consumes a prefix) carried through all 15 mutually recursive parse methods by induction on the fuel; the scanner's guarantees (C12_scan_shape, C12_token_line_in_range, scanLoop_types) establish it initially.",
    level_note="Parser totality is proved on the model; that the model is the code is the correspondence run. Go stack exhaustion at extreme nesting, regexp running time and the goroutine scheduler are outside the model (the run checks for a leaked scanner goroutine and hangs with a watchdog). strconv and regexp are external; the recognisers are hand-written and compared with the real scanner on every line.",
)

PROPS['C11'] = dict(
    id='C11', modules=['CollectionModel.Props.C11', 'CollectionModel.Props.C11Complete', 'CollectionModel.Props.C11Lex', 'CollectionModel.Tie.Scanner', 'CollectionModel.Tie.QueueSync'], key=lambda l: (l.get('gen'), (l.get('parse') or {}).get('out'), min(l.get('size', 0), 12), tuple(sorted(set(t.get('tt') for t in l.get('toks', []))))[:9], min(len(l.get('toks', [])), 40) // 4),
    nontrivial=lambda l: True, timeout=dict(quick=900, thorough=3000),
    rule="cases = one sentence derived from the grammar of Syntax.cdsn by a recursive generator (inline and multi-line item "
         "lists, the empty forms, every literal alternative incl. boundary literals, all seven contexts, nesting to depth 4, "
         "item lists longer than the scanner queue and stack capacities) together with its intended meaning computed "
         "independently with strconv and the collection classes; the real ParseSource result must equal it; every tenth sentence "
         "is re-parsed 9 times concurrently under GOMAXPROCS 1, 2, 8; plus literals that cannot be represented exactly (must be rejected)",
    exhaustive_subspaces="every literal alternative of the generator's table as a value (inline and multi-line) and as a key; the empty forms for all seven contexts",
    level_text="Lean 4 theorems: C11_literal_exact / C11_parseIntrinsic_exact (an accepted literal is exactly the standard conversion of the token consumed; a conversion error can only end in a diagnostic, never in a value), C11_deterministic (the outcome is a function of the source: scanner and parser communicate through one single-producer single-consumer FIFO), C11_scan_ordinal / C11_scan_integer / C11_scan_hex (the lexical rules for ALL digit strings), keyword/delimiter tokenisation, and the negative result C11_counterexample_rune_quote. Completeness is PROVED at token level (Props/C11Complete.lean, Lemmas/ParseComplete*.lean): C11_sentence_accepted – for every syntax tree of the rule definitions of Syntax.cdsn (Collection EOL* EOF; Items = Values | Associations, inline, multi-line or empty; Association = Intrinsic ':' Value; Value = Intrinsic | Collection; nested without bound) whose tokens are of the kinds the rules name, whose literals the conversion accepts and whose contexts fit their items, whatever the token positions, the parser model returns exactly the collection the tree denotes (by structural recursion over the tree through all 15 parse methods: cValue, cItems, the four loops, cAssoc). What remains unproved is the lexical level for strings, runes, floats and complex numbers (which character strings scan to which tokens): held by the correspondence run over grammar-directed sentences.",
    level_note="PARTIAL: parser completeness by correspondence only. strconv is the oracle for literal meaning (external). The grammar's undefined ESCAPE token is read as the scanner's escape set.",
)

PROPS['C10'] = dict(
    id='C10', modules=['CollectionModel.Props.C10', 'CollectionModel.Props.C10Round', 'CollectionModel.Tie.Facts', 'CollectionModel.Tie.Scanner'],
    key=lambda l: (l.get('k'), l.get('gen'), l.get('fmt'), (l.get('parse') or {}).get('out'), l.get('canon'), l.get('depth'), l.get('shape'), l.get('status'),
                   min(len(l.get('leaves') or []), 12), min(len(l.get('text') or []) // 40, 10), tuple(sorted(set(x[0].get('t') for x in (l.get('leaves') or []))))),
    nontrivial=lambda l: True, timeout=dict(quick=900, thorough=3000),
    rule="cases = one value of the canonical universe pushed through the real FormatValue -> ParseSource -> CompareValues -> "
         "FormatValue chain (value, text, token stream, strconv verdicts, parsed value, second text, equality), or one call "
         "sequence on a single notation with failing calls in between, or one self-containing collection formatted in a "
         "sacrificial child process: every float magnitude class and exponent form, subnormals, signed zero, all 64-bit integer "
         "boundaries, every rune class, strings with escapes and invalid UTF-8, empty/singleton/multi-item collections of all seven "
         "kinds nested to depth 0..4 with sizes 0..40 (queues within capacity), narrower numeric widths (text fixpoint only), nests "
         "of depth 1..11 around the limit of 8, 30 call sequences, 5 cyclic shapes",
    exhaustive_subspaces="every listed boundary leaf as the only item and as a pair of items of a List",
    level_text="Lean 4 theorems: C10_roundtrip (Props/C10Round.lean, Lemmas/ScanFormat.lean, Lemmas/RoundTrip*.lean) – THE ROUND TRIP IS PROVED on the composition of the three executable models: for every value of the canonical universe (Canon: Arrays, Lists, Queues, Stacks of values, Sets as MakeFromSequence orders them, Catalogs and Maps with distinct leaf keys, every collection above the elision depth; nested and wide without bound) parse(scan(format v)) = v, with the fuel and push-back capacity the driver uses; C10_text_fixpoint (formatting what was parsed back gives the same text). The proof shows that the scanner model reads the formatter model's text as the tokens of a syntax tree whose meaning is v (rt_all: brackets, contexts, indentation, the colon-space of associations, inline singletons, multi-line sequences, the empty forms) and then applies C11_sentence_accepted. The externals (strconv) enter through the explicit hypothesis LeafLex (a leaf's text is one literal token before ']' , newline or ':' and converts back to the leaf), which the driver checks on EVERY leaf text the real formatter produced; a complete instance (booleans) shows the hypotheses satisfiable. Also C10_format_total (termination with fuel 3*size+1 for EVERY value), C10_elides_at_limit, C10_format_pure. Tied to /repo by the differential run (formatter model = real text, scanner model = real tokens, parser model = real parsed value, on every generated value), by Tie.scanner_patterns_tie / scanner_order_tie (the token regular expressions and their order re-extracted from scanner.go equal the texts the recognisers were written from) and by the run-time comparison of every recogniser with a leftmost-first matcher on the regenerated pattern trees.",
    level_note="The theorem is about the models; the tie is sampled. strconv (FormatFloat/Quote/QuoteRune/ParseFloat/Unquote) is external: LeafLex is a hypothesis checked per shipped leaf. Narrower numeric widths are outside Canon's leaf contract (recorded finding). Texts of unordered Maps are compared as multisets of lines. A fatal stack overflow cannot be modelled; the cyclic cases run in a child process.",
)

def q_key(l):
    if l.get('k') != 'qtrace':
        return (l.get('k'), l.get('via'), min(l.get('n', 0), 40), l.get('out'))
    p = l.get('prog', {})
    evs = l.get('evs', [])
    shape = tuple((e[0], e[1]) for e in evs if e[0] != 'call')[:40]
    return (p.get('cap'), len(p.get('producers', [])), sum(len(x) for x in p.get('producers', [])), p.get('consumers'), p.get('observers'),
            p.get('removeAll'), p.get('closeEarly'), l.get('status'), hash(shape))

Q_RULE = ("cases = one run of one small client program on the real queue under the controlled scheduler (hooks at every Lock, "
          "send, receive and close; exactly one goroutine runs between grants; channel operations are granted only when they can "
          "proceed), recorded as the sequence of atomic steps with every call's result: programs = 1-3 producers x 1-3 values, "
          "1-3 consumers reading until ok=false, capacity 1-3, a closer that waits for the producers, optional size/array/empty "
          "observers, optional RemoveAll caller, and a deliberately early closer; schedules = depth-first enumeration by replay "
          "(budget per program: 60 runs quick / 4000 thorough; 'exhausted' counts the programs fully enumerated) plus PRNG "
          "schedules; distinct = distinct (program shape, final status, sequence of (step kind, thread))")

PROPS['C04'] = dict(
    id='C04', modules=['CollectionModel.Props.C04', 'CollectionModel.Tie.QueueSync'], stress='C04stress', key=q_key, nontrivial=lambda l: l.get('k') == 'qtrace' and len(l.get('evs', [])) > 4,
    rule=Q_RULE, timeout=dict(quick=900, thorough=6000),
    exhaustive_subspaces="all schedules of the programs whose DFS finished within the budget (number reported in the qmeta line of the run)",
    level_text="Lean 4 theorems over a transition system at the granularity of the synchronisation operations with an ARBITRARY thread list: C04_inv_reachable (|values| = tokens + consumers holding a token + producers that appended but not sent; tokens <= capacity; appended = removed ++ values – in every reachable state of every interleaving), C04_pop_never_fails, C04_fifo (one FIFO order: each RemoveHead returns the oldest value not yet removed; nothing invented, lost, duplicated, reordered), C04_closed_drained (ok=false only when closed and no token left), C04_backpressure, C04_observers (GetSize <= capacity; AsArray = added-not-removed in FIFO order), C04_linearizable (each step acts on the list as the atomic FIFO spec at a linearisation point inside the call). Hypotheses = client obligations: no AddValue overlapping CloseQueue, RemoveAll only when no AddValue/RemoveHead is in flight; outside them the code violates the property (C04_counterexample_removeall, C04_counterexample_close_during_add: recorded findings). Tie: every recorded real trace is replayed step by step on the model (trace inclusion).",
    level_note="PARTIAL: data-race freedom is a Go-memory-model property outside the model (lock-set reading only; race-detector stress is supporting evidence). The Go runtime's channel is assumed textbook. 'Withheld' scheduling cannot exhibit goroutines parked on a replaced channel (D05a).",
)

PROPS['C05'] = dict(
    id='C05', modules=['CollectionModel.Props.C05', 'CollectionModel.Props.C05Term', 'CollectionModel.Tie.Facts', 'CollectionModel.Tie.QueueSync'], key=q_key, nontrivial=lambda l: True, rule=Q_RULE + "; plus the three constructor entry points (MakeFromArray, MakeFromSequence, a parsed Queue literal) for every N in 0..4*capacity+1 under a watchdog",
    timeout=dict(quick=900, thorough=6000),
    exhaustive_subspaces="constructors: every N in 0..65 through all three entry points; schedules as C04",
    level_text="Lean 4 theorems (any number of threads, every reachable state): C05_recv_enabled_iff / C05_send_enabled_iff (a blocked call can proceed exactly when the queue's state permits), C05_no_mutual_block (a consumer blocked on empty and a producer blocked on full never coexist), C05_recv_after_send / C05_recv_after_close / C05_send_after_recv (the step that changes the state enables the blocked call: no lost wake-up), C05_ctor_returns (constructing from N values never blocks once capacity >= N, for every N). Negative: C05_counterexample_removeall_breaks_accounting. Program level (Props/C05Term.lean), for any capacity >= 1, any producers with any value lists, any number >= 1 of consumers and a closer, under EVERY schedule: C05_step_decreases (every step of every goroutine strictly decreases a measure), C05_run_bounded (no run is longer than the initial measure: no infinite schedule), C05_no_deadlock (in every reachable state either every goroutine has finished or some goroutine can step: no lost wake-up at program level), C05_final_consumed (then the queue is empty, holds no token, and popped = appended in order), C05_program_terminates (the three together from a program's initial state), C05_steps_are_queue_steps (every program step is one or two events of the queue transition system, so the program model adds nothing to the protocol).",
    level_note="PARTIAL: real wake-ups belong to the Go runtime (textbook channel assumed: a receive parked on an empty channel proceeds when a token is sent or the channel is closed; the model's 'enabled' is the channel's own condition); stranding on a replaced channel after RemoveAll is a recorded finding that withheld scheduling cannot exhibit directly (its visible symptom here: a closed queue re-opened by RemoveAll blocks consumers for ever).",
)

PROPS['C06'] = dict(
    id='C06', modules=['CollectionModel.Props.C06', 'CollectionModel.Props.C06Split', 'CollectionModel.Props.C06Term', 'CollectionModel.Props.C06TermSplit', 'CollectionModel.Props.C06TermJoin', 'CollectionModel.Tie.QueueSync'], stress='C06stress',
    key=lambda l: (l.get('k'), l.get('op'), len(l.get('input', [])), l.get('fan'), l.get('cap'), l.get('status'), l.get('mode'), l.get('steps'), l.get('elem')),
    nontrivial=lambda l: l.get('k') == 'pipe', timeout=dict(quick=900, thorough=6000),
    rule="cases = one run of {feeder, library helper goroutine(s), one reader per output} for Fork, Split or Split+Join on the real "
         "queues under the controlled scheduler (helpers are adopted at their first synchronisation point; the caller's wait "
         "group reports their exit): stream lengths 0..4, fan-out 2..3, capacity 1..2, schedules enumerated depth-first by "
         "replay (budget 25 / 1500 per program) plus PRNG schedules, plus long random streams (17..100 values, fan-out up to 8); "
         "judged: termination, wait group back to zero, every reader saw closure, nothing after closure, exact per-output sequences; "
         "distinct = distinct (operation, length, fan-out, capacity, status, mode, number of steps)",
    exhaustive_subspaces="programs whose schedule DFS finished within the budget (count in the qmeta line)",
    level_text="Lean 4 theorems over networks of atomic bounded FIFO queues (the abstraction C04 justifies: one writer, one reader per queue), for EVERY input stream, fan-out n >= 1, capacity and interleaving of feeder, helper goroutine(s) and readers. Fork: C06_fork_prefix_inv (read_k ++ buffered_k ++ in-flight_k ++ input queue ++ unfed = input for every output k, in every reachable state), C06_fork_final, C06_fork_no_late. Split: C06_split_inv (output k has received exactly the values at positions = k mod n of what was distributed so far, in order; distributed ++ in-flight ++ queued ++ unfed = input; the iterator position is |distributed| mod n), C06_split_final (reader k ends with splitSpec n k input: every value to exactly one output, round robin), C06_split_no_late. Split followed by Join: C06_splitjoin_inv, C06_splitjoin_final (the reader of the joined queue ends with exactly the input, in order), C06_join_stops_only_when_empty (when Join stops at the first closed and drained input no other input holds a value and Split has distributed everything: nothing is lost), C06_join_no_late. Termination is PROVED for all three networks (Props/C06Term*.lean), for every input, fan-out >= 1, capacity >= 1 and interleaving, with readers that read until ok=false: C06_fork/split/splitjoin_step_decreases (a potential counting the remaining feeds, receives, sends, reads and closes strictly decreases with every atomic step), _run_bounded (no run is longer than (2n+2)(|input|+1), 4|input|+2n+2, 6|input|+n+5 steps), _no_deadlock (every reachable non-final state has an enabled step: a full queue has a reader, an empty one a writer or a close; for Split->Join the round-robin positions agree, so Join never waits on an empty queue while Split waits on a full one), _terminates (every maximal run ends with the helper goroutine(s) at group.Done(), every queue closed and drained, every reader at ok=false holding exactly the specified stream). That the caller's wait group was incremented before the goroutine started (group.Add outside the go statement) is a fact about the Go code checked by the run only.",
    level_note="The networks model each queue as an atomic bounded FIFO (justified by C04/C05) and the helper goroutines' iterator loops as an explicit turn counter; the theorems are about these models, tied to the code by the controlled-scheduler exploration (DFS by replay) and free-running runs. Registration of the helper with the caller's wait group before the goroutine starts, and real goroutine scheduling, are Go runtime facts observed by the harness.",
)

PROPS['C20'] = dict(
    id='C20', modules=['CollectionModel.Props.C20', 'CollectionModel.Tie.Facade'],
    key=lambda l: (l.get('ctor'), l.get('form'), l.get('ty'), size_class(l.get('n', 0)), l.get('npos'), (l.get('mod') or {}).get('out')),
    nontrivial=lambda l: l.get('form') != 'none',
    rule="cases = one call of a module-level constructor next to the class-level constructor (and, for source forms, "
         "ParseSource) on the same data: {Array, List, Set, Stack, Queue} x {Go array, sequence, CDCN source, size/capacity "
         "(uint and int), collator+array, none} x 7 element types, {Catalog, Map} x {Go array of associations, Go map, "
         "sequence, source, none} x 9 key/value type pairs, Association(k, v) for the same pairs (identical and interface "
         "types included), each with the notation argument absent / first / last, contents generated from the seed with "
         "duplicates, sizes 0,1,2,3,15,16,17,20 (quick) / every size 0..20 (thorough); distinct = distinct (constructor, form, "
         "type, size class, notation position, outcome)",
    exhaustive_subspaces="the full cross product constructor x form x type x notation position x size 0..20 (thorough tier)",
    level_text="Lean 4 theorems about the dispatch model of Module.go, generic in the element type and for contents of EVERY size: "
               "collect_with_notations (notation arguments before/after, in any number, do not change the slots), C20_array / C20_list / "
               "C20_set / C20_stack / C20_queue / C20_catalog / C20_map (each documented form builds exactly what the class constructor "
               "builds from the same data: kind, contents, order, capacity; the Array fill loop, the list-then-MakeFromSequence route of "
               "Stack/Queue and the pairwise SetValue loops are proved equal to the class constructors), set_source_is_parse / "
               "catalog_source_is_parse / map_source_is_parse and the items clauses of C20_list/stack/queue/array (the source form has the "
               "contents and order of the parsed collection), C20_association (key k, value v for disjoint, overlapping and identical "
               "types, notation anywhere). Tie: every call of the matrix is run on the real code and on the compiled model; the "
               "executable spec compares module result, class result and parse result.",
    level_note="The dynamic type switch of Go (which case an argument takes) is an input of the model: the harness reports the type "
               "assertions' results for Association and chooses the Arg constructor by the documented form for the others. The parser "
               "is represented by its result (its own properties are C11/C12).",
    assumptions=["default capacities are read from the classes at run time", "ParseSource is represented by the collection it returns"],
)

def heap_key(l):
    ops = l.get('ops', [])
    kinds = l.get('kinds', [])
    def cls(o):
        x = o.get('x', o.get('a'))
        return (o.get('op'), o.get('kind') or (kinds[x] if isinstance(x, int) and x < len(kinds) else None), o.get('how'))
    return (l.get('label', '').split('/n')[0], tuple(sorted(set(cls(o) for o in ops), key=str))[:12], size_class(len(ops)))

PROPS['C18'] = dict(
    trusted=["T3L: the loop translator verif/extract/loops.go with its binding tables and the Go-semantics kit Model/GoSem.lean (w64/u64 wrap-around, truncating division, memory of arrays with bounds-checked slices, copy as memmove, make failing beyond the int range): the Tie/Loops*.lean theorems are about the translation; that the translation means what the Go compiler means is trusted"],
    id='C18', modules=['CollectionModel.Props.C18', 'CollectionModel.Tie.LoopsArray'], key=heap_key,
    nontrivial=lambda l: any(o.get('op') in ('goWrite', 'goPairWrite', 'goMapSet', 'goMapDelete', 'setValue', 'setValues', 'appendValues',
                                             'insertValues', 'addValues', 'removeValues', 'reverse', 'sort', 'putValue', 'dropKey') for o in l.get('ops', [])),
    rule="cases = scripts over a table of handles (client Go arrays / association arrays / Go maps, the seven collection kinds, returned "
         "sequences); after EVERY step the contents seen through EVERY handle are recorded. Systematic part: for every kind, sizes 0..4: "
         "construct from a Go array (or association array, or Go map), write the argument at every position (element assignment, "
         "association object SetValue, slot replacement, map set/delete), then every mutator of the collection (bulk ones with the "
         "collection itself as operand), then the argument again; for every getter and class function (AsArray, GetValues, GetKeys, "
         "GetValues(keys), RemoveValues(range), RemoveValues(keys), Concatenate incl. empty operands, And/Or/Sans/Xor incl. empty "
         "operands, Merge incl. empty, Extract, MakeFromSequence into every kind): mutate the result at every position / with every "
         "mutator, then the collection with every mutator; every bulk operation (AppendValues, InsertValues, SetValues, AddValues, "
         "RemoveValues) with the receiver itself, a full view, a partial view and a detached copy as operand, with a twin script "
         "passing a separate copy. Random part: 300 (quick) / 4000 (thorough) random scripts of 6..20 steps mixing everything with "
         "shared handles. distinct = distinct (script family, set of (operation, kind) used, length class)",
    exhaustive_subspaces="the systematic part enumerates every (kind, entry point, size 0..4, position) combination named in the property's quantifier",
    level_text="Lean 4 theorems about a storage model (heap of backing arrays / Go maps + handle table; every API entry point written as "
               "the allocations, copies, in-place writes and pointer updates of its Go body): C18_step_wf (handles own pairwise distinct "
               "existing cells, invariant of every call), C18_step_isolation (a call changes only what its receiver shows and creates "
               "its result; every other handle shows the same contents), C18_history_isolation (the same over every script of any "
               "length, any number of objects, any sizes), C18_constructor_fresh / C18_result_fresh / C18_range_results_fresh (every "
               "constructor and every getter/class function returns storage that did not exist before the call), C18_self_operand "
               "(AppendValues/InsertValues/SetValues/AddValues/RemoveValues with the receiver as operand = the same call with a "
               "separate copy). Tie: every script is executed on the real objects and on the compiled model; all handles are compared "
               "after every step; the isolation clause and the twin-script clause are judged on the real observations.",
    level_note="The storage programs are hand-written from the Go bodies at the granularity alloc / snapshot / in-place write / "
               "retarget; what each call computes is reused from the value-level models of C01/C02/C03/C14. Integer elements only. "
               "Association objects are modelled by value (the catalog's copies made by fix 1dc6409). Third round: array.go's AsArray, GetValues and the class constructors Make / MakeFromArray are translated onto the memory of arrays, and Tie.arrayAsArray_tie / arrayGetValues_tie / arrayClassMakeFromArray_tie show that what they hand out is a NEW array (its id did not exist before) with the right contents, every existing array unchanged.",
    assumptions=["element objects that are themselves mutable reference types (nested collections as elements) are shared by design of Go interfaces and not claimed"],
)

PROPS['C19'] = dict(
    id='C19', modules=['CollectionModel.Props.C19', 'CollectionModel.Tie.Sharing'], stress='C19stress',
    key=lambda l: (l.get('k'), tuple(l.get('families', [])), l.get('g'), l.get('type', 0) % 4, l.get('same')),
    nontrivial=lambda l: l.get('k') in ('indep', 'registry'),
    timeout=dict(quick=1800, thorough=7200),
    rule="cases = (a) first use of 48 fresh element types: 16 goroutines released together call all eleven generic class "
         "accessors (Array, List, Set, Stack, Queue, Catalog, Map, Association, Collator, Sorter, Iterator) for the same new "
         "type, the classes they got (and a later call) are compared by identity; (b) every pair of the operation families "
         "build, mutate, search, sort (collection's own), sort (default sorter), rank/compare (composite values, own collator), "
         "format (String() of collections of one type), format (own notation), parse, iterate, set algebra, each goroutine on "
         "instances it created itself, in 2, 4, 8 and 16 goroutines, primitive and composite ([]int) element types, run "
         "sequentially first and then concurrently, 3 (quick) / 25 (thorough) repetitions, results compared; (c) instances related "
         "by a class function (the set returned by And and its first operand) used from two goroutines. Everything runs in a binary "
         "built with the race detector: every report is a violation. distinct = distinct (kind, family pair, goroutines, outcome)",
    exhaustive_subspaces="all 66 unordered pairs of the 11 operation families x {2,4,8,16} goroutines; all 11 accessors x 48 fresh types",
    level_text="Lean 4 theorems, for any number of goroutines, actions and every schedule: C19_commute (two well-behaved actions "
               "with no write/access conflict commute), C19_schedule_independent (every interleaving of goroutines whose actions "
               "are pairwise independent across goroutines ends in the memory of running them one after another; results are "
               "locations too), C19_owned_independent (actions confined to the locations their own instance owns plus read-only "
               "shared locations are independent), C19_registry_stable / C19_registry_one_class (an accessor that looks up and "
               "inserts in one critical section returns one class per type in every schedule). The hypothesis 'no shared location "
               "is written' is discharged for THIS code by Tie.sharing_safe / registries_guarded / sharing_covers: `decide` over the "
               "sharing table that /verif/extract regenerates from the Go source on every run (package-level variables, objects "
               "held by class objects and the methods invoked through them, agents of an operand handed to a new instance, with "
               "a transitive may-write summary of every method).",
    level_note="PARTIAL: the Go memory model is replaced by footprint disjointness; the extractor's may-write and lock analysis "
               "is syntactic (assignments, inc/dec, index writes, delete/clear/copy, pointer-receiver calls on by-value foreign "
               "fields, calls through the receiver and name-resolved calls through its fields; Lock before first / Unlock after "
               "last access). What the table cannot see is left to the race-detector matrix, which only observes the schedules "
               "that happen to run.",
    assumptions=["sync.Mutex and the Go runtime are correct", "user-supplied rankers and collators are outside the table"],
)
