/- the queue's accounting invariant is preserved by every step -/
import CollectionModel.Model.Queue
namespace CM
namespace Q

variable {α : Type} [DecidableEq α]

theorem countP_set {β : Type} (p : β → Bool) (l : List β) (i : Nat) (a b : β) (h : l[i]? = some a) :
    (l.set i b).countP p + (if p a then 1 else 0) = l.countP p + (if p b then 1 else 0) := by
  induction l generalizing i with
  | nil => simp at h
  | cons x xs ih =>
    cases i with
    | zero =>
      simp at h; subst h
      simp [List.countP_cons]; omega
    | succ j =>
      simp at h
      have := ih j h
      simp [List.countP_cons]; omega

/-- RemoveAll is safe only when no other call is in the middle of the token protocol -/
def quiescent (s : St α) : Prop := cnt isClaimed s = 0 ∧ cnt isSending s = 0

def Ev.isRemoveAll : Ev α → Bool
  | .removeAllLock _ => true
  | _ => false

theorem cnt_setPC (p : PC α → Bool) (s : St α) (t : Nat) (a b : PC α) (h : s.threads[t]? = some a) :
    cnt p (setPC s t b) + (if p a then 1 else 0) = cnt p s + (if p b then 1 else 0) := by
  unfold cnt setPC; exact countP_set p s.threads t a b h

/-- events that a valid client cannot cause on a queue it uses correctly -/
def Ev.isSendPanic : Ev α → Bool
  | .addSendPanic _ => true
  | _ => false

theorem step_inv (s s' : St α) (e : Ev α) (hs : QInv s) (hq : e.isRemoveAll = true → quiescent s)
    (hp : e.isSendPanic = false) (h : step s e = some s') : QInv s' := by
  obtain ⟨h1, h2, h3⟩ := hs
  cases e with
  | call t pc =>
    simp only [step] at h
    split at h
    · rename_i hc
      cases h
      have a := cnt_setPC isClaimed s t .idle pc hc.1
      have b := cnt_setPC isSending s t .idle pc hc.1
      have c1 : isClaimed pc = false := by
        cases pc <;> first | rfl | exact absurd rfl hc.2.2.2
      have c2 : isSending pc = false := by
        cases pc <;> first | rfl | exact absurd rfl hc.2.2.1
      rw [c1] at a; rw [c2] at b
      simp only [isClaimed, isSending, Bool.false_eq_true, if_false, Nat.add_zero] at a b
      refine ⟨?_, h2, h3⟩
      show s.vals.length = s.tokens + cnt isClaimed (setPC s t pc) + cnt isSending (setPC s t pc)
      omega
    · cases h
  | addLock t =>
    simp only [step] at h
    split at h
    · rename_i v hv
      cases h
      have a := cnt_setPC isClaimed s t (.addLock v) .addSend hv
      have b := cnt_setPC isSending s t (.addLock v) .addSend hv
      simp [isClaimed, isSending] at a b
      refine ⟨?_, h2, ?_⟩
      · show (s.vals ++ [v]).length = s.tokens + cnt isClaimed (setPC s t .addSend) + cnt isSending (setPC s t .addSend)
        simp; omega
      · show s.appended ++ [v] = s.popped ++ (s.vals ++ [v])
        rw [h3]; simp
    · cases h
  | addSend t =>
    simp only [step] at h
    split at h
    · rename_i hc
      cases h
      have a := cnt_setPC isClaimed s t .addSend .idle hc.1
      have b := cnt_setPC isSending s t .addSend .idle hc.1
      simp [isClaimed, isSending] at a b
      refine ⟨?_, ?_, h3⟩
      · show s.vals.length = s.tokens + 1 + cnt isClaimed (setPC s t .idle) + cnt isSending (setPC s t .idle)
        omega
      · show s.tokens + 1 ≤ s.cap
        omega
    · cases h
  | addSendPanic t => simp [Ev.isSendPanic] at hp
  | remRecv t ok =>
    simp only [step] at h
    split at h
    · rename_i hc
      cases ok with
      | true =>
        simp only [if_true] at h
        split at h
        · rename_i hpos
          cases h
          have a := cnt_setPC isClaimed s t .remRecv .remLock hc
          have b := cnt_setPC isSending s t .remRecv .remLock hc
          simp [isClaimed, isSending] at a b
          refine ⟨?_, ?_, h3⟩
          · show s.vals.length = s.tokens - 1 + cnt isClaimed (setPC s t .remLock) + cnt isSending (setPC s t .remLock)
            omega
          · show s.tokens - 1 ≤ s.cap
            omega
        · cases h
      | false =>
        simp only [Bool.false_eq_true, if_false] at h
        split at h
        · cases h
          have a := cnt_setPC isClaimed s t .remRecv .idle hc
          have b := cnt_setPC isSending s t .remRecv .idle hc
          simp [isClaimed, isSending] at a b
          refine ⟨?_, h2, h3⟩
          show s.vals.length = s.tokens + cnt isClaimed (setPC s t .idle) + cnt isSending (setPC s t .idle)
          omega
        · cases h
    · cases h
  | remLock t v =>
    simp only [step] at h
    split at h
    · rename_i hc
      split at h
      · rename_i x xs hv
        split at h
        · cases h
          have a := cnt_setPC isClaimed s t .remLock .idle hc
          have b := cnt_setPC isSending s t .remLock .idle hc
          simp [isClaimed, isSending] at a b
          refine ⟨?_, h2, ?_⟩
          · show xs.length = s.tokens + cnt isClaimed (setPC s t .idle) + cnt isSending (setPC s t .idle)
            rw [hv] at h1; simp at h1; omega
          · show s.appended = s.popped ++ [x] ++ xs
            rw [h3, hv]; simp
        · cases h
      · cases h
    · cases h
  | remLockPanic t =>
    simp only [step] at h
    split at h
    · rename_i hc
      cases h
      -- impossible under the invariant: a claimed consumer always finds a value
      have a := cnt_setPC isClaimed s t .remLock .idle hc.1
      have b := cnt_setPC isSending s t .remLock .idle hc.1
      simp [isClaimed, isSending] at a b
      rw [hc.2] at h1; simp at h1
      exfalso; omega
    · cases h
  | closeLock t =>
    simp only [step] at h
    split at h
    · rename_i hc
      cases h
      have a := cnt_setPC isClaimed s t .closeLock .idle hc.1
      have b := cnt_setPC isSending s t .closeLock .idle hc.1
      simp [isClaimed, isSending] at a b
      refine ⟨?_, h2, h3⟩
      show s.vals.length = s.tokens + cnt isClaimed (setPC s t .idle) + cnt isSending (setPC s t .idle)
      omega
    · cases h
  | closePanic t =>
    simp only [step] at h
    split at h
    · rename_i hc
      cases h
      have a := cnt_setPC isClaimed s t .closeLock .idle hc.1
      have b := cnt_setPC isSending s t .closeLock .idle hc.1
      simp [isClaimed, isSending] at a b
      refine ⟨?_, h2, h3⟩
      show s.vals.length = s.tokens + cnt isClaimed (setPC s t .idle) + cnt isSending (setPC s t .idle)
      omega
    · cases h
  | sizeLock t n =>
    simp only [step] at h
    split at h
    · rename_i hc
      cases h
      have a := cnt_setPC isClaimed s t .sizeLock .idle hc.1
      have b := cnt_setPC isSending s t .sizeLock .idle hc.1
      simp [isClaimed, isSending] at a b
      refine ⟨?_, h2, h3⟩
      show s.vals.length = s.tokens + cnt isClaimed (setPC s t .idle) + cnt isSending (setPC s t .idle)
      omega
    · cases h
  | emptyLock t bb =>
    simp only [step] at h
    split at h
    · rename_i hc
      cases h
      have a := cnt_setPC isClaimed s t .emptyLock .idle hc.1
      have b := cnt_setPC isSending s t .emptyLock .idle hc.1
      simp [isClaimed, isSending] at a b
      refine ⟨?_, h2, h3⟩
      show s.vals.length = s.tokens + cnt isClaimed (setPC s t .idle) + cnt isSending (setPC s t .idle)
      omega
    · cases h
  | arrayLock t l =>
    simp only [step] at h
    split at h
    · rename_i hc
      cases h
      have a := cnt_setPC isClaimed s t .arrayLock .idle hc.1
      have b := cnt_setPC isSending s t .arrayLock .idle hc.1
      simp [isClaimed, isSending] at a b
      refine ⟨?_, h2, h3⟩
      show s.vals.length = s.tokens + cnt isClaimed (setPC s t .idle) + cnt isSending (setPC s t .idle)
      omega
    · cases h
  | removeAllLock t =>
    simp only [step] at h
    split at h
    · rename_i hc
      cases h
      have q := hq rfl
      have a := cnt_setPC isClaimed s t .removeAllLock .idle hc
      have b := cnt_setPC isSending s t .removeAllLock .idle hc
      simp [isClaimed, isSending] at a b
      refine ⟨?_, Nat.zero_le _, ?_⟩
      · show ([] : List α).length = 0 + cnt isClaimed (setPC s t .idle) + cnt isSending (setPC s t .idle)
        rw [a, b, q.1, q.2]; rfl
      · show s.appended = s.popped ++ s.vals ++ []
        rw [h3]; simp
    · cases h

end Q
end CM
