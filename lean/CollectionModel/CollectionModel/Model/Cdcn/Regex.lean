/-
  Regular expressions as syntax trees (the subset of Go's regexp/syntax that the scanner's
  token patterns use) and a leftmost-first matcher: priorities as in a backtracking engine
  (first alternative first, greedy repetition), which is what Go's `regexp` promises for
  `Find*` ("the match that a backtracking engine would have found first").

  Generated/Scanner.lean holds the trees of the patterns as they are in cdcn/scanner.go now;
  the hand-written recognisers of Scan.lean are compared with `Re.matchLen` on these trees
  (by theorems for the simple patterns, on every scanned position of the correspondence run
  for all of them).
-/
namespace CM
namespace Cdcn

inductive Re
  | empty
  | fail
  | lit (cs : List Nat)
  | cls (ranges : List (Nat × Nat))      -- inclusive code-point ranges
  | cat (a b : Re)
  | alt (a b : Re)
  | star (r : Re)
  | plus (r : Re)
  | quest (r : Re)
  deriving Repr, DecidableEq, Inhabited

def inRanges (rs : List (Nat × Nat)) (c : Nat) : Bool := rs.any fun r => r.1 ≤ c && c ≤ r.2

/-- continuation-passing backtracking matcher; `n` = runes consumed so far; the continuation
    decides whether the overall match succeeds from there -/
def Re.go : Nat → Re → List Nat → Nat → (List Nat → Nat → Option Nat) → Option Nat
  | 0, _, _, _, _ => none
  | _+1, .empty, s, n, k => k s n
  | _+1, .fail, _, _, _ => none
  | _+1, .lit cs, s, n, k => if cs.isPrefixOf s then k (s.drop cs.length) (n + cs.length) else none
  | _+1, .cls rs, s, n, k => match s with
    | c :: s' => if inRanges rs c then k s' (n + 1) else none
    | [] => none
  | f+1, .cat a b, s, n, k => Re.go f a s n fun s' n' => Re.go f b s' n' k
  | f+1, .alt a b, s, n, k => (Re.go f a s n k).orElse fun _ => Re.go f b s n k
  | f+1, .star r, s, n, k =>
    (Re.go f r s n fun s' n' => if n' = n then none else Re.go f (.star r) s' n' k).orElse fun _ => k s n
  | f+1, .plus r, s, n, k => Re.go f r s n fun s' n' => Re.go f (.star r) s' n' k
  | f+1, .quest r, s, n, k => (Re.go f r s n k).orElse fun _ => k s n

def Re.size : Re → Nat
  | .cat a b => a.size + b.size + 1
  | .alt a b => a.size + b.size + 1
  | .star r => r.size + 1
  | .plus r => r.size + 2
  | .quest r => r.size + 1
  | _ => 1

/-- length of the leftmost-first match at the start of `s`, if any -/
def Re.matchLen (r : Re) (s : List Nat) : Option Nat :=
  Re.go ((r.size + 2) * (s.length + 2)) r s 0 fun _ n => some n

end Cdcn
end CM
