package main

// CDCN: scanner, parser, formatter (C10, C11, C12).

import (
	"fmt"
	"regexp"
	"runtime"
	"strconv"
	"strings"
	"time"
	"unicode/utf8"

	cdc "github.com/craterdog/go-collection-framework/v4/cdcn"
	col "github.com/craterdog/go-collection-framework/v4/collection"
)

var ttNames = []string{"error", "boolean", "complex", "delimiter", "eof", "eol", "float", "hexadecimal", "integer", "nil", "rune", "space", "string", "type"}

func runesOf(s string) []int {
	rs := []rune(s)
	out := make([]int, len(rs))
	for i, r := range rs {
		out[i] = int(r)
	}
	return out
}

type tokObs struct {
	tt   string
	val  string
	line int
	pos  int
}

// scanAll runs the real scanner on its own queue and collects the whole token stream.
func scanAll(src string) []tokObs {
	q := col.Queue[cdc.TokenLike](notation).MakeWithCapacity(4)
	cdc.Scanner().Make(src, q)
	var out []tokObs
	for {
		t, ok := q.RemoveHead()
		if !ok {
			break
		}
		out = append(out, tokObs{ttNames[t.GetType()], t.GetValue(), t.GetLine(), t.GetPosition()})
		if t.GetType() == cdc.EOFToken {
			break
		}
	}
	return out
}

var controlNames = map[string]string{"<NULL>": "\x00", "<BELL>": "\a", "<BKSP>": "\b", "<HTAB>": "\t", "<FMFD>": "\f", "<EOLN>": "\n", "<CRTN>": "\r", "<VTAB>": "\v"}

// convToken: the standard Go meaning of a literal token (what strconv says), nil on a conversion error
func convToken(t tokObs) (any, bool) {
	switch t.tt {
	case "boolean":
		b, err := strconv.ParseBool(t.val)
		return b, err == nil
	case "complex":
		z, err := strconv.ParseComplex(t.val, 128)
		return z, err == nil
	case "float":
		f, err := strconv.ParseFloat(t.val, 64)
		return f, err == nil
	case "hexadecimal":
		u, err := strconv.ParseUint(t.val[2:], 16, 64)
		return u, err == nil
	case "integer":
		i, err := strconv.ParseInt(t.val, 10, 64)
		return i, err == nil
	case "nil":
		return nil, true
	case "rune":
		s, err := strconv.Unquote(t.val)
		if err != nil {
			return nil, false
		}
		r, _ := utf8.DecodeRuneInString(s)
		return r, true
	case "string":
		s, err := strconv.Unquote(t.val)
		return s, err == nil
	}
	return nil, false
}

var diagRe = regexp.MustCompile(`Token \[type: (\w+), line: (\d+), position: (\d+)\]`)

// scannerGoroutines counts goroutines currently inside scanner_.scanTokens
func scannerGoroutines() int {
	buf := make([]byte, 1<<20)
	n := runtime.Stack(buf, true)
	return strings.Count(string(buf[:n]), "scanner_).scanTokens")
}

// parseObs runs ParseSource on the real parser and classifies the outcome.
func parseObs(src string) (J, any) { return parseObsWith(nil, src) }

func parseObsWith(nt col.NotationLike, src string) (J, any) {
	if nt == nil {
		nt = cdc.Notation().Make()
	}
	var val any
	var msg string
	before := scannerGoroutines()
	cr := guarded(5*time.Second, func() {
		defer func() {
			if r := recover(); r != nil {
				msg = fmt.Sprint(r)
				panic(r)
			}
		}()
		val = nt.ParseSource(src)
	})
	j := J{"out": cr.kind}
	switch cr.kind {
	case "ret":
		j["v"] = encVal(val)
	case "panic":
		j["pc"] = cr.pc
		if cr.pc == "syntax" {
			if m := diagRe.FindStringSubmatch(msg); m != nil {
				j["tt"] = strings.ToLower(m[1])
				j["line"], _ = strconv.Atoi(m[2])
				j["pos"], _ = strconv.Atoi(m[3])
			} else {
				j["pc"] = "lib"
			}
		} else {
			j["msg"] = trunc(msg, 120)
		}
	}
	// no scanner goroutine may be left behind (retry briefly: it may still be finishing)
	leak := false
	if cr.kind != "hang" {
		leak = true
		for i := 0; i < 40; i++ {
			if scannerGoroutines() <= before {
				leak = false
				break
			}
			time.Sleep(time.Millisecond)
		}
	}
	j["leak"] = leak
	return j, val
}

func cdcnLine(out *Out, pid string, caseID int, src string, extra J) (J, any) {
	return cdcnLineWith(nil, out, pid, caseID, src, extra)
}

func cdcnLineWith(nt col.NotationLike, out *Out, pid string, caseID int, src string, extra J) (J, any) {
	toks := scanAll(src)
	tj := make([]J, len(toks))
	conv := make([]any, len(toks))
	for i, t := range toks {
		v := t.val
		if c, ok := controlNames[v]; ok {
			v = c // the scanner renames single control characters for display
		}
		tj[i] = J{"tt": t.tt, "n": len([]rune(v)), "line": t.line, "pos": t.pos}
		if val, ok := convToken(t); ok {
			conv[i] = encVal(val)
		} else {
			conv[i] = nil
		}
	}
	pj, val := parseObsWith(nt, src)
	j := J{"k": "cdcn", "pid": pid, "case": caseID, "src": runesOf(src), "nlines": len(strings.Split(src, "\n")),
		"toks": tj, "conv": conv, "parse": pj}
	for k, v := range extra {
		j[k] = v
	}
	out.emit(j)
	return pj, val
}

// ---- C12 generators: arbitrary strings and systematic edits of valid documents ----

var validDocs = []string{
	"[ ](List)", "[:](Catalog)", "[1](List)", "[1, 2, 3](Array)", "[\n    1\n    2\n](Set)", "[\"a\": 1](Map)",
	"[\n    \"a\": 1\n    \"b\": [2, 3](List)\n](Catalog)", "[true, false, nil, 'x', \"s\", 0x1f, -12, +7, 1.5, -2.5E+10, (1.5+2.5i)](List)",
	"[[ ](List), [:](Map)](Stack)\n", "[\n    [\n        1\n    ](Queue)\n](List)\n\n", "['\\'', '\"', \"\\\"\", \"\\u00e9\\x41\\U0001f600\"](List)",
	"[1: [2: [3: 4](Map)](Catalog)](Catalog)", "[0, 0.5, 0x0, 10, 1.0E+6](Set)",
}

var fragments = []string{"[", "]", "(", ")", ":", ",", "\n", " ", "1", "-1", "0", "0x1f", "1.5", "1.5E+3", "true", "false", "nil", "'a'", "'\\n'",
	"\"s\"", "\"\"", "(1.5+2.5i)", "List", "Set", "Map", "Catalog", "Array", "Queue", "Stack", "x", "$", "\t", "\"", "'", "\\", "+", "-", ".",
	"e", "E", "0x", "1.", ".5", "'''", "'ab'", "\"a\nb\"", "tru", "Lists", "é", "日", "\x00", "(", "i)", "99999999999999999999", "0xfffffffffffffffff", "1.0E+999"}

func runC12(tier string, seed int64, out *Out) {
	rng := newRng(seed)
	caseID := 0
	emit := func(src string, extra J) {
		caseID++
		cdcnLine(out, "C12", caseID, src, extra)
	}
	for _, d := range validDocs {
		emit(d, J{"gen": "valid"})
		rs := []rune(d)
		// every prefix
		for i := 0; i < len(rs); i++ {
			emit(string(rs[:i]), J{"gen": "prefix"})
		}
		// every single-character deletion / substitution / insertion (a few replacement characters)
		for i := 0; i < len(rs); i++ {
			emit(string(rs[:i])+string(rs[i+1:]), J{"gen": "delete"})
			for _, c := range []rune{'$', ']', '\n', '"'} {
				if tier == "thorough" || (i+int(c))%3 == 0 {
					emit(string(rs[:i])+string(c)+string(rs[i+1:]), J{"gen": "subst"})
					emit(string(rs[:i])+string(c)+string(rs[i:]), J{"gen": "insert"})
				}
			}
		}
	}
	// an illegal character injected at every token boundary of multi-line documents
	for _, d := range validDocs {
		if !strings.Contains(d, "\n") {
			continue
		}
		toks := scanAll(d)
		lines := strings.Split(d, "\n")
		for _, t := range toks {
			// rune offset of the token start
			off := 0
			for l := 0; l < t.line-1 && l < len(lines); l++ {
				off += len([]rune(lines[l])) + 1
			}
			off += t.pos - 1
			rs := []rune(d)
			if off <= len(rs) {
				emit(string(rs[:off])+"$"+string(rs[off:]), J{"gen": "inject", "at": []int{t.line, t.pos}})
			}
		}
	}
	// valid tokens in invalid orders, item kinds that do not match the context, long tails after the error
	n := 1500
	if tier == "thorough" {
		n = 15000
	}
	for i := 0; i < n; i++ {
		var b strings.Builder
		k := 1 + rng.Intn(9)
		if rng.Intn(10) == 0 {
			k = 20 + rng.Intn(30)
		}
		for j := 0; j < k; j++ {
			b.WriteString(fragments[rng.Intn(len(fragments))])
			if rng.Intn(3) == 0 {
				b.WriteString(" ")
			}
		}
		emit(b.String(), J{"gen": "fragments"})
	}
	for _, ctx := range []string{"Array", "Catalog", "List", "Map", "Queue", "Set", "Stack"} {
		emit("[1, 2]("+ctx+")", J{"gen": "ctx"})
		emit("[1: 2]("+ctx+")", J{"gen": "ctx"})
		emit("[\n    1\n    2\n]("+ctx+")", J{"gen": "ctx"})
		emit("[\n    1: 2\n    3: 4\n]("+ctx+")", J{"gen": "ctx"})
		emit("[ ]("+ctx+")", J{"gen": "ctx"})
		emit("[:]("+ctx+")", J{"gen": "ctx"})
	}
	// unexpected tokens whose text is long or dense in escapes (the diagnostic quotes and truncates them)
	for _, tok := range []string{`"\"\"\"\"\"\"\"\"\"\"\"\""`, `"` + strings.Repeat("x", 39) + `"`, `"` + strings.Repeat("y", 60) + `"`,
		`"\\\\\\\\\\\\\\\\\\\\"`, `"` + strings.Repeat("\t", 19) + `"`, strings.Repeat("9", 45), "0x" + strings.Repeat("f", 50),
		`"` + strings.Repeat("é", 30) + `"`, `'\U0001f600'`} {
		emit("[1 "+tok+"](Array)", J{"gen": "long-token"})
		emit(tok, J{"gen": "long-token"})
		emit("[\n    1: 2\n    "+tok+"\n](Catalog)", J{"gen": "long-token"})
	}
	// call sequences on ONE notation: a rejected document must not influence the next call
	for _, bad := range []string{"[1, 2](List) 3", "[ ](Array)[", "[1 2](List)", "[", "[1](Lis", "[1, 2](Catalog)", "[\n    1\n    2](List)", "[1: ](Map)", "$"} {
		nt := cdc.Notation().Make()
		caseID++
		cdcnLineWith(nt, out, "C12", caseID, bad, J{"gen": "seq-bad"})
		for _, good := range []string{"[1, 2, 3](List)", "[\n    \"a\": 1\n](Catalog)\n", "[ ](Set)"} {
			caseID++
			cdcnLineWith(nt, out, "C12", caseID, good, J{"gen": "seq-good-after-bad"})
		}
	}
	// more than 16 tokens after the error point
	for _, head := range []string{"[1](List)", "[)", "[", "[1, $", "[1](Lis"} {
		emit(head+strings.Repeat(" 1 , 2 [ ] : nil", 12), J{"gen": "tail"})
	}
	// arbitrary bytes and runes
	for i := 0; i < n/3; i++ {
		k := rng.Intn(24)
		bs := make([]byte, k)
		for j := range bs {
			switch rng.Intn(4) {
			case 0:
				bs[j] = byte(rng.Intn(256))
			default:
				bs[j] = cdcnAlphabet[rng.Intn(len(cdcnAlphabet))]
			}
		}
		emit(string(bs), J{"gen": "bytes"})
	}
}

var cdcnAlphabet = []byte("[]():,\n 01x.5eE+-'\"\\tfniLS")
