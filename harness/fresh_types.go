package main

// generated list of distinct element types: each is used for the first time, from many
// goroutines at once, exactly once per process (class registries, property C19)

import (
	age "github.com/craterdog/go-collection-framework/v4/agent"
	col "github.com/craterdog/go-collection-framework/v4/collection"
)

type fresh00 int
type fresh01 int
type fresh02 int
type fresh03 int
type fresh04 int
type fresh05 int
type fresh06 int
type fresh07 int
type fresh08 int
type fresh09 int
type fresh10 int
type fresh11 int
type fresh12 int
type fresh13 int
type fresh14 int
type fresh15 int
type fresh16 int
type fresh17 int
type fresh18 int
type fresh19 int
type fresh20 int
type fresh21 int
type fresh22 int
type fresh23 int
type fresh24 int
type fresh25 int
type fresh26 int
type fresh27 int
type fresh28 int
type fresh29 int
type fresh30 int
type fresh31 int
type fresh32 int
type fresh33 int
type fresh34 int
type fresh35 int
type fresh36 int
type fresh37 int
type fresh38 int
type fresh39 int
type fresh40 int
type fresh41 int
type fresh42 int
type fresh43 int
type fresh44 int
type fresh45 int
type fresh46 int
type fresh47 int

var firstUses = []func(g int) []any{
	firstUse[fresh00],
	firstUse[fresh01],
	firstUse[fresh02],
	firstUse[fresh03],
	firstUse[fresh04],
	firstUse[fresh05],
	firstUse[fresh06],
	firstUse[fresh07],
	firstUse[fresh08],
	firstUse[fresh09],
	firstUse[fresh10],
	firstUse[fresh11],
	firstUse[fresh12],
	firstUse[fresh13],
	firstUse[fresh14],
	firstUse[fresh15],
	firstUse[fresh16],
	firstUse[fresh17],
	firstUse[fresh18],
	firstUse[fresh19],
	firstUse[fresh20],
	firstUse[fresh21],
	firstUse[fresh22],
	firstUse[fresh23],
	firstUse[fresh24],
	firstUse[fresh25],
	firstUse[fresh26],
	firstUse[fresh27],
	firstUse[fresh28],
	firstUse[fresh29],
	firstUse[fresh30],
	firstUse[fresh31],
	firstUse[fresh32],
	firstUse[fresh33],
	firstUse[fresh34],
	firstUse[fresh35],
	firstUse[fresh36],
	firstUse[fresh37],
	firstUse[fresh38],
	firstUse[fresh39],
	firstUse[fresh40],
	firstUse[fresh41],
	firstUse[fresh42],
	firstUse[fresh43],
	firstUse[fresh44],
	firstUse[fresh45],
	firstUse[fresh46],
	firstUse[fresh47],
}

// firstUse calls every generic class accessor for V; the caller runs it in g goroutines
// released together and compares what they got
func firstUse[V comparable](g int) []any {
	_ = g
	return []any{
		col.Array[V](notation), col.List[V](notation), col.Set[V](notation), col.Stack[V](notation), col.Queue[V](notation),
		col.Catalog[V, int](notation), col.Map[V, int](notation), col.Association[V, int](notation),
		age.Collator[V](), age.Sorter[V](), age.Iterator[V](),
	}
}

var accessorNames = []string{"Array", "List", "Set", "Stack", "Queue", "Catalog", "Map", "Association", "Collator", "Sorter", "Iterator"}
