/-
  Model of `agent/sorter.go`: bottom-up merge sort (`sortValues`/`mergeArrays`),
  `ReverseValues` (half-length swap loop) and `ShuffleValues` (index exchanges
  driven by an externally supplied index stream).
-/
import CollectionModel.Model.Basic
namespace CM
namespace Sorter

variable {α : Type}

/-- `mergeArrays` as written: take the left head only when the ranker answers
    Lesser; when one side is exhausted the rest of the other is copied. -/
def merge (rank : α → α → Rank) : List α → List α → List α
  | [], r => r
  | l, [] => l
  | a :: l, b :: r =>
    if rank a b = .lt then a :: merge rank l (b :: r) else b :: merge rank (a :: l) r

/-- one pass of `sortValues` over chunk pairs of width `w`:
    `left += 2*width`, `middle = min(left+width,length)`, `right = min(middle+width,length)`. -/
def mergePass (rank : α → α → Rank) (w : Nat) : Nat → List α → List α
  | 0, xs => xs
  | f+1, xs =>
    match xs with
    | [] => []
    | _ => merge rank (xs.take w) ((xs.drop w).take w) ++ mergePass rank w f (xs.drop (2*w))

/-- the doubling loop `for width := 1; width < length; width *= 2`. -/
def sortLoop (rank : α → α → Rank) : Nat → Nat → List α → List α
  | 0, _, xs => xs
  | f+1, w, xs => if w < xs.length then sortLoop rank f (2*w) (mergePass rank w xs.length xs) else xs

/-- `sorter_.SortValues`. -/
def sortValues (rank : α → α → Rank) (xs : List α) : List α := sortLoop rank xs.length 1 xs

/-- `mergeArrays` with a ranker that carries state `σ` across calls -/
def mergeM {σ : Type} (rank : σ → α → α → Rank × σ) : σ → List α → List α → List α × σ
  | st, [], r => (r, st)
  | st, l, [] => (l, st)
  | st, a :: l, b :: r =>
    let (q, st') := rank st a b
    if q = .lt then
      let (m, st'') := mergeM rank st' l (b :: r)
      (a :: m, st'')
    else
      let (m, st'') := mergeM rank st' (a :: l) r
      (b :: m, st'')

def mergePassM {σ : Type} (rank : σ → α → α → Rank × σ) (w : Nat) : Nat → σ → List α → List α × σ
  | 0, st, xs => (xs, st)
  | f+1, st, xs =>
    match xs with
    | [] => ([], st)
    | _ =>
      let (m, st') := mergeM rank st (xs.take w) ((xs.drop w).take w)
      let (rest, st'') := mergePassM rank w f st' (xs.drop (2*w))
      (m ++ rest, st'')

def sortLoopM {σ : Type} (rank : σ → α → α → Rank × σ) : Nat → Nat → σ → List α → List α × σ
  | 0, _, st, xs => (xs, st)
  | f+1, w, st, xs =>
    if w < xs.length then
      let (ys, st') := mergePassM rank w xs.length st xs
      sortLoopM rank f (2*w) st' ys
    else (xs, st)

/-- `SortValues` with a stateful ranker -/
def sortValuesM {σ : Type} (rank : σ → α → α → Rank × σ) (st : σ) (xs : List α) : List α × σ :=
  sortLoopM rank xs.length 1 st xs

/-- exchange positions `i` and `j` (Go's `values[i], values[j] = values[j], values[i]`). -/
def swap [Inhabited α] (l : List α) (i j : Nat) : List α :=
  (l.set i (l.getD j default)).set j (l.getD i default)

/-- the loop of `ReverseValues`: `n` iterations remain, current `index`. -/
def reverseLoop [Inhabited α] : Nat → Nat → List α → List α
  | 0, _, l => l
  | n+1, index, l => reverseLoop n (index+1) (swap l index (l.length - index - 1))

/-- `sorter_.ReverseValues`. -/
def reverseValues [Inhabited α] (l : List α) : List α := reverseLoop (l.length / 2) 0 l

/-- the loop of `ShuffleValues`; `rs` is the stream of random indices returned
    by `randomizeIndex` (external: crypto/rand), one per position. -/
def shuffleLoop [Inhabited α] : Nat → List Nat → List α → List α
  | _, [], l => l
  | i, r :: rs, l => shuffleLoop (i+1) rs (swap l i r)

def shuffleValues [Inhabited α] (rs : List Nat) (l : List α) : List α := shuffleLoop 0 rs l

/-- `array_.SortValuesWithRanker`: only arrays with more than one value are sorted. -/
def arraySort (rank : α → α → Rank) (l : List α) : List α :=
  if l.length > 1 then sortValues rank l else l

end Sorter
end CM
