"""per-property configuration for bin/check"""

def size_class(n):
    return 0 if n == 0 else 1 if n == 1 else 2 if n <= 3 else 3 if n <= 8 else 4 if n <= 17 else 5

def seq_key(l):
    a = l.get('a', [])
    n = len(l.get('pre', []))
    def idx_class(i):
        if i == 0: return 'zero'
        if abs(i) > n: return 'out'
        if abs(i) == n: return 'edge'
        return 'neg' if i < 0 else 'pos'
    return (l.get('ty'), l.get('tg'), l.get('op'), l.get('out'), size_class(n), l.get('alias', ''),
            size_class(len(l.get('vs', []))), [idx_class(i) for i in a[:2]] if l.get('op') in
            ('getValue','getValues','setValue','setValues','removeValue','removeValues','insertValue','insertValues') else [])

def seq_nontrivial(l):
    return l.get('op') != 'make'

PROPS = {}

PROPS['C01'] = dict(
    id='C01',
    modules=['CollectionModel.Props.C01'],
    key=seq_key, nontrivial=seq_nontrivial,
    rule="cases = single List/Array calls (pre-state, operation, observation) taken from exhaustive boundary "
         "enumeration at small sizes and from random histories; a case is non-trivial when it is not a constructor "
         "line; distinct = distinct (element type, target, operation, outcome kind, size class, operand aliasing, "
         "operand size class, index class per index argument)",
    exhaustive_subspaces="every operation with every index/slot/range in ±(n+2) and six operand shapes on 3 contents "
                         "per size n ≤ 3 (quick) / n ≤ 5 (thorough), element types int,string,float64,[]int,any, List and Array",
    assumptions=["Go int is unbounded in the model (indices near MaxInt not generated)",
                 "element equality is structural equality of the canonical ids (NaN excluded as the property states)",
                 "ShuffleValues: crypto/rand indices are in range (model hypothesis Op.wf); the run only judges the result by the spec"],
)
