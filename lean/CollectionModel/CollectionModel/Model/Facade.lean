/-
  Model of `v4/Module.go`: the universal (module-level) constructors.

  Each constructor is two phases, exactly as in the Go source:
    1. a loop over the variadic arguments whose dynamic-type switch stores each
       argument in a slot (notation / size / values / mappings / sequence /
       source / collator) -- `collect`;
    2. a `switch` over the slots that calls one class-level constructor, or for
       the CDCN-source slot parses the source and inserts the parsed values one
       at a time -- `buildArray` ... `buildMap`.
  The class-level constructors are the models of the earlier files (Seq, SetM,
  Stack, Assoc); the parser is represented by its result: the `source` argument
  carries the contents of the collection that `ParseSource` returns.
-/
import CollectionModel.Model.Stack
import CollectionModel.Model.SetM
import CollectionModel.Model.Assoc
namespace CM
namespace Facade
open CM.Seq

/-- one variadic argument, after Go's dynamic type switch -/
inductive Arg (α : Type)
  | notation
  | size (n : Nat)              -- `int` / `uint`
  | goarray (vs : List α)       -- `[]V` (non-nil)
  | gomap (es : List α)         -- `map[K]V`, in the order the Go runtime iterates it
  | sequence (vs : List α)      -- `Sequential[V]`
  | source (items : List α)     -- non-empty CDCN text; `items` = contents of what it parses to
  | collator
  deriving Repr

structure Slots (α : Type) where
  size : Option Nat := none
  values : Option (List α) := none
  mappings : Option (List α) := none
  sequence : Option (List α) := none
  source : Option (List α) := none
  collator : Bool := false
  deriving Repr

variable {α : Type}

/-- the body of the `for _, argument := range arguments` loop: a later argument
    of the same form overwrites an earlier one -/
def store (s : Slots α) : Arg α → Slots α
  | .notation => s
  | .size n => { s with size := some n }
  | .goarray vs => { s with values := some vs }
  | .gomap es => { s with mappings := some es }
  | .sequence vs => { s with sequence := some vs }
  | .source items => { s with source := some items }
  | .collator => { s with collator := true }

def collect (args : List (Arg α)) : Slots α := args.foldl store {}

/-- what a constructor returns: contents in order, and the capacity of the
    bounded kinds -/
structure Built (α : Type) where
  items : List α
  cap : Option Nat := none
  deriving Repr, DecidableEq

/-! ### class-level constructors (collection package) -/
section cls
variable [Inhabited α]

def clsArrayMake (n : Nat) : Built α := { items := List.replicate n default }
def clsArrayFrom (vs : List α) : Built α := { items := vs }
def clsListFrom (vs : List α) : Built α := { items := makeFromSequence vs }
def clsStackMake (dflt : Nat) : Built α := { items := [], cap := some dflt }
def clsStackFrom (dflt : Nat) (vs : List α) : Built α :=
  let s := Stack.makeFrom dflt vs
  { items := s.vals, cap := some s.cap }
/-- `queueClass_.MakeWithCapacity`: capacity 0 means the default -/
def clsQueueCap (dflt c : Nat) : Built α := { items := [], cap := some (if c < 1 then dflt else c) }
/-- `queueClass_.MakeFromSequence` (after the capacity fix): every value fits -/
def clsQueueFrom (dflt : Nat) (vs : List α) : Built α :=
  { items := makeFromSequence vs, cap := some (if vs.length > dflt then vs.length else dflt) }
def clsSetFrom (rank : α → α → Rank) (vs : List α) : Option (Except Panic (Built α)) :=
  match SetM.makeFrom rank vs with
  | none => none
  | some (.error p) => some (.error p)
  | some (.ok l) => some (.ok { items := l })

end cls

/-! ### module-level constructors -/
section build
variable [Inhabited α]

abbrev R (β : Type) := Option (Except Panic β)   -- none = the call does not return

/-- the loop of the source branch of `Array`: `array.SetValue(index, value)` for
    index = 1, 2, ... (after fix D20a) -/
def fillFrom : List α → Int → List α → Except Panic (List α)
  | arr, _, [] => .ok arr
  | arr, index, v :: vs =>
    match setValue arr index v with
    | .error p => .error p
    | .ok arr' => fillFrom arr' (index + 1) vs

def buildArray (s : Slots α) : R (Built α) :=
  match s.size with
  | some n => some (.ok (clsArrayMake n))
  | none =>
    match s.values with
    | some vs => some (.ok (clsArrayFrom vs))
    | none =>
      match s.sequence with
      | some q => some (.ok (clsArrayFrom q))
      | none =>
        match s.source with
        | some items =>
          (match fillFrom (clsArrayMake (α := α) items.length).items 1 items with
           | .ok l => some (.ok { items := l })
           | .error p => some (.error p))
        | none => some (.error .lib)

/-- `len(values) > 0` -/
def nonEmpty : Option (List α) → Option (List α)
  | some (v :: vs) => some (v :: vs)
  | _ => none

def buildList (s : Slots α) : R (Built α) :=
  match nonEmpty s.values with
  | some vs => some (.ok (clsListFrom vs))
  | none =>
    match s.sequence with
    | some q => some (.ok (clsListFrom q))
    | none =>
      match s.source with
      | some items => some (.ok { items := items.foldl appendValue [] })
      | none => some (.ok { items := [] })

def buildSet (rank : α → α → Rank) (s : Slots α) : R (Built α) :=
  -- with or without an explicit collator the class is asked for an empty set
  -- and the values are added one at a time
  match nonEmpty s.values with
  | some vs => clsSetFrom rank vs
  | none =>
    match s.sequence with
    | some q => clsSetFrom rank q
    | none =>
      match s.source with
      | some items => clsSetFrom rank items
      | none => some (.ok { items := [] })

def buildStack (dflt : Nat) (s : Slots α) : R (Built α) :=
  match s.size with
  | some (c+1) => some (.ok { items := [], cap := some (c+1) })
  | _ =>
    match nonEmpty s.values with
    | some vs => some (.ok (clsStackFrom dflt vs))
    | none =>
      match s.sequence with
      | some q => some (.ok (clsStackFrom dflt q))
      | none =>
        match s.source with
        | some items => some (.ok (clsStackFrom dflt (items.foldl appendValue [])))
        | none => some (.ok (clsStackMake dflt))

def buildQueue (dflt : Nat) (s : Slots α) : R (Built α) :=
  match s.size with
  | some (c+1) => some (.ok (clsQueueCap dflt (c+1)))
  | _ =>
    match nonEmpty s.values with
    | some vs => some (.ok (clsQueueFrom dflt vs))
    | none =>
      match s.sequence with
      | some q => some (.ok (clsQueueFrom dflt q))
      | none =>
        match s.source with
        | some items => some (.ok (clsQueueFrom dflt (items.foldl appendValue [])))
        | none => some (.ok (clsQueueCap dflt 0))

end build

section keyed
variable {K V : Type} [DecidableEq K]
open CM.Assoc

def clsCatalogFrom (ps : List (K × V)) : Built (K × V) := { items := (catMakeFrom ps).assocs }
def clsMapFrom (ps : List (K × V)) : Built (K × V) := { items := mapMakeFrom ps }

def buildCatalog (s : Slots (K × V)) : Built (K × V) :=
  match nonEmpty s.values with
  | some ps => clsCatalogFrom ps
  | none =>
    match nonEmpty s.mappings with
    | some ps => clsCatalogFrom ps
    | none =>
      match s.sequence with
      | some ps => clsCatalogFrom ps
      | none =>
        match s.source with
        | some ps => { items := (ps.foldl (fun c p => catSetValue c p.1 p.2) catEmpty).assocs }
        | none => { items := [] }

def buildMap (s : Slots (K × V)) : Built (K × V) :=
  match nonEmpty s.values with
  | some ps => clsMapFrom ps
  | none =>
    match nonEmpty s.mappings with
    | some ps => clsMapFrom ps
    | none =>
      match s.sequence with
      | some ps => clsMapFrom ps
      | none =>
        match s.source with
        | some ps => { items := ps.foldl (fun m p => mset m p.1 p.2) [] }
        | none => { items := [] }

end keyed

/-! ### Association(arguments...) -/

/-- one argument of `Association[K, V]`: whether it is a notation, and whether
    the assertions `argument.(K)` / `argument.(V)` succeed -/
structure AArg (α : Type) where
  isNotation : Bool
  isK : Bool
  isV : Bool
  val : α
  deriving Repr

structure AState (α : Type) where
  key : Option α := none      -- none = the zero value of K
  value : Option α := none
  hasKey : Bool := false
  deriving Repr, DecidableEq

def assocStore (s : AState α) (a : AArg α) : Except Panic (AState α) :=
  if a.isNotation then .ok s
  else if a.isK && a.isV then
    (if !s.hasKey then .ok { s with key := some a.val, hasKey := true }
     else .ok { s with value := some a.val })
  else if a.isK then .ok { s with key := some a.val, hasKey := true }
  else if a.isV then .ok { s with value := some a.val }
  else .error .lib

def assocCollect : AState α → List (AArg α) → Except Panic (AState α)
  | s, [] => .ok s
  | s, a :: as =>
    match assocStore s a with
    | .error p => .error p
    | .ok s' => assocCollect s' as

end Facade
end CM
