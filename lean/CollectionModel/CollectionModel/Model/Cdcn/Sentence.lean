/-
  The rule definitions of `cdcn/Syntax.cdsn` at token level, as syntax trees that carry
  their tokens (so that positions are arbitrary and the literal conversion oracle applies to
  the very tokens of the sentence):

    Collection: "[" Items "]" "(" type ")"
    Items:      Values | Associations
    Values:     Value ("," Value)*  |  (EOL Value)+ EOL  |  " "
    Associations: Association ("," Association)*  |  (EOL Association)+ EOL  |  ":"
    Association: Intrinsic ":" Value
    Value:      Intrinsic | Collection

  `toks` is the token sequence of a tree, `mean` its intended meaning (the collection it
  denotes), `Good` says that the tokens are of the kinds the rules name.
-/
import CollectionModel.Model.Cdcn.Parse
namespace CM
namespace Cdcn

mutual
inductive SValue
  | lit (t : Token)
  | coll (lb : Token) (items : SItems) (rb lp ty rp : Token)
inductive SItems
  | noValues
  | inlineValues (v : SValue) (more : SVals)                     -- v ("," v)*
  | multiValues (e : Token) (v : SValue) (more : SVals) (last : Token)   -- (EOL v)+ EOL
  | noAssocs (colon : Token)
  | inlineAssocs (a : SAssoc) (more : SAssocs)
  | multiAssocs (e : Token) (a : SAssoc) (more : SAssocs) (last : Token)
inductive SVals
  | nil
  | cons (sep : Token) (v : SValue) (rest : SVals)
inductive SAssoc
  | mk (key colon : Token) (v : SValue)
inductive SAssocs
  | nil
  | cons (sep : Token) (a : SAssoc) (rest : SAssocs)
end

mutual
def SValue.toks : SValue → List Token
  | .lit t => [t]
  | .coll lb items rb lp ty rp => lb :: (items.toks ++ [rb, lp, ty, rp])
def SItems.toks : SItems → List Token
  | .noValues => []
  | .inlineValues v more => v.toks ++ more.toks
  | .multiValues e v more last => e :: (v.toks ++ (more.toks ++ [last]))
  | .noAssocs colon => [colon]
  | .inlineAssocs a more => a.toks ++ more.toks
  | .multiAssocs e a more last => e :: (a.toks ++ (more.toks ++ [last]))
def SVals.toks : SVals → List Token
  | .nil => []
  | .cons sep v rest => sep :: (v.toks ++ rest.toks)
def SAssoc.toks : SAssoc → List Token
  | .mk key colon v => key :: colon :: v.toks
def SAssocs.toks : SAssocs → List Token
  | .nil => []
  | .cons sep a rest => sep :: (a.toks ++ rest.toks)
end

def isLiteralKind (tt : TT) : Bool :=
  tt == .boolean || tt == .complex || tt == .float || tt == .hexadecimal || tt == .integer || tt == .nil || tt == .rune || tt == .string

def isDelim (t : Token) (s : String) : Bool := t.tt == .delimiter && t.value == s.toList.map ch
def isEol (t : Token) : Bool := t.tt == .eol

/-- the collection a context builds from its items (`mkCollection` without the parser state) -/
def collOf (mkSet : List Val → Option Val) (ctx : List Nat) (items : List Val) : Option Val :=
  let isAssoc : Val → Bool := isAssocVal
  let pairs : List (Val × Val) := pairsOf items
  let name := fun (str : String) => ctx = str.toList.map ch
  if name "Array" then some (.arr true false items)
  else if name "Catalog" then (if items.all isAssoc then some (.coll .catalog (Val.catalogOf pairs)) else none)
  else if name "Map" then (if items.all isAssoc then some (.gomap true false (Val.mapOf pairs)) else none)
  else if name "List" then some (.coll .list items)
  else if name "Queue" then some (.coll .queue items)
  else if name "Set" then mkSet items
  else if name "Stack" then some (.coll .stack items)
  else none

variable (env : Env)

/- intended meaning; `none` = the sentence is not meaningful (a literal the standard
   conversion rejects, a Catalog or Map context over plain values) -/
mutual
def SValue.mean : SValue → Option Val
  | .lit t => env.conv t
  | .coll _ items _ _ ty _ => match items.mean with
    | some vs => collOf env.mkSet ty.value vs
    | none => none
def SItems.mean : SItems → Option (List Val)
  | .noValues => some []
  | .inlineValues v more => match v.mean, more.mean with
    | some x, some xs => some (x :: xs)
    | _, _ => none
  | .multiValues _ v more _ => match v.mean, more.mean with
    | some x, some xs => some (x :: xs)
    | _, _ => none
  | .noAssocs _ => some []
  | .inlineAssocs a more => match a.mean, more.mean with
    | some p, some ps => some (Val.catalogOf (p :: ps))
    | _, _ => none
  | .multiAssocs _ a more _ => match a.mean, more.mean with
    | some p, some ps => some (Val.catalogOf (p :: ps))
    | _, _ => none
def SVals.mean : SVals → Option (List Val)
  | .nil => some []
  | .cons _ v rest => match v.mean, rest.mean with
    | some x, some xs => some (x :: xs)
    | _, _ => none
def SAssoc.mean : SAssoc → Option (Val × Val)
  | .mk key _ v => match env.conv key, v.mean with
    | some k, some x => some (k, x)
    | _, _ => none
def SAssocs.mean : SAssocs → Option (List (Val × Val))
  | .nil => some []
  | .cons _ a rest => match a.mean, rest.mean with
    | some p, some ps => some (p :: ps)
    | _, _ => none
end

/- the tokens are of the kinds the rules name -/
mutual
def SValue.Good : SValue → Prop
  | .lit t => isLiteralKind t.tt = true
  | .coll lb items rb lp ty rp =>
      isDelim lb "[" = true ∧ items.Good ∧ isDelim rb "]" = true ∧ isDelim lp "(" = true ∧ ty.tt = .type ∧ isDelim rp ")" = true
def SItems.Good : SItems → Prop
  | .noValues => True
  | .inlineValues v more => v.Good ∧ more.Good (fun t => isDelim t ",")
  | .multiValues e v more last => isEol e = true ∧ v.Good ∧ more.Good isEol ∧ isEol last = true
  | .noAssocs colon => isDelim colon ":" = true
  | .inlineAssocs a more => a.Good ∧ more.Good (fun t => isDelim t ",")
  | .multiAssocs e a more last => isEol e = true ∧ a.Good ∧ more.Good isEol ∧ isEol last = true
def SVals.Good : SVals → (Token → Bool) → Prop
  | .nil, _ => True
  | .cons sep v rest, p => p sep = true ∧ v.Good ∧ rest.Good p
def SAssoc.Good : SAssoc → Prop
  | .mk key colon v => isLiteralKind key.tt = true ∧ isDelim colon ":" = true ∧ v.Good
def SAssocs.Good : SAssocs → (Token → Bool) → Prop
  | .nil, _ => True
  | .cons sep a rest, p => p sep = true ∧ a.Good ∧ rest.Good p
end

end Cdcn
end CM
