/- driver for independence lines (C19) -/
import Driver.CollDrv
import CollectionModel.Model.Footprint
open Lean CM CM.Footprint

namespace Drv

/-- first use of a fresh type from `g` goroutines: the model's registry hands out one class -/
def registryLine (j : Json) : String :=
  let g := nat j "goroutines"
  let ty := nat j "type"
  let model := (Registry.accessAll { classes := [], next := 1 } (List.replicate (g + 1) ty)).2
  let modelDistinct := model.eraseDups.length
  let distinct := nats j "distinct"
  let names := (arr j "accessors").toList.map (fun a => (a.getStr?).toOption.getD "")
  let bad := (names.zip distinct).find? (fun p => p.2 != 1)
  match bad with
  | none => verdict (modelDistinct == 1) true "" s!"model: {modelDistinct} class"
  | some (n, d) => verdict (modelDistinct == 1) false s!"C19/registry-several-classes/{n}" s!"{d} different classes for one type"

def indepLine (j : Json) : String :=
  let fams := (arr j "families").toList.map (fun a => (a.getStr?).toOption.getD "")
  let tag := String.intercalate "+" fams
  let spec := firstFail [
    ("panicked-only-when-concurrent", (arr j "panics").size == 0),
    ("concurrent-differs-from-sequential", bool j "same")]
  verdict true spec.isNone s!"C19/{spec.getD "ok"}/{tag}" ""

end Drv
