/-
  Frame lemmas for the storage model: allocation appends, in-place writes touch
  one cell, handles own distinct cells.
-/
import CollectionModel.Model.Heap
namespace CM
namespace Heap

/-- every handle points at an existing cell and no two handles share a cell -/
structure WF (s : St) : Prop where
  nodup : s.refs.Nodup
  bound : ∀ r ∈ s.refs, r < s.cells.length

theorem wf_empty : WF St.empty := ⟨List.nodup_nil, by simp [St.empty]⟩

theorem addr_mem (s : St) (y : Nat) (hy : y < s.refs.length) : s.addr y ∈ s.refs := by
  unfold St.addr
  rw [List.getD_eq_getElem?_getD, List.getElem?_eq_getElem hy]; exact List.getElem_mem hy

theorem addr_lt (s : St) (h : WF s) (y : Nat) (hy : y < s.refs.length) : s.addr y < s.cells.length :=
  h.bound _ (addr_mem s y hy)

theorem addr_inj (s : St) (h : WF s) (x y : Nat) (hx : x < s.refs.length) (hy : y < s.refs.length)
    (hne : x ≠ y) : s.addr x ≠ s.addr y := by
  unfold St.addr
  intro he
  exact hne ((List.getD_inj hx hy h.nodup).mp he)

/-! ### alloc -/

@[simp] theorem alloc_refs (s : St) (c : Cell) : (s.alloc c).1.refs = s.refs := rfl
@[simp] theorem alloc_addr (s : St) (c : Cell) (y : Nat) : (s.alloc c).1.addr y = s.addr y := rfl
@[simp] theorem alloc_snd (s : St) (c : Cell) : (s.alloc c).2 = s.cells.length := rfl
@[simp] theorem alloc_len (s : St) (c : Cell) : (s.alloc c).1.cells.length = s.cells.length + 1 := by
  simp [St.alloc]

theorem alloc_cell_old (s : St) (c : Cell) (a : Nat) (ha : a < s.cells.length) :
    (s.alloc c).1.cell a = s.cell a := by
  simp [St.alloc, St.cell, List.getD_eq_getElem?_getD, List.getElem?_append_left ha]

@[simp] theorem alloc_cell_new (s : St) (c : Cell) : (s.alloc c).1.cell s.cells.length = c := by
  simp [St.alloc, St.cell, List.getD_eq_getElem?_getD]

theorem wf_alloc (s : St) (h : WF s) (c : Cell) : WF (s.alloc c).1 :=
  ⟨h.nodup, fun r hr => by have := h.bound r hr; simp only [alloc_len]; omega⟩

theorem obs_alloc (s : St) (h : WF s) (c : Cell) (y : Nat) (hy : y < s.refs.length) :
    (s.alloc c).1.obs y = s.obs y := by
  unfold St.obs; rw [alloc_addr]; exact alloc_cell_old s c _ (addr_lt s h y hy)

/-! ### push / give -/

@[simp] theorem push_cells (s : St) (a : Nat) : (s.push a).cells = s.cells := rfl
@[simp] theorem push_cell (s : St) (a b : Nat) : (s.push a).cell b = s.cell b := rfl
@[simp] theorem push_len (s : St) (a : Nat) : (s.push a).refs.length = s.refs.length + 1 := by simp [St.push]

theorem push_addr_old (s : St) (a y : Nat) (hy : y < s.refs.length) : (s.push a).addr y = s.addr y := by
  simp [St.push, St.addr, List.getD_eq_getElem?_getD, List.getElem?_append_left hy]

@[simp] theorem push_addr_new (s : St) (a : Nat) : (s.push a).addr s.refs.length = a := by
  simp [St.push, St.addr, List.getD_eq_getElem?_getD]

theorem wf_push (s : St) (h : WF s) (a : Nat) (ha : a < s.cells.length) (hfresh : a ∉ s.refs) : WF (s.push a) := by
  refine ⟨?_, ?_⟩
  · simp only [St.push]
    exact List.nodup_append.mpr ⟨h.nodup, by simp, by
      intro x hx y hy; simp at hy; subst hy; intro he; subst he; exact hfresh hx⟩
  · intro r hr
    simp only [St.push, List.mem_append, List.mem_singleton] at hr
    rcases hr with hr | rfl
    · exact h.bound r hr
    · exact ha

theorem fresh_not_ref (s : St) (h : WF s) : s.cells.length ∉ s.refs := by
  intro hm; have := h.bound _ hm; omega

theorem wf_give (s : St) (h : WF s) (c : Cell) : WF (s.give c) := by
  unfold St.give
  apply wf_push _ (wf_alloc s h c)
  · simp
  · simpa using fresh_not_ref s h

@[simp] theorem give_len (s : St) (c : Cell) : (s.give c).refs.length = s.refs.length + 1 := by
  simp [St.give]

theorem obs_give (s : St) (h : WF s) (c : Cell) (y : Nat) (hy : y < s.refs.length) :
    (s.give c).obs y = s.obs y := by
  unfold St.give St.obs
  simp only
  rw [push_addr_old _ _ _ (by simpa using hy), push_cell]
  exact obs_alloc s h c y hy

/-- the object handed out sits in a cell that did not exist before -/
theorem give_new (s : St) (c : Cell) :
    (s.give c).addr s.refs.length = s.cells.length ∧ (s.give c).obs s.refs.length = c := by
  unfold St.give St.obs
  simp only
  have : (s.alloc c).1.refs.length = s.refs.length := rfl
  rw [← this, push_addr_new]
  simp [St.cell, St.push, St.alloc, List.getD_eq_getElem?_getD]

/-! ### poke / inplace -/

@[simp] theorem poke_refs (s : St) (a : Nat) (c : Cell) : (s.poke a c).refs = s.refs := rfl
@[simp] theorem poke_addr (s : St) (a : Nat) (c : Cell) (y : Nat) : (s.poke a c).addr y = s.addr y := rfl
@[simp] theorem poke_len (s : St) (a : Nat) (c : Cell) : (s.poke a c).cells.length = s.cells.length := by
  simp [St.poke]

theorem poke_cell_other (s : St) (a b : Nat) (c : Cell) (hne : b ≠ a) : (s.poke a c).cell b = s.cell b := by
  simp [St.poke, St.cell, List.getD_eq_getElem?_getD, List.getElem?_set, Ne.symm hne]

theorem poke_cell_same (s : St) (a : Nat) (c : Cell) (ha : a < s.cells.length) : (s.poke a c).cell a = c := by
  simp [St.poke, St.cell, List.getD_eq_getElem?_getD, List.getElem?_set, ha]

theorem wf_poke (s : St) (h : WF s) (a : Nat) (c : Cell) : WF (s.poke a c) :=
  ⟨h.nodup, fun r hr => by simpa using h.bound r hr⟩

theorem wf_inplace (s : St) (h : WF s) (x : Nat) (c : Cell) : WF (s.inplace x c) := wf_poke s h _ c

@[simp] theorem inplace_refs (s : St) (x : Nat) (c : Cell) : (s.inplace x c).refs = s.refs := rfl

theorem obs_inplace (s : St) (h : WF s) (x : Nat) (c : Cell) (y : Nat)
    (hx : x < s.refs.length) (hy : y < s.refs.length) (hne : x ≠ y) :
    (s.inplace x c).obs y = s.obs y := by
  unfold St.inplace St.obs
  rw [poke_addr]
  exact poke_cell_other s _ _ c (Ne.symm (addr_inj s h x y hx hy hne))

theorem obs_inplace_self (s : St) (h : WF s) (x : Nat) (c : Cell) (hx : x < s.refs.length) :
    (s.inplace x c).obs x = c := by
  unfold St.inplace St.obs
  rw [poke_addr]
  exact poke_cell_same s _ c (addr_lt s h x hx)

/-- a handle that does not exist: the write lands nowhere or on handle 0's cell;
    scripts never do this, the lemma keeps `exec` total -/
theorem obs_inplace_any (s : St) (h : WF s) (x : Nat) (c : Cell) (y : Nat)
    (hy : y < s.refs.length) (hne : s.addr x ≠ s.addr y) : (s.inplace x c).obs y = s.obs y := by
  unfold St.inplace St.obs
  rw [poke_addr]
  exact poke_cell_other s _ _ c (Ne.symm hne)

/-! ### retarget / rebuild -/

@[simp] theorem retarget_cells (s : St) (x a : Nat) : (s.retarget x a).cells = s.cells := rfl
@[simp] theorem retarget_cell (s : St) (x a b : Nat) : (s.retarget x a).cell b = s.cell b := rfl
@[simp] theorem retarget_len (s : St) (x a : Nat) : (s.retarget x a).refs.length = s.refs.length := by
  simp [St.retarget]

theorem retarget_addr_other (s : St) (x a y : Nat) (hne : x ≠ y) : (s.retarget x a).addr y = s.addr y := by
  simp [St.retarget, St.addr, List.getD_eq_getElem?_getD, List.getElem?_set, hne]

theorem retarget_addr_self (s : St) (x a : Nat) (hx : x < s.refs.length) : (s.retarget x a).addr x = a := by
  simp [St.retarget, St.addr, List.getD_eq_getElem?_getD, List.getElem?_set, hx]

theorem wf_retarget (s : St) (h : WF s) (x a : Nat) (ha : a < s.cells.length) (hfresh : a ∉ s.refs) :
    WF (s.retarget x a) := by
  refine ⟨?_, ?_⟩
  · simp only [St.retarget]
    rw [List.Nodup, List.pairwise_iff_getElem]
    intro i j hi hj hij
    simp only [List.length_set] at hi hj
    simp only [List.getElem_set]
    have hnd := (List.pairwise_iff_getElem.mp h.nodup) i j hi hj hij
    by_cases h1 : x = i <;> by_cases h2 : x = j
    · omega
    · subst h1
      simp only [↓reduceIte, h2]
      intro he; exact hfresh (he ▸ List.getElem_mem hj)
    · subst h2
      simp only [↓reduceIte, h1]
      intro he; exact hfresh (he ▸ List.getElem_mem hi)
    · simpa only [h1, h2, if_false] using hnd
  · intro r hr
    simp only [St.retarget] at hr
    rcases List.mem_or_eq_of_mem_set hr with hr | rfl
    · exact h.bound r hr
    · exact ha

theorem wf_rebuild (s : St) (h : WF s) (x : Nat) (new : List Int) : WF (s.rebuild x new) := by
  unfold St.rebuild St.snap
  simp only
  have h1 := wf_alloc s h (s.obs x)
  have h2 := wf_alloc _ h1 (.vals new)
  apply wf_retarget _ h2
  · simp
  · have := fresh_not_ref _ h1
    simpa using this

@[simp] theorem rebuild_len (s : St) (x : Nat) (new : List Int) : (s.rebuild x new).refs.length = s.refs.length := by
  simp [St.rebuild, St.snap]

theorem obs_rebuild (s : St) (h : WF s) (x : Nat) (new : List Int) (y : Nat)
    (hy : y < s.refs.length) (hne : x ≠ y) : (s.rebuild x new).obs y = s.obs y := by
  unfold St.rebuild St.snap St.obs
  simp only
  rw [retarget_addr_other _ _ _ _ hne, retarget_cell]
  have h1 := wf_alloc s h (s.obs x)
  have e2 := obs_alloc _ h1 (.vals new) y (by simpa using hy)
  have e1 := obs_alloc s h (s.obs x) y hy
  unfold St.obs at e1 e2
  rw [e2, e1]

theorem obs_rebuild_self (s : St) (x : Nat) (new : List Int) (hx : x < s.refs.length) :
    (s.rebuild x new).obs x = .vals new := by
  unfold St.rebuild St.snap St.obs
  simp only
  rw [retarget_addr_self _ _ _ (by simpa using hx), retarget_cell]
  have := alloc_cell_new (s.alloc (s.cell (s.addr x))).1 (.vals new)
  simpa using this

/-- after a rebuild the receiver's storage is a cell that did not exist before -/
theorem rebuild_fresh (s : St) (x : Nat) (new : List Int) (hx : x < s.refs.length) :
    s.cells.length ≤ (s.rebuild x new).addr x := by
  unfold St.rebuild St.snap
  simp only
  rw [retarget_addr_self _ _ _ (by simpa using hx)]
  simp

end Heap
end CM
