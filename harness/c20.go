package main

// C20: universal constructors build what the class constructors and the parser build.

import (
	"fmt"
	"sync"
	"time"

	mod "github.com/craterdog/go-collection-framework/v4"
	age "github.com/craterdog/go-collection-framework/v4/agent"
	cdc "github.com/craterdog/go-collection-framework/v4/cdcn"
	col "github.com/craterdog/go-collection-framework/v4/collection"
)

type built struct {
	kind string
	val  J
	cap  int
	ty   string
}

func describe(x any) built {
	b := built{val: encVal(x), ty: fmt.Sprintf("%T", x), cap: -1}
	switch c := x.(type) {
	case interface{ GetCapacity() uint }:
		b.cap = int(c.GetCapacity())
	}
	return b
}

// tryBuild runs a constructor under a watchdog (a queue constructor may block)
func tryBuild(f func() any) (string, built) {
	var b built
	cr := guarded(5*time.Second, func() { b = describe(f()) })
	if cr.kind == "panic" {
		return "panic:" + cr.pc, b
	}
	return cr.kind, b
}

func facadeLine(out *Out, caseID int, ctor, form, ty string, n int, npos int, modF, clsF func() any, extra J) {
	mo, mb := tryBuild(modF)
	co, cb := tryBuild(clsF)
	j := J{"k": "facade", "pid": "C20", "case": caseID, "ctor": ctor, "form": form, "ty": ty, "n": n, "npos": npos,
		"mod": J{"out": mo, "v": mb.val, "cap": mb.cap, "gotype": mb.ty}, "cls": J{"out": co, "v": cb.val, "cap": cb.cap, "gotype": cb.ty}}
	for k, v := range extra {
		j[k] = v
	}
	out.emit(j)
}

// facadeLinePre: the module-level result was obtained beforehand (e.g. concurrently with others)
func facadeLinePre(out *Out, caseID int, ctor, form, ty string, n int, npos int, mo string, mb built, clsF func() any, extra J) {
	co, cb := tryBuild(clsF)
	j := J{"k": "facade", "pid": "C20", "case": caseID, "ctor": ctor, "form": form, "ty": ty, "n": n, "npos": npos,
		"mod": J{"out": mo, "v": mb.val, "cap": mb.cap, "gotype": mb.ty}, "cls": J{"out": co, "v": cb.val, "cap": cb.cap, "gotype": cb.ty}}
	for k, v := range extra {
		j[k] = v
	}
	out.emit(j)
}

// a notation instance that is used again and again, also after it has rejected a source
var reusedNotation col.NotationLike

func rejectOnReused() {
	if reusedNotation == nil {
		reusedNotation = mod.CDCN()
	}
	for _, bad := range []string{"[1, 2", "[\n    1\n    2\n](List)\n", "[1, 2](Lisp)\n"} {
		guarded(5*time.Second, func() { reusedNotation.ParseSource(bad) })
	}
}

// withNotation places an explicit notation argument nowhere (0), first (1) or last (2)
func withNotation(npos int, args ...any) []any {
	switch npos {
	case 1:
		return append([]any{cdc.Notation().Make()}, args...)
	case 2:
		return append(append([]any{}, args...), cdc.Notation().Make())
	}
	return args
}

func sourceOf(ctx string, items []any) string {
	text := notation.FormatValue(col.List[any](notation).MakeFromArray(items))
	return text[:len(text)-len("(List)\n")] + "(" + ctx + ")\n"
}

func anyItems[V any](vs []V) []any {
	out := make([]any, len(vs))
	for i, v := range vs {
		out[i] = v
	}
	return out
}

func c20Values[V any](out *Out, tier string, caseID *int, ty string, gen func(i int) V) {
	class := func() col.NotationLike { return notation }
	_ = class
	for _, n := range sizesFor(tier) {
		vs := make([]V, n)
		for i := range vs {
			vs[i] = gen(i)
		}
		if n > 1 && ty != "rune" {
			var zero V
			vs[1] = zero // 0, 0.0, "", false, nil: legitimate values that "look undefined"
		}
		seq := func() col.Sequential[V] { return col.List[V](notation).MakeFromArray(vs) }
		items := anyItems(vs)
		dataJ := make([]any, len(items))
		for i, it := range items {
			dataJ[i] = encVal(it)
		}
		for npos := 0; npos <= 2; npos++ {
			np := npos
			emit := func(ctor, form string, modF, clsF func() any, extra J) {
				*caseID++
				if extra == nil {
					extra = J{}
				}
				extra["data"] = dataJ
				var zero V
				extra["zero"] = encVal(zero)
				switch ctor {
				case "Stack":
					extra["dflt"] = int(col.Stack[V](notation).Make().GetCapacity())
				case "Queue":
					extra["dflt"] = int(col.Queue[V](notation).Make().GetCapacity())
				}
				facadeLine(out, *caseID, ctor, form, ty, n, np, modF, clsF, extra)
			}
			// Array
			emit("Array", "goarray", func() any { return mod.Array[V](withNotation(np, vs)...) }, func() any { return col.Array[V](notation).MakeFromArray(vs) }, nil)
			emit("Array", "sequence", func() any { return mod.Array[V](withNotation(np, seq())...) }, func() any { return col.Array[V](notation).MakeFromSequence(seq()) }, nil)
			emit("Array", "size", func() any { return mod.Array[V](withNotation(np, uint(n))...) }, func() any { return col.Array[V](notation).Make(uint(n)) }, nil)
			emit("Array", "size", func() any { return mod.Array[V](withNotation(np, n)...) }, func() any { return col.Array[V](notation).Make(uint(n)) }, nil)
			emit("Array", "source", func() any { return mod.Array[V](withNotation(np, sourceOf("Array", items))...) }, func() any { return col.Array[V](notation).MakeFromArray(vs) },
				J{"parsed": safeParse(sourceOf("Array", items))})
			// List
			emit("List", "goarray", func() any { return mod.List[V](withNotation(np, vs)...) }, func() any { return col.List[V](notation).MakeFromArray(vs) }, nil)
			emit("List", "sequence", func() any { return mod.List[V](withNotation(np, seq())...) }, func() any { return col.List[V](notation).MakeFromSequence(seq()) }, nil)
			emit("List", "source", func() any { return mod.List[V](withNotation(np, sourceOf("List", items))...) }, func() any { return col.List[V](notation).MakeFromArray(vs) },
				J{"parsed": safeParse(sourceOf("List", items))})
			if np == 1 {
				// the same notation instance serves many constructor calls, also after it rejected a source
				rejectOnReused()
				emit("List", "source", func() any { return mod.List[V](reusedNotation, sourceOf("List", items)) }, func() any { return col.List[V](notation).MakeFromArray(vs) },
					J{"parsed": safeParse(sourceOf("List", items)), "fam": "reused-notation-after-rejection"})
				emit("Stack", "source", func() any { return mod.Stack[V](reusedNotation, sourceOf("Stack", items)) }, func() any { return col.Stack[V](notation).MakeFromArray(vs) },
					J{"parsed": safeParse(sourceOf("Stack", items)), "fam": "reused-notation"})
			}
			// Set
			emit("Set", "goarray", func() any { return mod.Set[V](withNotation(np, vs)...) }, func() any { return col.Set[V](notation).MakeFromArray(vs) }, nil)
			emit("Set", "sequence", func() any { return mod.Set[V](withNotation(np, seq())...) }, func() any { return col.Set[V](notation).MakeFromSequence(seq()) }, nil)
			emit("Set", "source", func() any { return mod.Set[V](withNotation(np, sourceOf("Set", items))...) }, func() any { return col.Set[V](notation).MakeFromArray(vs) },
				J{"parsed": safeParse(sourceOf("Set", items))})
			emit("Set", "collator+goarray", func() any { return mod.Set[V](withNotation(np, age.Collator[V]().Make(), vs)...) }, func() any {
				s := col.Set[V](notation).MakeWithCollator(age.Collator[V]().Make())
				s.AddValues(seq())
				return s
			}, nil)
			// a collator that does NOT order naturally: dropping it on any path shows
			rev := func() age.CollatorLike[V] { return &revCollator[V]{age.Collator[V]().Make()} }
			clsRev := func() any {
				s := col.Set[V](notation).MakeWithCollator(rev())
				s.AddValues(seq())
				return s
			}
			emit("Set", "collator+goarray", func() any { return mod.Set[V](withNotation(np, rev(), vs)...) }, clsRev, J{"rev": true})
			emit("Set", "collator+sequence", func() any { return mod.Set[V](withNotation(np, rev(), seq())...) }, clsRev, J{"rev": true})
			emit("Set", "collator+source", func() any { return mod.Set[V](withNotation(np, rev(), sourceOf("Set", items))...) }, clsRev,
				J{"rev": true, "srcitems": safeParseItems(sourceOf("List", items))})
			// Stack
			emit("Stack", "goarray", func() any { return mod.Stack[V](withNotation(np, vs)...) }, func() any { return col.Stack[V](notation).MakeFromArray(vs) }, nil)
			emit("Stack", "sequence", func() any { return mod.Stack[V](withNotation(np, seq())...) }, func() any { return col.Stack[V](notation).MakeFromSequence(seq()) }, nil)
			emit("Stack", "source", func() any { return mod.Stack[V](withNotation(np, sourceOf("Stack", items))...) }, func() any { return col.Stack[V](notation).MakeFromArray(vs) },
				J{"parsed": safeParse(sourceOf("Stack", items))})
			if n > 0 {
				// the class rejects a capacity of zero
				emit("Stack", "capacity", func() any { return mod.Stack[V](withNotation(np, uint(n))...) }, func() any { return col.Stack[V](notation).MakeWithCapacity(uint(n)) }, nil)
				emit("Queue", "capacity", func() any { return mod.Queue[V](withNotation(np, uint(n))...) }, func() any { return col.Queue[V](notation).MakeWithCapacity(uint(n)) }, nil)
			}
			// Queue
			emit("Queue", "goarray", func() any { return mod.Queue[V](withNotation(np, vs)...) }, func() any { return col.Queue[V](notation).MakeFromArray(vs) }, nil)
			emit("Queue", "sequence", func() any { return mod.Queue[V](withNotation(np, seq())...) }, func() any { return col.Queue[V](notation).MakeFromSequence(seq()) }, nil)
			emit("Queue", "source", func() any { return mod.Queue[V](withNotation(np, sourceOf("Queue", items))...) }, func() any { return col.Queue[V](notation).MakeFromArray(vs) },
				J{"parsed": safeParse(sourceOf("Queue", items))})
		}
	}
	// concurrent callers of the source form (no explicit notation): every goroutine parses its own source
	{
		const G = 6
		rounds := 12
		if tier == "thorough" {
			rounds = 40
		}
		type result struct {
			mo string
			mb built
		}
		type job struct {
			vs    []V
			items []any
			src   string
			mu    sync.Mutex
			res   []result // the distinct results this goroutine saw
			done  bool
		}
		jobs := make([]*job, G)
		for g := 0; g < G; g++ {
			n := 3 + 4*g
			vs := make([]V, n)
			for i := range vs {
				vs[i] = gen(i + 11*g)
			}
			items := anyItems(vs)
			jobs[g] = &job{vs: vs, items: items, src: sourceOf("List", items)}
		}
		build := func(src string) (r result) {
			defer func() {
				if x := recover(); x != nil {
					r = result{mo: "panic:" + classify(x)}
				}
			}()
			return result{mo: "ret", mb: describe(mod.List[V](src))}
		}
		finished := make(chan int, G)
		for g := 0; g < G; g++ {
			go func(g int, jb *job) {
				for r := 0; r < rounds; r++ {
					res := build(jb.src)
					jb.mu.Lock()
					seen := false
					for _, o := range jb.res {
						seen = seen || (o.mo == res.mo && fmt.Sprint(o.mb.val) == fmt.Sprint(res.mb.val))
					}
					if !seen && len(jb.res) < 3 {
						jb.res = append(jb.res, res)
					}
					jb.mu.Unlock()
				}
				jb.mu.Lock()
				jb.done = true
				jb.mu.Unlock()
				finished <- g
			}(g, jobs[g])
		}
		deadline := time.After(30 * time.Second)
	wait:
		for n := 0; n < G; n++ {
			select {
			case <-finished:
			case <-deadline:
				break wait
			}
		}
		for g := 0; g < G; g++ {
			jb := jobs[g]
			jb.mu.Lock()
			results := append([]result{}, jb.res...)
			if !jb.done {
				results = append(results, result{mo: "hang"})
			}
			jb.mu.Unlock()
			dataJ := make([]any, len(jb.items))
			for i, it := range jb.items {
				dataJ[i] = encVal(it)
			}
			var zero V
			vs := jb.vs
			for _, res := range results {
				*caseID++
				facadeLinePre(out, *caseID, "List", "source", ty, len(vs), 0, res.mo, res.mb, func() any { return col.List[V](notation).MakeFromArray(vs) },
					J{"data": dataJ, "zero": encVal(zero), "parsed": safeParse(jb.src), "fam": "concurrent-source"})
			}
		}
	}
	for npos := 0; npos <= 2; npos++ {
		np := npos
		*caseID++
		facadeLine(out, *caseID, "List", "none", ty, 0, np, func() any { return mod.List[V](withNotation(np)...) }, func() any { return col.List[V](notation).Make() }, nil)
		*caseID++
		facadeLine(out, *caseID, "Set", "none", ty, 0, np, func() any { return mod.Set[V](withNotation(np)...) }, func() any { return col.Set[V](notation).Make() }, nil)
		*caseID++
		facadeLine(out, *caseID, "Stack", "none", ty, 0, np, func() any { return mod.Stack[V](withNotation(np)...) }, func() any { return col.Stack[V](notation).Make() }, J{"dflt": int(col.Stack[V](notation).Make().GetCapacity())})
		*caseID++
		facadeLine(out, *caseID, "Queue", "none", ty, 0, np, func() any { return mod.Queue[V](withNotation(np)...) }, func() any { return col.Queue[V](notation).Make() }, J{"dflt": int(col.Queue[V](notation).Make().GetCapacity())})
	}
}

func sizesFor(tier string) []int {
	if tier == "thorough" {
		var all []int
		for n := 0; n <= 20; n++ {
			all = append(all, n)
		}
		return all
	}
	return []int{0, 1, 2, 3, 15, 16, 17, 20}
}

// revCollator ranks in the opposite order of the collator it wraps
type revCollator[V any] struct{ inner age.CollatorLike[V] }

func (c *revCollator[V]) GetClass() age.CollatorClassLike[V] { return c.inner.GetClass() }
func (c *revCollator[V]) GetDepth() int                      { return c.inner.GetDepth() }
func (c *revCollator[V]) GetMaximum() int                    { return c.inner.GetMaximum() }
func (c *revCollator[V]) CompareValues(a, b V) bool          { return c.inner.CompareValues(a, b) }
func (c *revCollator[V]) RankValues(a, b V) age.Rank         { return c.inner.RankValues(b, a) }

// the items of a source as the parser delivers them (in source order)
func safeParseItems(src string) []any {
	var v any
	cr := guarded(5*time.Second, func() { v = notation.ParseSource(src) })
	if cr.kind != "ret" {
		return nil
	}
	var out []any
	for _, x := range v.(col.Sequential[any]).AsArray() {
		out = append(out, encVal(x))
	}
	return out
}

func safeParse(src string) J {
	var v any
	cr := guarded(5*time.Second, func() { v = notation.ParseSource(src) })
	if cr.kind != "ret" {
		return J{"t": "unparsed"}
	}
	return encVal(v)
}

func c20Keyed[K comparable, V any](out *Out, tier string, caseID *int, ty string, genK func(i int) K, genV func(i int) V) {
	for _, n := range sizesFor(tier) {
		as := make([]col.AssociationLike[K, V], n)
		gm := map[K]V{}
		var items []any
		val := func(i int) V {
			if i == 1 && ty != "rune,bool" {
				var zero V
				return zero // a zero / empty / nil value is a value
			}
			return genV(i)
		}
		for i := range as {
			as[i] = col.Association[K, V](notation).Make(genK(i), val(i))
			gm[genK(i)] = val(i)
			items = append(items, col.Association[any, any](notation).Make(genK(i), val(i)))
		}
		seq := func() col.Sequential[col.AssociationLike[K, V]] {
			return col.List[col.AssociationLike[K, V]](notation).MakeFromArray(as)
		}
		src := func(ctx string) string {
			c := col.Catalog[any, any](notation).Make()
			for i := range as {
				c.SetValue(genK(i), val(i))
			}
			text := notation.FormatValue(c)
			return text[:len(text)-len("(Catalog)\n")] + "(" + ctx + ")\n"
		}
		for npos := 0; npos <= 2; npos++ {
			np := npos
			emit := func(ctor, form string, modF, clsF func() any, extra J) {
				*caseID++
				if extra == nil {
					extra = J{}
				}
				dataJ := make([]any, len(items))
				for i, it := range items {
					dataJ[i] = encVal(it)
				}
				extra["data"] = dataJ
				facadeLine(out, *caseID, ctor, form, ty, n, np, modF, clsF, extra)
			}
			emit("Catalog", "goarray", func() any { return mod.Catalog[K, V](withNotation(np, as)...) }, func() any { return col.Catalog[K, V](notation).MakeFromArray(as) }, nil)
			emit("Catalog", "gomap", func() any { return mod.Catalog[K, V](withNotation(np, gm)...) }, func() any { return col.Catalog[K, V](notation).MakeFromMap(gm) }, J{"unordered": true})
			emit("Catalog", "sequence", func() any { return mod.Catalog[K, V](withNotation(np, seq())...) }, func() any { return col.Catalog[K, V](notation).MakeFromSequence(seq()) }, nil)
			emit("Catalog", "source", func() any { return mod.Catalog[K, V](withNotation(np, src("Catalog"))...) }, func() any { return col.Catalog[K, V](notation).MakeFromArray(as) },
				J{"parsed": safeParse(src("Catalog"))})
			emit("Map", "goarray", func() any { return mod.Map[K, V](withNotation(np, as)...) }, func() any { return col.Map[K, V](notation).MakeFromArray(as) }, nil)
			emit("Map", "gomap", func() any { return mod.Map[K, V](withNotation(np, gm)...) }, func() any { return col.Map[K, V](notation).MakeFromMap(gm) }, nil)
			emit("Map", "sequence", func() any { return mod.Map[K, V](withNotation(np, seq())...) }, func() any { return col.Map[K, V](notation).MakeFromSequence(seq()) }, nil)
			emit("Map", "source", func() any { return mod.Map[K, V](withNotation(np, src("Map"))...) }, func() any { return col.Map[K, V](notation).MakeFromArray(as) },
				J{"parsed": safeParse(src("Map"))})
		}
	}
	for npos := 0; npos <= 2; npos++ {
		np := npos
		*caseID++
		facadeLine(out, *caseID, "Catalog", "none", ty, 0, np, func() any { return mod.Catalog[K, V](withNotation(np)...) }, func() any { return col.Catalog[K, V](notation).Make() }, nil)
		*caseID++
		facadeLine(out, *caseID, "Map", "none", ty, 0, np, func() any { return mod.Map[K, V](withNotation(np)...) }, func() any { return col.Map[K, V](notation).Make() }, nil)
		for i := 0; i < 7; i++ {
			k, v := genK(i), genV(i+1)
			// zero-valued keys and values are legitimate data: all four combinations
			var zeroK K
			var zeroV V
			switch i {
			case 3:
				k = zeroK
			case 4:
				v = zeroV
			case 5:
				k, v = zeroK, zeroV
			case 6:
				if kv, ok := any(v).(K); ok {
					if vk, ok2 := any(k).(V); ok2 {
						k, v = kv, vk // swapped roles when the types allow it
					}
				}
			}
			if any(k) == nil || any(v) == nil {
				continue // an untyped nil cannot be told from a missing argument
			}
			*caseID++
			var args []any
			for _, a := range withNotation(np, k, v) {
				_, isN := a.(col.NotationLike)
				_, isK := a.(K)
				_, isV := a.(V)
				var val any = J{"t": "undef"}
				if !isN {
					val = encVal(a)
				}
				args = append(args, J{"n": isN, "k": isK, "v": isV, "val": val})
			}
			facadeLine(out, *caseID, "Association", "pair", ty, 2, np, func() any { return mod.Association[K, V](withNotation(np, k, v)...) },
				func() any { return col.Association[K, V](notation).Make(k, v) }, J{"args": args})
		}
	}
}

func runC20(tier string, seed int64, out *Out) {
	caseID := 0
	z := int(seed % 997) // contents vary with the seed; duplicates occur on purpose
	c20Values(out, tier, &caseID, "int64", func(i int) int64 { return int64(((i+z)*7)%41 - 20) })
	c20Values(out, tier, &caseID, "uint64", func(i int) uint64 { return uint64(((i+z)*5)%37 + 1) })
	c20Values(out, tier, &caseID, "float64", func(i int) float64 { return float64(((i+z)*3)%29)*1.5 - 3 })
	c20Values(out, tier, &caseID, "string", func(i int) string { return fmt.Sprintf("s%02d", ((i+z)*7)%23) })
	c20Values(out, tier, &caseID, "rune", func(i int) rune { return rune('a' + ((i+z)*5)%26) })
	c20Values(out, tier, &caseID, "bool", func(i int) bool { return (i+z)%3 == 0 })
	c20Values(out, tier, &caseID, "any", func(i int) any {
		switch (i + z) % 7 {
		case 0:
			return int64(i)
		case 1:
			return fmt.Sprintf("x%d", i)
		case 2:
			return nil
		case 3:
			return "" // defined, although it looks empty
		case 4:
			return false
		case 5:
			return int64(0)
		}
		return float64(i) + 0.5
	})
	c20Keyed(out, tier, &caseID, "string,int64", func(i int) string { return fmt.Sprintf("k%02d", ((i+z)*7)%19) }, func(i int) int64 { return int64(i * 3) })
	c20Keyed(out, tier, &caseID, "int64,string", func(i int) int64 { return int64(((i+z)*3)%31 - 5) }, func(i int) string { return fmt.Sprintf("v%d", i) })
	c20Keyed(out, tier, &caseID, "string,string", func(i int) string { return fmt.Sprintf("k%02d", (i+z)%50) }, func(i int) string { return fmt.Sprintf("v%d", i) })
	c20Keyed(out, tier, &caseID, "int64,int64", func(i int) int64 { return int64((i+z)%17 + 1) }, func(i int) int64 { return int64(100 + i) })
	c20Keyed(out, tier, &caseID, "rune,bool", func(i int) rune { return rune('a' + (i+z)%26) }, func(i int) bool { return i%2 == 0 })
	c20Keyed(out, tier, &caseID, "any,any", func(i int) any { return fmt.Sprintf("k%d", (i+z)%40) }, func(i int) any { return int64(i) })
	c20Keyed(out, tier, &caseID, "float64,uint64", func(i int) float64 { return float64((i+z)%33) + 0.25 }, func(i int) uint64 { return uint64(i) })
	c20Keyed(out, tier, &caseID, "any,string", func(i int) any { return int64((i + z) % 35) }, func(i int) string { return fmt.Sprintf("v%d", i) })
	c20Keyed(out, tier, &caseID, "string,any", func(i int) string { return fmt.Sprintf("k%d", (i+z)%35) }, func(i int) any { return fmt.Sprintf("v%d", i) })
}
