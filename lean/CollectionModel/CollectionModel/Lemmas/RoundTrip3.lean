import CollectionModel.Lemmas.RoundTrip2
namespace CM
namespace Cdcn
variable {env : Env}

theorem collOf_arr (mk : List Val → Option Val) (c n : Bool) (xs items : List Val) :
    collOf mk (ctxName (.arr c n xs)) items = some (.arr true false items) := by
  simp [collOf, ctxName, str, ch]
theorem collOf_list (mk : List Val → Option Val) (xs items : List Val) :
    collOf mk (ctxName (.coll .list xs)) items = some (.coll .list items) := by
  simp [collOf, ctxName, str, ch]
theorem collOf_queue (mk : List Val → Option Val) (xs items : List Val) :
    collOf mk (ctxName (.coll .queue xs)) items = some (.coll .queue items) := by
  simp [collOf, ctxName, str, ch]
theorem collOf_stack (mk : List Val → Option Val) (xs items : List Val) :
    collOf mk (ctxName (.coll .stack xs)) items = some (.coll .stack items) := by
  simp [collOf, ctxName, str, ch]
theorem collOf_set (mk : List Val → Option Val) (xs items : List Val) :
    collOf mk (ctxName (.coll .set xs)) items = mk items := by
  simp [collOf, ctxName, str, ch]
theorem collOf_catalog (mk : List Val → Option Val) (xs items : List Val) (h : ∀ x ∈ items, isAssocVal x = true) :
    collOf mk (ctxName (.coll .catalog xs)) items = some (.coll .catalog (Val.catalogOf (pairsOf items))) := by
  have : items.all isAssocVal = true := by simpa using h
  simp [collOf, ctxName, str, ch, this]
theorem collOf_map (mk : List Val → Option Val) (c n : Bool) (es : List (Val × Val)) (items : List Val) (h : ∀ x ∈ items, isAssocVal x = true) :
    collOf mk (ctxName (.gomap c n es)) items = some (.gomap true false (Val.mapOf (pairsOf items))) := by
  have : items.all isAssocVal = true := by simpa using h
  simp [collOf, ctxName, str, ch, this]

variable (env) (leafText : Val → Option (List Nat)) (max : Nat)

def RtValue (f : Nat) : Prop := ∀ v d t, Canon env.mkSet max d v → isAssocVal v = false →
  fmtValue leafText max f d v = .ok t → ValueLex env t v
def RtAssoc (f : Nat) : Prop := ∀ k x d t, Canon env.mkSet max d x → isAssocVal x = false →
  fmtValue leafText max f d (.assoc k x) = .ok t → AssocLex env t k x
def RtItems (f : Nat) : Prop := ∀ xs d keyed t, d < max → CanonList env.mkSet max (d+1) xs →
  (keyed = false → ∀ x ∈ xs, isAssocVal x = false) →
  (keyed = true → (∀ x ∈ xs, isAssocVal x = true) ∧ Val.catalogOf (pairsOf xs) = xs) →
  fmtItems leafText max f d keyed xs = .ok t → ItemsLex env t xs
def RtLines (f : Nat) : Prop := ∀ xs d t, CanonList env.mkSet max d xs → (∀ x ∈ xs, isAssocVal x = false) →
  fmtLines leafText max f d xs = .ok t → LinesLex env t xs
def RtALines (f : Nat) : Prop := ∀ xs d t, CanonList env.mkSet max d xs → (∀ x ∈ xs, isAssocVal x = true) →
  fmtLines leafText max f d xs = .ok t → ALinesLex env t xs

variable {env leafText max}

theorem value_step (hl : LeafLex leafText env.conv) (f : Nat) (ih : RtItems env leafText max f) : RtValue env leafText max (f+1) := by
  intro v d t hc hna h
  cases v with
  | arr cls n xs =>
    simp only [fmtValue] at h
    obtain ⟨ti, hi, ht⟩ := bind_ok h
    simp only [Canon] at hc
    obtain ⟨rfl, rfl, hd, hcl, hno⟩ := hc
    injection ht with ht; subst ht
    exact coll_lex _ ti xs (by simp [ctxName, str]) (ih xs d false ti hd hcl (fun _ => hno) (by simp) hi) (collOf_arr _ _ _ _ _)
  | coll k xs =>
    simp only [fmtValue] at h
    obtain ⟨ti, hi, ht⟩ := bind_ok h
    simp only [Canon] at hc
    obtain ⟨hd, hcl, hok⟩ := hc
    injection ht with ht; subst ht
    cases k with
    | catalog =>
      simp only [CollOk] at hok
      refine coll_lex _ ti xs (by simp [ctxName, str]) (ih xs d true ti hd hcl (by simp) (fun _ => hok) hi) ?_
      rw [collOf_catalog _ _ _ hok.1, hok.2]
    | list =>
      simp only [CollOk] at hok
      exact coll_lex _ ti xs (by simp [ctxName, str]) (ih xs d false ti hd hcl (fun _ => hok) (by simp) hi) (collOf_list _ _ _)
    | queue =>
      simp only [CollOk] at hok
      exact coll_lex _ ti xs (by simp [ctxName, str]) (ih xs d false ti hd hcl (fun _ => hok) (by simp) hi) (collOf_queue _ _ _)
    | stack =>
      simp only [CollOk] at hok
      exact coll_lex _ ti xs (by simp [ctxName, str]) (ih xs d false ti hd hcl (fun _ => hok) (by simp) hi) (collOf_stack _ _ _)
    | set =>
      simp only [CollOk] at hok
      refine coll_lex _ ti xs (by simp [ctxName, str]) (ih xs d false ti hd hcl (fun _ => hok.1) (by simp) hi) ?_
      rw [collOf_set, hok.2]
  | gomap cls n es =>
    simp only [fmtValue] at h
    obtain ⟨ti, hi, ht⟩ := bind_ok h
    simp only [Canon] at hc
    obtain ⟨rfl, rfl, hd, hcl, hmap⟩ := hc
    injection ht with ht; subst ht
    have hcat : Val.catalogOf (pairsOf (es.map fun e => Val.assoc e.1 e.2)) = es.map fun e => Val.assoc e.1 e.2 := by
      rw [pairsOf_map_assoc]
      show (Val.mapOf es).map _ = _
      rw [hmap]
    refine coll_lex _ ti _ (by simp [ctxName, str]) (ih _ d true ti hd (canonList_entries _ _ _ es hcl) (by simp)
      (fun _ => ⟨all_assoc_map es, hcat⟩) hi) ?_
    rw [collOf_map _ _ _ _ _ (all_assoc_map es), pairsOf_map_assoc, hmap]
  | assoc k x => simp [isAssocVal] at hna
  | undef => simp only [fmtValue] at h; split at h <;> first | (injection h with h; subst h; exact leaf_lex hl _ _ (by assumption) rfl) | cases h
  | bool b => simp only [fmtValue] at h; split at h <;> first | (injection h with h; subst h; exact leaf_lex hl _ _ (by assumption) rfl) | cases h
  | byte b => simp only [fmtValue] at h; split at h <;> first | (injection h with h; subst h; exact leaf_lex hl _ _ (by assumption) rfl) | cases h
  | uns b => simp only [fmtValue] at h; split at h <;> first | (injection h with h; subst h; exact leaf_lex hl _ _ (by assumption) rfl) | cases h
  | int b => simp only [fmtValue] at h; split at h <;> first | (injection h with h; subst h; exact leaf_lex hl _ _ (by assumption) rfl) | cases h
  | rune b => simp only [fmtValue] at h; split at h <;> first | (injection h with h; subst h; exact leaf_lex hl _ _ (by assumption) rfl) | cases h
  | flt b => simp only [fmtValue] at h; split at h <;> first | (injection h with h; subst h; exact leaf_lex hl _ _ (by assumption) rfl) | cases h
  | cpx b => simp only [fmtValue] at h; split at h <;> first | (injection h with h; subst h; exact leaf_lex hl _ _ (by assumption) rfl) | cases h
  | str b => simp only [fmtValue] at h; split at h <;> first | (injection h with h; subst h; exact leaf_lex hl _ _ (by assumption) rfl) | cases h

theorem assoc_step (hl : LeafLex leafText env.conv) (f : Nat) (ih : RtValue env leafText max f) : RtAssoc env leafText max (f+1) := by
  intro k x d t hc hna h
  simp only [fmtValue] at h
  cases hk : leafText k with
  | none => rw [hk] at h; cases h
  | some kt =>
    rw [hk] at h
    simp only at h
    obtain ⟨tx, hx, ht⟩ := bind_ok h
    injection ht with ht; subst ht
    obtain ⟨hsx, hlexx⟩ := ih x d tx hc hna hx
    obtain ⟨c, r, hkt, hc32⟩ := hl.starts k kt hk
    refine ⟨⟨c, r ++ str ": " ++ tx, by rw [hkt]; simp, hc32⟩, fun R lc hR => ?_⟩
    have e0 : kt ++ str ": " ++ tx ++ R = kt ++ (ch ':' :: (List.replicate 1 32 ++ (tx ++ R))) := by
      rw [str_colon_space]; simp
    obtain ⟨ktok, lc1, hkk, hkc, e1⟩ := scan_leaf hl k kt hk (ch ':' :: (List.replicate 1 32 ++ (tx ++ R))) lc (term_colon _)
    obtain ⟨colon, lc2, hcol, e2⟩ := scan_colon (List.replicate 1 32 ++ (tx ++ R)) lc1
    obtain ⟨lc3, e3⟩ := scan_spaces 1 (tx ++ R) lc2 (hsx.nosp R)
    obtain ⟨S, lc4, e4, hSg, hSm, _⟩ := hlexx R lc3 hR
    refine ⟨.mk ktok colon S, lc4, ?_, ⟨hkk, hcol, hSg⟩, ?_⟩
    · rw [e0, e1, e2, e3, e4]; simp [SAssoc.toks]
    · simp only [SAssoc.mean, hkc, hSm]


theorem newline_cons (d : Nat) : newline d = 10 :: List.replicate (4 * d) 32 := rfl

theorem lines_step (f : Nat) (ihv : RtValue env leafText max f) (ihl : RtLines env leafText max f) : RtLines env leafText max (f+1) := by
  intro xs d t hc hna h
  cases xs with
  | nil =>
    simp only [fmtLines] at h
    injection h with h; subst h
    exact ⟨Or.inl rfl, fun R lc _ => ⟨.nil, lc, by simp [SVals.toks], trivial, rfl⟩⟩
  | cons x xs =>
    simp only [fmtLines] at h
    obtain ⟨tx, hx, h⟩ := bind_ok h
    obtain ⟨rest, hr, ht⟩ := bind_ok h
    injection ht with ht; subst ht
    simp only [CanonList] at hc
    obtain ⟨hsx, hlexx⟩ := ihv x d tx hc.1 (hna x (by simp)) hx
    obtain ⟨hhead, hlexr⟩ := ihl xs d rest hc.2 (fun y hy => hna y (by simp [hy])) hr
    refine ⟨Or.inr ⟨List.replicate (4 * d) 32 ++ (tx ++ rest), by rw [newline_cons]; simp⟩, fun R lc hR => ?_⟩
    have e0 : newline d ++ tx ++ rest ++ R = newline d ++ (tx ++ (rest ++ R)) := by simp
    obtain ⟨e, lc1, he, e1⟩ := scan_newline d (tx ++ (rest ++ R)) lc (hsx.nosp _)
    have hterm : Term (rest ++ R) := by
      obtain ⟨r0, rfl⟩ := hR
      rcases hhead with rfl | ⟨r, rfl⟩
      · exact term_eol _
      · exact term_eol _
    obtain ⟨S, lc2, e2, hSg, hSm, _⟩ := hlexx (rest ++ R) lc1 hterm
    obtain ⟨V, lc3, e3, hVg, hVm⟩ := hlexr R lc2 hR
    refine ⟨.cons e S V, lc3, ?_, ⟨he, hSg, hVg⟩, ?_⟩
    · rw [e0, e1, e2, e3]; simp [SVals.toks]
    · simp only [SVals.mean, hSm, hVm]

theorem alines_step (f : Nat) (iha : RtAssoc env leafText max f) (ihl : RtALines env leafText max f) : RtALines env leafText max (f+1) := by
  intro xs d t hc hall h
  cases xs with
  | nil =>
    simp only [fmtLines] at h
    injection h with h; subst h
    exact ⟨Or.inl rfl, fun R lc _ => ⟨.nil, lc, by simp [SAssocs.toks], trivial, rfl⟩⟩
  | cons x xs =>
    simp only [fmtLines] at h
    obtain ⟨tx, hx, h⟩ := bind_ok h
    obtain ⟨rest, hr, ht⟩ := bind_ok h
    injection ht with ht; subst ht
    simp only [CanonList] at hc
    have hxa := hall x (by simp)
    cases x with
    | assoc k y =>
      simp only [Canon] at hc
      obtain ⟨hsx, hlexx⟩ := iha k y d tx hc.1.1 hc.1.2 hx
      obtain ⟨hhead, hlexr⟩ := ihl xs d rest hc.2 (fun y hy => hall y (by simp [hy])) hr
      refine ⟨Or.inr ⟨List.replicate (4 * d) 32 ++ (tx ++ rest), by rw [newline_cons]; simp⟩, fun R lc hR => ?_⟩
      have e0 : newline d ++ tx ++ rest ++ R = newline d ++ (tx ++ (rest ++ R)) := by simp
      obtain ⟨e, lc1, he, e1⟩ := scan_newline d (tx ++ (rest ++ R)) lc (hsx.nosp _)
      have hterm : Term (rest ++ R) := by
        obtain ⟨r0, rfl⟩ := hR
        rcases hhead with rfl | ⟨r, rfl⟩
        · exact term_eol _
        · exact term_eol _
      obtain ⟨A, lc2, e2, hAg, hAm⟩ := hlexx (rest ++ R) lc1 hterm
      obtain ⟨V, lc3, e3, hVg, hVm⟩ := hlexr R lc2 hR
      refine ⟨.cons e A V, lc3, ?_, ⟨he, hAg, hVg⟩, ?_⟩
      · rw [e0, e1, e2, e3]; simp [SAssocs.toks]
      · simp only [SAssocs.mean, hAm, hVm]
        simp [pairsOf]
    | _ => simp [isAssocVal] at hxa


theorem nosp_rbracket (R : Src) : NoSp (ch ']' :: R) := by
  intro r e; injection e with e _; exact absurd e (by decide)

theorem items_step (f : Nat) (ihv : RtValue env leafText max f) (iha : RtAssoc env leafText max f)
    (ihl : RtLines env leafText max f) (ihal : RtALines env leafText max f) : RtItems env leafText max (f+1) := by
  intro xs d keyed t hd hc hnk hk h
  simp only [fmtItems] at h
  have hne : ¬ d = max := by omega
  simp only [hne, if_false] at h
  rcases xs with _ | ⟨x, _ | ⟨y, rest⟩⟩
  ·
    simp only at h
    injection h with h
    cases keyed with
    | false =>
      simp only [Bool.false_eq_true, if_false, str_space] at h; subst h
      intro R lc
      obtain ⟨lc1, e1⟩ := scan_spaces 1 (ch ']' :: R) lc (nosp_rbracket R)
      exact ⟨.noValues, lc1, by simpa [SItems.toks] using e1, trivial, rfl⟩
    | true =>
      simp only [if_true, str_colon] at h; subst h
      intro R lc
      obtain ⟨colon, lc1, hcol, e1⟩ := scan_colon (ch ']' :: R) lc
      exact ⟨.noAssocs colon, lc1, by simpa [SItems.toks] using e1, hcol, rfl⟩
  ·
    simp only at h
    simp only [CanonList] at hc
    cases keyed with
    | false =>
      obtain ⟨_, hlex⟩ := ihv x (d+1) t hc.1 (hnk rfl x (by simp)) h
      intro R lc
      obtain ⟨S, lc1, e1, hSg, hSm, _⟩ := hlex (ch ']' :: R) lc (term_rbracket R)
      exact ⟨.inlineValues S .nil, lc1, by simp [SItems.toks, SVals.toks, e1], ⟨hSg, trivial⟩, by simp only [SItems.mean, hSm, SVals.mean]⟩
    | true =>
      obtain ⟨hall, hcat⟩ := hk rfl
      have hxa := hall x (by simp)
      cases x with
      | assoc k y =>
        simp only [Canon] at hc
        obtain ⟨_, hlex⟩ := iha k y (d+1) t hc.1.1 hc.1.2 h
        intro R lc
        obtain ⟨A, lc1, e1, hAg, hAm⟩ := hlex (ch ']' :: R) lc (term_rbracket R)
        refine ⟨.inlineAssocs A .nil, lc1, by simp [SItems.toks, SAssocs.toks, e1], ⟨hAg, trivial⟩, ?_⟩
        simp only [SItems.mean, hAm, SAssocs.mean]
        rw [← hcat]; simp [pairsOf]
      | _ => simp [isAssocVal] at hxa
  ·
    simp only at h
    obtain ⟨tl, hl, ht⟩ := bind_ok h
    injection ht with ht; subst ht
    cases keyed with
    | false =>
      obtain ⟨_, hlex⟩ := ihl (x :: y :: rest) (d+1) tl hc (hnk rfl) hl
      intro R lc
      have e0 : tl ++ newline d ++ ch ']' :: R = tl ++ (newline d ++ ch ']' :: R) := by simp
      obtain ⟨V, lc1, e1, hVg, hVm⟩ := hlex (newline d ++ ch ']' :: R) lc ⟨_, by rw [newline_cons]; rfl⟩
      obtain ⟨last, lc2, hlast, e2⟩ := scan_newline d (ch ']' :: R) lc1 (nosp_rbracket R)
      cases V with
      | nil => simp [SVals.mean] at hVm
      | cons e S more =>
        simp only [SVals.Good] at hVg
        refine ⟨.multiValues e S more last, lc2, ?_, ⟨hVg.1, hVg.2.1, hVg.2.2, hlast⟩, ?_⟩
        · rw [e0, e1, e2]; simp [SItems.toks, SVals.toks]
        · simp only [SVals.mean] at hVm
          simp only [SItems.mean]; exact hVm
    | true =>
      obtain ⟨hall, hcat⟩ := hk rfl
      obtain ⟨_, hlex⟩ := ihal (x :: y :: rest) (d+1) tl hc hall hl
      intro R lc
      have e0 : tl ++ newline d ++ ch ']' :: R = tl ++ (newline d ++ ch ']' :: R) := by simp
      obtain ⟨V, lc1, e1, hVg, hVm⟩ := hlex (newline d ++ ch ']' :: R) lc ⟨_, by rw [newline_cons]; rfl⟩
      obtain ⟨last, lc2, hlast, e2⟩ := scan_newline d (ch ']' :: R) lc1 (nosp_rbracket R)
      cases V with
      | nil =>
        have hxa := hall x (by simp)
        cases x <;> simp [isAssocVal] at hxa
        simp [SAssocs.mean, pairsOf] at hVm
      | cons e A more =>
        simp only [SAssocs.Good] at hVg
        refine ⟨.multiAssocs e A more last, lc2, ?_, ⟨hVg.1, hVg.2.1, hVg.2.2, hlast⟩, ?_⟩
        · rw [e0, e1, e2]; simp [SItems.toks, SAssocs.toks]
        · simp only [SAssocs.mean] at hVm
          simp only [SItems.mean]
          cases hA : A.mean env with
          | none => rw [hA] at hVm; simp at hVm
          | some p =>
            cases hM : more.mean env with
            | none => rw [hA, hM] at hVm; simp at hVm
            | some ps =>
              rw [hA, hM] at hVm
              simp only [Option.some.injEq] at hVm
              simp only [hVm, hcat]


/-- all five statements, for every fuel -/
theorem rt_all (hl : LeafLex leafText env.conv) : ∀ f, RtValue env leafText max f ∧ RtAssoc env leafText max f ∧
    RtItems env leafText max f ∧ RtLines env leafText max f ∧ RtALines env leafText max f
  | 0 => ⟨fun v d t _ _ h => by simp [fmtValue] at h, fun k x d t _ _ h => by simp [fmtValue] at h,
          fun xs d keyed t _ _ _ _ h => by simp [fmtItems] at h, fun xs d t _ _ h => by simp [fmtLines] at h,
          fun xs d t _ _ h => by simp [fmtLines] at h⟩
  | f+1 => by
    obtain ⟨h1, h2, h3, h4, h5⟩ := rt_all hl f
    exact ⟨value_step hl f h3, assoc_step hl f h1, items_step f h1 h2 h4 h5, lines_step f h1 h4, alines_step f h2 h5⟩

end Cdcn
end CM
