/-
  Model of `agent/collator.go`: `rankValues` / `compareValues` with their
  helper families.  `depth` is the collator's `depth_` field at the point of the
  call (incremented around element visits inside arrays and maps, checked
  against `maximum_` on entry to `rankArrays` / `rankMaps` / `compareArrays` /
  `compareMaps`); `fuel` bounds the recursion of the model itself.
-/
import CollectionModel.Model.Val
import CollectionModel.Model.Sorter
namespace CM
namespace Coll

/-- result of a collator call -/
inductive Out (α : Type)
  | ok (a : α)
  | depth          -- "The maximum traversal depth was exceeded"
  | hang           -- model fuel exhausted
  deriving DecidableEq, Repr

def flipOut : Out Rank → Out Rank
  | .ok r => .ok r.flip
  | o => o

/-- sticky error state threaded through the sorter while it sorts map keys -/
abbrev SortSt := Option (Out Rank)

mutual
/-- `collator_.rankValues` -/
def rank (max : Nat) : Nat → Nat → Val → Val → Out Rank
  | 0, _, _, _ => .hang
  | f+1, d, a, b =>
    match a, b with
    | .undef, .undef => .ok .eq
    | .undef, _ => .ok .lt
    | _, .undef => .ok .gt
    | a, b =>
      if a.tcode ≠ b.tcode then .ok (rankNat a.tcode b.tcode) else
      match a, b with
      | .bool x, .bool y => .ok (rankBool x y)
      | .byte x, .byte y => .ok (rankNat x y)
      | .uns x, .uns y => .ok (rankNat x y)
      | .int x, .int y => .ok (rankInt x y)
      | .rune x, .rune y => .ok (rankInt x y)
      | .flt x, .flt y => .ok (rankFl x y)
      | .cpx x, .cpx y => .ok (rankCx x y)
      | .str x, .str y => .ok (rankBytes x y)
      | .arr _ na xs, .arr _ nb ys =>
        if na then (if nb then .ok .eq else .ok .lt) else if nb then .ok .gt else rankArr max f d xs ys
      | .gomap _ na ea, .gomap _ nb eb =>
        if na then (if nb then .ok .eq else .ok .lt) else if nb then .ok .gt else rankMap max f d ea eb
      | .coll _ xs, .coll _ ys => rankArr max f d xs ys
      | .assoc k1 v1, .assoc k2 v2 =>
        (match rank max f d k1 k2 with
         | .ok .eq => rank max f d v1 v2
         | r => r)
      | _, _ => .ok .eq
/-- `rankArrays`: depth check, swap-and-flip when the first is longer -/
def rankArr (max : Nat) : Nat → Nat → List Val → List Val → Out Rank
  | 0, _, _, _ => .hang
  | f+1, d, xs, ys =>
    if d = max then .depth
    else if xs.length > ys.length then flipOut (rankPrefix max f d ys xs)
    else rankPrefix max f d xs ys
/-- the element loop of `rankArrays` (first not longer than second) -/
def rankPrefix (max : Nat) : Nat → Nat → List Val → List Val → Out Rank
  | 0, _, _, _ => .hang
  | _+1, _, [], [] => .ok .eq
  | _+1, _, [], _ :: _ => .ok .lt
  | _+1, _, _ :: _, [] => .ok .gt
  | f+1, d, x :: xs, y :: ys =>
    match rank max f (d+1) x y with
    | .ok .eq => rankPrefix max f d xs ys
    | r => r
/-- `rankMaps`: depth check, keys sorted with the sorter and this very ranker, swap-and-flip -/
def rankMap (max : Nat) : Nat → Nat → List (Val × Val) → List (Val × Val) → Out Rank
  | 0, _, _, _ => .hang
  | f+1, d, ea, eb =>
    if d = max then .depth else
    let keyRank : SortSt → (Val × Val) → (Val × Val) → Rank × SortSt := fun st p q =>
      match st with
      | some e => (.eq, some e)
      | none => match rank max f d p.1 q.1 with
        | .ok r => (r, none)
        | e => (.eq, some e)
    let sa := Sorter.sortValuesM keyRank none ea
    let sb := Sorter.sortValuesM keyRank sa.2 eb
    match sb.2 with
    | some e => e
    | none =>
      if sa.1.length > sb.1.length then flipOut (rankEntries max f d sb.1 sa.1)
      else rankEntries max f d sa.1 sb.1
/-- the association loop of `rankMaps` -/
def rankEntries (max : Nat) : Nat → Nat → List (Val × Val) → List (Val × Val) → Out Rank
  | 0, _, _, _ => .hang
  | _+1, _, [], [] => .ok .eq
  | _+1, _, [], _ :: _ => .ok .lt
  | _+1, _, _ :: _, [] => .ok .gt
  | f+1, d, (k1, v1) :: xs, (k2, v2) :: ys =>
    match rank max f (d+1) k1 k2 with
    | .ok .eq =>
      (match rank max f (d+1) v1 v2 with
       | .ok .eq => rankEntries max f d xs ys
       | r => r)
    | r => r
end

/-- Go `==` on map keys (only comparable leaf values can be keys) -/
def keyEq : Val → Val → Bool
  | .undef, .undef => true
  | .bool x, .bool y => x == y
  | .byte x, .byte y => x == y
  | .uns x, .uns y => x == y
  | .int x, .int y => x == y
  | .rune x, .rune y => x == y
  | .flt x, .flt y => eqFl x y
  | .cpx x, .cpx y => eqCx x y
  | .str x, .str y => x == y
  | _, _ => false

def mapIndex (k : Val) : List (Val × Val) → Option Val
  | [] => none
  | (k', v) :: rest => if keyEq k' k then some v else mapIndex k rest

mutual
/-- `collator_.compareValues` -/
def cmp (max : Nat) : Nat → Nat → Val → Val → Out Bool
  | 0, _, _, _ => .hang
  | f+1, d, a, b =>
    match a, b with
    | .undef, .undef => .ok true
    | .undef, _ => .ok false
    | _, .undef => .ok false
    | a, b =>
      if a.tcode ≠ b.tcode then .ok false else
      match a, b with
      | .bool x, .bool y => .ok (x == y)
      | .byte x, .byte y => .ok (x == y)
      | .uns x, .uns y => .ok (x == y)
      | .int x, .int y => .ok (x == y)
      | .rune x, .rune y => .ok (x == y)
      | .flt x, .flt y => .ok (rankFl x y == .eq)     -- floats compare equal exactly when they rank equal
      | .cpx x, .cpx y => .ok (eqCx x y)
      | .str x, .str y => .ok (x == y)
      | .arr _ na xs, .arr _ nb ys =>
        if na then .ok nb else if nb then .ok false else cmpArr max f d xs ys
      | .gomap _ na ea, .gomap _ nb eb =>
        if na then .ok nb else if nb then .ok false else
          (if d = max then .depth else if ea.length ≠ eb.length then .ok false else cmpEntries max f d ea eb)
      | .coll _ xs, .coll _ ys => cmpArr max f d xs ys
      | .assoc k1 v1, .assoc k2 v2 =>
        (match cmp max f d k1 k2 with
         | .ok true => cmp max f d v1 v2
         | r => r)
      | _, _ => .ok false
/-- `compareArrays` -/
def cmpArr (max : Nat) : Nat → Nat → List Val → List Val → Out Bool
  | 0, _, _, _ => .hang
  | f+1, d, xs, ys =>
    if d = max then .depth
    else if xs.length ≠ ys.length then .ok false
    else cmpList max f d xs ys
def cmpList (max : Nat) : Nat → Nat → List Val → List Val → Out Bool
  | 0, _, _, _ => .hang
  | _+1, _, [], _ => .ok true
  | _+1, _, _ :: _, [] => .ok true
  | f+1, d, x :: xs, y :: ys =>
    match cmp max f (d+1) x y with
    | .ok true => cmpList max f d xs ys
    | r => r
/-- the loop of `compareMaps`: every association of the first is looked up in the second -/
def cmpEntries (max : Nat) : Nat → Nat → List (Val × Val) → List (Val × Val) → Out Bool
  | 0, _, _, _ => .hang
  | _+1, _, [], _ => .ok true
  | f+1, d, (k, v) :: rest, eb =>
    match mapIndex k eb with
    | none => .ok false
    | some v2 =>
      match cmp max f (d+1) v v2 with
      | .ok true => cmpEntries max f d rest eb
      | r => r
end

/-- nesting depth of a value (how many array/map levels a traversal enters) -/
def Val.size : Val → Nat
  | .arr _ _ xs => 1 + sizeList xs
  | .gomap _ _ es => 1 + sizeEntries es
  | .coll _ xs => 1 + sizeList xs
  | .assoc k v => 1 + Val.size k + Val.size v
  | _ => 1
where
  sizeList : List Val → Nat
    | [] => 0
    | x :: xs => Val.size x + sizeList xs
  sizeEntries : List (Val × Val) → Nat
    | [] => 0
    | (k, v) :: es => Val.size k + Val.size v + sizeEntries es

/-- fuel that always suffices for two values -/
def fuelFor (a b : Val) : Nat := 4 * (Val.size a + Val.size b) + 8

/-- the collator object: `depth_` persists between calls -/
structure Collator where
  maximum : Nat
  depth : Nat := 0
  deriving Repr, DecidableEq

/-- public `RankValues` (after fix D08a: `depth_` is restored when the call ends, also by a panic) -/
def rankValues (c : Collator) (a b : Val) : Out Rank × Collator :=
  (rank c.maximum (fuelFor a b) c.depth a b, c)

/-- public `CompareValues` -/
def compareValues (c : Collator) (a b : Val) : Out Bool × Collator :=
  (cmp c.maximum (fuelFor a b) c.depth a b, c)

end Coll
end CM
