/- driver for Map (C14) and Catalog (C03, C16) lines -/
import Driver.SeqDrv
import CollectionModel.Model.AssocOps
open Lean CM CM.Assoc

namespace Drv

def pairOf (j : Json) : Int × Int :=
  match j.getArr? with
  | .ok a => (toInt (a.getD 0 Json.null), toInt (a.getD 1 Json.null))
  | _ => (0, 0)

def pairs (j : Json) (k : String) : List (Int × Int) := (arr j k).toList.map pairOf

def parseARes (j : Json) : ARes Int Int :=
  if has j "v" then .val (int j "v")
  else if has j "l" then .vals (ints j "l")
  else if has j "ks" then .keys (ints j "ks")
  else if has j "ps" then .pairs (pairs j "ps")
  else if has j "n" then .nat (nat j "n")
  else if has j "b" then .bool (bool j "b")
  else .unit

def aresStr : ARes Int Int → String
  | .unit => "-" | .val a => s!"v{a}" | .vals l => s!"l{l}" | .keys l => s!"ks{l}" | .pairs l => s!"ps{l}"
  | .nat n => s!"n{n}" | .bool b => s!"b{b}"

/-! Map -/

def parseMOp (j : Json) : Option (MOp Int Int) :=
  let a := ints j "a"
  match str j "op" with
  | "setValue" => some (.setValue (a.getD 0 0) (a.getD 1 0))
  | "getValue" => some (.getValue (a.getD 0 0))
  | "getValues" => some (.getValues (ints j "vs"))
  | "getKeys" => some .getKeys
  | "removeValue" => some (.removeValue (a.getD 0 0))
  | "removeValues" => some (.removeValues (ints j "vs"))
  | "removeAll" => some .removeAll
  | "asArray" => some .asArray
  | "iterate" => some .iterate
  | "getSize" => some .getSize
  | "isEmpty" => some .isEmpty
  | "make" => some (.make (pairs j "ps"))
  | _ => none

/-- unordered views agree when they are permutations of each other -/
def aresAgree (m i : ARes Int Int) : Bool :=
  match m, i with
  | .keys a, .keys b => a.isPerm b
  | .pairs a, .pairs b => a.isPerm b
  | a, b => a == b

def mapLine (j : Json) : String :=
  match parseMOp j with
  | none => verdict false true "bad-op" ""
  | some op =>
    let pre := pairs j "pre"
    if str j "out" != "ret" then verdict false false s!"C14/{str j "op"}/{str j "out"}" "" else
    let impl : MObs Int Int := .ret (pairs j "post") (parseARes (fld j "res"))
    let m := mapStep pre op
    let corr := match m with
      | .ret post r => sameMap post (pairs j "post") && aresAgree r (parseARes (fld j "res"))
      | _ => false
    -- the Go map behind the line is shipped sorted by key; compare as finite maps
    let spec := (match impl with
      | .ret post r =>
        (match op with
         | .getValue _ | .getValues _ | .getKeys | .asArray | .iterate | .getSize | .isEmpty =>
             sameMap post pre && mapAllowed pre op (.ret pre r)
         | .removeAll => post == [] && mapAllowed pre op (.ret post r)
         | _ => mapAllowed pre op impl)
      | _ => false)
    let ms := match m with | .ret post r => s!"ret {post} {aresStr r}" | _ => "?"
    verdict corr spec s!"C14/{str j "op"}" ms

/-! Catalog -/

def parseCOp (j : Json) : Option (COp Int Int) :=
  let a := ints j "a"
  match str j "op" with
  | "setValue" => some (.setValue (a.getD 0 0) (a.getD 1 0))
  | "getValue" => some (.getValue (a.getD 0 0))
  | "getValues" => some (.getValues (ints j "vs"))
  | "getKeys" => some .getKeys
  | "removeValue" => some (.removeValue (a.getD 0 0))
  | "removeValues" => some (.removeValues (ints j "vs"))
  | "removeAll" => some .removeAll
  | "sort" => some .sort
  | "reverse" => some .reverse
  | "shuffle" => some (.shuffle [])
  | "asArray" => some .asArray
  | "iterate" => some .iterate
  | "getSize" => some .getSize
  | "isEmpty" => some .isEmpty
  | "make" => some (.make (pairs j "ps"))
  | "merge" => some (.merge (pairs j "ps") (pairs j "qs"))
  | "extract" => some (.extract (pairs j "ps") (ints j "vs"))
  | _ => none

def pairRanker (name : String) : (Int × Int) → (Int × Int) → Rank :=
  match name with
  | "byval" => fun p q => match rankInt q.2 p.2 with | .eq => rankInt p.1 q.1 | r => r
  | _ => fun p q => match rankInt p.1 q.1 with | .eq => rankInt p.2 q.2 | r => r

/-- the key index as far as it can be observed: GetValue(k) for every universe key -/
def kmCoherent (assocs km : List (Int × Int)) : Bool :=
  km.all (fun p => p.2 == (lookup p.1 assocs).getD 0)

def catLine (j : Json) : String :=
  match parseCOp j with
  | none => verdict false true "bad-op" ""
  | some op =>
    let name := str j "op"
    let pid := if name == "merge" || name == "extract" then "C16" else "C03"
    let pre : Cat Int Int := { assocs := pairs j "pre", keys := pairs j "pre" }
    let rank := pairRanker (str j "rk")
    if !(coherent pre && kmCoherent pre.assocs (pairs j "km")) then verdict true false s!"{pid}/{name}/incoherent-pre" "" else
    let m := catStep rank pre op
    match str j "out" with
    | "ret" =>
      let post := pairs j "post"
      let r := parseARes (fld j "res")
      let impl : CObs Int Int := .ret { assocs := post, keys := post } r
      let coh := kmCoherent post (pairs j "pkm")
      -- operands of the class functions must come back unchanged
      let pure := !has j "aft_a" || (pairs j "aft_a" == pairs j "ps" && (!has j "aft_b" || pairs j "aft_b" == pairs j "qs") && bool j "indep")
      let spec := catAllowed rank pre op impl && coh && pure
      let sig := if !coh then s!"{pid}/{name}/index-and-order-diverge" else if !pure then s!"{pid}/{name}/impure" else s!"{pid}/{name}"
      (match op, m with
       | .shuffle _, _ => verdict true spec sig "-"
       | _, .ret mc mr =>
         verdict (mc.assocs == post && mr == r && kmCoherent mc.keys (pairs j "pkm")) spec sig s!"ret {mc.assocs} {aresStr mr}"
       | _, _ => verdict false spec sig "model: panic")
    | _ => verdict (match m with | .panic _ _ => str j "out" == "panic" | _ => false) false s!"{pid}/{name}/{str j "out"}" ""

end Drv
