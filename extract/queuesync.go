package main

// Queue facts (T2): the synchronisation skeleton of every method of queue_ – the order of
// lock, unlock, channel send / receive / close / len, accesses to the guarded fields and
// the control structure around them – and the type of the mutex.

import (
	"fmt"
	"go/ast"
	"go/token"
	"sort"
	"strings"
)

func genQueueSync() string {
	p := pkgNamed("/collection")
	type meth struct {
		name string
		evs  []string
	}
	var ms, ps []meth
	mutexType := ""
	for _, f := range p.Syntax {
		for _, d := range f.Decls {
			switch x := d.(type) {
			case *ast.GenDecl:
				for _, sp := range x.Specs {
					ts, ok := sp.(*ast.TypeSpec)
					if !ok || ts.Name.Name != "queue_" {
						continue
					}
					st, ok := ts.Type.(*ast.StructType)
					if !ok {
						continue
					}
					for _, fl := range st.Fields.List {
						for _, n := range fl.Names {
							if n.Name == "mutex_" {
								mutexType = types2str(fl.Type)
							}
						}
					}
				}
			case *ast.FuncDecl:
				if x.Recv == nil || len(x.Recv.List) == 0 || x.Body == nil ||
					(recvTypeName(x.Recv.List[0].Type) != "queue_" && recvTypeName(x.Recv.List[0].Type) != "queueClass_") {
					continue
				}
				recv := ""
				if len(x.Recv.List[0].Names) > 0 {
					recv = x.Recv.List[0].Names[0].Name
				}
				if recvTypeName(x.Recv.List[0].Type) == "queue_" {
					ms = append(ms, meth{x.Name.Name, syncEvents(x.Body, recv, false)})
				} else if x.Name.Name == "Fork" || x.Name.Name == "Split" || x.Name.Name == "Join" {
					ps = append(ps, meth{x.Name.Name, syncEvents(x.Body, recv, true)})
				}
			}
		}
	}
	if len(ms) == 0 || mutexType == "" {
		die("queue: methods of queue_ or its mutex_ field not found")
	}
	sort.Slice(ms, func(i, j int) bool { return ms[i].name < ms[j].name })
	var b strings.Builder
	b.WriteString(header("The synchronisation skeleton of the methods of queue_ (source order) and the type of its mutex."))
	fmt.Fprintf(&b, "def queueMutexType : String := %s\n\n", leanString(mutexType))
	b.WriteString("def queueSync : List (String × List (String × String)) := [\n")
	for i, m := range ms {
		var es []string
		for _, e := range m.evs {
			// (kind, detail): "call:values_"/"AppendValue", "send"/"available_", "if{"/"" ...
			kind, detail := e, ""
			if i := strings.Index(e, ":"); i >= 0 {
				kind, detail = e[:i], e[i+1:]
			} else if i := strings.Index(e, "."); i >= 0 {
				kind, detail = "call:"+e[:i], e[i+1:]
			}
			es = append(es, "("+leanString(kind)+", "+leanString(detail)+")")
		}
		sep := ","
		if i == len(ms)-1 {
			sep = ""
		}
		fmt.Fprintf(&b, "  (%s, [%s])%s\n", leanString(m.name), strings.Join(es, ", "), sep)
	}
	b.WriteString("]\n\n/-- the call skeleton of the class functions that start helper goroutines -/\ndef pipeSync : List (String × List (String × String)) := [\n")
	sort.Slice(ps, func(i, j int) bool { return ps[i].name < ps[j].name })
	if len(ps) != 3 {
		die("queue: Fork, Split and Join of queueClass_ not found")
	}
	for i, m := range ps {
		var es []string
		for _, e := range m.evs {
			kind, detail := e, ""
			if i := strings.Index(e, ":"); i >= 0 {
				kind, detail = e[:i], e[i+1:]
			} else if i := strings.Index(e, "."); i >= 0 {
				kind, detail = "call:"+e[:i], e[i+1:]
			}
			es = append(es, "("+leanString(kind)+", "+leanString(detail)+")")
		}
		sep := ","
		if i == len(ps)-1 {
			sep = ""
		}
		fmt.Fprintf(&b, "  (%s, [%s])%s\n", leanString(m.name), strings.Join(es, ", "), sep)
	}
	b.WriteString("]\n\n/-- the goroutine and queue skeleton of the parser and the scanner -/\ndef cdcnSync : List (String × List (String × String)) := [\n")
	cp := pkgNamed("/cdcn")
	want := [][2]string{{"parser_", "ParseSource"}, {"scannerClass_", "Make"}, {"scanner_", "emitToken"}, {"scanner_", "foundEOF"}, {"scanner_", "foundError"}, {"scanner_", "scanTokens"}}
	for i, w := range want {
		fd := findMethod(cp, w[0], w[1])
		if fd == nil || fd.Body == nil {
			die("cdcn: method %s.%s not found", w[0], w[1])
		}
		recv := ""
		if len(fd.Recv.List[0].Names) > 0 {
			recv = fd.Recv.List[0].Names[0].Name
		}
		var es []string
		for _, e := range syncEvents(fd.Body, recv, true) {
			kind, detail := e, ""
			if i := strings.Index(e, ":"); i >= 0 {
				kind, detail = e[:i], e[i+1:]
			} else if i := strings.Index(e, "."); i >= 0 {
				kind, detail = "call:"+e[:i], e[i+1:]
			}
			es = append(es, "("+leanString(kind)+", "+leanString(detail)+")")
		}
		sep := ","
		if i == len(want)-1 {
			sep = ""
		}
		fmt.Fprintf(&b, "  (%s, [%s])%s\n", leanString(w[0]+"."+w[1]), strings.Join(es, ", "), sep)
	}
	b.WriteString("]\n")
	b.WriteString(footer)
	return b.String()
}

func types2str(e ast.Expr) string {
	switch t := e.(type) {
	case *ast.SelectorExpr:
		return t.Sel.Name
	case *ast.Ident:
		return t.Name
	case *ast.StarExpr:
		return "*" + types2str(t.X)
	}
	return fmt.Sprintf("%T", e)
}

// fieldOf returns the field name if e is recv.<field>
func fieldOf(e ast.Expr, recv string) string {
	if sel, ok := e.(*ast.SelectorExpr); ok {
		if id, ok := sel.X.(*ast.Ident); ok && id.Name == recv {
			return sel.Sel.Name
		}
	}
	return ""
}

func syncEvents(body *ast.BlockStmt, recv string, locals bool) []string {
	var evs []string
	var walkStmt func(s ast.Stmt)
	var walkExpr func(e ast.Expr)
	walkExpr = func(e ast.Expr) {
		ast.Inspect(e, func(n ast.Node) bool {
			switch x := n.(type) {
			case *ast.FuncLit:
				evs = append(evs, "func{")
				for _, s := range x.Body.List {
					walkStmt(s)
				}
				evs = append(evs, "}")
				return false
			case *ast.UnaryExpr:
				if x.Op == token.ARROW {
					if f := fieldOf(x.X, recv); f != "" {
						evs = append(evs, "recv:"+f)
						return false
					}
				}
			case *ast.CallExpr:
				if id, ok := x.Fun.(*ast.Ident); ok {
					if id.Name == "verifYield" {
						return false
					}
					if (id.Name == "close" || id.Name == "len" || id.Name == "cap") && len(x.Args) == 1 {
						if f := fieldOf(x.Args[0], recv); f != "" {
							evs = append(evs, id.Name+":"+f)
							return false
						}
					}
				}
				if sel, ok := x.Fun.(*ast.SelectorExpr); ok {
					if f := fieldOf(sel.X, recv); f != "" {
						for _, a := range x.Args {
							walkExpr(a)
						}
						evs = append(evs, f+"."+sel.Sel.Name)
						return false
					}
					if call, ok := sel.X.(*ast.CallExpr); ok && locals {
						if id, ok := call.Fun.(*ast.Ident); ok && len(call.Args) == 0 {
							for _, a := range x.Args {
								walkExpr(a)
							}
							evs = append(evs, id.Name+"()."+sel.Sel.Name)
							return false
						}
					}
					if id, ok := sel.X.(*ast.Ident); ok && locals && id.Name == recv {
						for _, a := range x.Args {
							walkExpr(a)
						}
						evs = append(evs, "self."+sel.Sel.Name)
						return false
					}
					if id, ok := sel.X.(*ast.Ident); ok && locals && id.Name != recv {
						for _, a := range x.Args {
							walkExpr(a)
						}
						evs = append(evs, id.Name+"."+sel.Sel.Name)
						return false
					}
				}
			case *ast.SelectorExpr:
				if f := fieldOf(x, recv); f != "" && f != "class_" {
					evs = append(evs, "read:"+f)
					return false
				}
			}
			return true
		})
	}
	walkStmt = func(s ast.Stmt) {
		switch x := s.(type) {
		case *ast.SendStmt:
			walkExpr(x.Value)
			if f := fieldOf(x.Chan, recv); f != "" {
				evs = append(evs, "send:"+f)
			} else {
				walkExpr(x.Chan)
			}
		case *ast.AssignStmt:
			for _, r := range x.Rhs {
				walkExpr(r)
			}
			for _, l := range x.Lhs {
				if f := fieldOf(l, recv); f != "" {
					evs = append(evs, "write:"+f)
				}
			}
		case *ast.IfStmt:
			if x.Init != nil {
				walkStmt(x.Init)
			}
			walkExpr(x.Cond)
			evs = append(evs, "if{")
			for _, t := range x.Body.List {
				walkStmt(t)
			}
			evs = append(evs, "}")
			if x.Else != nil {
				evs = append(evs, "else{")
				walkStmt(x.Else)
				evs = append(evs, "}")
			}
		case *ast.BlockStmt:
			for _, t := range x.List {
				walkStmt(t)
			}
		case *ast.ForStmt:
			evs = append(evs, "for{")
			if x.Init != nil {
				walkStmt(x.Init)
			}
			if x.Cond != nil {
				walkExpr(x.Cond)
			}
			for _, t := range x.Body.List {
				walkStmt(t)
			}
			evs = append(evs, "}")
		case *ast.RangeStmt:
			evs = append(evs, "for{")
			walkExpr(x.X)
			for _, t := range x.Body.List {
				walkStmt(t)
			}
			evs = append(evs, "}")
		case *ast.SelectStmt:
			evs = append(evs, "select{")
			for _, c := range x.Body.List {
				cc := c.(*ast.CommClause)
				if cc.Comm != nil {
					walkStmt(cc.Comm)
				} else {
					evs = append(evs, "default")
				}
				evs = append(evs, "case{")
				for _, t := range cc.Body {
					walkStmt(t)
				}
				evs = append(evs, "}")
			}
			evs = append(evs, "}")
		case *ast.SwitchStmt:
			evs = append(evs, "switch{")
			if x.Tag != nil {
				walkExpr(x.Tag)
			}
			for _, c := range x.Body.List {
				cc := c.(*ast.CaseClause)
				for _, e := range cc.List {
					walkExpr(e)
				}
				evs = append(evs, "case{")
				for _, t := range cc.Body {
					walkStmt(t)
				}
				evs = append(evs, "}")
			}
			evs = append(evs, "}")
		case *ast.DeferStmt:
			evs = append(evs, "defer{")
			walkExpr(x.Call)
			evs = append(evs, "}")
		case *ast.GoStmt:
			evs = append(evs, "go{")
			walkExpr(x.Call)
			evs = append(evs, "}")
		case *ast.ExprStmt:
			walkExpr(x.X)
		case *ast.ReturnStmt:
			for _, r := range x.Results {
				walkExpr(r)
			}
			evs = append(evs, "return")
		case *ast.DeclStmt:
			if gd, ok := x.Decl.(*ast.GenDecl); ok {
				for _, sp := range gd.Specs {
					if vs, ok := sp.(*ast.ValueSpec); ok {
						for _, v := range vs.Values {
							walkExpr(v)
						}
					}
				}
			}
		case *ast.IncDecStmt:
			walkExpr(x.X)
		case *ast.LabeledStmt:
			walkStmt(x.Stmt)
		case *ast.BranchStmt:
			evs = append(evs, x.Tok.String())
		case *ast.EmptyStmt:
		default:
			die("queue: statement %T not handled at %s", s, fset.Position(s.Pos()))
		}
	}
	for _, s := range body.List {
		walkStmt(s)
	}
	return evs
}
