/-
  C08 — CompareValues is structural equality and agrees with ranking.
  Proved on the universe `U` (no Go maps, no complex numbers); see Props/C07 for what is
  missing and why.
-/
import CollectionModel.Props.C07
namespace CM
open CM.Coll

/-- **CompareValues returns true exactly when RankValues returns Equal** -/
theorem C08_agrees_with_rank (max f d f' d' : Nat) (a b : Val) (v : Bool) (r : Rank)
    (ha : inU a = true) (hb : inU b = true)
    (h1 : cmp max f d a b = .ok v) (h2 : rank max f' d' a b = .ok r) : v = (r == .eq) := by
  rw [cmp_sound max f d a b v ha hb h1, rank_sound max f' d' a b r ha hb h2]

/-- **structural equality**: true exactly when the two values have the same canonical image
    (same kinds, same element order, same key/value pairing, same leaves) – so two values
    built independently from equal parts compare equal, and changing any single part
    (which changes the image) makes them unequal -/
theorem C08_structural (max f d : Nat) (a b : Val) (v : Bool) (ha : inU a = true) (hb : inU b = true)
    (h : cmp max f d a b = .ok v) : v = true ↔ enc a = enc b := by
  rw [cmp_sound max f d a b v ha hb h]
  constructor
  · intro he
    exact cmpT_eq _ _ (by simpa using he)
  · intro he
    rw [he, cmpT_refl]; rfl

/-- **reflexive** -/
theorem C08_refl (max f d : Nat) (a : Val) (v : Bool) (ha : inU a = true)
    (h : cmp max f d a a = .ok v) : v = true :=
  (C08_structural max f d a a v ha ha h).mpr rfl

/-- **symmetric** -/
theorem C08_symm (max f d f' d' : Nat) (a b : Val) (v w : Bool) (ha : inU a = true) (hb : inU b = true)
    (h1 : cmp max f d a b = .ok v) (h2 : cmp max f' d' b a = .ok w) : v = w := by
  have e1 := C08_structural max f d a b v ha hb h1
  have e2 := C08_structural max f' d' b a w hb ha h2
  cases v <;> cases w <;> simp_all

/-- **transitive** -/
theorem C08_trans (max f1 d1 f2 d2 f3 d3 : Nat) (a b c : Val) (v : Bool)
    (ha : inU a = true) (hb : inU b = true) (hc : inU c = true)
    (h1 : cmp max f1 d1 a b = .ok true) (h2 : cmp max f2 d2 b c = .ok true)
    (h3 : cmp max f3 d3 a c = .ok v) : v = true := by
  have e1 := (C08_structural max f1 d1 a b true ha hb h1).mp rfl
  have e2 := (C08_structural max f2 d2 b c true hb hc h2).mp rfl
  exact (C08_structural max f3 d3 a c v ha hc h3).mpr (e1.trans e2)

/-- a list nested `n` levels deep around a leaf -/
def nest : Nat → Val → Val
  | 0, leaf => leaf
  | n+1, leaf => .coll .list [nest n leaf]

/-- **a value nested deeper than the limit ends in the depth-limit panic – never a hang** –
    both when ranked and when compared (self-containing values are exactly the values whose
    every finite unfolding is deeper than the limit) -/
theorem C08_deep_panics (max : Nat) (leaf : Val) : ∀ (k d f n : Nat), d + k = max → k < n → 3 * k + 3 ≤ f →
    rank max f d (nest n leaf) (nest n leaf) = .depth ∧ cmp max f d (nest n leaf) (nest n leaf) = .depth
  | 0, d, f, n, hd, hn, hf => by
    obtain ⟨m, rfl⟩ : ∃ m, n = m + 1 := ⟨n - 1, by omega⟩
    obtain ⟨g, rfl⟩ : ∃ g, f = g + 2 := ⟨f - 2, by omega⟩
    have : d = max := by omega
    subst this
    simp [nest, rank, cmp, Val.tcode, rankArr, cmpArr]
  | k+1, d, f, n, hd, hn, hf => by
    obtain ⟨m, rfl⟩ : ∃ m, n = m + 1 := ⟨n - 1, by omega⟩
    obtain ⟨g, rfl⟩ : ∃ g, f = g + 3 := ⟨f - 3, by omega⟩
    have hne : ¬ d = max := by omega
    have ih := C08_deep_panics max leaf k (d+1) g m (by omega) (by omega) (by omega)
    simp [nest, rank, cmp, Val.tcode, rankArr, cmpArr, hne, rankPrefix, cmpList, ih.1, ih.2]

/-- **afterwards the same collator (and any other) still works**: the public calls leave the
    collator's state exactly as they found it, whether they return or panic -/
theorem C08_collator_reusable (c : Collator) (a b x y : Val) :
    (compareValues (compareValues c a b).2 x y).1 = (compareValues c x y).1 ∧
    (rankValues (rankValues c a b).2 x y).1 = (rankValues c x y).1 := ⟨rfl, rfl⟩

/-- **recorded finding (complex numbers)**: two different complex numbers whose computed
    magnitude and phase coincide rank Equal but compare unequal -/
theorem C08_counterexample_complex :
    let a : Cx := { re := .num 9, im := .num 1, abs := .num 9, ph := .num 0 }   -- 1e300+1e-300i
    let b : Cx := { re := .num 9, im := .num 2, abs := .num 9, ph := .num 0 }   -- 1e300+2e-300i
    rankCx a b = .eq ∧ eqCx a b = false := by decide

example : (nest 2 (.int 7)) = .coll .list [.coll .list [.int 7]] := rfl

end CM
