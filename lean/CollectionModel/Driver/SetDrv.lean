/- driver for Set lines (C02, C15) -/
import Driver.SeqDrv
import CollectionModel.Model.SetOps
open Lean CM CM.Seq

namespace Drv

def parseSetOp (j : Json) : Option (SetM.Op Int) :=
  let a := ints j "a"
  let a0 := a.getD 0 0
  let a1 := a.getD 1 0
  let vs := ints j "vs"
  let ws := ints j "ws"
  match str j "op" with
  | "addValue" => some (.addValue a0)
  | "addValues" => some (.addValues vs)
  | "removeValue" => some (.removeValue a0)
  | "removeValues" => some (.removeValues vs)
  | "removeAll" => some .removeAll
  | "containsValue" => some (.containsValue a0)
  | "containsAny" => some (.containsAny vs)
  | "containsAll" => some (.containsAll vs)
  | "getIndex" => some (.getIndex a0)
  | "getValue" => some (.getValue a0)
  | "getValues" => some (.getValues a0 a1)
  | "asArray" => some .asArray
  | "iterate" => some .iterate
  | "getSize" => some .getSize
  | "isEmpty" => some .isEmpty
  | "make" => some (.make vs)
  | "and" => some (.setAnd vs ws)
  | "or" => some (.setOr vs ws)
  | "sans" => some (.setSans vs ws)
  | "xor" => some (.setXor vs ws)
  | _ => none

def isAlgebra (op : String) : Bool := op == "and" || op == "or" || op == "sans" || op == "xor"

def setLine (j : Json) : String :=
  match parseSetOp j with
  | none => verdict false true "bad-op" ""
  | some op =>
    let pre := ints j "pre"
    let impl := parseObs j
    let rank := rankerOf (str j "rk")
    -- the second operand of a class function may carry its own collator
    let rank2 := if has j "rk2" then rankerOf (str j "rk2") else rank
    let m := SetM.step2 rank rank2 pre op
    let name := str j "op"
    let pid := if isAlgebra name then "C15" else "C02"
    -- precondition of the specification: the state (and the operands) are strictly ascending
    let okPre := SetM.strictAsc rank pre &&
      (!isAlgebra name || (SetM.strictAsc rank (ints j "vs") && SetM.strictAsc rank2 (ints j "ws")))
    let specOk := okPre && SetM.allowed2 rank rank2 pre op impl &&
      (!isAlgebra name || (ints j "aft_a" == ints j "vs" && ints j "aft_b" == ints j "ws" && bool j "indep"))
    let sig := if !okPre then s!"{pid}/{name}/unsorted-state" else s!"{pid}/{name}"
    -- stored representatives of rank-equal values may legitimately differ only through the
    -- order in which bulk operands are visited; the model visits them in iteration order too
    verdict (obsAgree m impl) specOk sig (obsStr m)

end Drv
