/-
  Models of `collection/map.go` (a Go map behind the Associative interface) and
  `collection/catalog.go` (a List of associations plus a Go map from key to
  association), and of the class functions Merge / Extract.

  A Go map is an association list with distinct keys in an unspecified order;
  key identity is Go's `==` (`DecidableEq K`).  An association object shared by
  the catalog's list and its map is modelled by updating both components.
-/
import CollectionModel.Model.SeqOps
namespace CM
namespace Assoc
open CM.Seq

variable {K V : Type} [DecidableEq K]

/-- `m[key]` -/
def lookup (k : K) : List (K × V) → Option V
  | [] => none
  | (k', v) :: rest => if k' = k then some v else lookup k rest

/-- `m[key] = value` -/
def mset (m : List (K × V)) (k : K) (v : V) : List (K × V) :=
  match lookup k m with
  | some _ => m.map (fun p => if p.1 = k then (k, v) else p)
  | none => m ++ [(k, v)]

/-- `delete(m, key)` -/
def mremove (m : List (K × V)) (k : K) : List (K × V) := m.filter (fun p => !decide (p.1 = k))

/-! ### map_ -/

/-- `map_.RemoveValue`: (old value or zero, new map) -/
def mapRemoveValue [Inhabited V] (m : List (K × V)) (k : K) : V × List (K × V) :=
  match lookup k m with
  | some v => (v, mremove m k)
  | none => (default, m)

/-- `map_.RemoveValues`: one key at a time, collecting the removed values -/
def mapRemoveValues [Inhabited V] : List (K × V) → List K → List V × List (K × V)
  | m, [] => ([], m)
  | m, k :: ks =>
    let r := mapRemoveValue m k
    let rest := mapRemoveValues r.2 ks
    (r.1 :: rest.1, rest.2)

def mapGetValue [Inhabited V] (m : List (K × V)) (k : K) : V := (lookup k m).getD default

/-- constructors: entries are stored one after another, the last one wins -/
def mapMakeFrom (ps : List (K × V)) : List (K × V) := ps.foldl (fun m p => mset m p.1 p.2) []

/-! ### catalog_ -/

structure Cat (K V : Type) where
  assocs : List (K × V)      -- `associations_`, in order
  keys : List (K × V)        -- `keys_`, the Go map (points at the same association objects)
  deriving Repr, DecidableEq

/-- ordinal index of the association with this key in the list (0 = not there) -/
def keyIndexFrom (k : K) : Nat → List (K × V) → Nat
  | _, [] => 0
  | i, p :: ps => if p.1 = k then i + 1 else keyIndexFrom k (i + 1) ps

def catGetValue [Inhabited V] (c : Cat K V) (k : K) : V := (lookup k c.keys).getD default

/-- `catalog_.SetValue` -/
def catSetValue (c : Cat K V) (k : K) (v : V) : Cat K V :=
  match lookup k c.keys with
  | some _ =>
    -- `association.SetValue(value)` on the object shared by list and map
    { assocs := c.assocs.map (fun p => if p.1 = k then (k, v) else p), keys := mset c.keys k v }
  | none => { assocs := appendValue c.assocs (k, v), keys := mset c.keys k v }

/-- `catalog_.RemoveValue` (after fix D03: the association is located by its key) -/
def catRemoveValue [Inhabited V] [Inhabited K] (c : Cat K V) (k : K) : Except Panic (V × Cat K V) :=
  match lookup k c.keys with
  | some old =>
    match Seq.removeValue c.assocs (keyIndexFrom k 0 c.assocs : Nat) with
    | .error p => .error p
    | .ok (_, l) => .ok (old, { assocs := l, keys := mremove c.keys k })
  | none => .ok (default, c)

def catRemoveValues [Inhabited V] [Inhabited K] : Cat K V → List K → Except Panic (List V × Cat K V)
  | c, [] => .ok ([], c)
  | c, k :: ks =>
    match catRemoveValue c k with
    | .error p => .error p
    | .ok (v, c') =>
      match catRemoveValues c' ks with
      | .error p => .error p
      | .ok (vs, c'') => .ok (v :: vs, c'')

def catEmpty : Cat K V := { assocs := [], keys := [] }

/-- `MakeFromSequence` / `MakeFromArray` / `MakeFromMap`: SetValue for every pair in turn -/
def catMakeFrom (ps : List (K × V)) : Cat K V := ps.foldl (fun c p => catSetValue c p.1 p.2) catEmpty

/-- `catalogClass_.Merge` -/
def catMerge (a b : List (K × V)) : Cat K V := b.foldl (fun c p => catSetValue c p.1 p.2) (catMakeFrom a)

/-- `catalogClass_.Extract` (after fix D16a: keys the catalog lacks are skipped) -/
def catExtract (c : List (K × V)) (ks : List K) : Cat K V :=
  ks.foldl (fun r k => match lookup k c with
    | some v => catSetValue r k v
    | none => r) catEmpty

end Assoc
end CM
