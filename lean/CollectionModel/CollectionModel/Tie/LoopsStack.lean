import CollectionModel.Generated.LoopsStack
import CollectionModel.Model.Stack
/-
  T3L obligations for C13: the guards of `stack_.AddValue` / `stack_.RemoveTop` and the
  capacity logic of the four constructors, TRANSLATED from the current text of stack.go
  (Generated/LoopsStack.lean; `uint` arithmetic modulo 2^64), are the model's
  `Stack.addValue`, `Stack.removeTop`, `Stack.step … (.make | .makeWithCapacity c)` and
  `Stack.makeFrom`, for every capacity and size below 2^64.  The list underneath is the Seq
  model in both (its own tie is C01's).
-/
namespace CM
namespace Tie
open CM.GoSem

/-- how a model outcome is read as the translated function's result -/
def stackRes {α β : Type} (f : Stack.St α → Seq.Res α → β) : Stack.Obs α → Option (Except Panic β)
  | .ret s r => some (.ok (f s r))
  | .panic _ p => some (.error p)
  | .hang => none

variable {α : Type} [Inhabited α]

theorem stackAddValue_tie (s : Stack.St α) (v : α) (hc : IsUint64 s.cap) (hn : IsUint64 s.vals.length) :
    Generated.stackAddValue (s.cap : Int) v s.vals 0 = stackRes (fun s' _ => s'.vals) (Stack.addValue s v) := by
  unfold Generated.stackAddValue Stack.addValue
  rw [u64_id hn]
  by_cases h : s.vals.length = s.cap
  · simp [h, stackRes]
  · have : ¬ ((s.vals.length : Int) == (s.cap : Int)) = true := by simp; omega
    simp only [this, h, if_false, Bool.false_eq_true]
    have e0 : ((0 : Int)).toNat = 0 := rfl
    rw [e0]
    cases hiv : Seq.insertValue s.vals 0 v <;> simp [stackRes]

theorem stackRemoveTop_tie (s : Stack.St α) :
    Generated.stackRemoveTop (s.cap : Int) s.vals 0
      = stackRes (fun s' r => ((match r with | .val x => x | _ => default), s'.vals)) (Stack.removeTop s) := by
  unfold Generated.stackRemoveTop Stack.removeTop
  by_cases h : s.vals.length = 0
  · simp [h, stackRes]
  · have : ¬ (s.vals.length == 0) = true := by simpa using h
    simp only [this, h, if_false, Bool.false_eq_true]
    cases hrv : Seq.removeValue s.vals 1 with
    | error p => simp [stackRes]
    | ok r => obtain ⟨x, l⟩ := r; simp [stackRes]

theorem stackMake_tie (dflt : Nat) (s : Stack.St α) :
    Generated.stackMake (α := α) (dflt : Int) 0
      = stackRes (fun s' _ => ((s'.cap : Int), s'.vals)) (Stack.step dflt s .make) := by
  simp [Generated.stackMake, Stack.step, stackRes]

theorem stackMakeWithCapacity_tie (dflt c : Nat) (s : Stack.St α) :
    Generated.stackMakeWithCapacity (α := α) (dflt : Int) (c : Int) 0
      = stackRes (fun s' _ => ((s'.cap : Int), s'.vals)) (Stack.step dflt s (.makeWithCapacity c)) := by
  unfold Generated.stackMakeWithCapacity Stack.step
  by_cases h : c < 1
  · have : ((c : Int) < 1) := by omega
    simp [h, this, stackRes]
  · have : ¬ ((c : Int) < 1) := by omega
    simp [h, this, stackRes]

theorem stackMakeFrom_capacity (dflt : Nat) (vs : List α) (hn : IsUint64 (Seq.makeFromSequence vs).length) :
    (let list := Seq.makeFromSequence vs
     let capacity := (dflt : Int)
     let t1 := decide (u64 (list.length : Int) > capacity)
     (if t1 then u64 (list.length : Int) else capacity, list))
      = (((Stack.makeFrom dflt vs).cap : Int), (Stack.makeFrom dflt vs).vals) := by
  simp only [Stack.makeFrom]
  rw [u64_id hn]
  by_cases h : (Seq.makeFromSequence vs).length > dflt
  · have : ((Seq.makeFromSequence vs).length : Int) > (dflt : Int) := by omega
    simp [h, this]
  · have : ¬ ((Seq.makeFromSequence vs).length : Int) > (dflt : Int) := by omega
    simp [h, this]

theorem stackMakeFromArray_tie (dflt : Nat) (vs : List α) (hn : IsUint64 (Seq.makeFromSequence vs).length) :
    Generated.stackMakeFromArray (dflt : Int) vs 0
      = some (.ok (((Stack.makeFrom dflt vs).cap : Int), (Stack.makeFrom dflt vs).vals)) := by
  unfold Generated.stackMakeFromArray
  have := stackMakeFrom_capacity dflt vs hn
  simp only at this
  simp only [this]

theorem stackMakeFromSequence_tie (dflt : Nat) (vs : List α) (hn : IsUint64 (Seq.makeFromSequence vs).length) :
    Generated.stackMakeFromSequence (dflt : Int) vs 0
      = some (.ok (((Stack.makeFrom dflt vs).cap : Int), (Stack.makeFrom dflt vs).vals)) := by
  unfold Generated.stackMakeFromSequence
  have := stackMakeFrom_capacity dflt vs hn
  simp only at this
  simp only [this]

/-- non-vacuity: a full stack of capacity 2 rejects, one with room accepts -/
example : Generated.stackAddValue (2 : Int) (7 : Int) [1, 2] 0 = some (.error .stackFull) := by rfl
example : Generated.stackAddValue (2 : Int) (7 : Int) [1] 0 = some (.ok [7, 1]) := by rfl

end Tie
end CM
