/-
  Lexical lemmas for the round trip (C10): how the scanner model reads the pieces of text
  the formatter model writes — delimiters, the type names, a newline with its indentation,
  the single space after a colon — independently of what follows them.
-/
import CollectionModel.Model.Cdcn.Format
import CollectionModel.Model.Cdcn.Sentence
namespace CM
namespace Cdcn

/-- the scanner's loop with exactly the fuel `scan` gives it -/
def scanFrom (src : Src) (lc : Nat × Nat) : List Token := scanLoop (src.length + 1) src lc

theorem scan_eq_scanFrom (src : Src) : scan src = scanFrom src (1, 1) := rfl

/-- more fuel than runes never changes the result: every step consumes at least one rune -/
theorem scanLoop_fuel2 : ∀ (f g : Nat) (src : Src) (lc : Nat × Nat), src.length < f → src.length < g →
    scanLoop f src lc = scanLoop g src lc
  | 0, _, _, _, h, _ => by omega
  | _, 0, _, _, _, h => by omega
  | f+1, g+1, [], lc, _, _ => by simp [scanLoop]
  | f+1, g+1, c :: cs, lc, h, h' => by
    simp only [List.length_cons] at h h'
    simp only [scanLoop]
    cases hm : matchToken (c :: cs) with
    | none => rfl
    | some p =>
      obtain ⟨tt, n⟩ := p
      simp only
      have hlen : ((c :: cs).drop (if n == 0 then 1 else n)).length ≤ cs.length := by
        simp only [List.length_drop, List.length_cons]
        split <;> rename_i h0
        · omega
        · have : n ≠ 0 := by simpa using h0
          omega
      rw [scanLoop_fuel2 f g _ _ (by omega) (by omega)]

theorem scanLoop_fuel (f : Nat) (src : Src) (lc : Nat × Nat) (h : src.length < f) :
    scanLoop f src lc = scanLoop (src.length + 1) src lc :=
  scanLoop_fuel2 f _ src lc h (by omega)

theorem scanFrom_nil (lc : Nat × Nat) : scanFrom [] lc = [{ tt := .eof, value := [], line := lc.1, pos := lc.2 }] := by
  simp [scanFrom, scanLoop]

/-- one scanner step on a non-space token -/
theorem scanFrom_token (c : Nat) (cs : Src) (lc : Nat × Nat) (tt : TT) (n : Nat)
    (hm : matchToken (c :: cs) = some (tt, n)) (hn : 0 < n) (htt : tt ≠ .space) :
    scanFrom (c :: cs) lc =
      { tt := tt, value := (c :: cs).take n, line := lc.1, pos := lc.2 } ::
        scanFrom ((c :: cs).drop n) (advance lc ((c :: cs).take n)) := by
  unfold scanFrom
  simp only [List.length_cons, scanLoop, hm]
  have h0 : (n == 0) = false := by simp; omega
  simp only [h0, Bool.false_eq_true, if_false]
  have hs : (tt == TT.space) = false := by simpa using htt
  simp only [hs, Bool.false_eq_true, if_false]
  congr 1
  apply scanLoop_fuel
  simp only [List.length_drop, List.length_cons]; omega

/-- one scanner step on white space -/
theorem scanFrom_space (c : Nat) (cs : Src) (lc : Nat × Nat) (n : Nat)
    (hm : matchToken (c :: cs) = some (.space, n)) (hn : 0 < n) :
    scanFrom (c :: cs) lc = scanFrom ((c :: cs).drop n) (advance lc ((c :: cs).take n)) := by
  unfold scanFrom
  simp only [List.length_cons, scanLoop, hm]
  have h0 : (n == 0) = false := by simp; omega
  simp only [h0, Bool.false_eq_true, if_false, beq_self_eq_true, if_true]
  apply scanLoop_fuel
  simp only [List.length_drop, List.length_cons]; omega

/-! ### what the `switch` of `scanTokens` answers on the formatter's fixed pieces -/

theorem match_lbracket (rest : Src) : matchToken (ch '[' :: rest) = some (.delimiter, 1) := by
  simp [matchToken, matchers, firstMatch, mBoolean, mComplex, mDelimiter, lit, startsWith, ch, List.isPrefixOf]

theorem match_rbracket (rest : Src) : matchToken (ch ']' :: rest) = some (.delimiter, 1) := by
  simp [matchToken, matchers, firstMatch, mBoolean, mComplex, mDelimiter, lit, startsWith, ch, List.isPrefixOf]

theorem match_rparen (rest : Src) : matchToken (ch ')' :: rest) = some (.delimiter, 1) := by
  simp [matchToken, matchers, firstMatch, mBoolean, mComplex, mDelimiter, lit, startsWith, ch, List.isPrefixOf]

theorem match_colon (rest : Src) : matchToken (ch ':' :: rest) = some (.delimiter, 1) := by
  simp [matchToken, matchers, firstMatch, mBoolean, mComplex, mDelimiter, lit, startsWith, ch, List.isPrefixOf]

theorem match_eol (rest : Src) : matchToken (10 :: rest) = some (.eol, 1) := by
  simp [matchToken, matchers, firstMatch, mBoolean, mComplex, mDelimiter, mEol, lit, startsWith, ch, List.isPrefixOf]

/-- a float never starts with a capital letter -/
theorem mFloat_upper (c : Nat) (rest : Src) (h : 65 ≤ c ∧ c ≤ 90) : mFloat (c :: rest) = none := by
  have h1 : isSign c = false := by simp [isSign, ch]; omega
  have h2 : (c == ch '0') = false := by simp [ch]; omega
  have h57 : ¬ c ≤ 57 := by omega
  have h3 : isDigit19 c = false := by simp [isDigit19, ch, h57]
  simp [mFloat, h1, mZeroOrOrdinal, mOrdinal, h2, h3]

/-- an opening parenthesis before a capital letter is a delimiter (not the start of a complex number) -/
theorem match_lparen (c : Nat) (rest : Src) (h : 65 ≤ c ∧ c ≤ 90) : matchToken (ch '(' :: c :: rest) = some (.delimiter, 1) := by
  simp [matchToken, matchers, firstMatch, mBoolean, mComplex, mDelimiter, lit, startsWith, ch, List.isPrefixOf, mFloat_upper c rest h]

theorem match_space (rest : Src) : matchToken (32 :: rest) = some (.space, 1 + spanLen (· == 32) rest) := by
  have : mHex (32 :: rest) = none := by
    unfold mHex; split
    · rename_i z x r h; simp at h; simp [h.1.symm, ch]
    · rfl
  simp [matchToken, matchers, firstMatch, mBoolean, mComplex, mDelimiter, mEol, mFloat, this, mInteger, mNil, mRune, mSpace,
    mZeroOrOrdinal, mOrdinal, isSign, isDigit19, lit, startsWith, ch, List.isPrefixOf, spanLen]

theorem match_upper (c : Nat) (rest : Src) (h : 65 ≤ c ∧ c ≤ 90) :
    matchToken (c :: rest) = (mType (c :: rest)).map fun n => (TT.type, n) := by
  have hf := mFloat_upper c rest h
  have h57 : ¬ c ≤ 57 := by omega
  have h3 : isDigit19 c = false := by simp [isDigit19, ch, h57]
  have hx : mHex (c :: rest) = none := by
    unfold mHex; split
    · rename_i z x r hh; simp at hh; have : ¬ z = 48 := by omega
      simp [ch, this]
    · rfl
  have e1 : ¬ c = 102 := by omega
  have e2 : ¬ c = 116 := by omega
  have e3 : ¬ c = 40 := by omega
  have e4 : ¬ c = 91 := by omega
  have e5 : ¬ c = 93 := by omega
  have e6 : ¬ c = 41 := by omega
  have e7 : ¬ c = 58 := by omega
  have e8 : ¬ c = 44 := by omega
  have e9 : ¬ c = 10 := by omega
  have e10 : ¬ c = 48 := by omega
  have e11 : ¬ c = 43 := by omega
  have e12 : ¬ c = 45 := by omega
  have e13 : ¬ c = 110 := by omega
  have e14 : ¬ c = 39 := by omega
  have e15 : ¬ c = 32 := by omega
  have e16 : ¬ c = 34 := by omega
  have f1 : ¬ 102 = c := by omega
  have f2 : ¬ 116 = c := by omega
  have f3 : ¬ 110 = c := by omega
  simp [matchToken, matchers, firstMatch, mBoolean, mComplex, mDelimiter, mEol, hf, hx, mInteger, mNil, mRune, mSpace, mString,
    mOrdinal, isSign, h3, lit, startsWith, ch, List.isPrefixOf, spanLen, e1, e2, e3, e4, e5, e6, e7, e8, e9, e10, e11, e12, e13, e14, e15, e16, f1, f2, f3]
  cases mType (c :: rest) <;> rfl

theorem str_Array : str "Array" = [65, 114, 114, 97, 121] := by decide
theorem str_Map : str "Map" = [77, 97, 112] := by decide
theorem str_Catalog : str "Catalog" = [67, 97, 116, 97, 108, 111, 103] := by decide
theorem str_List : str "List" = [76, 105, 115, 116] := by decide
theorem str_Queue : str "Queue" = [81, 117, 101, 117, 101] := by decide
theorem str_Set : str "Set" = [83, 101, 116] := by decide
theorem str_Stack : str "Stack" = [83, 116, 97, 99, 107] := by decide

theorem match_type (v : Val) (rest : Src) (h : ctxName v ≠ []) :
    matchToken (ctxName v ++ rest) = some (.type, (ctxName v).length) ∧ (ctxName v ++ rest).take (ctxName v).length = ctxName v := by
  refine ⟨?_, by simp⟩
  unfold ctxName at h ⊢
  split at h <;> (try exact absurd rfl h)
  all_goals simp only [str_Array, str_Map, str_Catalog, str_List, str_Queue, str_Set, str_Stack, List.cons_append, List.nil_append]
  all_goals rw [match_upper _ _ (by decide)]
  all_goals simp [mType, lit, startsWith, ch, List.isPrefixOf]
  all_goals decide

/-- the text does not start with a space -/
def NoSp (s : Src) : Prop := ∀ r, s ≠ 32 :: r

theorem spanLen_nosp (s : Src) (h : NoSp s) : spanLen (· == 32) s = 0 := by
  cases s with
  | nil => rfl
  | cons c r =>
    have : c ≠ 32 := fun e => h r (by rw [e])
    simp [spanLen, this]

theorem spanLen_replicate (n : Nat) (next : Src) (h : NoSp next) : spanLen (· == 32) (List.replicate n 32 ++ next) = n := by
  induction n with
  | zero => simpa using spanLen_nosp next h
  | succ n ih => simp [List.replicate_succ, spanLen, ih]; omega

/-- indentation is skipped -/
theorem scan_spaces (n : Nat) (next : Src) (lc : Nat × Nat) (h : NoSp next) :
    ∃ lc', scanFrom (List.replicate n 32 ++ next) lc = scanFrom next lc' := by
  cases n with
  | zero => exact ⟨lc, by simp⟩
  | succ n =>
    have hd : List.drop (1 + n) (32 :: (List.replicate n 32 ++ next)) = next := by
      rw [Nat.add_comm]; simp [List.drop_append]
    refine ⟨advance lc (List.take (1 + n) (32 :: (List.replicate n 32 ++ next))), ?_⟩
    rw [List.replicate_succ, List.cons_append]
    rw [scanFrom_space 32 _ lc _ (match_space _) (by omega)]
    rw [spanLen_replicate n next h, hd]

/-- `appendNewline`: one EOL token, the indentation disappears -/
theorem scan_newline (d : Nat) (next : Src) (lc : Nat × Nat) (h : NoSp next) :
    ∃ e lc', isEol e = true ∧ scanFrom (newline d ++ next) lc = e :: scanFrom next lc' := by
  obtain ⟨lc', h'⟩ := scan_spaces (4 * d) next (advance lc [10]) h
  refine ⟨{ tt := .eol, value := [10], line := lc.1, pos := lc.2 }, lc', rfl, ?_⟩
  unfold newline
  rw [List.cons_append, scanFrom_token 10 _ lc .eol 1 (match_eol _) (by omega) (by decide)]
  simp [h']


theorem scan_delim1 (c : Nat) (R : Src) (lc : Nat × Nat) (hm : matchToken (c :: R) = some (.delimiter, 1)) :
    scanFrom (c :: R) lc = { tt := .delimiter, value := [c], line := lc.1, pos := lc.2 } :: scanFrom R (advance lc [c]) := by
  rw [scanFrom_token _ _ lc _ 1 hm (by omega) (by decide)]; rfl

theorem scan_lbracket (R : Src) (lc : Nat × Nat) :
    ∃ tok lc', isDelim tok "[" = true ∧ scanFrom (ch '[' :: R) lc = tok :: scanFrom R lc' :=
  ⟨_, _, by rfl, scan_delim1 _ R lc (match_lbracket R)⟩

theorem scan_rbracket (R : Src) (lc : Nat × Nat) :
    ∃ tok lc', isDelim tok "]" = true ∧ scanFrom (ch ']' :: R) lc = tok :: scanFrom R lc' :=
  ⟨_, _, by rfl, scan_delim1 _ R lc (match_rbracket R)⟩

theorem scan_rparen (R : Src) (lc : Nat × Nat) :
    ∃ tok lc', isDelim tok ")" = true ∧ scanFrom (ch ')' :: R) lc = tok :: scanFrom R lc' :=
  ⟨_, _, by rfl, scan_delim1 _ R lc (match_rparen R)⟩

theorem scan_colon (R : Src) (lc : Nat × Nat) :
    ∃ tok lc', isDelim tok ":" = true ∧ scanFrom (ch ':' :: R) lc = tok :: scanFrom R lc' :=
  ⟨_, _, by rfl, scan_delim1 _ R lc (match_colon R)⟩

theorem scan_lparen (c : Nat) (R : Src) (lc : Nat × Nat) (h : 65 ≤ c ∧ c ≤ 90) :
    ∃ tok lc', isDelim tok "(" = true ∧ scanFrom (ch '(' :: c :: R) lc = tok :: scanFrom (c :: R) lc' :=
  ⟨_, _, by rfl, scan_delim1 _ _ lc (match_lparen c R h)⟩

/-- the closing part of every collection: `](Type)` -/
theorem scan_context (v : Val) (h : ctxName v ≠ []) (R : Src) (lc : Nat × Nat) :
    ∃ rb lp ty rp lc', isDelim rb "]" = true ∧ isDelim lp "(" = true ∧ ty.tt = .type ∧ ty.value = ctxName v ∧ isDelim rp ")" = true ∧
      scanFrom (ch ']' :: ch '(' :: (ctxName v ++ ch ')' :: R)) lc = rb :: lp :: ty :: rp :: scanFrom R lc' := by
  obtain ⟨rb, lc1, hrb, e1⟩ := scan_rbracket (ch '(' :: (ctxName v ++ ch ')' :: R)) lc
  obtain ⟨c, r, hc, hup⟩ : ∃ c r, ctxName v = c :: r ∧ (65 ≤ c ∧ c ≤ 90) := by
    unfold ctxName at h ⊢
    split at h <;> (try exact absurd rfl h)
    all_goals simp only [str_Array, str_Map, str_Catalog, str_List, str_Queue, str_Set, str_Stack]
    all_goals exact ⟨_, _, rfl, by decide⟩
  obtain ⟨lp, lc2, hlp, e2⟩ := scan_lparen c (r ++ ch ')' :: R) lc1 hup
  obtain ⟨hm, htake⟩ := match_type v (ch ')' :: R) h
  obtain ⟨rp, lc4, hrp, e4⟩ := scan_rparen R (advance lc2 (ctxName v))
  refine ⟨rb, lp, { tt := .type, value := ctxName v, line := lc2.1, pos := lc2.2 }, rp, lc4, hrb, hlp, rfl, rfl, hrp, ?_⟩
  rw [e1, hc, List.cons_append, e2]
  have hm' : matchToken (c :: (r ++ ch ')' :: R)) = some (.type, (c :: r).length) := by
    rw [← List.cons_append, ← hc]; exact hm
  rw [scanFrom_token _ _ lc2 _ _ hm' (by simp) (by decide)]
  have ht : List.take (c :: r).length (c :: (r ++ ch ')' :: R)) = c :: r := by
    rw [← List.cons_append]; simp
  have hd : List.drop (c :: r).length (c :: (r ++ ch ')' :: R)) = ch ')' :: R := by
    rw [← List.cons_append]; simp
  rw [ht, hd, ← hc, e4]


end Cdcn
end CM
