/-
  Operation language over Array/List states and the model's step function
  (one Go method call = one step).  Used by the driver and by Props/C01.
-/
import CollectionModel.Model.Seq
import CollectionModel.Model.Sorter
namespace CM
namespace Seq

/-- observable result of a call -/
inductive Res (α : Type)
  | unit | val (a : α) | vals (l : List α) | nat (n : Nat) | bool (b : Bool)
  deriving DecidableEq, Repr

inductive Op (α : Type)
  | getValue (i : Int) | getValues (f l : Int)
  | setValue (i : Int) (v : α) | setValues (i : Int) (vs : List α)
  | insertValue (slot : Nat) (v : α) | insertValues (slot : Nat) (vs : List α)
  | appendValue (v : α) | appendValues (vs : List α)
  | removeValue (i : Int) | removeValues (f l : Int) | removeAll
  | getIndex (v : α) | containsValue (v : α) | containsAny (vs : List α) | containsAll (vs : List α)
  | sort | reverse | shuffle (rs : List Nat)
  | asArray | iterate | getSize | isEmpty
  | make (vs : List α)                 -- MakeFromArray / MakeFromSequence / Make
  | concatenate (a b : List α)         -- class function; the receiver is ignored
  deriving Repr

abbrev Obs (α : Type) := Outcome (List α) (Res α)

variable {α : Type} [Inhabited α]

def obsOf (s : List α) (e : Except Panic (List α)) : Obs α :=
  match e with
  | .ok s' => .ret s' .unit
  | .error p => .panic s p

/-- one call on a List (array-level methods are reached through the list's
    delegation, exactly as in list.go). -/
def step (eqv : α → α → Bool) (rank : α → α → Rank) (s : List α) : Op α → Obs α
  | .getValue i => match getValue s i with
      | .ok v => .ret s (.val v) | .error p => .panic s p
  | .getValues f l => match getValues s f l with
      | .ok vs => .ret s (.vals vs) | .error p => .panic s p
  | .setValue i v => obsOf s (setValue s i v)
  | .setValues i vs => obsOf s (setValues s i vs)
  | .insertValue slot v => obsOf s (insertValue s slot v)
  | .insertValues slot vs => match insertValues s slot vs with
      | none => .hang | some e => obsOf s e
  | .appendValue v => .ret (appendValue s v) .unit
  | .appendValues vs => .ret (appendValues s vs) .unit
  | .removeValue i => match removeValue s i with
      | .ok (v, s') => .ret s' (.val v) | .error p => .panic s p
  | .removeValues f l => match removeValues s f l with
      | .ok (r, s') => .ret s' (.vals r) | .error p => .panic s p
  | .removeAll => .ret [] .unit
  | .getIndex v => .ret s (.nat (getIndex eqv s v))
  | .containsValue v => .ret s (.bool (containsValue eqv s v))
  | .containsAny vs => .ret s (.bool (containsAny eqv s vs))
  | .containsAll vs => .ret s (.bool (containsAll eqv s vs))
  | .sort => .ret (Sorter.arraySort rank s) .unit
  | .reverse => .ret (Sorter.reverseValues s) .unit
  | .shuffle rs => .ret (Sorter.shuffleValues rs s) .unit
  | .asArray => .ret s (.vals s)
  | .iterate => .ret s (.vals s)
  | .getSize => .ret s (.nat s.length)
  | .isEmpty => .ret s (.bool (s.length == 0))
  | .make vs => .ret (makeFromSequence vs) .unit
  | .concatenate a b => .ret (concatenate a b) .unit

end Seq
end CM
