/- JSON helpers for the line protocol (core `Lean.Data.Json`). -/
import Lean.Data.Json
open Lean

namespace Drv

def fld (j : Json) (k : String) : Json := (j.getObjVal? k).toOption.getD Json.null
def str (j : Json) (k : String) : String := ((fld j k).getStr?).toOption.getD ""
def int (j : Json) (k : String) : Int := ((fld j k).getInt?).toOption.getD 0
def nat (j : Json) (k : String) : Nat := ((fld j k).getNat?).toOption.getD 0
def bool (j : Json) (k : String) : Bool := ((fld j k).getBool?).toOption.getD false
def arr (j : Json) (k : String) : Array Json := ((fld j k).getArr?).toOption.getD #[]
def toInt (j : Json) : Int := (j.getInt?).toOption.getD 0
def toNat (j : Json) : Nat := (j.getNat?).toOption.getD 0
def ints (j : Json) (k : String) : List Int := (arr j k).toList.map toInt
def nats (j : Json) (k : String) : List Nat := (arr j k).toList.map toNat
def has (j : Json) (k : String) : Bool := (j.getObjVal? k).toOption.isSome

def jInts (l : List Int) : Json := Json.arr (l.map (fun (i : Int) => (Json.num (JsonNumber.fromInt i)))).toArray

/-- verdict line: correspondence, spec verdict, signature of the violated clause, model text -/
def verdict (corr spec : Bool) (sig : String) (model : String) : String :=
  (Json.mkObj [("c", Json.bool corr), ("s", Json.bool spec), ("sig", Json.str sig), ("m", Json.str model)]).compress

end Drv
