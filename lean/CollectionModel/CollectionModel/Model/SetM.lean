/-
  Model of `collection/set.go`: an ordered List plus a collator (`rank`).
  `findIndex` is the binary search exactly as written (`first`, `last`, `size`,
  `middle = first + size/2`, three arms, `return last, false`).
-/
import CollectionModel.Model.SeqOps
namespace CM
namespace SetM
open CM.Seq

variable {α : Type} [Inhabited α]

/-- the `for size > 0` loop of `findIndex`; `fuel` bounds the iterations
    (`none` = fuel exhausted, i.e. the loop did not terminate) -/
def findLoop (rank : α → α → Rank) (l : List α) (v : α) :
    (fuel first last size : Nat) → Option (Except Panic (Nat × Bool))
  | 0, _, _, _ => none
  | f+1, first, last, size =>
    if size = 0 then some (.ok (last, false)) else
    let middle := first + size / 2
    match getValue l (middle : Int) with
    | .error p => some (.error p)
    | .ok candidate =>
      match rank v candidate with
      | .lt => findLoop rank l v f first (middle - 1) (middle - first)
      | .eq => some (.ok (middle, true))
      | .gt => findLoop rank l v f (middle + 1) last (last - middle)

/-- `set_.findIndex`: (index-or-slot, found) -/
def findIndex (rank : α → α → Rank) (l : List α) (v : α) : Option (Except Panic (Nat × Bool)) :=
  findLoop rank l v (l.length + 1) 1 l.length l.length

/-- outcome of a set call: `none` = hang -/
abbrev R (β : Type) := Option (Except Panic β)

def bindR {β γ : Type} (x : R β) (f : β → R γ) : R γ :=
  match x with
  | none => none
  | some (.error p) => some (.error p)
  | some (.ok b) => f b

/-- `set_.AddValue` -/
def addValue (rank : α → α → Rank) (l : List α) (v : α) : R (List α) :=
  bindR (findIndex rank l v) fun (slot, found) =>
    if found then some (.ok l) else some (insertValue l slot v)

/-- `set_.RemoveValue` -/
def removeValue (rank : α → α → Rank) (l : List α) (v : α) : R (List α) :=
  bindR (findIndex rank l v) fun (index, found) =>
    if found then some ((Seq.removeValue l (index : Int)).map (·.2)) else some (.ok l)

/-- `set_.AddValues` / `set_.RemoveValues`: one value at a time in iteration order -/
def addValues (rank : α → α → Rank) : List α → List α → R (List α)
  | l, [] => some (.ok l)
  | l, v :: vs => bindR (addValue rank l v) fun l' => addValues rank l' vs

def removeValues (rank : α → α → Rank) : List α → List α → R (List α)
  | l, [] => some (.ok l)
  | l, v :: vs => bindR (removeValue rank l v) fun l' => removeValues rank l' vs

def containsValue (rank : α → α → Rank) (l : List α) (v : α) : R Bool :=
  bindR (findIndex rank l v) fun (_, found) => some (.ok found)

def containsAny (rank : α → α → Rank) (l : List α) : List α → R Bool
  | [] => some (.ok false)
  | v :: vs => bindR (containsValue rank l v) fun b => if b then some (.ok true) else containsAny rank l vs

def containsAll (rank : α → α → Rank) (l : List α) : List α → R Bool
  | [] => some (.ok true)
  | v :: vs => bindR (containsValue rank l v) fun b => if !b then some (.ok false) else containsAll rank l vs

def getIndex (rank : α → α → Rank) (l : List α) (v : α) : R Nat :=
  bindR (findIndex rank l v) fun (index, found) => some (.ok (if found then index else 0))

/-- `setClass_.MakeFromSequence` (and `MakeFromArray`): add one at a time -/
def makeFrom (rank : α → α → Rank) (vs : List α) : R (List α) := addValues rank [] vs

/-! class functions (the result carries the first operand's collator) -/

def andLoop (rank rank2 : α → α → Rank) (second : List α) : List α → List α → R (List α)
  | result, [] => some (.ok result)
  | result, v :: vs =>
    bindR (containsValue rank2 second v) fun b =>
      if b then bindR (addValue rank result v) fun r => andLoop rank rank2 second r vs
      else andLoop rank rank2 second result vs

/-- `And`: membership in `second` is decided by `second`'s own collator `rank2` -/
def setAnd (rank rank2 : α → α → Rank) (a b : List α) : R (List α) := andLoop rank rank2 b [] a
def setOr (rank : α → α → Rank) (a b : List α) : R (List α) :=
  bindR (addValues rank [] a) fun r => addValues rank r b
def setSans (rank : α → α → Rank) (a b : List α) : R (List α) :=
  bindR (addValues rank [] a) fun r => removeValues rank r b
/-- `Xor`: `Sans(second, first)` is computed under the second operand's collator `rank2`,
    the final `Or` under the first one's -/
def setXor (rank rank2 : α → α → Rank) (a b : List α) : R (List α) :=
  bindR (setSans rank a b) fun x => bindR (setSans rank2 b a) fun y => setOr rank x y

end SetM
end CM
