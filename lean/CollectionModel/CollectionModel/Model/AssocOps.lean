/- operation languages, step functions and executable specifications for Map (C14) and Catalog (C03, C16) -/
import CollectionModel.Model.Assoc
import CollectionModel.Spec.SeqSpec
namespace CM
namespace Assoc
open CM.Seq

inductive ARes (K V : Type)
  | unit | val (v : V) | vals (l : List V) | keys (l : List K) | pairs (l : List (K × V)) | nat (n : Nat) | bool (b : Bool)
  deriving DecidableEq, Repr

/-! ## Map -/

inductive MOp (K V : Type)
  | setValue (k : K) (v : V) | getValue (k : K) | getValues (ks : List K) | getKeys
  | removeValue (k : K) | removeValues (ks : List K) | removeAll
  | asArray | iterate | getSize | isEmpty | make (ps : List (K × V))
  deriving Repr

variable {K V : Type} [DecidableEq K] [Inhabited K] [Inhabited V]

abbrev MObs (K V : Type) := Outcome (List (K × V)) (ARes K V)

def mapStep (m : List (K × V)) : MOp K V → MObs K V
  | .setValue k v => .ret (mset m k v) .unit
  | .getValue k => .ret m (.val (mapGetValue m k))
  | .getValues ks => .ret m (.vals (ks.map (mapGetValue m)))
  | .getKeys => .ret m (.keys (m.map (·.1)))
  | .removeValue k => let r := mapRemoveValue m k; .ret r.2 (.val r.1)
  | .removeValues ks => let r := mapRemoveValues m ks; .ret r.2 (.vals r.1)
  | .removeAll => .ret [] .unit
  | .asArray => .ret m (.pairs m)
  | .iterate => .ret m (.pairs m)
  | .getSize => .ret m (.nat m.length)
  | .isEmpty => .ret m (.bool (m.length == 0))
  | .make ps => .ret (mapMakeFrom ps) .unit

/-- two association lists denote the same finite map (each with distinct keys) -/
def sameMap [DecidableEq V] (a b : List (K × V)) : Bool :=
  (a.map (·.1)).Nodup && (b.map (·.1)).Nodup &&
  a.all (fun p => lookup p.1 b == some p.2) && b.all (fun p => lookup p.1 a == some p.2)

/-- abstract Go-map update used by the spec: a function from keys to optional values,
    represented on the finite support by `lookup` -/
def specAfterSet [DecidableEq V] (m post : List (K × V)) (k : K) (v : V) : Bool :=
  (post.map (·.1)).Nodup && lookup k post == some v &&
  post.all (fun p => p.1 = k || lookup p.1 m == some p.2) &&
  m.all (fun p => p.1 = k || lookup p.1 post == some p.2)

def specAfterRemove [DecidableEq V] (m post : List (K × V)) (ks : List K) : Bool :=
  (post.map (·.1)).Nodup &&
  post.all (fun p => !ks.contains p.1 && lookup p.1 m == some p.2) &&
  m.all (fun p => ks.contains p.1 || lookup p.1 post == some p.2)

/-- values returned by removing `ks` one after another from `m` (a key removed twice reads zero the second time) -/
def specRemoved (m : List (K × V)) : List K → List V
  | [] => []
  | k :: ks => (lookup k m).getD default :: specRemoved (m.filter (fun p => !decide (p.1 = k))) ks

def mapAllowed [DecidableEq V] (m : List (K × V)) (op : MOp K V) (o : MObs K V) : Bool :=
  match o with
  | .ret post r =>
    (match op with
    | .setValue k v => r == .unit && specAfterSet m post k v
    | .getValue k => r == .val ((lookup k m).getD default) && post == m
    | .getValues ks => r == .vals (ks.map (fun k => (lookup k m).getD default)) && post == m
    | .getKeys => post == m && (match r with | .keys l => l.isPerm (m.map (·.1)) | _ => false)
    | .removeValue k => r == .val ((lookup k m).getD default) && specAfterRemove m post [k]
    | .removeValues ks => r == .vals (specRemoved m ks) && specAfterRemove m post ks
    | .removeAll => r == .unit && post == []
    | .asArray => post == m && (match r with | .pairs l => l.isPerm m | _ => false)
    | .iterate => post == m && (match r with | .pairs l => l.isPerm m | _ => false)
    | .getSize => r == .nat m.length && post == m
    | .isEmpty => r == .bool (m.length == 0) && post == m
    | .make ps =>
        -- exactly the keys of `ps`, each with the value of its LAST occurrence
        r == .unit && (post.map (·.1)).Nodup &&
        post.all (fun p => lookup p.1 ps.reverse == some p.2) &&
        ps.all (fun p => (lookup p.1 post).isSome))
  | _ => false

/-! ## Catalog -/

inductive COp (K V : Type)
  | setValue (k : K) (v : V) | getValue (k : K) | getValues (ks : List K) | getKeys
  | removeValue (k : K) | removeValues (ks : List K) | removeAll
  | sort | reverse | shuffle (rs : List Nat)
  | asArray | iterate | getSize | isEmpty
  | make (ps : List (K × V))
  | merge (a b : List (K × V)) | extract (c : List (K × V)) (ks : List K)
  deriving Repr

abbrev CObs (K V : Type) := Outcome (Cat K V) (ARes K V)

def catStep (rank : (K × V) → (K × V) → Rank) (c : Cat K V) : COp K V → CObs K V
  | .setValue k v => .ret (catSetValue c k v) .unit
  | .getValue k => .ret c (.val (catGetValue c k))
  | .getValues ks => .ret c (.vals (ks.map (catGetValue c)))
  | .getKeys => .ret c (.keys (c.assocs.map (·.1)))
  | .removeValue k => match catRemoveValue c k with
      | .ok (v, c') => .ret c' (.val v) | .error p => .panic c p
  | .removeValues ks => match catRemoveValues c ks with
      | .ok (vs, c') => .ret c' (.vals vs) | .error p => .panic c p
  | .removeAll => .ret catEmpty .unit
  | .sort => .ret { c with assocs := Sorter.arraySort rank c.assocs } .unit
  | .reverse => .ret { c with assocs := Sorter.reverseValues c.assocs } .unit
  | .shuffle rs => .ret { c with assocs := Sorter.shuffleValues rs c.assocs } .unit
  | .asArray => .ret c (.pairs c.assocs)
  | .iterate => .ret c (.pairs c.assocs)
  | .getSize => .ret c (.nat c.assocs.length)
  | .isEmpty => .ret c (.bool (c.assocs.length == 0))
  | .make ps => .ret (catMakeFrom ps) .unit
  | .merge a b => .ret (catMerge a b) .unit
  | .extract src ks => .ret (catExtract src ks) .unit

/-- abstract insertion-ordered map: set = replace in place or append -/
def specSet (l : List (K × V)) (k : K) (v : V) : List (K × V) :=
  if l.any (fun p => p.1 = k) then l.map (fun p => if p.1 = k then (k, v) else p) else l ++ [(k, v)]

def specDel (l : List (K × V)) (k : K) : List (K × V) := l.filter (fun p => !decide (p.1 = k))

/-- the list view and the key index describe the same associations -/
def coherent [DecidableEq V] (c : Cat K V) : Bool :=
  (c.assocs.map (·.1)).Nodup && sameMap c.assocs c.keys

def catAllowed [DecidableEq V] (rank : (K × V) → (K × V) → Rank) (c : Cat K V) (op : COp K V) (o : CObs K V) : Bool :=
  let l := c.assocs
  match o with
  | .ret post r =>
    coherent post &&
    (match op with
    | .setValue k v => r == .unit && post.assocs == specSet l k v
    | .getValue k => r == .val ((lookup k l).getD default) && post.assocs == l
    | .getValues ks => r == .vals (ks.map (fun k => (lookup k l).getD default)) && post.assocs == l
    | .getKeys => r == .keys (l.map (·.1)) && post.assocs == l
    | .removeValue k => r == .val ((lookup k l).getD default) && post.assocs == specDel l k
    | .removeValues ks => r == .vals (specRemoved l ks) && post.assocs == ks.foldl specDel l
    | .removeAll => r == .unit && post.assocs == []
    | .sort => r == .unit && post.assocs.isPerm l && SeqSpec.ascending rank post.assocs
    | .reverse => r == .unit && post.assocs == l.reverse
    | .shuffle _ => r == .unit && post.assocs.isPerm l
    | .asArray => r == .pairs l && post.assocs == l
    | .iterate => r == .pairs l && post.assocs == l
    | .getSize => r == .nat l.length && post.assocs == l
    | .isEmpty => r == .bool (l.length == 0) && post.assocs == l
    | .make ps => r == .unit && post.assocs == ps.foldl (fun acc p => specSet acc p.1 p.2) []
    | .merge a b => r == .unit && post.assocs == b.foldl (fun acc p => specSet acc p.1 p.2) a
    | .extract src ks =>
        -- in the order of `ks`, exactly the requested associations that `src` contains
        r == .unit && post.assocs ==
          (ks.filter (fun k => (lookup k src).isSome)).foldl
            (fun acc k => specSet acc k ((lookup k src).getD default)) [])
  | _ => false

end Assoc
end CM
