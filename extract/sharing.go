package main

// The sharing table of property C19.
//
// writes(T.m): method m of struct type T may write state reachable from its receiver:
//   - it assigns / increments / index-assigns / deletes from / appends to a receiver field
//     (or the receiver itself for slice- and map-typed receivers), or calls a
//     pointer-receiver method of a foreign struct stored by value in a field
//     (strings.Builder and the like), or
//   - it calls a method on the receiver that writes, or
//   - it calls, on a receiver FIELD, a method name that some type of this module
//     implements with writes (name-based resolution of interface calls).
// Calls on other objects (locals, fresh copies) do not count: that is what makes the
// per-call traversal copies of the collator and the formatter safe.
//
// A row of the table is one way in which an object becomes reachable from several
// instances (or goroutines): a package-level variable, a field of a class object, an
// operand's agent handed to a new instance.  For every row: the methods invoked
// through it, whether any of them writes, and whether all accesses sit inside a
// mutex section.  The Lean obligation (Props/Tie.lean) is: no row has writes
// without a guard.

import (
	"fmt"
	"go/ast"
	"go/token"
	"go/types"
	"sort"
	"strings"

	"golang.org/x/tools/go/packages"
)

type methodInfo struct {
	pkg        *packages.Package
	decl       *ast.FuncDecl
	typ, name  string
	direct     bool
	selfCalls  []string
	fieldCalls []string // method names called on receiver fields
	writes     bool
	wfields    map[string]bool // receiver fields this method writes itself
}

var methods = map[string]*methodInfo{} // "Type.method"
var byName = map[string][]*methodInfo{}

func isTestFile(p *packages.Package, f *ast.File) bool {
	return strings.HasSuffix(fset.Position(f.Pos()).Filename, "_test.go")
}

func collectMethods() {
	for _, p := range pkgs {
		for _, f := range p.Syntax {
			if isTestFile(p, f) {
				continue
			}
			for _, d := range f.Decls {
				fd, ok := d.(*ast.FuncDecl)
				if !ok || fd.Recv == nil || fd.Body == nil || len(fd.Recv.List) == 0 {
					continue
				}
				mi := &methodInfo{pkg: p, decl: fd, typ: recvTypeName(fd.Recv.List[0].Type), name: fd.Name.Name}
				recv := ""
				if len(fd.Recv.List[0].Names) > 0 {
					recv = fd.Recv.List[0].Names[0].Name
				}
				analyseBody(p, fd.Body, recv, mi)
				methods[mi.typ+"."+mi.name] = mi
				byName[mi.name] = append(byName[mi.name], mi)
			}
		}
	}
	// fixpoint
	for changed := true; changed; {
		changed = false
		for _, mi := range methods {
			if mi.writes {
				continue
			}
			w := mi.direct
			for _, c := range mi.selfCalls {
				if m2 := methods[mi.typ+"."+c]; m2 != nil && m2.writes {
					w = true
				}
			}
			for _, c := range mi.fieldCalls {
				for _, m2 := range byName[c] {
					if m2.writes {
						w = true
					}
				}
			}
			if w {
				mi.writes = true
				changed = true
			}
		}
	}
}

// rootedAtRecvField: e is recv.f or recv.f[...] ... ; returns field name
func recvField(e ast.Expr, recv string) (string, bool) {
	switch x := e.(type) {
	case *ast.SelectorExpr:
		if id, ok := x.X.(*ast.Ident); ok && id.Name == recv && recv != "" {
			return x.Sel.Name, true
		}
		return recvField(x.X, recv)
	case *ast.IndexExpr:
		return recvField(x.X, recv)
	case *ast.StarExpr:
		return recvField(x.X, recv)
	case *ast.ParenExpr:
		return recvField(x.X, recv)
	}
	return "", false
}

func isRecvItself(e ast.Expr, recv string) bool {
	switch x := e.(type) {
	case *ast.Ident:
		return x.Name == recv && recv != ""
	case *ast.IndexExpr:
		return isRecvItself(x.X, recv)
	case *ast.ParenExpr:
		return isRecvItself(x.X, recv)
	case *ast.StarExpr:
		return isRecvItself(x.X, recv)
	}
	return false
}

// aliasesOf: local variables that may hold the receiver itself (`x := v`, `var x = v`, `x = v`)
func aliasesOf(body *ast.BlockStmt, recv string) map[string]bool {
	al := map[string]bool{}
	if recv == "" {
		return al
	}
	isRecv := func(e ast.Expr) bool {
		id, ok := e.(*ast.Ident)
		return ok && (id.Name == recv || al[id.Name])
	}
	for changed := true; changed; {
		changed = false
		ast.Inspect(body, func(n ast.Node) bool {
			switch x := n.(type) {
			case *ast.AssignStmt:
				for i, r := range x.Rhs {
					if i < len(x.Lhs) && isRecv(r) {
						if id, ok := x.Lhs[i].(*ast.Ident); ok && id.Name != "_" && !al[id.Name] {
							al[id.Name] = true
							changed = true
						}
					}
				}
			case *ast.ValueSpec:
				for i, r := range x.Values {
					if i < len(x.Names) && isRecv(r) && !al[x.Names[i].Name] {
						al[x.Names[i].Name] = true
						changed = true
					}
				}
			}
			return true
		})
	}
	return al
}

func analyseBody(p *packages.Package, body *ast.BlockStmt, recv string, mi *methodInfo) {
	// a local that may be the receiver counts as the receiver (may-alias)
	aliases := aliasesOf(body, recv)
	if len(aliases) > 0 {
		for a := range aliases {
			sub := &methodInfo{}
			analyseBodyFor(p, body, a, sub)
			mi.direct = mi.direct || sub.direct
			for f := range sub.wfields {
				if mi.wfields == nil {
					mi.wfields = map[string]bool{}
				}
				mi.wfields[f] = true
			}
			mi.selfCalls = append(mi.selfCalls, sub.selfCalls...)
			mi.fieldCalls = append(mi.fieldCalls, sub.fieldCalls...)
		}
	}
	analyseBodyFor(p, body, recv, mi)
}

func analyseBodyFor(p *packages.Package, body *ast.BlockStmt, recv string, mi *methodInfo) {
	noteField := func(f string) {
		if mi.wfields == nil {
			mi.wfields = map[string]bool{}
		}
		if f != "" {
			mi.wfields[f] = true
		}
	}
	writeTo := func(e ast.Expr) {
		if f, ok := recvField(e, recv); ok {
			mi.direct = true
			noteField(f)
		}
		if ix, ok := e.(*ast.IndexExpr); ok && isRecvItself(ix.X, recv) {
			mi.direct = true // v[i] = x on a slice / map receiver
		}
	}
	ast.Inspect(body, func(n ast.Node) bool {
		switch x := n.(type) {
		case *ast.AssignStmt:
			for _, l := range x.Lhs {
				writeTo(l)
			}
		case *ast.IncDecStmt:
			writeTo(x.X)
		case *ast.CallExpr:
			if id, ok := x.Fun.(*ast.Ident); ok && (id.Name == "delete" || id.Name == "clear" || id.Name == "copy") && len(x.Args) > 0 {
				if f, ok := recvField(x.Args[0], recv); ok || isRecvItself(x.Args[0], recv) {
					mi.direct = true
					noteField(f)
				}
			}
			sel, ok := x.Fun.(*ast.SelectorExpr)
			if !ok {
				return true
			}
			// a call on the receiver itself
			if id, ok := sel.X.(*ast.Ident); ok && id.Name == recv && recv != "" {
				mi.selfCalls = append(mi.selfCalls, sel.Sel.Name)
				return true
			}
			// a call on a receiver field
			if f, ok := recvField(sel.X, recv); ok && f != "" {
				// foreign struct held by value with a pointer-receiver method: a write
				if s := p.TypesInfo.Selections[sel]; s != nil {
					if fn, ok := s.Obj().(*types.Func); ok {
						sig := fn.Type().(*types.Signature)
						if sig.Recv() != nil {
							_, ptrRecv := sig.Recv().Type().(*types.Pointer)
							ft := p.TypesInfo.TypeOf(sel.X)
							_, isPtr := ft.(*types.Pointer)
							_, isIface := ft.Underlying().(*types.Interface)
							if ptrRecv && !isPtr && !isIface {
								mi.direct = true
								noteField(f)
								return true
							}
						}
					}
				}
				mi.fieldCalls = append(mi.fieldCalls, sel.Sel.Name)
			}
		}
		return true
	})
}

func isClassType(name string) bool { return strings.HasSuffix(name, "Class_") }

// classDerived: the expression reaches its value through a class object (a field of a
// *Class_ struct, a method of a *Class_ type, or GetClass())
func classDerived(p *packages.Package, e ast.Expr) bool {
	switch x := e.(type) {
	case *ast.SelectorExpr:
		if s := p.TypesInfo.Selections[x]; s != nil {
			if isClassType(typeName(s.Recv())) {
				return true
			}
		}
		if x.Sel.Name == "class_" {
			return true
		}
		return classDerived(p, x.X)
	case *ast.CallExpr:
		if sel, ok := x.Fun.(*ast.SelectorExpr); ok {
			if sel.Sel.Name == "GetClass" {
				return true
			}
			return classDerived(p, sel)
		}
	case *ast.ParenExpr:
		return classDerived(p, x.X)
	}
	return false
}

type row struct {
	holder  string
	via     string
	target  string
	writes  bool
	guarded bool
}

func anyWrites(method string) (bool, []string) {
	var ts []string
	w := false
	for _, m := range byName[method] {
		ts = append(ts, m.typ)
		if m.writes {
			w = true
		}
	}
	sort.Strings(ts)
	return w, ts
}

func genSharing() string {
	collectMethods()
	var rows []row
	// (a) package-level variables
	for _, p := range pkgs {
		for _, f := range p.Syntax {
			if isTestFile(p, f) {
				continue
			}
			for _, d := range f.Decls {
				gd, ok := d.(*ast.GenDecl)
				if !ok || gd.Tok != token.VAR {
					continue
				}
				for _, sp := range gd.Specs {
					vs := sp.(*ast.ValueSpec)
					for _, n := range vs.Names {
						obj := p.TypesInfo.Defs[n]
						if obj == nil {
							continue
						}
						kind, mutable := varKind(obj.Type())
						if !mutable {
							continue
						}
						written, guarded := varAccess(p, obj)
						rows = append(rows, row{holder: "var " + p.Name + "." + n.Name, via: kind, target: "direct", writes: written, guarded: guarded})
						if tn, ok := obj.Type().(*types.Named); ok && tn.Obj().Pkg() != nil && tn.Obj().Pkg().Path() == "sync" && tn.Obj().Name() == "Pool" {
							rows = append(rows, poolRows(p, obj, n.Name)...)
						}
						// an interface-typed variable holds one object for everybody: no exported method of any type of
						// this module that can stand behind it may write
						if _, ok := obj.Type().Underlying().(*types.Interface); ok {
							for k, m := range methods {
								if ast.IsExported(m.name) && implementsByName(m.typ, obj.Type()) {
									rows = append(rows, row{holder: "var " + p.Name + "." + n.Name, via: "method", target: k, writes: m.writes, guarded: false})
								}
							}
						}
						// a class object: its fields are handled below; its own methods must not write
						if ptr, ok := obj.Type().(*types.Pointer); ok {
							tn := typeName(ptr.Elem())
							for k, m := range methods {
								if m.typ == tn && ast.IsExported(m.name) {
									rows = append(rows, row{holder: "var " + p.Name + "." + n.Name, via: "method", target: k, writes: m.writes, guarded: false})
								}
							}
						}
					}
				}
			}
		}
	}
	// (b) methods invoked on class-derived objects; (c) agents of an operand handed to a new instance
	seen := map[string]bool{}
	for _, p := range pkgs {
		for _, f := range p.Syntax {
			if isTestFile(p, f) {
				continue
			}
			for _, d := range f.Decls {
				fd, ok := d.(*ast.FuncDecl)
				if !ok || fd.Body == nil {
					continue
				}
				owner := fd.Name.Name
				if fd.Recv != nil && len(fd.Recv.List) > 0 {
					owner = recvTypeName(fd.Recv.List[0].Type) + "." + owner
				}
				ast.Inspect(fd.Body, func(n ast.Node) bool {
					call, ok := n.(*ast.CallExpr)
					if !ok {
						return true
					}
					sel, ok := call.Fun.(*ast.SelectorExpr)
					if ok && classDerived(p, sel.X) {
						t := p.TypesInfo.TypeOf(sel.X)
						if t != nil && !isClassType(typeName(t)) {
							w, ts := anyWrites(sel.Sel.Name)
							if len(ts) > 0 {
								key := "class:" + typeName(t) + "." + sel.Sel.Name
								if !seen[key] {
									seen[key] = true
									rows = append(rows, row{holder: "class-held " + typeName(t), via: "called in " + owner, target: strings.Join(ts, "|") + "." + sel.Sel.Name, writes: w})
								}
							}
						}
					}
					// (c) Make*(…, operand.GetX(), …) inside a class function
					if fd.Recv != nil && isClassType(recvTypeName(fd.Recv.List[0].Type)) {
						for _, a := range call.Args {
							ac, ok := a.(*ast.CallExpr)
							if !ok {
								continue
							}
							as, ok := ac.Fun.(*ast.SelectorExpr)
							if !ok || !strings.HasPrefix(as.Sel.Name, "Get") || as.Sel.Name == "GetSize" || as.Sel.Name == "GetClass" {
								continue
							}
							t := p.TypesInfo.TypeOf(a)
							if t == nil {
								continue
							}
							if _, isIface := t.Underlying().(*types.Interface); !isIface {
								continue
							}
							// every exported method of every implementing type must be write-free
							iface := typeName(t)
							for k, m := range methods {
								if ast.IsExported(m.name) && implementsByName(m.typ, t) {
									key := "operand:" + iface + ":" + k
									if !seen[key] {
										seen[key] = true
										rows = append(rows, row{holder: "operand's " + iface + " handed to a new instance", via: "in " + owner, target: k, writes: m.writes})
									}
								}
							}
						}
					}
					return true
				})
				// func-typed class fields initialised with a method value: X.Make().RankValues
				ast.Inspect(fd.Body, func(n ast.Node) bool {
					cl, ok := n.(*ast.CompositeLit)
					if !ok || !isClassType(typeName(p.TypesInfo.TypeOf(cl))) {
						return true
					}
					for _, e := range cl.Elts {
						kv, ok := e.(*ast.KeyValueExpr)
						if !ok {
							continue
						}
						if sel, ok := kv.Value.(*ast.SelectorExpr); ok {
							if s := p.TypesInfo.Selections[sel]; s != nil && s.Kind() == types.MethodVal {
								w, ts := anyWrites(sel.Sel.Name)
								rows = append(rows, row{holder: "class field " + typeName(p.TypesInfo.TypeOf(cl)) + "." + types.ExprString(kv.Key), via: "method value", target: strings.Join(ts, "|") + "." + sel.Sel.Name, writes: w})
							}
						}
					}
					return true
				})
			}
		}
	}
	sort.Slice(rows, func(i, j int) bool {
		return rows[i].holder+rows[i].target+rows[i].via < rows[j].holder+rows[j].target+rows[j].via
	})
	var b strings.Builder
	b.WriteString(header("Sharing table (C19): (holder, how it is used, target, may write, guarded by a mutex)."))
	b.WriteString("def sharing : List (String × String × String × Bool × Bool) := [\n")
	for i, r := range rows {
		sep := ","
		if i == len(rows)-1 {
			sep = ""
		}
		fmt.Fprintf(&b, "  (%q, %q, %q, %v, %v)%s\n", r.holder, r.via, r.target, r.writes, r.guarded, sep)
	}
	b.WriteString("]\n\n")
	// the write summary of every exported method (for the record and for the evidence)
	var keys []string
	for k, m := range methods {
		if ast.IsExported(m.name) {
			keys = append(keys, k)
		}
	}
	sort.Strings(keys)
	b.WriteString("def exportedWrites : List (String × Bool) := [\n")
	for i, k := range keys {
		sep := ","
		if i == len(keys)-1 {
			sep = ""
		}
		fmt.Fprintf(&b, "  (%q, %v)%s\n", k, methods[k].writes, sep)
	}
	b.WriteString("]\n")
	b.WriteString(footer)
	return b.String()
}

// implementsByName: the struct type has every method of the interface (by name)
func implementsByName(typ string, t types.Type) bool {
	it, ok := t.Underlying().(*types.Interface)
	if !ok || it.NumMethods() == 0 {
		return false
	}
	for i := 0; i < it.NumMethods(); i++ {
		if methods[typ+"."+it.Method(i).Name()] == nil {
			return false
		}
	}
	return true
}

func varKind(t types.Type) (string, bool) {
	switch u := t.Underlying().(type) {
	case *types.Map:
		return "map", true
	case *types.Slice:
		return "slice", true
	case *types.Pointer:
		return "pointer to " + typeName(u.Elem()), true
	case *types.Struct:
		return "struct " + typeName(t), true
	case *types.Chan:
		return "chan", true
	case *types.Basic:
		return "basic", true
	case *types.Interface:
		return "interface", true
	case *types.Signature:
		return "func", true
	}
	return t.String(), true
}

// varAccess: is the variable written after initialisation, and does every function that
// touches it do so between Lock() and Unlock() of some mutex?
func varAccess(p *packages.Package, obj types.Object) (written bool, guarded bool) {
	guarded = true
	used := false
	for _, q := range pkgs {
		if q.Types != p.Types {
			continue
		}
		for _, f := range q.Syntax {
			if isTestFile(q, f) {
				continue
			}
			for _, d := range f.Decls {
				fd, ok := d.(*ast.FuncDecl)
				if !ok || fd.Body == nil {
					continue
				}
				var first, last token.Pos
				ast.Inspect(fd.Body, func(n ast.Node) bool {
					id, ok := n.(*ast.Ident)
					if ok && q.TypesInfo.Uses[id] == obj {
						if first == 0 {
							first = id.Pos()
						}
						last = id.Pos()
					}
					return true
				})
				if first == 0 {
					continue
				}
				used = true
				// writes: assignment to the variable, to an index of it, delete, append
				ast.Inspect(fd.Body, func(n ast.Node) bool {
					switch x := n.(type) {
					case *ast.AssignStmt:
						for _, l := range x.Lhs {
							if rootIdentIs(q, l, obj) {
								written = true
							}
						}
					case *ast.IncDecStmt:
						if rootIdentIs(q, x.X, obj) {
							written = true
						}
					case *ast.CallExpr:
						if id, ok := x.Fun.(*ast.Ident); ok && (id.Name == "delete" || id.Name == "clear") && len(x.Args) > 0 && rootIdentIs(q, x.Args[0], obj) {
							written = true
						}
						// x.M(...) on the variable where M belongs to a type of another module and has a pointer receiver:
						// the object's own state may change (math/rand.Rand, bytes.Buffer, ...) unless the type synchronises itself
						if sel, ok := x.Fun.(*ast.SelectorExpr); ok && rootIdentIs(q, sel.X, obj) {
							if s := q.TypesInfo.Selections[sel]; s != nil {
								if fn, ok := s.Obj().(*types.Func); ok && fn.Pkg() != nil && !strings.Contains(fn.Pkg().Path(), "go-collection-framework") {
									sig := fn.Type().(*types.Signature)
									if sig.Recv() != nil {
										if _, ptrRecv := sig.Recv().Type().(*types.Pointer); ptrRecv && !selfSynchronised(sig.Recv().Type()) {
											written = true
										}
									}
								}
							}
						}
					}
					return true
				})
				// guard: a Lock() call before the first use and an Unlock() (deferred anywhere, or plain after the last use)
				locked, unlocked := false, false
				ast.Inspect(fd.Body, func(n ast.Node) bool {
					switch x := n.(type) {
					case *ast.DeferStmt:
						if sel, ok := x.Call.Fun.(*ast.SelectorExpr); ok && sel.Sel.Name == "Unlock" && x.Pos() < first {
							unlocked = true
						}
					case *ast.CallExpr:
						if sel, ok := x.Fun.(*ast.SelectorExpr); ok {
							if sel.Sel.Name == "Lock" && x.Pos() < first {
								locked = true
							}
							if sel.Sel.Name == "Unlock" && x.Pos() > last {
								unlocked = true
							}
							if sel.Sel.Name == "Unlock" && x.Pos() > first && x.Pos() < last {
								// unlocked in the middle of the accesses: not one critical section
								locked = false
							}
						}
					}
					return true
				})
				if !(locked && unlocked) {
					guarded = false
				}
			}
		}
	}
	if !used {
		guarded = false
	}
	return
}

// selfSynchronised: types of the standard library whose methods may be called concurrently
func selfSynchronised(t types.Type) bool {
	if p, ok := t.(*types.Pointer); ok {
		t = p.Elem()
	}
	n, ok := t.(*types.Named)
	if !ok || n.Obj().Pkg() == nil {
		return false
	}
	switch n.Obj().Pkg().Path() {
	case "sync", "sync/atomic":
		return true
	}
	return false
}

// poolRows: a package-level sync.Pool recycles objects between calls (and goroutines).  An object taken from it still
// carries what the previous user left in every field that its methods write; the taking function must assign all of
// those fields before it calls a method on the object.  A row with writes = true, guarded = false is emitted otherwise.
func poolRows(p *packages.Package, obj types.Object, name string) []row {
	var rows []row
	for _, f := range p.Syntax {
		if isTestFile(p, f) {
			continue
		}
		for _, d := range f.Decls {
			fd, ok := d.(*ast.FuncDecl)
			if !ok || fd.Body == nil {
				continue
			}
			owner := fd.Name.Name
			if fd.Recv != nil && len(fd.Recv.List) > 0 {
				owner = recvTypeName(fd.Recv.List[0].Type) + "." + owner
			}
			// locals bound to pool.Get().(*T)
			ast.Inspect(fd.Body, func(n ast.Node) bool {
				var lhs []ast.Expr
				var rhs []ast.Expr
				switch x := n.(type) {
				case *ast.AssignStmt:
					lhs, rhs = x.Lhs, x.Rhs
				case *ast.ValueSpec:
					for _, nm := range x.Names {
						lhs = append(lhs, nm)
					}
					rhs = x.Values
				default:
					return true
				}
				for i, r := range rhs {
					if i >= len(lhs) {
						break
					}
					ta, ok := r.(*ast.TypeAssertExpr)
					if !ok {
						continue
					}
					call, ok := ta.X.(*ast.CallExpr)
					if !ok {
						continue
					}
					sel, ok := call.Fun.(*ast.SelectorExpr)
					if !ok || sel.Sel.Name != "Get" || !rootIdentIs(p, sel.X, obj) {
						continue
					}
					id, ok := lhs[i].(*ast.Ident)
					if !ok {
						continue
					}
					tn := typeName(p.TypesInfo.TypeOf(ta))
					// every field that some method of the type writes
					need := map[string]bool{}
					for _, m := range methods {
						if m.typ == tn {
							for fl := range m.wfields {
								need[fl] = true
							}
						}
					}
					// fields assigned on the local before the first method call on it
					firstCall := token.Pos(0)
					ast.Inspect(fd.Body, func(n ast.Node) bool {
						if c, ok := n.(*ast.CallExpr); ok && c.Pos() > r.End() {
							if s2, ok := c.Fun.(*ast.SelectorExpr); ok {
								if x2, ok := s2.X.(*ast.Ident); ok && x2.Name == id.Name && (firstCall == 0 || c.Pos() < firstCall) {
									firstCall = c.Pos()
								}
							}
						}
						return true
					})
					ast.Inspect(fd.Body, func(n ast.Node) bool {
						if a, ok := n.(*ast.AssignStmt); ok && a.Pos() > r.End() && (firstCall == 0 || a.Pos() < firstCall) {
							for _, l := range a.Lhs {
								if s2, ok := l.(*ast.SelectorExpr); ok {
									if x2, ok := s2.X.(*ast.Ident); ok && x2.Name == id.Name {
										delete(need, s2.Sel.Name)
									}
								}
							}
						}
						return true
					})
					var left []string
					for fl := range need {
						left = append(left, fl)
					}
					sort.Strings(left)
					rows = append(rows, row{holder: "var " + p.Name + "." + name, via: "recycled " + tn + " taken in " + owner,
						target: "fields not reassigned: " + strings.Join(left, ","), writes: len(left) > 0, guarded: false})
				}
				return true
			})
		}
	}
	return rows
}

func rootIdentIs(p *packages.Package, e ast.Expr, obj types.Object) bool {
	switch x := e.(type) {
	case *ast.Ident:
		return p.TypesInfo.Uses[x] == obj
	case *ast.IndexExpr:
		return rootIdentIs(p, x.X, obj)
	case *ast.SelectorExpr:
		return rootIdentIs(p, x.X, obj)
	case *ast.StarExpr:
		return rootIdentIs(p, x.X, obj)
	case *ast.ParenExpr:
		return rootIdentIs(p, x.X, obj)
	}
	return false
}
