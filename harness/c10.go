package main

// C10: CDCN round trip — parsing formatted output reproduces value and text.

import (
	"fmt"
	"math"
	"os"
	"os/exec"
	"strconv"
	"strings"
	"time"

	age "github.com/craterdog/go-collection-framework/v4/agent"
	cdc "github.com/craterdog/go-collection-framework/v4/cdcn"
	col "github.com/craterdog/go-collection-framework/v4/collection"
	mod "github.com/craterdog/go-collection-framework/v4"
)

type c10gen struct {
	rng     Rng
	canon   bool // only canonical dynamic types
	negZero bool // every zero float of this case is -0.0 (else +0.0): keeps the leaf-text table unambiguous
	width   int  // non-canonical cases use ONE Go type per numeric kind (two widths of one value have the same text)
}

func (g *c10gen) zero(f float64) float64 {
	if f == 0 {
		if g.negZero {
			return math.Copysign(0, -1)
		}
		return 0
	}
	return f
}

var c10floats = []float64{0, math.Copysign(0, -1), 1, -1, 0.5, 1.5, 10, 100000, 999999, 1e6, 1.5e6, 123456789, 1e10, 1e21, 1e22, 1.5e-5, 1e-4, 0.0001234,
	1e-7, 2.5e-10, math.MaxFloat64, math.SmallestNonzeroFloat64, 1e-310, 5e-324, 1e100, 1.7e308, 0.1, 1.0 / 3, 12345.678, 1e5, 123456.7, 1234567.8}
var c10runes = []rune{'a', 'Z', '0', ' ', '\'', '"', '\\', '\n', '\t', 0, 0x7f, 0x80, 0xe9, 0x20ac, 0x1F600, 0xffff, 0x10ffff, 0xfffd}
var c10strings = []string{"", "a", "abc", "with space", "q\"uote", "back\\slash", "tab\tnew\nline", "it's", "\x00\x01", "é日😀", "\xff\xfe", "ab\x80cd",
	"[1, 2](List)", " ", "\a\b\f\r\v", strings.Repeat("x", 50)}

func (g *c10gen) leaf() any {
	r := g.rng
	switch r.Intn(9) {
	case 0:
		return nil
	case 1:
		return r.Intn(2) == 0
	case 2:
		i := intBoundaries[r.Intn(len(intBoundaries))]
		if !g.canon {
			switch g.width {
			case 0:
				return int(i)
			case 1:
				if i >= math.MinInt8 && i <= math.MaxInt8 {
					return int8(i)
				}
				return int8(i % 100)
			case 2:
				if i >= math.MinInt16 && i <= math.MaxInt16 {
					return int16(i)
				}
				return int16(i % 10000)
			}
		}
		return i
	case 3:
		u := unsBoundaries[r.Intn(len(unsBoundaries))]
		if !g.canon {
			switch g.width {
			case 0:
				return uint(u)
			case 1:
				return uint8(u % 256)
			case 2:
				return uint16(u % 65536)
			}
		}
		return u
	case 4:
		f := c10floats[r.Intn(len(c10floats))]
		if r.Intn(2) == 0 {
			f = -f
		}
		if r.Intn(4) == 0 {
			f = math.Float64frombits(r.Uint64())
			if f != f || math.IsInf(f, 0) {
				f = 2.5
			}
		}
		f = g.zero(f)
		if !g.canon && g.width == 1 {
			if math.IsInf(float64(float32(f)), 0) || float32(f) == 0 {
				return float32(2.5)
			}
			return float32(f)
		}
		return f
	case 5:
		a, b := c10floats[r.Intn(len(c10floats))], c10floats[r.Intn(len(c10floats))]
		if r.Intn(2) == 0 {
			b = -b
		}
		return complex(g.zero(a), g.zero(b))
	case 6:
		return c10runes[r.Intn(len(c10runes))]
	}
	return c10strings[r.Intn(len(c10strings))]
}

func (g *c10gen) key() any {
	// keys always have canonical types: int8(-1) and int64(-1) are distinct Go keys with the same text
	saved := g.canon
	g.canon = true
	defer func() { g.canon = saved }()
	for {
		k := g.leaf()
		switch k.(type) {
		case float32, float64, complex128:
			continue // keep keys exact and hashable without NaN trouble
		}
		return k
	}
}

func (g *c10gen) collection(depth int) any {
	r := g.rng
	n := r.pick([]int{0, 1, 1, 2, 2, 3, 5})
	if r.Intn(30) == 0 {
		n = 17 + r.Intn(24) // beyond the default capacities
	}
	item := func() any {
		if depth > 0 && r.Intn(3) == 0 {
			return g.collection(depth - 1)
		}
		return g.leaf()
	}
	items := make([]any, n)
	for i := range items {
		items[i] = item()
	}
	switch r.Intn(7) {
	case 0:
		return col.Array[any](notation).MakeFromArray(items)
	case 1:
		return col.List[any](notation).MakeFromArray(items)
	case 2:
		return col.Set[any](notation).MakeFromArray(items)
	case 3:
		s := col.Stack[any](notation).MakeWithCapacity(uint(max(n, 1)))
		for i := len(items) - 1; i >= 0; i-- {
			s.AddValue(items[i])
		}
		return s
	case 4:
		if n > 16 {
			items = items[:16] // queues stay within their default capacity (larger ones fall under C05)
		}
		return col.Queue[any](notation).MakeFromArray(items)
	case 5:
		c := col.Catalog[any, any](notation).Make()
		for _, it := range items {
			c.SetValue(g.key(), it)
		}
		return c
	}
	m := col.Map[any, any](notation).Make()
	for _, it := range items {
		m.SetValue(g.key(), it)
	}
	return m
}

// leaves collects the leaf values of v with their formatted text (the external strconv layer)
func collectLeaves(v any, acc *[][2]J) {
	switch x := v.(type) {
	case col.AssociationLike[any, any]:
		collectLeaves(x.GetKey(), acc)
		collectLeaves(x.GetValue(), acc)
		return
	}
	e := encVal(v)
	switch e["t"] {
	case "arr", "coll":
		type seq interface{ AsArray() []any }
		switch s := v.(type) {
		case seq:
			for _, it := range s.AsArray() {
				collectLeaves(it, acc)
			}
		case col.CatalogLike[any, any]:
			for _, a := range s.AsArray() {
				collectLeaves(a, acc)
			}
		}
	case "gomap":
		if m, ok := v.(col.MapLike[any, any]); ok {
			for _, a := range m.AsArray() {
				collectLeaves(a, acc)
			}
		}
	default:
		var text string
		cr := guarded(0, func() { text = strings.TrimSuffix(cdc.Formatter().Make().FormatValue(v), "\n") })
		if cr.kind == "ret" {
			*acc = append(*acc, [2]J{e, {"text": runesOf(text)}})
		}
	}
}

type fmtObs struct {
	kind string
	text string
	pc   string
}

func formatObs(n col.NotationLike, v any) fmtObs {
	var o fmtObs
	cr := guarded(5*time.Second, func() { o.text = n.FormatValue(v) })
	o.kind, o.pc = cr.kind, cr.pc
	return o
}

func rtLine(out *Out, caseID int, v any, canon bool, extra J) {
	rtLineWith(nil, out, caseID, v, canon, extra)
}

// negZeros counts the negative zeros among the float and complex leaves of a value (the sign of a
// zero is part of the number: 1/x tells them apart)
func negZeros(v any) int {
	n := 0
	isNZ := func(f float64) bool { return f == 0 && math.Signbit(f) }
	var walk func(x any)
	walk = func(x any) {
		switch t := x.(type) {
		case float64:
			if isNZ(t) {
				n++
			}
		case float32:
			if isNZ(float64(t)) {
				n++
			}
		case complex128:
			if isNZ(real(t)) {
				n++
			}
			if isNZ(imag(t)) {
				n++
			}
		case complex64:
			if isNZ(float64(real(t))) {
				n++
			}
			if isNZ(float64(imag(t))) {
				n++
			}
		case col.AssociationLike[any, any]:
			walk(t.GetKey())
			walk(t.GetValue())
		case interface {
			AsArray() []col.AssociationLike[any, any]
		}:
			for _, a := range t.AsArray() {
				walk(a)
			}
		case interface{ AsArray() []any }:
			for _, y := range t.AsArray() {
				walk(y)
			}
		}
	}
	walk(v)
	return n
}

// rtLineWith: format and parse on the given notation (nil = a fresh one for each step)
func rtLineWith(nt col.NotationLike, out *Out, caseID int, v any, canon bool, extra J) {
	n := nt
	if n == nil {
		n = cdc.Notation().Make()
	}
	f1 := formatObs(n, v)
	j := J{"k": "rt", "pid": "C10", "case": caseID, "v": encVal(v), "canon": canon, "fmt": f1.kind}
	var leaves [][2]J
	collectLeaves(v, &leaves)
	j["leaves"] = leaves
	if f1.kind == "ret" {
		j["text"] = runesOf(f1.text)
		j["nlines"] = len(strings.Split(f1.text, "\n"))
		toks := scanAll(f1.text)
		conv := make([]any, len(toks))
		tj := make([]J, len(toks))
		for i, t := range toks {
			tj[i] = J{"tt": t.tt, "line": t.line, "pos": t.pos}
			if val, ok := convToken(t); ok {
				conv[i] = encVal(val)
			}
		}
		j["toks"], j["conv"] = tj, conv
		pj, v2 := parseObsWith(nt, f1.text)
		j["parse"] = pj
		if pj["out"] == "ret" {
			j["nz"] = []int{negZeros(v), negZeros(v2)}
		}
		// the other entry points the property names: String() of the collection, module-level FormatValue / ParseSource
		if st, ok := v.(fmt.Stringer); ok {
			var text string
			cr := guarded(5*time.Second, func() { text = st.String() })
			j["str"] = J{"out": cr.kind, "text": runesOf(text)}
		}
		{
			var text string
			cr := guarded(5*time.Second, func() { text = mod.FormatValue(v) })
			j["modfmt"] = J{"out": cr.kind, "text": runesOf(text)}
			var v3 any
			cr = guarded(5*time.Second, func() { v3 = mod.ParseSource(f1.text) })
			mp := J{"out": cr.kind}
			if cr.kind == "ret" && pj["out"] == "ret" {
				var eq bool
				cr2 := guarded(0, func() { eq = age.Collator[any]().Make().CompareValues(v2, v3) })
				mp["eq"] = cr2.kind == "ret" && eq
			}
			j["modparse"] = mp
		}
		if pj["out"] == "ret" {
			var eq bool
			cr := guarded(0, func() { eq = age.Collator[any]().Make().CompareValues(v, v2) })
			j["eq"] = cr.kind == "ret" && eq
			f2 := formatObs(cdc.Notation().Make(), v2)
			j["fmt2"] = f2.kind
			j["text2"] = runesOf(f2.text)
		}
	} else {
		j["pc"] = f1.pc
	}
	for k, x := range extra {
		j[k] = x
	}
	out.emit(j)
}

type unformattable struct{ x int }

func runC10(tier string, seed int64, out *Out) {
	rng := newRng(seed)
	caseID := 0
	// every float magnitude class / exponent form, integer boundary, rune class, string class as a lone item
	g := &c10gen{rng: rng, canon: true}
	var singles []any
	for _, f := range c10floats {
		singles = append(singles, f, -f)
	}
	for _, i := range intBoundaries {
		singles = append(singles, i)
	}
	for _, u := range unsBoundaries {
		singles = append(singles, u)
	}
	for _, r := range c10runes {
		singles = append(singles, r)
	}
	for _, s := range c10strings {
		singles = append(singles, s)
	}
	singles = append(singles, nil, true, false, complex(1e6, -1.5e-5), complex(0, math.Copysign(0, -1)))
	for _, x := range singles {
		caseID++
		rtLine(out, caseID, col.List[any](notation).MakeFromArray([]any{x}), true, J{"gen": "single"})
		caseID++
		rtLine(out, caseID, col.List[any](notation).MakeFromArray([]any{x, x}), true, J{"gen": "pair"})
	}
	// random nested collections of all seven kinds (canonical types: value equality + text fixpoint)
	n := 800
	if tier == "thorough" {
		n = 10000
	}
	for i := 0; i < n; i++ {
		caseID++
		g.negZero = i%2 == 1
		rtLine(out, caseID, g.collection(rng.Intn(5)), true, J{"gen": "random"})
	}
	// narrower numeric widths: text fixpoint only
	gn := &c10gen{rng: rng, canon: false}
	for i := 0; i < n/4; i++ {
		caseID++
		gn.width = i % 4
		rtLine(out, caseID, gn.collection(rng.Intn(3)), false, J{"gen": "widths"})
	}
	// nests around and beyond the formatter's limit (elision), singletons and multi-item
	for depth := 0; depth <= 11; depth++ {
		var v any = int64(7)
		var w any = int64(7)
		for d := 0; d < depth; d++ {
			v = col.List[any](notation).MakeFromArray([]any{v})
			w = col.List[any](notation).MakeFromArray([]any{w, int64(d)})
		}
		if depth > 0 {
			caseID++
			rtLine(out, caseID, v, true, J{"gen": "nest", "depth": depth})
			caseID++
			rtLine(out, caseID, w, true, J{"gen": "nest", "depth": depth})
		}
	}
	// the same collection OBJECT at several places of an acyclic value (siblings, different depths, key's value):
	// being met twice is not being self-containing
	for rep := 0; rep < 12; rep++ {
		inner := g.collection(1)
		mid := col.List[any](notation).MakeFromArray([]any{inner, int64(rep), inner})
		cat := col.Catalog[any, any](notation).Make()
		cat.SetValue("a", inner)
		cat.SetValue("b", mid)
		cat.SetValue("c", inner)
		for _, v := range []any{
			col.List[any](notation).MakeFromArray([]any{inner, inner}),
			col.Array[any](notation).MakeFromArray([]any{inner, mid, inner}),
			col.Stack[any](notation).MakeFromArray([]any{mid, mid}),
			cat,
			col.List[any](notation).MakeFromArray([]any{cat, inner}),
		} {
			caseID++
			rtLine(out, caseID, v, true, J{"gen": "shared"})
		}
	}
	// round trips on ONE notation after it rejected a document (each way a parse can be abandoned)
	for _, bad := range []string{"[1 2](List)", "[1]", "[1](List) x", "[", "[1: ](Map)", "[bad](Array)", "[1, 2](Catalog)", "$", ""} {
		nt := cdc.Notation().Make()
		for i := 0; i < 3; i++ {
			func() {
				defer func() { recover() }()
				nt.ParseSource(bad)
			}()
			caseID++
			rtLineWith(nt, out, caseID, g.collection(1+i), true, J{"gen": "after-rejection"})
		}
	}
	// call sequences on ONE notation, with failing calls in between: the text must not depend on history
	for rep := 0; rep < 30; rep++ {
		caseID++
		nt := cdc.Notation().Make()
		good := g.collection(2)
		fresh := formatObs(cdc.Notation().Make(), good)
		hist := []string{}
		for s := 0; s < 4; s++ {
			switch rng.Intn(3) {
			case 0:
				bad := col.List[any](notation).MakeFromArray([]any{int64(1), col.List[any](notation).MakeFromArray([]any{int64(2), unformattable{3}})})
				o := formatObs(nt, bad)
				hist = append(hist, "bad:"+o.kind)
			case 1:
				formatObs(nt, g.collection(1))
				hist = append(hist, "good")
			default:
				formatObs(nt, col.Catalog[any, any](notation).MakeFromMap(map[any]any{"k": unformattable{1}}))
				hist = append(hist, "badcat")
			}
		}
		after := formatObs(nt, good)
		out.emit(J{"k": "rtseq", "pid": "C10", "case": caseID, "hist": hist, "fresh": runesOf(fresh.text), "after": runesOf(after.text),
			"same": fresh.kind == "ret" && after.kind == "ret" && fresh.text == after.text, "fmt": after.kind})
	}
	// self-containing collections: formatted in a sacrificial child process (a stack overflow is fatal)
	for shape := 0; shape < 5; shape++ {
		caseID++
		cmd := exec.Command(os.Args[0], "C10child", "-seed", strconv.Itoa(shape))
		cmd.Env = append(os.Environ(), "GOMEMLIMIT=1GiB")
		done := make(chan struct{})
		var outb []byte
		var err error
		go func() { outb, err = cmd.Output(); close(done) }()
		status := "ok"
		select {
		case <-done:
			if err != nil {
				status = "crash"
			}
		case <-time.After(60 * time.Second):
			cmd.Process.Kill()
			status = "hang"
		}
		text := strings.TrimSpace(string(outb))
		out.emit(J{"k": "rtcyc", "pid": "C10", "case": caseID, "shape": shape, "status": status, "elided": strings.Contains(text, "..."), "len": len(text)})
	}
}

func runC10child(shape int) {
	v := cyclic(shape)
	if shape == 4 {
		l := col.List[any](notation).Make()
		l.AppendValue(int64(1))
		l.AppendValue(l)
		l2 := col.List[any](notation).MakeFromArray([]any{l})
		v = l2
	}
	fmt.Println(cdc.Notation().Make().FormatValue(v))
}
