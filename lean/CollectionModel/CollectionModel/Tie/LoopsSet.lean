import CollectionModel.Generated.LoopsSet
import CollectionModel.Model.SetM
import CollectionModel.Lemmas.SeqLemmas
/-
  T3L obligation for C02: the binary search TRANSLATED from the current text of
  `set_.findIndex` (Generated/LoopsSet.lean, rewritten on every run; `int` arithmetic wraps
  at 64 bits, `/` truncates) is the model's `SetM.findIndex`, for every list shorter than
  2^63, every collator and every probe.  `C02_findIndex` and everything built on it are
  therefore statements about the loop as it is written in the source now.
-/
namespace CM
namespace Tie
open CM.GoSem

/-- how the model's result is read as the Go result (`int`, `bool`) -/
def findRes (r : Option (Except Panic (Nat × Bool))) : Option (Except Panic (Int × Bool)) :=
  r.map (fun e => e.map (fun (p : Nat × Bool) => ((p.1 : Int), p.2)))

theorem tdiv2 (a : Nat) : Int.tdiv (a : Int) 2 = ((a / 2 : Nat) : Int) := by
  rw [Int.tdiv_eq_ediv_of_nonneg (by omega)]; omega

/-- the loop, under the invariant `1 ≤ first`, `last + 1 = first + size`, `last ≤ |l|` -/
theorem findIndex_loop_tie {α : Type} [Inhabited α] (rank : α → α → Rank) (l : List α) (v : α)
    (hl : IsInt64 ((l.length : Int) + 1)) :
    ∀ (fuel first last size : Nat), 1 ≤ first → last + 1 = first + size → last ≤ l.length →
      Generated.findIndex_loop1 (l.length : Int) (fun i => Seq.getValue l i) rank v fuel first last size
        = findRes (SetM.findLoop rank l v fuel first last size) := by
  intro fuel
  induction fuel with
  | zero => intro first last size _ _ _; rfl
  | succ f ih =>
    intro first last size h1 h2 h3
    unfold Generated.findIndex_loop1 SetM.findLoop
    by_cases hs : size = 0
    · subst hs; simp [findRes, Except.map]
    · have hpos : ((size : Int) > 0) := by omega
      simp only [hpos, decide_true, if_true, hs, if_false]
      have hmid : w64 ((first : Int) + Int.tdiv (size : Int) 2) = ((first + size / 2 : Nat) : Int) := by
        rw [tdiv2, w64_id (by unfold IsInt64 at *; omega)]; omega
      rw [hmid]
      have hle : first + size / 2 ≤ last := by omega
      cases hg : Seq.getValue l ((first + size / 2 : Nat) : Int) with
      | error p => simp [findRes, Except.map]
      | ok candidate =>
        simp only [bindE_ok]
        cases hr : rank v candidate with
        | lt =>
          have e1 : w64 (((first + size / 2 : Nat) : Int) - 1) = ((first + size / 2 - 1 : Nat) : Int) := by
            rw [w64_id (by unfold IsInt64 at *; omega)]; omega
          have e2 : w64 (((first + size / 2 : Nat) : Int) - (first : Int)) = ((first + size / 2 - first : Nat) : Int) := by
            rw [w64_id (by unfold IsInt64 at *; omega)]; omega
          simp only [e1, e2, beq_self_eq_true, if_true]
          exact ih first (first + size / 2 - 1) (first + size / 2 - first) h1 (by omega) (by omega)
        | eq => simp [findRes, Except.map]
        | gt =>
          have e1 : w64 (((first + size / 2 : Nat) : Int) + 1) = ((first + size / 2 + 1 : Nat) : Int) := by
            rw [w64_id (by unfold IsInt64 at *; omega)]; omega
          have e2 : w64 ((last : Int) - ((first + size / 2 : Nat) : Int)) = ((last - (first + size / 2) : Nat) : Int) := by
            rw [w64_id (by unfold IsInt64 at *; omega)]; omega
          have n1 : (Rank.gt == Rank.lt) = false := by decide
          have n2 : (Rank.gt == Rank.eq) = false := by decide
          simp only [e1, e2, n1, n2, beq_self_eq_true, if_true, if_false, Bool.false_eq_true]
          exact ih (first + size / 2 + 1) last (last - (first + size / 2)) (by omega) (by omega) h3

/-- `set_.findIndex` as written in set.go = `SetM.findIndex` (with the model's fuel) -/
theorem findIndex_tie {α : Type} [Inhabited α] (rank : α → α → Rank) (l : List α) (v : α)
    (hl : IsInt64 ((l.length : Int) + 1)) :
    Generated.findIndex (l.length : Int) (fun i => Seq.getValue l i) rank v (l.length + 1)
      = findRes (SetM.findIndex rank l v) := by
  unfold Generated.findIndex SetM.findIndex
  exact findIndex_loop_tie rank l v hl (l.length + 1) 1 l.length l.length (by omega) (by omega) (by omega)

/-- non-vacuity: a three-element set, found and not found -/
example : Generated.findIndex (3 : Int) (fun i => Seq.getValue [10, 20, 30] i) rankInt (20 : Int) 4 = some (.ok (2, true)) := by rfl
example : Generated.findIndex (3 : Int) (fun i => Seq.getValue [10, 20, 30] i) rankInt (25 : Int) 4 = some (.ok (2, false)) := by rfl

/-! ### the other methods of `set_`: the translated binary search followed by the list's InsertValue / RemoveValue -/

set_option linter.unusedSectionVars false
set_option linter.unusedVariables false

variable {α : Type} [Inhabited α]

/-- the search loop ends by its size argument, not by its fuel: more fuel changes nothing -/
theorem findLoop_fuel (rank : α → α → Rank) (l : List α) (v : α) :
    ∀ (f first last size : Nat), size < f → 1 ≤ first → last + 1 = first + size → ∀ g, f ≤ g →
      SetM.findLoop rank l v g first last size = SetM.findLoop rank l v f first last size := by
  intro f
  induction f with
  | zero => intro first last size h; omega
  | succ f ih =>
    intro first last size hs h1 hinv g hg
    obtain ⟨g', rfl⟩ : ∃ k, g = k + 1 := ⟨g - 1, by omega⟩
    unfold SetM.findLoop
    by_cases h0 : size = 0
    · simp [h0]
    · simp only [h0, if_false]
      cases Seq.getValue l ((first + size / 2 : Nat) : Int) with
      | error p => rfl
      | ok c =>
        simp only []
        cases rank v c with
        | lt => exact ih first (first + size / 2 - 1) (first + size / 2 - first) (by omega) h1 (by omega) g' (by omega)
        | eq => rfl
        | gt => exact ih (first + size / 2 + 1) last (last - (first + size / 2)) (by omega) (by omega) (by omega) g' (by omega)

/-- whatever the ranker answers, the search returns a position within `0 … |l|` -/
theorem findLoop_le (rank : α → α → Rank) (l : List α) (v : α) :
    ∀ (f first last size : Nat) (i : Nat) (b : Bool), 1 ≤ first → last + 1 = first + size → last ≤ l.length →
      SetM.findLoop rank l v f first last size = some (.ok (i, b)) → i ≤ l.length := by
  intro f
  induction f with
  | zero => intro first last size i b _ _ _ h; simp [SetM.findLoop] at h
  | succ f ih =>
    intro first last size i b h1 hinv hl h
    unfold SetM.findLoop at h
    by_cases h0 : size = 0
    · simp [h0] at h; omega
    · simp only [h0, if_false] at h
      split at h
      · simp at h
      · split at h
        · exact ih _ _ _ i b h1 (by omega) (by omega) h
        · injection h with h; injection h with h; injection h with h1' h2; omega
        · exact ih _ _ _ i b (by omega) (by omega) hl h

/-- the translated `findIndex` with any sufficient fuel -/
theorem findIndex_tie_fuel (rank : α → α → Rank) (l : List α) (v : α) (hl : IsInt64 ((l.length : Int) + 1)) (fuel : Nat)
    (hf : l.length < fuel) :
    Generated.findIndex (l.length : Int) (fun i => Seq.getValue l i) rank v fuel = findRes (SetM.findIndex rank l v) := by
  unfold Generated.findIndex SetM.findIndex
  have h1 := findIndex_loop_tie rank l v hl fuel 1 l.length l.length (by omega) (by omega) (by omega)
  rw [findLoop_fuel rank l v (l.length + 1) 1 l.length l.length (by omega) (by omega) (by omega) fuel (by omega)] at h1
  exact h1

theorem findIndex_le (rank : α → α → Rank) (l : List α) (v : α) (i : Nat) (b : Bool)
    (h : SetM.findIndex rank l v = some (.ok (i, b))) : i ≤ l.length :=
  findLoop_le rank l v _ 1 l.length l.length i b (by omega) (by omega) (Nat.le_refl _) h

/-- how a model result (`none` = hang) is read as the translated method's result -/
def setRes {β γ : Type} (f : β → γ) (r : SetM.R β) : Option (Except Panic γ) := r.map (fun e => e.map f)

/-- `set_.AddValue` as written in set.go = `SetM.addValue` -/
theorem setAddValue_tie (rank : α → α → Rank) (l : List α) (v : α) (fuel : Nat) (hl : IsInt64 ((l.length : Int) + 1))
    (hf : l.length < fuel) :
    Generated.setAddValue rank v l fuel = SetM.addValue rank l v := by
  unfold Generated.setAddValue SetM.addValue
  rw [findIndex_tie_fuel rank l v hl fuel hf]
  cases h : SetM.findIndex rank l v with
  | none => rfl
  | some e =>
    cases e with
    | error p => rfl
    | ok r =>
      obtain ⟨slot, found⟩ := r
      have hle := findIndex_le rank l v slot found h
      have e1 : (u64 (slot : Int)).toNat = slot := by
        rw [u64_id (by unfold IsUint64; unfold IsInt64 at hl; omega)]; omega
      cases found <;> simp [findRes, SetM.bindR, Except.map, e1]
      cases Seq.insertValue l slot v <;> rfl

/-- `set_.RemoveValue` as written in set.go = `SetM.removeValue` -/
theorem setRemoveValue_tie (rank : α → α → Rank) (l : List α) (v : α) (fuel : Nat) (hl : IsInt64 ((l.length : Int) + 1))
    (hf : l.length < fuel) :
    Generated.setRemoveValue rank v l fuel = SetM.removeValue rank l v := by
  unfold Generated.setRemoveValue SetM.removeValue
  rw [findIndex_tie_fuel rank l v hl fuel hf]
  cases h : SetM.findIndex rank l v with
  | none => rfl
  | some e =>
    cases e with
    | error p => rfl
    | ok r =>
      obtain ⟨index, found⟩ := r
      cases found <;> simp [findRes, SetM.bindR, Except.map]
      cases Seq.removeValue l (index : Int) with
      | error p => rfl
      | ok q => obtain ⟨x, l'⟩ := q; rfl

/-- `set_.ContainsValue` and `set_.GetIndex` as written in set.go -/
theorem setContainsValue_tie (rank : α → α → Rank) (l : List α) (v : α) (fuel : Nat) (hl : IsInt64 ((l.length : Int) + 1))
    (hf : l.length < fuel) :
    Generated.setContainsValue rank v l fuel = setRes (fun b => (b, l)) (SetM.containsValue rank l v) := by
  unfold Generated.setContainsValue SetM.containsValue
  rw [findIndex_tie_fuel rank l v hl fuel hf]
  cases h : SetM.findIndex rank l v with
  | none => rfl
  | some e =>
    cases e with
    | error p => rfl
    | ok r => obtain ⟨i, found⟩ := r; simp [findRes, SetM.bindR, setRes, Except.map]

theorem setGetIndex_tie (rank : α → α → Rank) (l : List α) (v : α) (fuel : Nat) (hl : IsInt64 ((l.length : Int) + 1))
    (hf : l.length < fuel) :
    Generated.setGetIndex rank v l fuel = setRes (fun (n : Nat) => ((n : Int), l)) (SetM.getIndex rank l v) := by
  unfold Generated.setGetIndex SetM.getIndex
  rw [findIndex_tie_fuel rank l v hl fuel hf]
  cases h : SetM.findIndex rank l v with
  | none => rfl
  | some e =>
    cases e with
    | error p => rfl
    | ok r => obtain ⟨i, found⟩ := r; cases found <;> simp [findRes, SetM.bindR, setRes, Except.map]

/-! ### the bulk methods: one element at a time, in the operand's iteration order -/

theorem addValue_length (rank : α → α → Rank) (l l' : List α) (v : α) (h : SetM.addValue rank l v = some (.ok l')) :
    l'.length ≤ l.length + 1 := by
  unfold SetM.addValue SetM.bindR at h
  cases hf : SetM.findIndex rank l v with
  | none => simp [hf] at h
  | some e =>
    cases e with
    | error p => simp [hf] at h
    | ok r =>
      obtain ⟨slot, found⟩ := r
      have hle := findIndex_le rank l v slot found hf
      simp only [hf] at h
      cases found with
      | true => simp at h; subst h; omega
      | false =>
        simp only [Bool.false_eq_true, if_false] at h
        rw [Seq.insertValue_spec l slot v hle] at h
        injection h with h; injection h with h
        subst h; simp; omega

theorem seqRemoveValue_length (l : List α) (i : Int) (r : α × List α) (h : Seq.removeValue l i = .ok r) : r.2.length ≤ l.length := by
  cases hp : SeqSpec.pos l.length i with
  | some p =>
    rw [Seq.removeValue_some l i p hp] at h
    injection h with h; subst h
    simp [List.length_eraseIdx]
    split <;> omega
  | none =>
    obtain ⟨c, hc⟩ := Seq.removeValue_none l i hp
    rw [hc] at h; cases h

theorem removeValue_length (rank : α → α → Rank) (l l' : List α) (v : α) (h : SetM.removeValue rank l v = some (.ok l')) :
    l'.length ≤ l.length := by
  unfold SetM.removeValue SetM.bindR at h
  cases hf : SetM.findIndex rank l v with
  | none => simp [hf] at h
  | some e =>
    cases e with
    | error p => simp [hf] at h
    | ok r =>
      obtain ⟨index, found⟩ := r
      simp only [hf] at h
      cases found with
      | false => simp at h; subst h; omega
      | true =>
        simp only [if_true] at h
        cases hr : Seq.removeValue l (index : Int) with
        | error p => simp [hr, Except.map] at h
        | ok q =>
          simp only [hr, Except.map] at h
          injection h with h; injection h with h
          subst h
          exact seqRemoveValue_length l _ q hr

theorem setAddValues_loop_tie (rank : α → α → Rank) (values : List α) (bound : Nat) (hb : IsInt64 ((bound : Int) + 1)) :
    ∀ (it l : List α) (fuel : Nat), l.length + it.length ≤ bound → l.length + 2 * it.length + 1 < fuel →
      Generated.setAddValues_loop1 rank values fuel it l = SetM.addValues rank l it := by
  intro it
  induction it with
  | nil =>
    intro l fuel _ hf
    obtain ⟨f, rfl⟩ : ∃ k, fuel = k + 1 := ⟨fuel - 1, by omega⟩
    simp [Generated.setAddValues_loop1, SetM.addValues]
  | cons x xs ih =>
    intro l fuel hlen hf
    obtain ⟨f, rfl⟩ : ∃ k, fuel = k + 1 := ⟨fuel - 1, by omega⟩
    simp only [List.length_cons] at hlen hf
    unfold Generated.setAddValues_loop1
    simp only [List.isEmpty_cons, Bool.not_false, if_true, Seq.itNext, SetM.addValues]
    rw [setAddValue_tie rank l x f (by unfold IsInt64 at *; omega) (by omega)]
    cases h : SetM.addValue rank l x with
    | none => rfl
    | some e =>
      cases e with
      | error p => rfl
      | ok l' =>
        have := addValue_length rank l l' x h
        simp only [bindO_ok, SetM.bindR]
        exact ih l' f (by omega) (by omega)

/-- `set_.AddValues` as written in set.go = `SetM.addValues` -/
theorem setAddValues_tie (rank : α → α → Rank) (l vs : List α) (fuel : Nat) (hb : IsInt64 ((l.length : Int) + (vs.length : Int) + 1))
    (hf : l.length + 2 * vs.length + 1 < fuel) :
    Generated.setAddValues rank vs l fuel = SetM.addValues rank l vs := by
  unfold Generated.setAddValues
  exact setAddValues_loop_tie rank vs (l.length + vs.length) (by unfold IsInt64 at *; omega) vs l fuel (Nat.le_refl _) hf

theorem setRemoveValues_loop_tie (rank : α → α → Rank) (values : List α) (bound : Nat) (hb : IsInt64 ((bound : Int) + 1)) :
    ∀ (it l : List α) (fuel : Nat), l.length ≤ bound → l.length + it.length + 1 < fuel →
      Generated.setRemoveValues_loop1 rank values fuel it l = SetM.removeValues rank l it := by
  intro it
  induction it with
  | nil =>
    intro l fuel _ hf
    obtain ⟨f, rfl⟩ : ∃ k, fuel = k + 1 := ⟨fuel - 1, by omega⟩
    simp [Generated.setRemoveValues_loop1, SetM.removeValues]
  | cons x xs ih =>
    intro l fuel hlen hf
    obtain ⟨f, rfl⟩ : ∃ k, fuel = k + 1 := ⟨fuel - 1, by omega⟩
    simp only [List.length_cons] at hf
    unfold Generated.setRemoveValues_loop1
    simp only [List.isEmpty_cons, Bool.not_false, if_true, Seq.itNext, SetM.removeValues]
    rw [setRemoveValue_tie rank l x f (by unfold IsInt64 at *; omega) (by omega)]
    cases h : SetM.removeValue rank l x with
    | none => rfl
    | some e =>
      cases e with
      | error p => rfl
      | ok l' =>
        have := removeValue_length rank l l' x h
        simp only [bindO_ok, SetM.bindR]
        exact ih l' f (by omega) (by omega)

/-- `set_.RemoveValues` as written in set.go = `SetM.removeValues` -/
theorem setRemoveValues_tie (rank : α → α → Rank) (l vs : List α) (fuel : Nat) (hb : IsInt64 ((l.length : Int) + 1))
    (hf : l.length + vs.length + 1 < fuel) :
    Generated.setRemoveValues rank vs l fuel = SetM.removeValues rank l vs := by
  unfold Generated.setRemoveValues
  exact setRemoveValues_loop_tie rank vs l.length hb vs l fuel (Nat.le_refl _) hf

theorem setContainsAny_loop_tie (rank : α → α → Rank) (values l : List α) (hl : IsInt64 ((l.length : Int) + 1)) :
    ∀ (it : List α) (fuel : Nat), l.length + it.length + 1 < fuel →
      Generated.setContainsAny_loop1 rank values fuel it l = setRes (fun b => (b, l)) (SetM.containsAny rank l it) := by
  intro it
  induction it with
  | nil =>
    intro fuel hf
    obtain ⟨f, rfl⟩ : ∃ k, fuel = k + 1 := ⟨fuel - 1, by omega⟩
    simp [Generated.setContainsAny_loop1, SetM.containsAny, setRes, Except.map]
  | cons x xs ih =>
    intro fuel hf
    obtain ⟨f, rfl⟩ : ∃ k, fuel = k + 1 := ⟨fuel - 1, by omega⟩
    simp only [List.length_cons] at hf
    unfold Generated.setContainsAny_loop1
    simp only [List.isEmpty_cons, Bool.not_false, if_true, Seq.itNext, SetM.containsAny]
    rw [setContainsValue_tie rank l x f hl (by omega)]
    cases h : SetM.containsValue rank l x with
    | none => rfl
    | some e =>
      cases e with
      | error p => rfl
      | ok b =>
        cases b with
        | true => simp [setRes, SetM.bindR, Except.map]
        | false =>
          simp only [setRes, SetM.bindR, Except.map, Option.map, bindO_ok, Bool.false_eq_true, if_false]
          exact ih f (by omega)

theorem setContainsAll_loop_tie (rank : α → α → Rank) (values l : List α) (hl : IsInt64 ((l.length : Int) + 1)) :
    ∀ (it : List α) (fuel : Nat), l.length + it.length + 1 < fuel →
      Generated.setContainsAll_loop1 rank values fuel it l = setRes (fun b => (b, l)) (SetM.containsAll rank l it) := by
  intro it
  induction it with
  | nil =>
    intro fuel hf
    obtain ⟨f, rfl⟩ : ∃ k, fuel = k + 1 := ⟨fuel - 1, by omega⟩
    simp [Generated.setContainsAll_loop1, SetM.containsAll, setRes, Except.map]
  | cons x xs ih =>
    intro fuel hf
    obtain ⟨f, rfl⟩ : ∃ k, fuel = k + 1 := ⟨fuel - 1, by omega⟩
    simp only [List.length_cons] at hf
    unfold Generated.setContainsAll_loop1
    simp only [List.isEmpty_cons, Bool.not_false, if_true, Seq.itNext, SetM.containsAll]
    rw [setContainsValue_tie rank l x f hl (by omega)]
    cases h : SetM.containsValue rank l x with
    | none => rfl
    | some e =>
      cases e with
      | error p => rfl
      | ok b =>
        cases b with
        | false => simp [setRes, SetM.bindR, Except.map]
        | true =>
          simp only [setRes, SetM.bindR, Except.map, Option.map, bindO_ok, Bool.not_true, Bool.false_eq_true, if_false]
          exact ih f (by omega)

/-- `set_.ContainsAny` / `set_.ContainsAll` as written in set.go -/
theorem setContainsAny_tie (rank : α → α → Rank) (l vs : List α) (fuel : Nat) (hl : IsInt64 ((l.length : Int) + 1))
    (hf : l.length + vs.length + 1 < fuel) :
    Generated.setContainsAny rank vs l fuel = setRes (fun b => (b, l)) (SetM.containsAny rank l vs) := by
  unfold Generated.setContainsAny
  exact setContainsAny_loop_tie rank vs l hl vs fuel hf

theorem setContainsAll_tie (rank : α → α → Rank) (l vs : List α) (fuel : Nat) (hl : IsInt64 ((l.length : Int) + 1))
    (hf : l.length + vs.length + 1 < fuel) :
    Generated.setContainsAll rank vs l fuel = setRes (fun b => (b, l)) (SetM.containsAll rank l vs) := by
  unfold Generated.setContainsAll
  exact setContainsAll_loop_tie rank vs l hl vs fuel hf

/-! ### the class functions: MakeFromSequence, And, Or, Sans, Xor (a set is the list of its members; the collator a new
    set gets is read off the source: `Make()` = the default one, `MakeWithCollator(first.GetCollator())` = the first operand's) -/

theorem addValues_length (rank : α → α → Rank) : ∀ (vs l l' : List α), SetM.addValues rank l vs = some (.ok l') →
    l'.length ≤ l.length + vs.length := by
  intro vs
  induction vs with
  | nil => intro l l' h; simp [SetM.addValues] at h; subst h; simp
  | cons x xs ih =>
    intro l l' h
    simp only [SetM.addValues, SetM.bindR] at h
    cases h1 : SetM.addValue rank l x with
    | none => simp [h1] at h
    | some e =>
      cases e with
      | error p => simp [h1] at h
      | ok m =>
        simp only [h1] at h
        have := addValue_length rank l m x h1
        have := ih m l' h
        simp only [List.length_cons]; omega

theorem removeValues_length (rank : α → α → Rank) : ∀ (vs l l' : List α), SetM.removeValues rank l vs = some (.ok l') →
    l'.length ≤ l.length := by
  intro vs
  induction vs with
  | nil => intro l l' h; simp [SetM.removeValues] at h; subst h; simp
  | cons x xs ih =>
    intro l l' h
    simp only [SetM.removeValues, SetM.bindR] at h
    cases h1 : SetM.removeValue rank l x with
    | none => simp [h1] at h
    | some e =>
      cases e with
      | error p => simp [h1] at h
      | ok m =>
        simp only [h1] at h
        have := removeValue_length rank l m x h1
        have := ih m l' h
        omega

theorem setMakeFromSequence_loop_tie (rank : α → α → Rank) (values : List α) (bound : Nat) (hb : IsInt64 ((bound : Int) + 1)) :
    ∀ (it l : List α) (fuel : Nat), l.length + it.length ≤ bound → l.length + 2 * it.length + 1 < fuel →
      Generated.setMakeFromSequence_loop1 rank values fuel l rank it = SetM.addValues rank l it := by
  intro it
  induction it with
  | nil =>
    intro l fuel _ hf
    obtain ⟨f, rfl⟩ : ∃ k, fuel = k + 1 := ⟨fuel - 1, by omega⟩
    simp [Generated.setMakeFromSequence_loop1, SetM.addValues]
  | cons x xs ih =>
    intro l fuel hlen hf
    obtain ⟨f, rfl⟩ : ∃ k, fuel = k + 1 := ⟨fuel - 1, by omega⟩
    simp only [List.length_cons] at hlen hf
    unfold Generated.setMakeFromSequence_loop1
    simp only [List.isEmpty_cons, Bool.not_false, if_true, Seq.itNext, SetM.addValues]
    rw [setAddValue_tie rank l x f (by unfold IsInt64 at *; omega) (by omega)]
    cases h : SetM.addValue rank l x with
    | none => rfl
    | some e =>
      cases e with
      | error p => rfl
      | ok l' =>
        have := addValue_length rank l l' x h
        simp only [bindO_ok, SetM.bindR]
        exact ih l' f (by omega) (by omega)

/-- `setClass_.MakeFromSequence` as written in set.go = `SetM.makeFrom` with the default collator -/
theorem setMakeFromSequence_tie (rank : α → α → Rank) (vs : List α) (fuel : Nat) (hb : IsInt64 ((vs.length : Int) + 1))
    (hf : 2 * vs.length + 1 < fuel) :
    Generated.setMakeFromSequence rank vs fuel = SetM.makeFrom rank vs := by
  unfold Generated.setMakeFromSequence SetM.makeFrom
  exact setMakeFromSequence_loop_tie rank vs vs.length hb vs [] fuel (by simp) (by simpa using hf)

/-- `setClass_.Or` as written in set.go = `SetM.setOr` under the first operand's collator -/
theorem setOr_tie (rank rank2 : α → α → Rank) (a b : List α) (fuel : Nat) (hb : IsInt64 ((a.length : Int) + (b.length : Int) + 1))
    (hf : 3 * (a.length + b.length) + 2 < fuel) :
    Generated.setOr rank rank2 a b fuel = SetM.setOr rank a b := by
  unfold Generated.setOr SetM.setOr
  simp only []
  rw [setAddValues_tie rank [] a fuel (by unfold IsInt64 at *; simp; omega) (by simp; omega)]
  cases h : SetM.addValues rank [] a with
  | none => rfl
  | some e =>
    cases e with
    | error p => rfl
    | ok r =>
      have := addValues_length rank a [] r h
      simp only [List.length_nil, Nat.zero_add] at this
      simp only [bindO_ok, SetM.bindR]
      rw [setAddValues_tie rank r b fuel (by unfold IsInt64 at *; omega) (by omega)]
      cases SetM.addValues rank r b with
      | none => rfl
      | some e => cases e <;> rfl

/-- `setClass_.Sans` as written in set.go = `SetM.setSans` under the first operand's collator -/
theorem setSans_tie (rank rank2 : α → α → Rank) (a b : List α) (fuel : Nat) (hb : IsInt64 ((a.length : Int) + (b.length : Int) + 1))
    (hf : 3 * (a.length + b.length) + 2 < fuel) :
    Generated.setSans rank rank2 a b fuel = SetM.setSans rank a b := by
  unfold Generated.setSans SetM.setSans
  simp only []
  rw [setAddValues_tie rank [] a fuel (by unfold IsInt64 at *; simp; omega) (by simp; omega)]
  cases h : SetM.addValues rank [] a with
  | none => rfl
  | some e =>
    cases e with
    | error p => rfl
    | ok r =>
      have := addValues_length rank a [] r h
      simp only [List.length_nil, Nat.zero_add] at this
      simp only [bindO_ok, SetM.bindR]
      rw [setRemoveValues_tie rank r b fuel (by unfold IsInt64 at *; omega) (by omega)]
      cases SetM.removeValues rank r b with
      | none => rfl
      | some e => cases e <;> rfl

theorem setSans_length (rank : α → α → Rank) (a b r : List α) (h : SetM.setSans rank a b = some (.ok r)) : r.length ≤ a.length := by
  unfold SetM.setSans SetM.bindR at h
  cases h1 : SetM.addValues rank [] a with
  | none => simp [h1] at h
  | some e =>
    cases e with
    | error p => simp [h1] at h
    | ok m =>
      simp only [h1] at h
      have := addValues_length rank a [] m h1
      have := removeValues_length rank b m r h
      simp at *; omega

/-- `setClass_.Xor` as written in set.go = `SetM.setXor`: `Sans(first, second)` under the first collator, `Sans(second, first)`
    under the second, the final `Or` under the first -/
theorem setXor_tie (rank rank2 : α → α → Rank) (a b : List α) (fuel : Nat) (hb : IsInt64 ((a.length : Int) + (b.length : Int) + 1))
    (hf : 3 * (a.length + b.length) + 2 < fuel) :
    Generated.setXor rank rank2 a b fuel = SetM.setXor rank rank2 a b := by
  unfold Generated.setXor SetM.setXor
  rw [setSans_tie rank rank2 a b fuel hb hf]
  cases h1 : SetM.setSans rank a b with
  | none => rfl
  | some e =>
    cases e with
    | error p => rfl
    | ok x =>
      simp only [bindO_ok, SetM.bindR]
      rw [setSans_tie rank2 rank b a fuel (by unfold IsInt64 at *; omega) (by omega)]
      cases h2 : SetM.setSans rank2 b a with
      | none => rfl
      | some e =>
        cases e with
        | error p => rfl
        | ok y =>
          have := setSans_length rank a b x h1
          have := setSans_length rank2 b a y h2
          simp only [bindO_ok]
          rw [setOr_tie rank rank2 x y fuel (by unfold IsInt64 at *; omega) (by omega)]
          cases SetM.setOr rank x y with
          | none => rfl
          | some e => cases e <;> rfl

theorem setAnd_loop_tie (rank rank2 : α → α → Rank) (first second : List α) (bound : Nat) (hb : IsInt64 ((bound : Int) + 1))
    (hs : second.length ≤ bound) :
    ∀ (it result : List α) (fuel : Nat), result.length + it.length ≤ bound →
      result.length + second.length + 2 * it.length + 1 < fuel →
      Generated.setAnd_loop1 rank rank2 first second fuel result rank it = SetM.andLoop rank rank2 second result it := by
  intro it
  induction it with
  | nil =>
    intro result fuel _ hf
    obtain ⟨f, rfl⟩ : ∃ k, fuel = k + 1 := ⟨fuel - 1, by omega⟩
    simp [Generated.setAnd_loop1, SetM.andLoop]
  | cons x xs ih =>
    intro result fuel hlen hf
    obtain ⟨f, rfl⟩ : ∃ k, fuel = k + 1 := ⟨fuel - 1, by omega⟩
    simp only [List.length_cons] at hlen hf
    unfold Generated.setAnd_loop1
    simp only [List.isEmpty_cons, Bool.not_false, if_true, Seq.itNext, SetM.andLoop]
    rw [setContainsValue_tie rank2 second x f (by unfold IsInt64 at *; omega) (by omega)]
    cases h : SetM.containsValue rank2 second x with
    | none => rfl
    | some e =>
      cases e with
      | error p => rfl
      | ok b =>
        cases b with
        | false =>
          simp only [setRes, SetM.bindR, Except.map, Option.map, bindO_ok, Bool.false_eq_true, if_false]
          exact ih result f (by omega) (by omega)
        | true =>
          simp only [setRes, SetM.bindR, Except.map, Option.map, bindO_ok, if_true]
          rw [setAddValue_tie rank result x f (by unfold IsInt64 at *; omega) (by omega)]
          cases h2 : SetM.addValue rank result x with
          | none => rfl
          | some e =>
            cases e with
            | error p => rfl
            | ok r =>
              have := addValue_length rank result r x h2
              simp only [bindO_ok]
              exact ih r f (by omega) (by omega)

/-- `setClass_.And` as written in set.go = `SetM.setAnd`: membership in the second operand is decided by the second
    operand's own collator, the result is built under the first one's -/
theorem setAnd_tie (rank rank2 : α → α → Rank) (a b : List α) (fuel : Nat) (hb : IsInt64 ((a.length : Int) + (b.length : Int) + 1))
    (hf : 2 * a.length + b.length + 1 < fuel) :
    Generated.setAnd rank rank2 a b fuel = SetM.setAnd rank rank2 a b := by
  unfold Generated.setAnd SetM.setAnd
  exact setAnd_loop_tie rank rank2 a b (a.length + b.length) (by unfold IsInt64 at *; omega) (by omega) a [] fuel (by simp) (by simp; omega)

end Tie
end CM
