package main

import (
	"bufio"
	"encoding/json"
	"fmt"
	"math/rand"
	"os"
	"runtime"
	"sort"
	"strings"
	"time"
)

// J is one line of the protocol.
type J map[string]any

type Out struct {
	w     *bufio.Writer
	lines int
	last  time.Time // last flush: lines reach the file at least once a second, so a run that is killed keeps what it found
}

func newOut(path string) *Out {
	if path == "" || path == "-" {
		return &Out{w: bufio.NewWriterSize(os.Stdout, 1<<20)}
	}
	f, err := os.Create(path)
	if err != nil {
		panic(err)
	}
	return &Out{w: bufio.NewWriterSize(f, 1<<20)}
}

func (o *Out) emit(j J) {
	b, err := json.Marshal(j)
	if err != nil {
		panic(err)
	}
	o.w.Write(b)
	o.w.WriteByte('\n')
	o.lines++
	if now := time.Now(); now.Sub(o.last) > time.Second {
		o.w.Flush()
		o.last = now
	}
}

func (o *Out) close() { o.w.Flush() }

// classify maps a recovered panic value to the model's panic classes.
func classify(r any) string {
	if _, ok := r.(runtime.Error); ok {
		return "rt"
	}
	var s string
	switch v := r.(type) {
	case string:
		s = v
	case error:
		s = v.Error()
	default:
		s = fmt.Sprint(v)
	}
	switch {
	case strings.HasPrefix(s, "Cannot index an empty"):
		return "emptyIndex"
	case strings.HasPrefix(s, "Indices must be positive"):
		return "zeroIndex"
	case strings.HasPrefix(s, "The specified index is outside"):
		return "outOfRange"
	case strings.HasPrefix(s, "The specified slot"):
		return "slot"
	case strings.HasPrefix(s, "Attempted to add a value onto a stack"):
		return "stackFull"
	case strings.HasPrefix(s, "Attempted to remove the top of an empty stack"):
		return "stackEmpty"
	case strings.HasPrefix(s, "A stack must have a capacity"):
		return "capacity"
	case strings.HasPrefix(s, "The maximum traversal depth"):
		return "depth"
	case strings.HasPrefix(s, "An unexpected token was received"):
		return "syntax"
	case strings.Contains(s, "send on closed channel"), strings.Contains(s, "close of closed channel"):
		return "rt"
	}
	return "lib"
}

type callResult struct {
	kind string // ret | panic | hang
	pc   string
	msg  string
}

var hangs int

const maxHangs = 4

// guarded runs f, recovering panics; with a watchdog when timeout > 0.
func guarded(timeout time.Duration, f func()) callResult {
	run := func() (res callResult) {
		defer func() {
			if r := recover(); r != nil {
				res = callResult{kind: "panic", pc: classify(r), msg: trunc(fmt.Sprint(r), 200)}
			}
		}()
		f()
		return callResult{kind: "ret"}
	}
	if timeout == 0 {
		return run()
	}
	// once a dozen calls have hung the verdict is settled: keep the run short
	if hangs >= 12 && timeout > 300*time.Millisecond {
		timeout = 300 * time.Millisecond
	}
	ch := make(chan callResult, 1)
	go func() { ch <- run() }()
	select {
	case r := <-ch:
		return r
	case <-time.After(timeout):
		hangs++
		return callResult{kind: "hang"}
	}
}

func trunc(s string, n int) string {
	if len(s) > n {
		return s[:n]
	}
	return s
}

type Rng struct{ *rand.Rand }

func newRng(seed int64) Rng { return Rng{rand.New(rand.NewSource(seed))} }

func (r Rng) between(lo, hi int) int { // inclusive
	if hi <= lo {
		return lo
	}
	return lo + r.Intn(hi-lo+1)
}

func (r Rng) pick(xs []int) int { return xs[r.Intn(len(xs))] }

func ints(xs []int) []int {
	if xs == nil {
		return []int{}
	}
	return xs
}

func jsonMarshal(v any) ([]byte, error) { return json.Marshal(v) }

func sortStrings(xs []string) { sort.Strings(xs) }
