/-
  Storage model for property C18: which Go array / Go map backs which object.

  The value-level models (Seq, SetM, Assoc) say WHAT a call computes; this file
  adds WHERE it reads and writes.  The state is a heap of cells (a cell is one
  Go backing array or one Go map) and a table of handles: every object that a
  client can hold – a Go array or map of its own, an array_, a list_, a set_,
  a stack_, a queue_, a catalog_, a map_ – is a handle that points at the cell
  holding its contents.  Each API entry point is written with the storage
  commands the Go body performs:

    alloc c        make([]V, n) / make(map[K]V) followed by the writes that fill
                   the new array before it is published (copy, SetValue loops)
    snap y         values.AsArray() / values.GetIterator(): a fresh copy of y's cell
    poke a c       writes into an existing cell (in-place: SetValue, SetValues,
                   sort, reverse, map assignment, delete)
    retarget x a   `v.values_ = array`
    push a         a new object is returned to the client

  Elements, keys and values are integers (the harness uses int elements).
-/
import CollectionModel.Model.Sorter
import CollectionModel.Model.SetM
import CollectionModel.Model.Assoc
namespace CM
namespace Heap
open CM.Seq

inductive Cell
  | vals (xs : List Int)              -- []V
  | pairs (ps : List (Int × Int))     -- []AssociationLike[K, V] (by value) or map[K]V
  deriving Repr, DecidableEq, Inhabited

structure St where
  cells : List Cell
  refs : List Nat          -- handle → address of the cell it currently points at
  deriving Repr, DecidableEq

def St.alloc (s : St) (c : Cell) : St × Nat := ({ s with cells := s.cells ++ [c] }, s.cells.length)
def St.cell (s : St) (a : Nat) : Cell := s.cells.getD a (.vals [])
def St.poke (s : St) (a : Nat) (c : Cell) : St := { s with cells := s.cells.set a c }
def St.addr (s : St) (x : Nat) : Nat := s.refs.getD x 0
def St.retarget (s : St) (x a : Nat) : St := { s with refs := s.refs.set x a }
def St.push (s : St) (a : Nat) : St := { s with refs := s.refs ++ [a] }

/-- the contents a client observes through handle `x` -/
def St.obs (s : St) (x : Nat) : Cell := s.cell (s.addr x)

def Cell.toVals : Cell → List Int
  | .vals xs => xs
  | .pairs _ => []
def Cell.toPairs : Cell → List (Int × Int)
  | .pairs ps => ps
  | .vals _ => []

def St.valsOf (s : St) (x : Nat) : List Int := (s.obs x).toVals
def St.pairsOf (s : St) (x : Nat) : List (Int × Int) := (s.obs x).toPairs

/-- `values.AsArray()` / `values.GetIterator()`: a fresh array holding a copy -/
def St.snap (s : St) (y : Nat) : St × Nat := s.alloc (s.obs y)

/-! ### value-level results reused from the other models (integers, natural order) -/

def unR (dflt : List Int) : Option (Except Panic (List Int)) → List Int
  | some (.ok l) => l
  | _ => dflt

def setAdd (l vs : List Int) : List Int := unR l (SetM.addValues rankInt l vs)
def setRemove (l vs : List Int) : List Int := unR l (SetM.removeValues rankInt l vs)
def setAnd (a b : List Int) : List Int := unR [] (SetM.setAnd rankInt rankInt a b)
def setOr (a b : List Int) : List Int := unR [] (SetM.setOr rankInt a b)
def setSans (a b : List Int) : List Int := unR [] (SetM.setSans rankInt a b)
def setXor (a b : List Int) : List Int := unR [] (SetM.setXor rankInt rankInt a b)

open CM.Assoc in
def catSet (ps : List (Int × Int)) (k v : Int) : List (Int × Int) :=
  (catSetValue { assocs := ps, keys := ps } k v).assocs
open CM.Assoc in
def catFrom (ps : List (Int × Int)) : List (Int × Int) := (catMakeFrom ps).assocs
open CM.Assoc in
def catRemove (ps : List (Int × Int)) (k : Int) : List (Int × Int) := ps.filter (fun p => !decide (p.1 = k))

/-- ordinal range → zero-based (first, count); out-of-range calls panic in the
    real code and are not part of storage scripts -/
def rangeOf (n : Nat) (first last : Int) : Option (Nat × Nat) :=
  match toZeroBased n first, toZeroBased n last with
  | .ok f, .ok l => if f ≤ l then some (f, l + 1 - f) else none
  | _, _ => none

/-! ### the API entry points as storage programs -/

/-- the collection kinds that keep their values in a `list_` (which keeps them
    in an `array_`): the storage behaviour is the list's -/
inductive Kind | array | list | set | stack | queue | catalog | map
  deriving Repr, DecidableEq

/-- what a script can do.  `x`, `y` are handles. -/
inductive Op
  -- the client's own Go values
  | goArray (xs : List Int)                    -- a := []V{...}
  | goPairs (ps : List (Int × Int))            -- a := []AssociationLike{...}  or  m := map[K]V{...}
  | goWrite (x : Nat) (i : Nat) (v : Int)      -- a[i] = v            (through any Go array the client holds)
  | goPairWrite (x : Nat) (i : Nat) (k v : Int) -- a[i] = Association(k, v) / a[i].SetValue(v)
  | goMapSet (x : Nat) (k v : Int)             -- m[k] = v
  | goMapDelete (x : Nat) (k : Int)            -- delete(m, k)
  -- constructors
  | makeFromArray (kind : Kind) (y : Nat)      -- Class.MakeFromArray(goArray)
  | makeFromSequence (kind : Kind) (y : Nat)   -- Class.MakeFromSequence(collection)
  | makeFromMap (kind : Kind) (y : Nat)        -- Catalog / Map .MakeFromMap(goMap)
  -- results handed to the client
  | asArray (x : Nat)                          -- x.AsArray()
  | getValues (x : Nat) (first last : Int)     -- x.GetValues(first, last)   (Array, List, Set)
  | getKeys (x : Nat)                          -- x.GetKeys()                (Catalog, Map)
  | getValuesFor (x : Nat) (keys : Nat)        -- x.GetValues(keys)          (Catalog, Map)
  | removeValuesRange (x : Nat) (first last : Int)   -- List.RemoveValues(first, last): result + receiver
  | removeValuesFor (x : Nat) (keys : Nat)     -- Catalog / Map .RemoveValues(keys): result + receiver
  | concatenate (a b : Nat)
  | setFn (which : Nat) (a b : Nat)            -- 0 And, 1 Or, 2 Sans, 3 Xor
  | merge (a b : Nat) | extract (a keys : Nat)
  -- mutators (receiver x)
  | setValue (x : Nat) (i : Nat) (v : Int)     -- Array / List .SetValue (zero-based position here)
  | setValues (x : Nat) (i : Nat) (y : Nat)    -- Array / List .SetValues(index, operand)
  | insertValues (x : Nat) (slot : Nat) (y : Nat)
  | appendValues (x : Nat) (y : Nat)
  | appendValue (x : Nat) (v : Int)
  | removeValue (x : Nat) (i : Nat)            -- List.RemoveValue (zero-based here)
  | reverse (x : Nat) | sort (x : Nat)
  | addValues (x : Nat) (y : Nat) | removeValues (x : Nat) (y : Nat)   -- Set
  | addValue (x : Nat) (v : Int)               -- Set.AddValue
  | pushValue (x : Nat) (v : Int)              -- Stack.AddValue (Queue.AddValue is appendValue)
  | removeFirst (x : Nat)                      -- Stack.RemoveTop / Queue.RemoveHead
  | putValue (x : Nat) (k v : Int)             -- Catalog / Map .SetValue(key, value)
  | dropKey (x : Nat) (k : Int)                -- Catalog / Map .RemoveValue(key)
  | removeAll (x : Nat)
  deriving Repr

/-- contents of a sequence/array of integers after a mutator that REBUILDS the
    backing array (`list_`: every size-changing call allocates) -/
def St.rebuild (s : St) (x : Nat) (new : List Int) : St :=
  let (s1, _it) := s.snap x                       -- v.GetIterator()
  let (s2, a) := s1.alloc (.vals new)             -- Array.Make(size) + SetValue loop
  s2.retarget x a                                 -- v.values_ = array

/-- a mutator that writes into the existing backing array / Go map -/
def St.inplace (s : St) (x : Nat) (new : Cell) : St := s.poke (s.addr x) new

/-- a call that returns a new object whose storage is freshly allocated -/
def St.give (s : St) (c : Cell) : St :=
  let (s1, a) := s.alloc c
  s1.push a

def kindSorted : Kind → Bool
  | .set => true
  | _ => false

def exec (s : St) : Op → St
  | .goArray xs => s.give (.vals xs)
  | .goPairs ps => s.give (.pairs ps)
  | .goWrite x i v => s.inplace x (.vals ((s.valsOf x).set i v))
  | .goPairWrite x i k v => s.inplace x (.pairs ((s.pairsOf x).set i (k, v)))
  | .goMapSet x k v => s.inplace x (.pairs (Assoc.mset (s.pairsOf x) k v))
  | .goMapDelete x k => s.inplace x (.pairs (Assoc.mremove (s.pairsOf x) k))
  | .makeFromArray kind y =>
      -- Array.MakeFromArray: make + copy.  Every other class first builds that
      -- array and then goes through MakeFromSequence (which iterates over a
      -- snapshot of it); Map assigns the pairs to a new Go map.
      match kind with
      | .array => s.give (s.obs y)
      | .list | .stack | .queue =>
          let (s1, _a) := s.snap y
          let (s2, _it) := s1.snap y
          s2.give (.vals (makeFromSequence (s.valsOf y)))
      | .set =>
          let (s1, _a) := s.snap y
          let (s2, _it) := s1.snap y
          s2.give (.vals (setAdd [] (s.valsOf y)))
      | .catalog =>
          let (s1, _a) := s.snap y
          let (s2, _it) := s1.snap y
          s2.give (.pairs (catFrom (s.pairsOf y)))
      | .map => s.give (.pairs (Assoc.mapMakeFrom (s.pairsOf y)))
  | .makeFromSequence kind y =>
      let (s1, _it) := s.snap y                                  -- values.GetIterator()
      match kind with
      | .array | .list | .stack | .queue => s1.give (.vals (makeFromSequence (s.valsOf y)))
      | .set => s1.give (.vals (setAdd [] (s.valsOf y)))
      | .catalog => s1.give (.pairs (catFrom (s.pairsOf y)))
      | .map => s1.give (.pairs (Assoc.mapMakeFrom (s.pairsOf y)))
  | .makeFromMap kind y =>
      match kind with
      | .catalog => s.give (.pairs (catFrom (s.pairsOf y)))
      | _ => s.give (.pairs (Assoc.mapMakeFrom (s.pairsOf y)))
  | .asArray x => s.give (s.obs x)                               -- make + copy (associations: fresh copies)
  | .getValues x first last =>
      match rangeOf (s.valsOf x).length first last with
      | some (f, n) => s.give (.vals (((s.valsOf x).drop f).take n))
      | none => s
  | .getKeys x =>
      let (s1, _it) := s.snap x
      s1.give (.vals ((s.pairsOf x).map (·.1)))
  | .getValuesFor x keys =>
      let (s1, _it) := s.snap keys
      s1.give (.vals ((s.valsOf keys).map (fun k => (Assoc.lookup k (s.pairsOf x)).getD 0)))
  | .removeValuesRange x first last =>
      match rangeOf (s.valsOf x).length first last with
      | some (f, n) =>
          let cur := s.valsOf x
          let (s1, _it) := s.snap x
          let (s2, removed) := s1.alloc (.vals ((cur.drop f).take n))
          let (s3, kept) := s2.alloc (.vals (cur.take f ++ cur.drop (f + n)))
          (s3.retarget x kept).push removed
      | none => s
  | .removeValuesFor x keys =>
      let cur := s.pairsOf x
      let ks := s.valsOf keys
      let (s1, _it) := s.snap keys
      let s2 := s1.inplace x (.pairs (ks.foldl catRemove cur))
      -- the removed values, each looked up just before its key is deleted
      let removed := (ks.foldl (fun (acc : List Int × List (Int × Int)) k =>
          (acc.1 ++ [(Assoc.lookup k acc.2).getD 0], catRemove acc.2 k)) ([], cur)).1
      s2.give (.vals removed)
  | .concatenate a b =>
      let (s1, _) := s.snap a
      let (s2, _) := s1.snap b
      s2.give (.vals (concatenate (s.valsOf a) (s.valsOf b)))
  | .setFn which a b =>
      let (s1, _) := s.snap a
      let (s2, _) := s1.snap b
      let r := match which with
        | 0 => setAnd (s.valsOf a) (s.valsOf b)
        | 1 => setOr (s.valsOf a) (s.valsOf b)
        | 2 => setSans (s.valsOf a) (s.valsOf b)
        | _ => setXor (s.valsOf a) (s.valsOf b)
      s2.give (.vals r)
  | .merge a b =>
      let (s1, _) := s.snap a
      let (s2, _) := s1.snap b
      s2.give (.pairs (Assoc.catMerge (s.pairsOf a) (s.pairsOf b)).assocs)
  | .extract a keys =>
      let (s1, _) := s.snap keys
      s1.give (.pairs (Assoc.catExtract (s.pairsOf a) (s.valsOf keys)).assocs)
  | .setValue x i v => s.inplace x (.vals ((s.valsOf x).set i v))
  | .setValues x i y =>
      let (s1, it) := s.snap y                                   -- values.AsArray()
      s1.inplace x (.vals (overwrite (s1.valsOf x) i (s1.cell it).toVals))   -- copy(v[first:last], ...)
  | .insertValues x slot y =>
      let (s1, it) := s.snap y
      s1.rebuild x (((s1.valsOf x).take slot) ++ (s1.cell it).toVals ++ ((s1.valsOf x).drop slot))
  | .appendValues x y =>
      let (s1, it) := s.snap y
      s1.rebuild x (appendValues (s1.valsOf x) (s1.cell it).toVals)
  | .appendValue x v => s.rebuild x (appendValue (s.valsOf x) v)
  | .removeValue x i => s.rebuild x ((s.valsOf x).eraseIdx i)
  | .reverse x => s.inplace x (match s.obs x with
      | .vals xs => .vals xs.reverse
      | .pairs ps => .pairs ps.reverse)
  | .sort x => s.inplace x (.vals (Sorter.sortValues rankInt (s.valsOf x)))
  | .addValues x y =>
      let (s1, it) := s.snap y
      s1.rebuild x (setAdd (s1.valsOf x) (s1.cell it).toVals)
  | .removeValues x y =>
      let (s1, it) := s.snap y
      s1.rebuild x (setRemove (s1.valsOf x) (s1.cell it).toVals)
  | .addValue x v => s.rebuild x (setAdd (s.valsOf x) [v])     -- Set.AddValue
  | .pushValue x v => s.rebuild x (v :: s.valsOf x)             -- Stack.AddValue = InsertValue(0, v)
  | .removeFirst x => s.rebuild x ((s.valsOf x).drop 1)
  | .putValue x k v => s.inplace x (.pairs (catSet (s.pairsOf x) k v))
  | .dropKey x k => s.inplace x (.pairs (catRemove (s.pairsOf x) k))
  | .removeAll x => s.rebuild x []

/-- the handle a step writes through (its receiver), if any -/
def Op.receiver : Op → Option Nat
  | .goWrite x .. | .goPairWrite x .. | .goMapSet x .. | .goMapDelete x .. => some x
  | .removeValuesRange x .. | .removeValuesFor x .. => some x
  | .setValue x .. | .setValues x .. | .insertValues x .. | .appendValues x .. | .appendValue x ..
  | .removeValue x .. | .reverse x | .sort x | .addValues x .. | .removeValues x .. | .addValue x .. | .pushValue x ..
  | .removeFirst x | .putValue x .. | .dropKey x .. | .removeAll x => some x
  | _ => none

def run (s : St) (ops : List Op) : St := ops.foldl exec s

def St.empty : St := { cells := [], refs := [] }

end Heap
end CM
