/- driver for queue traces (C04, C05) -/
import Driver.CollDrv
import CollectionModel.Model.Queue
import CollectionModel.Model.Pipes
open Lean CM CM.Q

namespace Drv

def pcOfName (name : String) (v : Int) : PC Int :=
  match name with
  | "addLock" => .addLock v | "remRecv" => .remRecv | "closeLock" => .closeLock | "sizeLock" => .sizeLock
  | "emptyLock" => .emptyLock | "arrayLock" => .arrayLock | "removeAllLock" => .removeAllLock | _ => .idle

/-- one trace entry `[name, thread, queue-or-pc, payload]` -/
def parseEv (j : Json) : Option (Ev Int) :=
  match j.getArr? with
  | .ok a =>
    let name := (a.getD 0 Json.null).getStr?.toOption.getD ""
    let t := toNat (a.getD 1 Json.null)
    let x := a.getD 3 Json.null
    match name with
    | "call" => some (.call t (pcOfName ((a.getD 2 Json.null).getStr?.toOption.getD "") (toInt x)))
    | "addLock" => some (.addLock t)
    | "addSend" => some (.addSend t)
    | "addSendPanic" => some (.addSendPanic t)
    | "remRecv" => some (.remRecv t (x.getBool?.toOption.getD false))
    | "remLock" => some (.remLock t (toInt x))
    | "remLockPanic" => some (.remLockPanic t)
    | "closeLock" => some (.closeLock t)
    | "closePanic" => some (.closePanic t)
    | "sizeLock" => some (.sizeLock t (toNat x))
    | "emptyLock" => some (.emptyLock t (x.getBool?.toOption.getD false))
    | "arrayLock" => some (.arrayLock t ((x.getArr?.toOption.getD #[]).toList.map toInt))
    | "removeAllLock" => some (.removeAllLock t)
    | _ => none
  | _ => none

def evIsPanic : Ev Int → Bool
  | .addSendPanic _ => true | .remLockPanic _ => true | .closePanic _ => true | _ => false

/-- is some other call in the middle of the token protocol when RemoveAll takes the lock? -/
def removeAllOverlaps (s : St Int) : List (Ev Int) → Bool
  | [] => false
  | e :: es =>
    (match e with
     | .removeAllLock t => cnt isClaimed s + cnt isSending s > 0 || s.threads.any (fun pc => pc == .remRecv) ||
         (s.closed && (List.range s.threads.length).any (fun i => i != t && s.threads[i]? != some .idle))
     | _ => false) ||
    (match step s e with | some s' => removeAllOverlaps s' es | none => false)

def qtraceLine (j : Json) : String :=
  let pid := str j "pid"
  let evs := (arr j "evs").toList.filterMap parseEv
  let s0 : St Int := init (nat j "cap") (nat j "n")
  let bad := firstBad s0 evs 0
  let final := run s0 evs
  let prog := fld j "prog"
  let hasRA := bool prog "removeAll"
  let early := bool prog "closeEarly"
  let status := str j "status"
  let added := ints j "added"
  let got := (arr j "got").toList.map fun g => (g.getArr?.toOption.getD #[]).toList.map toInt
  let delivered := got.foldl (· ++ ·) []
  let raOverlap := removeAllOverlaps s0 evs
  let tag := if hasRA && raOverlap then "removeall-concurrent" else if hasRA then "removeall" else if early then "close-during-add" else "plain"
  let spec04 := firstFail [
    ("valid-call-panicked", !evs.any evIsPanic),
    ("delivered-twice-or-invented", delivered.all (fun v => added.contains v) && delivered.eraseDups.length == delivered.length),
    ("value-lost", hasRA || status != "done" || early || delivered.length == added.length),
    ("size-exceeds-capacity", evs.all (fun e => match e with | .sizeLock _ n => n ≤ nat j "cap" | _ => true))]
  let spec05 := firstFail [
    ("blocked-forever", status == "done" || early)]
  let spec := if pid == "C05" then spec05 else spec04
  verdict bad.isNone spec.isNone s!"{pid}/{spec.getD "ok"}/{tag}"
    (match bad with | some i => s!"model rejects event {i}" | none => (match final with | some s => s!"final vals={s.vals} tokens={s.tokens}" | none => "?"))

def qctorLine (j : Json) : String :=
  let ok := str j "out" == "ret" && nat j "size" == nat j "n" && ints j "contents" == ints j "vs" && nat j "n" ≤ nat j "qcap"
  let sig := if str j "out" != "ret" then "C05/ctor-blocks" else "C05/ctor-wrong"
  -- model: C05_ctor_returns says the constructor's AddValues never block when capacity >= N
  let m := run (init (Nat.max (nat j "dflt") (nat j "n")) 1 : St Int) (ctorTraceOf (ints j "vs"))
  verdict (m.isSome == (str j "out" == "ret")) ok s!"{sig}/{str j "via"}" ""
where
  ctorTraceOf : List Int → List (Ev Int)
    | [] => []
    | v :: vs => .call 0 (.addLock v) :: .addLock 0 :: .addSend 0 :: ctorTraceOf vs

/-- free-running stress run: what the clients saw must be explicable by one FIFO order -/
def stressLine (j : Json) : String :=
  let lists (k : String) : List (List Int) := (arr j k).toList.map fun g => (g.getArr?.toOption.getD #[]).toList.map toInt
  let added := lists "added"
  let got := lists "got"
  let allAdded := added.foldl (· ++ ·) []
  let delivered := got.foldl (· ++ ·) []
  let producerOf (v : Int) : Int := v / 100000
  -- each consumer sees the values of one producer in the order that producer added them
  let ordered (g : List Int) : Bool :=
    added.all fun vs => match vs with
      | [] => true
      | v0 :: _ => (g.filter (fun v => producerOf v == producerOf v0)).Pairwise (· < ·) |> decide
  let spec := firstFail [
    ("valid-call-panicked", (arr j "panics").size == 0),
    ("blocked-forever", str j "status" == "done"),
    ("delivered-twice-or-invented", delivered.all (fun v => allAdded.contains v) && delivered.eraseDups.length == delivered.length),
    ("value-lost", delivered.length == allAdded.length),
    ("fifo-order-broken", got.all ordered),
    ("size-exceeds-capacity", nat j "maxSize" ≤ nat j "cap"),
    ("observer-saw-impossible-contents", str j "obsBad" == "")]
  verdict true spec.isNone s!"C04/{spec.getD "ok"}/stress-{str (fld j "prog") "mode"}" ""

end Drv

namespace Drv
open CM.Pipes

def pipeLine (j : Json) : String :=
  let op := str j "op"
  let input := ints j "input"
  let fan := nat j "fan"
  let outs := (arr j "outs").toList.map fun g => (g.getArr?.toOption.getD #[]).toList.map toInt
  let closedAll := (arr j "closed").toList.all (fun b => b.getBool?.toOption.getD false)
  let expected : List (List Int) :=
    if op == "fork" then List.replicate fan input
    else if op == "split" then (List.range fan).map (fun k => splitSpec fan k 0 input)
    else [input]
  let spec := firstFail [
    ("helper-not-registered-on-return", !has j "reg" || nat j "reg" == nat j "helpers"),
    ("not-terminated", str j "status" == "done"),
    ("wait-group-not-released", nat j "group" == 0 && int j "group" == 0),
    ("output-not-closed", closedAll),
    ("value-after-closure", !bool j "late"),
    ("stream-not-conserved", outs == expected)]
  verdict true spec.isNone s!"C06/{spec.getD "ok"}/{op}" s!"expected {expected}"

end Drv
