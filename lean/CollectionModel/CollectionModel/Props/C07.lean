/-
  C07 — RankValues is a total preorder on every supported value type.

  Proved for the universe `U` = values without Go maps and without complex numbers
  (Arrays, Lists, Sets, Stacks, Queues, Catalogs, associations, Go slices, and every
  primitive kind including NaN and signed zeros, nested arbitrarily).  The model of
  `rankMaps` (keys sorted with the model sorter and the ranker itself) is executable
  and tied to the code by the correspondence run; its order laws are NOT proved here
  (see `C07_full_statement`), and complex numbers violate transitivity in the code
  itself (recorded finding, see `C07_counterexample_complex`).
-/
import CollectionModel.Lemmas.CollatorLemmas
namespace CM
open CM.Coll

/-- **soundness**: whenever the ranking call returns on values of `U`, the answer is the
    comparison of their canonical images — for every fuel, depth and maximum.  In
    particular the answer does not depend on which of two equal-content collections is
    passed, nor on the collator's history. -/
theorem C07_rank_canonical (max f d : Nat) (a b : Val) (r : Rank) (ha : inU a = true) (hb : inU b = true)
    (h : rank max f d a b = .ok r) : r = cmpT (enc a) (enc b) := rank_sound max f d a b r ha hb h

/-- **reflexive**: RankValues(a, a) is Equal -/
theorem C07_refl (max f d : Nat) (a : Val) (r : Rank) (ha : inU a = true)
    (h : rank max f d a a = .ok r) : r = .eq := by
  rw [rank_sound max f d a a r ha ha h, cmpT_refl]

/-- **mirror**: RankValues(b, a) is the mirror image of RankValues(a, b) -/
theorem C07_mirror (max f d f' d' : Nat) (a b : Val) (r1 r2 : Rank) (ha : inU a = true) (hb : inU b = true)
    (h1 : rank max f d a b = .ok r1) (h2 : rank max f' d' b a = .ok r2) : r2 = r1.flip := by
  rw [rank_sound max f d a b r1 ha hb h1, rank_sound max f' d' b a r2 hb ha h2, cmpT_mirror]

/-- **transitive**: lesser-or-equal is transitive -/
theorem C07_trans (max f1 d1 f2 d2 f3 d3 : Nat) (a b c : Val) (r1 r2 r3 : Rank)
    (ha : inU a = true) (hb : inU b = true) (hc : inU c = true)
    (h1 : rank max f1 d1 a b = .ok r1) (h2 : rank max f2 d2 b c = .ok r2) (h3 : rank max f3 d3 a c = .ok r3)
    (hab : r1 ≠ .gt) (hbc : r2 ≠ .gt) : r3 ≠ .gt := by
  rw [rank_sound max f1 d1 a b r1 ha hb h1] at hab
  rw [rank_sound max f2 d2 b c r2 hb hc h2] at hbc
  rw [rank_sound max f3 d3 a c r3 ha hc h3]
  exact cmpT_lawful.totalPreorder.trans _ _ _ hab hbc

/-- the canonical comparison is a total preorder (so sorting and ordered-set membership
    over `U` are well defined) -/
theorem C07_total_preorder : TotalPreorder (fun a b : Val => cmpT (enc a) (enc b)) :=
  cmpT_lawful.totalPreorder.comap enc

/-- **natural order of the primitives**: false<true, numeric order, NaN first, byte-wise strings -/
theorem C07_natural (max f d : Nat) :
    (∀ x y, rank max (f+1) d (.bool x) (.bool y) = .ok (rankBool x y)) ∧
    (∀ x y, rank max (f+1) d (.int x) (.int y) = .ok (rankInt x y)) ∧
    (∀ x y, rank max (f+1) d (.uns x) (.uns y) = .ok (rankNat x y)) ∧
    (∀ x y, rank max (f+1) d (.byte x) (.byte y) = .ok (rankNat x y)) ∧
    (∀ x y, rank max (f+1) d (.rune x) (.rune y) = .ok (rankInt x y)) ∧
    (∀ x y, rank max (f+1) d (.flt x) (.flt y) = .ok (rankFl x y)) ∧
    (∀ x y, rank max (f+1) d (.str x) (.str y) = .ok (rankBytes x y)) := by
  refine ⟨?_, ?_, ?_, ?_, ?_, ?_, ?_⟩ <;> intro x y <;> simp [rank, Val.tcode]

/-- **an undefined value (nil) ranks before every defined one** -/
theorem C07_undef_first (max f d : Nat) (b : Val) (hb : isUndef b = false) :
    rank max (f+1) d .undef b = .ok .lt ∧ rank max (f+1) d b .undef = .ok .gt :=
  ⟨rank_undef_left max f d b hb, rank_undef_right max f d b hb⟩

/-- **a proper prefix ranks first** (sequences are ordered lexicographically) -/
theorem C07_prefix_first (xs : List T) (y : T) (ys : List T) : cmpTs xs (xs ++ y :: ys) = .lt := by
  induction xs with
  | nil => simp [cmpTs]
  | cons x xs ih => simp [cmpTs, cmpT_refl, ih]

/-- **independence from earlier calls**: a call leaves the collator as it found it
    (also when it ends in the depth-limit panic) -/
theorem C07_collator_unchanged (c : Collator) (a b : Val) :
    (rankValues c a b).2 = c ∧ (compareValues c a b).2 = c := ⟨rfl, rfl⟩

/-- NaN has a place in the order: before every number, equal to itself -/
example : rankFl .nan (.num 0) = .lt ∧ rankFl .nan .nan = .eq ∧ rankFl (.num 0) .nan = .gt := by decide

/-- **recorded finding (complex numbers)**: -1+0i and -1-0i are `==` (Equal by the shortcut) but
    their phases are +π and -π, so against i (same magnitude, phase π/2) the chain
    `-1+0i ≤ -1-0i ≤ i` holds while `-1+0i > i`: ranking complex numbers is not transitive. -/
theorem C07_counterexample_complex :
    let a : Cx := { re := .num (-5), im := .num 0, abs := .num 5, ph := .num 3 }    -- -1+0i
    let b : Cx := { re := .num (-5), im := .num 0, abs := .num 5, ph := .num (-3) } -- -1-0i
    let c : Cx := { re := .num 0, im := .num 5, abs := .num 5, ph := .num 1 }       -- i
    rankCx a b = .eq ∧ rankCx b c = .lt ∧ rankCx a c = .gt := by decide

/-- the full-strength statement of C07 for the whole supported universe; what is proved is the
    restriction to `U` above (the `_partial` reading); the missing parts are Go maps (tied to the
    code by correspondence only) and complex numbers (violated by the code, recorded). -/
def C07_full_statement : Prop :=
  ∀ (max f d : Nat) (a b c : Val) (r1 r2 r3 : Rank),
    rank max f d a b = .ok r1 → rank max f d b c = .ok r2 → rank max f d a c = .ok r3 →
    r1 ≠ .gt → r2 ≠ .gt → r3 ≠ .gt

/-- the complex counterexample refutes the full statement: it can only be claimed on `U` -/
theorem C07_full_statement_fails : ¬ C07_full_statement := by
  intro h
  have := h 16 2 0
    (.cpx { re := .num (-5), im := .num 0, abs := .num 5, ph := .num 3 })
    (.cpx { re := .num (-5), im := .num 0, abs := .num 5, ph := .num (-3) })
    (.cpx { re := .num 0, im := .num 5, abs := .num 5, ph := .num 1 }) .eq .lt .gt
    (by simp [rank, Val.tcode, rankCx, eqFl]) (by simp [rank, Val.tcode, rankCx, eqFl, rankFlRaw, rankInt])
    (by simp [rank, Val.tcode, rankCx, eqFl, rankFlRaw, rankInt]) (by decide) (by decide)
  exact this rfl

example : inU (.coll .set [.int 1, .arr false false [.str [97], .flt .nan], .assoc (.str [107]) (.bool true)]) = true := by decide

end CM
