package main

// C13: Stack is LIFO and never holds more values than its capacity.

import (
	col "github.com/craterdog/go-collection-framework/v4/collection"
)

type stackTarget struct {
	s    col.StackLike[int]
	out  *Out
	dflt int
	n    int
}

func (t *stackTarget) state() ([]int, int) {
	if t.s == nil {
		return []int{}, 0
	}
	return ints(t.s.AsArray()), int(t.s.GetCapacity())
}

func (t *stackTarget) line(caseID int, op string, a []int, vs []int) callResult {
	pre, cap := t.state()
	var res any
	cr := guarded(opTimeout, func() {
		class := col.Stack[int](notation)
		switch op {
		case "make":
			t.s = class.Make()
		case "makeWithCapacity":
			t.s = class.MakeWithCapacity(uint(a[0]))
		case "makeFrom":
			src := append([]int{}, vs...)
			if len(vs)%2 == 0 {
				t.s = class.MakeFromArray(src)
			} else if len(vs)%4 == 3 {
				// the source is itself a stack (of a larger capacity): the new stack must own its storage
				other := class.MakeWithCapacity(uint(len(src) + 3))
				for i := len(src) - 1; i >= 0; i-- {
					other.AddValue(src[i])
				}
				t.s = class.MakeFromSequence(other)
				other.AddValue(-95)
				other.AddValue(-94)
				other.RemoveTop()
			} else {
				// the source sequence is changed afterwards: the stack must own its storage
				l := col.List[int](notation).MakeFromArray(src)
				t.s = class.MakeFromSequence(l)
				l.AppendValue(-98)
				l.InsertValue(0, -97)
				if l.GetSize() > 2 {
					l.SetValue(2, -96)
					l.RemoveValue(-2)
				}
			}
			for i := range src {
				src[i] = -99
			}
		case "addValue":
			t.s.AddValue(a[0])
		case "removeTop":
			res = J{"v": t.s.RemoveTop()}
		case "removeAll":
			t.s.RemoveAll()
		case "asArray":
			res = J{"l": ints(t.s.AsArray())}
		case "iterate":
			res = J{"l": ints(walk[int](t.s))}
		case "getSize":
			res = J{"n": t.s.GetSize()}
		case "getCapacity":
			res = J{"n": int(t.s.GetCapacity())}
		case "isEmpty":
			res = J{"b": t.s.IsEmpty()}
		}
	})
	post, pcap := t.state()
	j := J{"k": "stack", "case": caseID, "pre": pre, "cap": cap, "op": op, "a": ints(a), "vs": ints(vs),
		"out": cr.kind, "post": post, "pcap": pcap, "dflt": t.dflt}
	if cr.kind == "ret" {
		j["res"] = res
	} else if cr.kind == "panic" {
		j["pc"], j["msg"] = cr.pc, cr.msg
	}
	t.out.emit(j)
	t.n++
	return cr
}

var stackObservers = []string{"asArray", "iterate", "getSize", "getCapacity", "isEmpty"}

func runC13(tier string, seed int64, out *Out) {
	rng := newRng(seed)
	dflt := int(col.Stack[int](notation).DefaultCapacity())
	depth := 5
	if tier == "thorough" {
		depth = 8
	}
	caseID := 0
	// every history of mutators up to `depth` for capacities 1..4 (replayed from the constructor)
	muts := []string{"addValue", "removeTop", "removeAll"}
	var rec func(cap int, hist []int)
	rec = func(cap int, hist []int) {
		if len(hist) > 0 {
			caseID++
			t := &stackTarget{out: out, dflt: dflt}
			t.line(caseID, "makeWithCapacity", []int{cap}, nil)
			for i, m := range hist {
				t.line(caseID, muts[m], []int{10 + i}, nil)
			}
			// observers only after the last step of this history (prefixes are other cases)
			for _, o := range stackObservers {
				t.line(caseID, o, nil, nil)
			}
		}
		if len(hist) == depth {
			return
		}
		for m := range muts {
			rec(cap, append(append([]int{}, hist...), m))
		}
	}
	for cap := 1; cap <= 4; cap++ {
		rec(cap, nil)
	}
	// invalid capacity, default constructor
	caseID++
	t := &stackTarget{out: out, dflt: dflt}
	t.line(caseID, "makeWithCapacity", []int{0}, nil)
	t.line(caseID, "make", nil, nil)
	for i := 0; i < dflt+2; i++ {
		t.line(caseID, "addValue", []int{i}, nil)
	}
	for i := 0; i < dflt+2; i++ {
		t.line(caseID, "removeTop", nil, nil)
	}
	// constructors from 0..2*default+1 initial values, then push past capacity and pop past empty
	for n := 0; n <= 2*dflt+1; n++ {
		caseID++
		t := &stackTarget{out: out, dflt: dflt}
		vs := make([]int, n)
		for i := range vs {
			vs[i] = 100 + rng.Intn(50)
		}
		t.line(caseID, "makeFrom", nil, vs)
		for _, o := range stackObservers {
			t.line(caseID, o, nil, nil)
		}
		_, cap := t.state()
		for i := 0; i < 3 && len(vs)+i <= cap+1; i++ {
			t.line(caseID, "addValue", []int{7}, nil)
		}
		pushes := cap - n + 2
		if pushes > 6 {
			pushes = 6
		}
		for i := 0; i < pushes; i++ {
			t.line(caseID, "addValue", []int{i}, nil)
		}
		t.line(caseID, "getSize", nil, nil)
		if n%5 == 0 {
			for i := 0; i < n+8; i++ {
				t.line(caseID, "removeTop", nil, nil)
			}
		}
	}
	// random long histories
	hist := 30
	if tier == "thorough" {
		hist = 400
	}
	for h := 0; h < hist; h++ {
		caseID++
		t := &stackTarget{out: out, dflt: dflt}
		switch rng.Intn(3) {
		case 0:
			t.line(caseID, "makeWithCapacity", []int{1 + rng.Intn(6)}, nil)
		case 1:
			t.line(caseID, "make", nil, nil)
		default:
			vs := make([]int, rng.Intn(2*dflt+2))
			for i := range vs {
				vs[i] = rng.Intn(9)
			}
			t.line(caseID, "makeFrom", nil, vs)
		}
		for s := 0; s < 60; s++ {
			switch r := rng.Intn(12); {
			case r < 5:
				t.line(caseID, "addValue", []int{rng.Intn(9)}, nil)
			case r < 9:
				t.line(caseID, "removeTop", nil, nil)
			case r == 9:
				t.line(caseID, "removeAll", nil, nil)
			default:
				t.line(caseID, stackObservers[rng.Intn(len(stackObservers))], nil, nil)
			}
		}
	}
}
