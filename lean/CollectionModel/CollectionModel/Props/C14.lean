/-
  C14 — Map behaves exactly like a Go map and its views stay coherent.
  Abstract Go map = the function `k ↦ lookup k m`; the model is an association
  list with distinct keys in an unspecified order.
-/
import CollectionModel.Lemmas.AssocLemmas
namespace CM
open CM.Assoc

variable {K V : Type} [DecidableEq K] [Inhabited K] [Inhabited V]

/-- **SetValue**: afterwards the key reads the new value, every other key is unchanged -/
theorem C14_set (m : List (K × V)) (k k' : K) (v : V) :
    lookup k' (mset m k v) = if k' = k then some v else lookup k' m := lookup_mset m k k' v

/-- **RemoveValue**: returns the stored value (the zero value when absent) and afterwards
    exactly that key is gone -/
theorem C14_remove (m : List (K × V)) (k k' : K) :
    (mapRemoveValue m k).1 = (lookup k m).getD default ∧
    lookup k' (mapRemoveValue m k).2 = if k' = k then none else lookup k' m := by
  unfold mapRemoveValue
  cases h : lookup k m with
  | some v => simp [lookup_mremove]
  | none =>
    simp only [Option.getD_none, true_and]
    by_cases h2 : k' = k
    · subst h2; simp [h]
    · simp [h2]

theorem mremove_eq_filter (m : List (K × V)) (k : K) : mremove m k = m.filter (fun p => !decide (p.1 = k)) := rfl

/-- **RemoveValues**: the values come back in request order (a key requested twice reads zero
    the second time) and afterwards exactly the requested keys are gone -/
theorem C14_removeValues : ∀ (ks : List K) (m : List (K × V)) (k' : K),
    (mapRemoveValues m ks).1 = specRemoved m ks ∧
    lookup k' (mapRemoveValues m ks).2 = if k' ∈ ks then none else lookup k' m
  | [], m, k' => by simp [mapRemoveValues, specRemoved]
  | k :: ks, m, k' => by
    have h1 := C14_remove m k k'
    have e : (mapRemoveValue m k).2 = m.filter (fun p => !decide (p.1 = k)) := by
      unfold mapRemoveValue
      cases h : lookup k m with
      | some v => simp [mremove_eq_filter]
      | none =>
        simp only
        symm; apply List.filter_eq_self.mpr
        intro p hp; simpa using lookup_none_iff.mp h p hp
    have ih := C14_removeValues ks (mapRemoveValue m k).2 k'
    simp only [mapRemoveValues, specRemoved, h1.1]
    refine ⟨by rw [ih.1, e], ?_⟩
    rw [ih.2, h1.2]
    by_cases h2 : k' = k
    · subst h2; simp
    · by_cases h3 : k' ∈ ks <;> simp [h2, h3]

/-- **constructors: the last association wins for repeated keys** -/
theorem C14_make_last_wins (ps : List (K × V)) (k : K) :
    lookup k (mapMakeFrom ps) = lookup k ps.reverse ∧ NodupKeys (mapMakeFrom ps) := by
  have key : ∀ (ps : List (K × V)) (acc : List (K × V)), NodupKeys acc →
      (lookup k (ps.foldl (fun m p => mset m p.1 p.2) acc) =
        match lookup k ps.reverse with | some v => some v | none => lookup k acc) ∧
      NodupKeys (ps.foldl (fun m p => mset m p.1 p.2) acc) := by
    intro ps
    induction ps with
    | nil => intro acc h; simp [lookup, h]
    | cons p rest ih =>
      intro acc h
      obtain ⟨a, b⟩ := p
      have := ih (mset acc a b) (nodup_mset acc a b h)
      refine ⟨?_, this.2⟩
      simp only [List.foldl_cons, List.reverse_cons]
      rw [this.1, lookup_append, lookup_mset]
      cases lookup k rest.reverse with
      | some x => rfl
      | none =>
        by_cases h2 : k = a
        · subst h2; simp
        · have : ¬ a = k := fun e => h2 e.symm
          simp [h2, this]
  have := key ps [] (by simp [NodupKeys])
  unfold mapMakeFrom
  refine ⟨?_, this.2⟩
  rw [this.1]
  cases lookup k ps.reverse <;> simp [lookup]

/-- state after a call -/
def Assoc.mapAfter (o : MObs K V) (m : List (K × V)) : List (K × V) :=
  match o with
  | .ret m' _ => m'
  | .panic m' _ => m'
  | .hang => m

/-- **keys stay distinct under every call**: the unordered views contain each association exactly once -/
theorem C14_step_nodup (m : List (K × V)) (h : NodupKeys m) (op : MOp K V) :
    NodupKeys (Assoc.mapAfter (mapStep m op) m) := by
  cases op with
  | setValue k v => exact nodup_mset m k v h
  | removeValue k =>
    simp only [mapStep, Assoc.mapAfter, mapRemoveValue]
    cases lookup k m <;> simp [h, nodup_mremove]
  | removeValues ks =>
    simp only [mapStep, Assoc.mapAfter]
    induction ks generalizing m with
    | nil => simpa [mapRemoveValues] using h
    | cons k ks ih =>
      simp only [mapRemoveValues]
      apply ih
      unfold mapRemoveValue
      cases lookup k m <;> simp [h, nodup_mremove]
  | removeAll => simp [mapStep, Assoc.mapAfter, NodupKeys]
  | make ps => exact (C14_make_last_wins ps default).2
  | _ => exact h

def Assoc.mapRun : List (K × V) → List (MOp K V) → List (K × V)
  | m, [] => m
  | m, op :: ops => Assoc.mapRun (Assoc.mapAfter (mapStep m op) m) ops

theorem C14_history_nodup : ∀ (ops : List (MOp K V)) (m : List (K × V)), NodupKeys m → NodupKeys (Assoc.mapRun m ops)
  | [], m, h => by simpa [Assoc.mapRun] using h
  | op :: ops, m, h => by
    simp only [Assoc.mapRun]
    exact C14_history_nodup ops _ (C14_step_nodup m h op)

/-- **views**: with distinct keys, the array view / iteration / key list enumerate exactly the
    associations of the abstract map, each once -/
theorem C14_views (m : List (K × V)) (h : NodupKeys m) (k : K) (v : V) :
    ((k, v) ∈ m ↔ lookup k m = some v) ∧ (m.map (·.1)).Nodup ∧ (k ∈ m.map (·.1) ↔ (lookup k m).isSome) := by
  refine ⟨⟨lookup_of_mem h, lookup_mem⟩, h, ?_⟩
  rw [← any_key_iff]
  simp

example : lookup (2 : Int) (mset [((1 : Int), (10 : Int)), (2, 20)] 2 99) = some 99 := by decide
example : NodupKeys [((1 : Int), (10 : Int)), (2, 20)] := by simp [NodupKeys]

end CM

namespace CM
open CM.Assoc

variable {K V : Type} [DecidableEq K] [Inhabited K] [Inhabited V] [DecidableEq V]

theorem specAfterRemove_of (m post : List (K × V)) (ks : List K) (hm : NodupKeys m) (hp : NodupKeys post)
    (hl : ∀ k', lookup k' post = if k' ∈ ks then none else lookup k' m) : specAfterRemove m post ks = true := by
  unfold specAfterRemove
  simp only [Bool.and_eq_true, List.all_eq_true, decide_eq_true_eq, Bool.or_eq_true, Bool.not_eq_true',
    beq_iff_eq, List.contains_eq_mem]
  refine ⟨⟨hp, ?_⟩, ?_⟩
  · intro p hpm
    have h1 := lookup_of_mem hp hpm
    have h2 := hl p.1
    rw [h1] at h2
    by_cases hk : p.1 ∈ ks
    · simp [hk] at h2
    · simp only [hk, if_false] at h2
      exact ⟨by simpa using hk, h2.symm⟩
  · intro p hpm
    have h1 := lookup_of_mem hm hpm
    by_cases hk : p.1 ∈ ks
    · exact Or.inl (by simpa using hk)
    · right
      have h2 := hl p.1
      simp only [hk, if_false] at h2
      rw [h2, h1]

/-- **Go-map refinement, one step**: every call of the Map model is allowed by the executable
    specification that also judges the real observations (`mapAllowed`), for every map with
    distinct keys and every operation. -/
theorem C14_step_refines (m : List (K × V)) (h : NodupKeys m) (op : MOp K V) :
    mapAllowed m op (mapStep m op) = true := by
  cases op with
  | setValue k v =>
    simp only [mapAllowed, mapStep, specAfterSet, beq_self_eq_true, Bool.true_and, Bool.and_eq_true, List.all_eq_true,
      Bool.or_eq_true, decide_eq_true_eq, beq_iff_eq]
    have hp := nodup_mset m k v h
    refine ⟨⟨⟨hp, by rw [lookup_mset]; simp⟩, ?_⟩, ?_⟩
    · intro p hpm
      have h1 := lookup_of_mem hp hpm
      rw [lookup_mset] at h1
      by_cases hk : p.1 = k
      · exact Or.inl hk
      · exact Or.inr (by simpa [hk] using h1)
    · intro p hpm
      have h1 := lookup_of_mem h hpm
      by_cases hk : p.1 = k
      · exact Or.inl hk
      · right; rw [lookup_mset]; simpa [hk] using h1
  | getValue k => simp [mapAllowed, mapStep, mapGetValue]
  | getValues ks => simp [mapAllowed, mapStep, mapGetValue]
  | getKeys => simp [mapAllowed, mapStep, List.isPerm_iff]
  | removeValue k =>
    have hr := C14_remove m k
    have hn : NodupKeys (mapRemoveValue m k).2 := by
      unfold mapRemoveValue; cases lookup k m <;> simp [h, nodup_mremove]
    simp only [mapAllowed, mapStep, Bool.and_eq_true, beq_iff_eq]
    refine ⟨by rw [(hr k).1], ?_⟩
    apply specAfterRemove_of m _ [k] h hn
    intro k'
    rw [(hr k').2]; simp
  | removeValues ks =>
    have hr := C14_removeValues ks m
    have hn : NodupKeys (mapRemoveValues m ks).2 := by
      have := C14_step_nodup m h (.removeValues ks)
      simpa [mapStep, Assoc.mapAfter] using this
    simp only [mapAllowed, mapStep, Bool.and_eq_true, beq_iff_eq]
    refine ⟨by rw [(hr default).1], ?_⟩
    apply specAfterRemove_of m _ ks h hn
    intro k'
    exact (hr k').2
  | removeAll => simp [mapAllowed, mapStep]
  | asArray => simp [mapAllowed, mapStep, List.isPerm_iff]
  | iterate => simp [mapAllowed, mapStep, List.isPerm_iff]
  | getSize => simp [mapAllowed, mapStep]
  | isEmpty => simp [mapAllowed, mapStep]
  | make ps =>
    have hn := (C14_make_last_wins ps default).2
    simp only [mapAllowed, mapStep, beq_self_eq_true, Bool.true_and, Bool.and_eq_true, List.all_eq_true, beq_iff_eq]
    refine ⟨⟨by simpa [NodupKeys] using hn, ?_⟩, ?_⟩
    · intro p hpm
      have h1 := lookup_of_mem hn hpm
      rw [(C14_make_last_wins ps p.1).1] at h1
      exact h1
    · intro p hpm
      rw [(C14_make_last_wins ps p.1).1]
      -- p occurs in ps, hence in its reverse: the lookup finds some value
      have : ∃ q ∈ ps.reverse, q.1 = p.1 := ⟨p, by simpa using hpm, rfl⟩
      cases hl : lookup p.1 ps.reverse with
      | some v => rfl
      | none =>
        obtain ⟨q, hq, hqk⟩ := this
        exact absurd hqk (lookup_none_iff.mp hl q hq)

end CM
