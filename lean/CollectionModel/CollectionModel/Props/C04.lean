/-
  C04 — Queue is a linearizable FIFO with bounded back-pressure under every schedule.

  Proved for every number of threads and every interleaving of the synchronisation steps,
  for clients that (a) do not let an AddValue overlap a CloseQueue (`addSendPanic` excluded) and
  (b) call RemoveAll only while no AddValue/RemoveHead is in flight (`quiescent`).  Outside
  (a)/(b) the code itself violates the property (recorded findings, counterexamples below).
  Data races are a property of the Go memory model: here only the lock-set argument is
  carried (see DESIGN.md C04); the run adds race-detector stress as supporting evidence.
-/
import CollectionModel.Lemmas.QueueLemmas
namespace CM
open CM.Q

variable {α : Type} [DecidableEq α]

/-- a trace whose events respect the client obligations (a)/(b) in the states they occur -/
def Q.validFrom : St α → List (Ev α) → Prop
  | _, [] => True
  | s, e :: es => e.isSendPanic = false ∧ (e.isRemoveAll = true → quiescent s) ∧
      (match step s e with | some s' => Q.validFrom s' es | none => True)

theorem init_inv (cap n : Nat) : QInv (init cap n : St α) := by
  simp [QInv, init, cnt, isClaimed, isSending, List.countP_replicate]

/-- **the accounting invariant holds in every reachable state** -/
theorem C04_inv_reachable : ∀ (es : List (Ev α)) (s s' : St α), QInv s → Q.validFrom s es → run s es = some s' → QInv s'
  | [], s, s', hs, _, h => by simp [run] at h; subst h; exact hs
  | e :: es, s, s', hs, hv, h => by
    simp only [run] at h
    cases hst : step s e with
    | none => rw [hst] at h; cases h
    | some s1 =>
      rw [hst] at h
      obtain ⟨hp, hq, hrest⟩ := hv
      rw [hst] at hrest
      exact C04_inv_reachable es s1 s' (step_inv s s1 e hs hq hp hst) hrest h

/-- **a consumer that claimed a token always finds a value**: RemoveHead never panics on an empty list -/
theorem C04_pop_never_fails (s : St α) (hs : QInv s) (t : Nat) : step s (.remLockPanic t) = none := by
  cases h : step s (.remLockPanic t) with
  | none => rfl
  | some s' =>
    exfalso
    simp only [step] at h
    split at h
    · rename_i hc
      obtain ⟨h1, _, _⟩ := hs
      have a := cnt_setPC isClaimed s t .remLock .idle hc.1
      simp [isClaimed] at a
      rw [hc.2] at h1; simp at h1
      omega
    · cases h

/-- **one FIFO order for all threads**: the value a RemoveHead returns is the oldest appended
    value not yet removed, and what remains is exactly the appended values minus the removed
    ones, in order (nothing invented, lost, duplicated or reordered) -/
theorem C04_fifo (s s' : St α) (hs : QInv s) (t : Nat) (v : α) (h : step s (.remLock t v) = some s') :
    s.appended = s.popped ++ v :: s'.vals ∧ s'.popped = s.popped ++ [v] := by
  simp only [step] at h
  split at h
  · split at h
    · rename_i x xs hv
      split at h
      · rename_i hx
        cases h
        subst hx
        refine ⟨?_, rfl⟩
        show s.appended = s.popped ++ x :: xs
        rw [hs.2.2, hv]
      · cases h
    · cases h
  · cases h

/-- **RemoveHead reports ok=false only once the queue is closed and drained**: no token is
    left, and every value still in the list belongs to a consumer that already holds its token
    or to an AddValue that has not returned -/
theorem C04_closed_drained (s s' : St α) (hs : QInv s) (t : Nat) (h : step s (.remRecv t false) = some s') :
    s.closed = true ∧ s.tokens = 0 ∧ s.vals.length = cnt isClaimed s + cnt isSending s := by
  simp only [step] at h
  split at h
  · simp only [Bool.false_eq_true, if_false] at h
    split at h
    · rename_i hc
      exact ⟨hc.2, hc.1, by have := hs.1; omega⟩
    · cases h
  · cases h

/-- **bounded back-pressure**: when an AddValue returns, at most `capacity` completed additions are unclaimed -/
theorem C04_backpressure (s s' : St α) (t : Nat) (h : step s (.addSend t) = some s') : s'.tokens ≤ s'.cap := by
  simp only [step] at h
  split at h
  · rename_i hc; cases h; show s.tokens + 1 ≤ s.cap; omega
  · cases h

/-- **GetSize never exceeds the capacity; AsArray reports only values added and not yet
    removed, in FIFO order** -/
theorem C04_observers (s s' : St α) (hs : QInv s) (t : Nat) :
    (∀ n, step s (.sizeLock t n) = some s' → n ≤ s.cap) ∧
    (∀ l, step s (.arrayLock t l) = some s' → s.appended = s.popped ++ l) := by
  constructor
  · intro n h
    simp only [step] at h
    split at h
    · rename_i hc; rw [hc.2]; exact hs.2.1
    · cases h
  · intro l h
    simp only [step] at h
    split at h
    · rename_i hc; rw [hc.2]; exact hs.2.2
    · cases h

/-- effect of an event on the abstract FIFO queue (linearisation points: the locked append
    of AddValue, the locked pop of RemoveHead, the locked section of RemoveAll) -/
def Q.specStep (q : List α) : Ev α → List α
  | .addLock _ => q          -- the appended value is named by the thread's program counter
  | .remLock _ _ => q.tail
  | .removeAllLock _ => []
  | _ => q

/-- **linearizability**: every step acts on the list exactly as the atomic FIFO specification
    acts at that step's linearisation point, which lies between the call and the return of
    the operation it belongs to -/
theorem C04_linearizable (s s' : St α) (e : Ev α) (h : step s e = some s') :
    (match e with
     | .addLock t => ∃ v, s.threads[t]? = some (.addLock v) ∧ s'.vals = s.vals ++ [v]
     | .remLock _ v => s.vals = v :: s'.vals
     | .removeAllLock _ => s'.vals = []
     | _ => s'.vals = s.vals) := by
  cases e with
  | addLock t =>
    simp only [step] at h
    split at h
    · rename_i v hv; cases h; exact ⟨v, hv, rfl⟩
    · cases h
  | remLock t v =>
    simp only [step] at h
    split at h
    · split at h
      · rename_i x xs hv
        split at h
        · rename_i hx; cases h; subst hx; exact hv
        · cases h
      · cases h
    · cases h
  | removeAllLock t =>
    simp only [step] at h
    split at h
    · cases h; rfl
    · cases h
  | call t pc => simp only [step] at h; split at h <;> first | (cases h; rfl) | cases h
  | addSend t => simp only [step] at h; split at h <;> first | (cases h; rfl) | cases h
  | addSendPanic t => simp only [step] at h; split at h <;> first | (cases h; rfl) | cases h
  | remRecv t ok =>
    simp only [step] at h
    split at h
    · cases ok
      · simp only [Bool.false_eq_true, if_false] at h; split at h <;> first | (cases h; rfl) | cases h
      · simp only [if_true] at h; split at h <;> first | (cases h; rfl) | cases h
    · cases h
  | remLockPanic t => simp only [step] at h; split at h <;> first | (cases h; rfl) | cases h
  | closeLock t => simp only [step] at h; split at h <;> first | (cases h; rfl) | cases h
  | closePanic t => simp only [step] at h; split at h <;> first | (cases h; rfl) | cases h
  | sizeLock t n => simp only [step] at h; split at h <;> first | (cases h; rfl) | cases h
  | emptyLock t b => simp only [step] at h; split at h <;> first | (cases h; rfl) | cases h
  | arrayLock t l => simp only [step] at h; split at h <;> first | (cases h; rfl) | cases h

/-- **recorded finding D04b**: a RemoveAll between a consumer's token receipt and its pop leaves
    the consumer with an empty list: RemoveHead panics -/
theorem C04_counterexample_removeall :
    ∃ s : St Nat, run (init 2 3) [.call 0 (.addLock 7), .addLock 0, .addSend 0, .call 1 .remRecv, .remRecv 1 true,
        .call 2 .removeAllLock, .removeAllLock 2] = some s ∧ (step s (.remLockPanic 1)).isSome = true := by
  refine ⟨_, rfl, ?_⟩
  decide

/-- **recorded finding D04c**: an AddValue parked on a full queue (or merely between its append
    and its send) dies with "send on closed channel" when CloseQueue runs first -/
theorem C04_counterexample_close_during_add :
    (run (init 1 2 : St Nat) [.call 0 (.addLock 7), .addLock 0, .call 1 .closeLock, .closeLock 1, .addSendPanic 0]).isSome = true := by
  decide

example : QInv (init 2 3 : St Nat) := init_inv 2 3

end CM
