module verif/harness

go 1.22

require github.com/craterdog/go-collection-framework/v4 v4.0.0

replace github.com/craterdog/go-collection-framework/v4 => /repo/v4
