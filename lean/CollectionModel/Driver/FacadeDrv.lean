/- driver for universal-constructor lines (C20) -/
import Driver.CdcnDrv
import CollectionModel.Model.Facade
open Lean CM CM.Facade

namespace Drv

def itemsOf : Val → List Val
  | .arr _ _ xs => xs
  | .coll _ xs => xs
  | .gomap _ _ es => es.map (fun e => .assoc e.1 e.2)
  | _ => []

def kindOf : Val → String
  | .arr _ _ _ => "Array"
  | .coll .list _ => "List" | .coll .set _ => "Set" | .coll .stack _ => "Stack"
  | .coll .queue _ => "Queue" | .coll .catalog _ => "Catalog"
  | .gomap _ _ _ => "Map"
  | .assoc _ _ => "Association"
  | _ => "?"

def listEq (a b : List Val) : Bool := a.length == b.length && (a.zip b).all (fun p => valEq p.1 p.2)
def bagEq (a b : List Val) : Bool :=
  a.length == b.length && a.all (fun x => b.any (valEq x)) && b.all (fun x => a.any (valEq x))

/-- key id: position of the first association with an equal key -/
def keyId (all : List Val) (v : Val) : Nat :=
  match v with
  | .assoc k _ => (all.findIdx? (fun w => match w with | .assoc k' _ => valEq k k' | _ => false)).getD all.length
  | _ => all.length

def argsFor (form : String) (n npos : Nat) (data : List α) (parsed : List α) : List (Arg α) :=
  let core : List (Arg α) := match form with
    | "goarray" => [.goarray data]
    | "gomap" => [.gomap data]
    | "sequence" => [.sequence data]
    | "source" => [.source parsed]
    | "size" | "capacity" => [.size n]
    | "collator+goarray" => [.collator, .goarray data]
    | "collator+sequence" => [.collator, .sequence data]
    | "collator+source" => [.collator, .source parsed]
    | _ => []
  match npos with
  | 1 => .notation :: core
  | 2 => core ++ [.notation]
  | _ => core

def outName : Option (Except Panic β) → String
  | none => "hang"
  | some (.error p) => "panic:" ++ p.toString
  | some (.ok _) => "ret"

def facadeLine (j : Json) : String :=
  let ctor := str j "ctor"; let form := str j "form"
  let m := fld j "mod"; let c := fld j "cls"
  let mo := str m "out"; let co := str c "out"
  let mv := parseVal (fld m "v"); let cv := parseVal (fld c "v")
  let unordered := bool j "unordered"
  let same (a b : List Val) := if unordered || ctor == "Map" then bagEq a b else listEq a b
  if ctor == "Association" then
    let args : List (AArg Val) := (arr j "args").toList.map fun a =>
      { isNotation := bool a "n", isK := bool a "k", isV := bool a "v", val := parseVal (fld a "val") }
    let model := assocCollect {} args
    let (mOut, mVal) := match model with
      | .ok s => ("ret", Val.assoc (s.key.getD .undef) (s.value.getD .undef))
      | .error p => ("panic:" ++ p.toString, Val.undef)
    let corr := mOut == mo && (mo != "ret" || valEq mVal mv)
    let checks := [("same-outcome", mo == co), ("same-association", mo != "ret" || co != "ret" || valEq mv cv)]
    match firstFail checks with
    | none => verdict corr true "" mOut
    | some f => verdict corr false s!"facade/{ctor}/{form}/{f}" mOut
  else
    let data := (arr j "data").toList.map parseVal
    let hasParsed := has j "parsed"
    let pv := parseVal (fld j "parsed")
    let parsed := if has j "srcitems" then (arr j "srcitems").toList.map parseVal else itemsOf pv
    let dflt := nat j "dflt"
    let n := nat j "n"; let npos := nat j "npos"
    let capOf (b : Built Val) : Int := match b.cap with | some c => c | none => -1
    -- the model
    let model : Option (Except Panic (List Val × Int)) :=
      let wrap (r : Option (Except Panic (Built Val))) := r.map (fun e => e.map (fun b => (b.items, capOf b)))
      let args := argsFor form n npos data parsed
      match ctor with
      | "Array" => wrap (@buildArray Val ⟨parseVal (fld j "zero")⟩ (collect args))
      | "List" => wrap (buildList (collect args))
      | "Set" => wrap (buildSet (if bool j "rev" then (fun a b => rankV b a) else rankV) (collect args))
      | "Stack" => wrap (buildStack dflt (collect args))
      | "Queue" => wrap (buildQueue dflt (collect args))
      | "Catalog" | "Map" =>
        let all := data ++ parsed
        let key (v : Val) : Nat × Val :=
          match v with
          | .assoc _ _ => (keyId all v, v)
          | _ => (all.length, v)
        let kargs := argsFor form n npos (data.map key) (parsed.map key)
        let b := if ctor == "Catalog" then buildCatalog (collect kargs) else buildMap (collect kargs)
        some (.ok (b.items.map (·.2), -1))
      | _ => none
    let mOut := outName model
    let outAgree := if mo.startsWith "panic" then mOut.startsWith "panic" else mOut == mo
    let corr := outAgree && (match model with
      | some (.ok (items, cap)) => mo != "ret" || (same items (itemsOf mv) && cap == int m "cap" && kindOf mv == ctor)
      | _ => true)
    let checks := [
      ("same-outcome", mo == co),
      ("same-kind", mo != "ret" || co != "ret" || kindOf mv == kindOf cv),
      ("same-contents-and-order", mo != "ret" || co != "ret" || same (itemsOf mv) (itemsOf cv)),
      ("same-capacity", mo != "ret" || co != "ret" || int m "cap" == int c "cap"),
      ("source-is-parse", !hasParsed || mo != "ret" || (kindOf pv == kindOf mv && same (itemsOf mv) parsed))]
    match firstFail checks with
    | none => verdict corr true "" mOut
    | some f => verdict corr false s!"facade/{ctor}/{form}/{f}" mOut

end Drv
