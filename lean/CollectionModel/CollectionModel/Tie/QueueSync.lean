/-
  T2 obligations over the synchronisation skeleton of `queue_` regenerated from
  collection/queue.go (Generated/QueueSync.lean): for every method, in source order, the lock
  and unlock calls, the channel operations on `available_`, the accesses to the guarded
  fields and the control structure around them.

  The transition system of Model/Queue.lean takes exactly these regions as its atomic steps
  (one Lock…Unlock section = one step; a send, a receive = one step each, outside any
  section).  `queue_sync_tie` pins the skeleton the model was written from;
  `queue_lock_discipline` states the discipline itself, computed from whatever the source says
  now: every access to `values_` and every replacement, close or length read of `available_`
  happens inside a Lock…Unlock section of a plain `sync.Mutex`, and no method sends or
  receives while holding the lock (a blocked channel operation inside the section would
  wedge every other caller).
-/
import CollectionModel.Generated.QueueSync
namespace CM
namespace Tie

def expectedQueueSync : List (String × List (String × String)) := [
  ("AddValue", [("call:mutex_", "Lock"), ("call:values_", "AppendValue"), ("call:mutex_", "Unlock"), ("send", "available_")]),
  ("AsArray", [("call:mutex_", "Lock"), ("call:values_", "AsArray"), ("call:mutex_", "Unlock"), ("return", "")]),
  ("CloseQueue", [("call:mutex_", "Lock"), ("close", "available_"), ("call:mutex_", "Unlock")]),
  ("GetCapacity", [("read", "capacity_"), ("return", "")]),
  ("GetClass", [("return", "")]),
  ("GetIterator", [("call:mutex_", "Lock"), ("call:values_", "GetIterator"), ("call:mutex_", "Unlock"), ("return", "")]),
  ("GetSize", [("call:mutex_", "Lock"), ("len", "available_"), ("call:mutex_", "Unlock"), ("return", "")]),
  ("IsEmpty", [("call:mutex_", "Lock"), ("len", "available_"), ("call:mutex_", "Unlock"), ("return", "")]),
  ("RemoveAll", [("call:mutex_", "Lock"), ("read", "capacity_"), ("write", "available_"), ("read", "GetClass"), ("write", "values_"), ("call:mutex_", "Unlock")]),
  ("RemoveHead", [("recv", "available_"), ("if{", ""), ("call:mutex_", "Lock"), ("call:values_", "RemoveValue"), ("call:mutex_", "Unlock"), ("}", ""), ("return", "")]),
  ("String", [("read", "GetClass"), ("return", "")])
]

/-- the methods of `queue_` synchronise exactly as the model's atomic steps assume -/
theorem queue_sync_tie : Generated.queueSync = expectedQueueSync ∧ Generated.queueMutexType = "Mutex" := by
  set_option maxRecDepth 100000 in decide

/-- an event that must happen inside a Lock…Unlock section: any use of the value list, and
    replacing, closing or measuring the token channel -/
def guarded (e : String × String) : Bool :=
  e.1 == "call:values_" || (e.1 == "write" && e.2 == "values_") || (e.1 == "read" && e.2 == "values_") ||
  ((e.1 == "write" || e.1 == "close" || e.1 == "len" || e.1 == "cap" || e.1 == "read") && e.2 == "available_")

/-- an event that may block and therefore must happen outside every section -/
def blocking (e : String × String) : Bool := (e.1 == "send" || e.1 == "recv") && e.2 == "available_"

/-- scan one method: `locked` is whether the mutex is held; any other use of the mutex
    (RLock, TryLock, a deferred unlock, a lock inside a closure or goroutine) is refused -/
def disciplined : Bool → List (String × String) → Bool
  | locked, [] => !locked
  | locked, e :: es =>
    if e.1 == "call:mutex_" && e.2 == "Lock" then !locked && disciplined true es
    else if e.1 == "call:mutex_" && e.2 == "Unlock" then locked && disciplined false es
    else if e.1 == "call:mutex_" || e.2 == "mutex_" || e.1 == "defer{" || e.1 == "go{" || e.1 == "func{" then false
    else if guarded e then locked && disciplined locked es
    else if blocking e then !locked && disciplined locked es
    else if e.1 == "return" then !locked && disciplined locked es
    else disciplined locked es

/-- **lock discipline of the queue, as the source is now** -/
theorem queue_lock_discipline :
    Generated.queueMutexType = "Mutex" ∧ Generated.queueSync.all (fun m => disciplined false m.2) = true := by
  set_option maxRecDepth 100000 in decide

/-- the checker is not vacuous: it rejects a receive inside the section, a read lock, an unguarded pop -/
example : disciplined false [("call:mutex_", "Lock"), ("recv", "available_"), ("call:values_", "RemoveValue"), ("call:mutex_", "Unlock")] = false := by decide
example : disciplined false [("recv", "available_"), ("call:mutex_", "RLock"), ("call:values_", "RemoveValue"), ("call:mutex_", "RUnlock")] = false := by decide
example : disciplined false [("recv", "available_"), ("call:values_", "RemoveValue")] = false := by decide
example : disciplined false [("recv", "available_"), ("if{", ""), ("call:mutex_", "Lock"), ("call:values_", "RemoveValue"), ("call:mutex_", "Unlock"), ("}", ""), ("return", "")] = true := by decide

/-! ### Fork, Split, Join: the helper goroutines -/

/-- the call skeleton of the three class functions, as the network models of Model/Pipes*.lean
    follow it: create the outputs, `group.Add(1)`, start the helper, whose loop is receive /
    send (to all outputs, or to the one the iterator points at) and which closes every output
    after the input was closed -/
def expectedPipeSync : List (String × List (String × String)) := [
  ("Fork", [("if{", ""), ("}", ""), ("call:input", "GetCapacity"), ("read", "notation_"), ("for{", ""), ("call:self", "MakeWithCapacity"), ("call:outputs", "AppendValue"), ("}", ""), ("call:group", "Add"), ("go{", ""), ("func{", ""), ("defer{", ""), ("call:group", "Done"), ("}", ""), ("call:outputs", "GetIterator"), ("for{", ""), ("call:input", "RemoveHead"), ("if{", ""), ("break", ""), ("}", ""), ("call:iterator", "ToStart"), ("for{", ""), ("call:iterator", "HasNext"), ("call:iterator", "GetNext"), ("call:output", "AddValue"), ("}", ""), ("}", ""), ("call:iterator", "ToStart"), ("for{", ""), ("call:iterator", "HasNext"), ("call:iterator", "GetNext"), ("call:output", "CloseQueue"), ("}", ""), ("}", ""), ("}", ""), ("return", "")]),
  ("Join", [("call:age", "Inspector"), ("call:inspector", "IsDefined"), ("call:inputs", "IsEmpty"), ("if{", ""), ("}", ""), ("call:inputs", "GetIterator"), ("call:iterator", "GetNext"), ("call:self", "MakeWithCapacity"), ("call:group", "Add"), ("go{", ""), ("func{", ""), ("defer{", ""), ("call:group", "Done"), ("}", ""), ("call:iterator", "ToStart"), ("for{", ""), ("call:iterator", "GetNext"), ("call:input", "RemoveHead"), ("if{", ""), ("break", ""), ("}", ""), ("call:output", "AddValue"), ("call:iterator", "HasNext"), ("if{", ""), ("call:iterator", "ToStart"), ("}", ""), ("}", ""), ("call:output", "CloseQueue"), ("}", ""), ("}", ""), ("return", "")]),
  ("Split", [("if{", ""), ("}", ""), ("call:input", "GetCapacity"), ("read", "notation_"), ("for{", ""), ("call:self", "MakeWithCapacity"), ("call:outputs", "AppendValue"), ("}", ""), ("call:group", "Add"), ("go{", ""), ("func{", ""), ("defer{", ""), ("call:group", "Done"), ("}", ""), ("call:outputs", "GetIterator"), ("for{", ""), ("call:input", "RemoveHead"), ("if{", ""), ("break", ""), ("}", ""), ("call:iterator", "GetNext"), ("call:output", "AddValue"), ("call:iterator", "HasNext"), ("if{", ""), ("call:iterator", "ToStart"), ("}", ""), ("}", ""), ("call:iterator", "ToStart"), ("for{", ""), ("call:iterator", "HasNext"), ("call:iterator", "GetNext"), ("call:output", "CloseQueue"), ("}", ""), ("}", ""), ("}", ""), ("return", "")])
]

theorem pipe_sync_tie : Generated.pipeSync = expectedPipeSync := by
  set_option maxRecDepth 100000 in decide

/-- the helper is registered with the caller's wait group before it is started, and the first
    thing it does is to defer `group.Done()`; there is exactly one helper -/
def registered (evs : List (String × String)) : Bool :=
  let pre := evs.takeWhile (fun e => e != ("go{", ""))
  let post := evs.dropWhile (fun e => e != ("go{", ""))
  pre.contains ("call:group", "Add") && !pre.contains ("call:group", "Done") &&
  post.take 5 == [("go{", ""), ("func{", ""), ("defer{", ""), ("call:group", "Done"), ("}", "")] &&
  !(post.drop 5).contains ("call:group", "Add") && !(post.drop 5).contains ("call:group", "Done") &&
  !(post.drop 1).contains ("go{", "")

/-- **wait-group registration, as the source is now**: what the termination theorems
    (`C06_*_terminates`: the helper reaches `group.Done()`) need in order to conclude that the
    caller's `Wait()` returns, and returns only after the helper has finished -/
theorem pipe_registration : Generated.pipeSync.all (fun m => registered m.2) = true := by
  set_option maxRecDepth 100000 in decide

example : registered [("go{", ""), ("func{", ""), ("call:group", "Add"), ("defer{", ""), ("call:group", "Done"), ("}", ""), ("}", "")] = false := by decide

/-! ### parser and scanner: two goroutines and a token queue -/

/-- the skeleton the parser model's assumption rests on ("the parser reads exactly `scan src`
    from a fresh single-producer single-consumer queue, and nothing of one call survives into the
    next"): `ParseSource` replaces the token queue and the push-back stack before it starts the
    scanner, drains the queue synchronously on the way out; `Scanner.Make` starts exactly one
    goroutine; `scanTokens` ends with the EOF token and closes the queue -/
def expectedCdcnSync : List (String × List (String × String)) := [
  ("parser_.ParseSource", [("call:Notation()", "Make"), ("write", "source_"), ("write", "tokens_"), ("write", "next_"), ("read", "source_"), ("read", "tokens_"), ("call:Scanner()", "Make"), ("defer{", ""), ("func{", ""), ("for{", ""), ("call:tokens_", "RemoveHead"), ("if{", ""), ("break", ""), ("}", ""), ("}", ""), ("}", ""), ("}", ""), ("call:self", "parseCollection"), ("if{", ""), ("call:self", "formatError"), ("call:self", "generateSyntax"), ("}", ""), ("for{", ""), ("call:self", "parseToken"), ("}", ""), ("call:self", "parseToken"), ("if{", ""), ("call:self", "formatError"), ("call:self", "generateSyntax"), ("}", ""), ("return", "")]),
  ("scannerClass_.Make", [("go{", ""), ("call:scanner", "scanTokens"), ("}", ""), ("return", "")]),
  ("scanner_.emitToken", [("read", "runes_"), ("read", "first_"), ("read", "next_"), ("switch{", ""), ("case{", ""), ("}", ""), ("case{", ""), ("}", ""), ("case{", ""), ("}", ""), ("case{", ""), ("}", ""), ("case{", ""), ("}", ""), ("case{", ""), ("}", ""), ("case{", ""), ("}", ""), ("case{", ""), ("}", ""), ("}", ""), ("read", "line_"), ("read", "position_"), ("call:Token()", "Make"), ("call:tokens_", "AddValue")]),
  ("scanner_.foundEOF", [("call:self", "emitToken")]),
  ("scanner_.foundError", [("read", "next_"), ("call:self", "emitToken")]),
  ("scanner_.scanTokens", [("for{", ""), ("read", "next_"), ("len", "runes_"), ("switch{", ""), ("call:self", "foundToken"), ("case{", ""), ("}", ""), ("call:self", "foundToken"), ("case{", ""), ("}", ""), ("call:self", "foundToken"), ("case{", ""), ("}", ""), ("call:self", "foundToken"), ("case{", ""), ("}", ""), ("call:self", "foundToken"), ("case{", ""), ("}", ""), ("call:self", "foundToken"), ("case{", ""), ("}", ""), ("call:self", "foundToken"), ("case{", ""), ("}", ""), ("call:self", "foundToken"), ("case{", ""), ("}", ""), ("call:self", "foundToken"), ("case{", ""), ("}", ""), ("call:self", "foundToken"), ("case{", ""), ("}", ""), ("call:self", "foundToken"), ("case{", ""), ("}", ""), ("call:self", "foundToken"), ("case{", ""), ("}", ""), ("case{", ""), ("call:self", "foundError"), ("break", ""), ("}", ""), ("}", ""), ("}", ""), ("call:self", "foundEOF"), ("call:tokens_", "CloseQueue")])
]

theorem cdcn_sync_tie : Generated.cdcnSync = expectedCdcnSync := by
  set_option maxRecDepth 100000 in decide

def eventsOf (name : String) : List (String × String) :=
  ((Generated.cdcnSync.find? (fun m => m.1 == name)).map (·.2)).getD []

/-- **per-call state and a synchronous drain, as the source is now** -/
def parseSourceDisciplined (evs : List (String × String)) : Bool :=
  let pre := evs.takeWhile (fun e => e != ("call:Scanner()", "Make"))
  let post := (evs.dropWhile (fun e => e != ("call:Scanner()", "Make"))).drop 1
  pre.contains ("write", "tokens_") && pre.contains ("write", "next_") &&
  post.take 4 == [("defer{", ""), ("func{", ""), ("for{", ""), ("call:tokens_", "RemoveHead")] &&
  !evs.contains ("go{", "") && !(post.contains ("write", "tokens_")) && !(post.contains ("write", "next_"))

theorem cdcn_goroutine_discipline :
    parseSourceDisciplined (eventsOf "parser_.ParseSource") = true ∧
    (eventsOf "scannerClass_.Make").count ("go{", "") = 1 ∧
    (eventsOf "scanner_.scanTokens").reverse.take 2 = [("call:tokens_", "CloseQueue"), ("call:self", "foundEOF")] ∧
    (eventsOf "scanner_.emitToken").getLast? = some ("call:tokens_", "AddValue") := by
  set_option maxRecDepth 100000 in decide

end Tie
end CM
