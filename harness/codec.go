package main

import "fmt"

// A Codec maps the integer ids used by the Lean model to Go values of one
// element type.  id 0 is always the Go zero value of the type, equal ids are
// structurally equal values, and the id order is the order of the default
// collator on the values (so sorting agrees).
type Codec[V any] struct {
	name  string
	minID int
	from  func(id int) V
	to    func(v V) int
}

func intCodec() Codec[int] {
	return Codec[int]{"int", -50, func(id int) int { return id }, func(v int) int { return v }}
}

// int64 values at both ends of the range: the order of the ids is the order of the values, and
// differences between members overflow int64
func int64xCodec() Codec[int64] {
	const lo, hi = -9223372036854775808, 9223372036854775807
	return Codec[int64]{"int64x", -50,
		func(id int) int64 {
			switch {
			case id < 0:
				return lo + int64(50+id)
			case id > 0:
				return hi - int64(50-id)
			}
			return 0
		},
		func(v int64) int {
			switch {
			case v < 0:
				return int(v-lo) - 50
			case v > 0:
				return 50 - int(hi-v)
			}
			return 0
		}}
}

func stringCodec() Codec[string] {
	return Codec[string]{"string", 0,
		func(id int) string {
			if id == 0 {
				return ""
			}
			return fmt.Sprintf("s%04d", id)
		},
		func(v string) int {
			if v == "" {
				return 0
			}
			var id int
			fmt.Sscanf(v, "s%04d", &id)
			return id
		}}
}

func floatCodec() Codec[float64] {
	return Codec[float64]{"float64", -50,
		func(id int) float64 { return float64(id) * 0.5 },
		func(v float64) int { return int(v * 2) }}
}

func sliceCodec() Codec[[]int] {
	return Codec[[]int]{"[]int", 0,
		func(id int) []int {
			switch {
			case id == 0:
				return nil
			case id%2 == 1:
				return []int{(id + 1) / 2}
			default:
				return []int{id / 2, 0}
			}
		},
		func(v []int) int {
			switch len(v) {
			case 0:
				return 0
			case 1:
				return 2*v[0] - 1
			default:
				return 2 * v[0]
			}
		}}
}

// any: nil < int values (type "integer") < strings (type "string").
func anyCodec() Codec[any] {
	return Codec[any]{"any", 0,
		func(id int) any {
			switch {
			case id == 0:
				return nil
			case id <= 500:
				return id - 250
			default:
				return fmt.Sprintf("s%04d", id)
			}
		},
		func(v any) int {
			switch x := v.(type) {
			case nil:
				return 0
			case int:
				return x + 250
			case string:
				var id int
				fmt.Sscanf(x, "s%04d", &id)
				return id
			}
			return -1
		}}
}

func fromIDs[V any](c Codec[V], ids []int) []V {
	out := make([]V, len(ids))
	for i, id := range ids {
		out[i] = c.from(id)
	}
	return out
}

func toIDs[V any](c Codec[V], vs []V) []int {
	out := make([]int, len(vs))
	for i, v := range vs {
		out[i] = c.to(v)
	}
	return out
}
