/-
  C13 — Stack is LIFO and never holds more values than its capacity.
-/
import CollectionModel.Model.Stack
import CollectionModel.Lemmas.SeqLemmas
namespace CM
open CM.Seq CM.Stack

variable {α : Type} [Inhabited α] [DecidableEq α]

/-- **LIFO refinement, one step**: every call of the model (guards + list
    rebuild loops) is allowed by the abstract LIFO stack, for every capacity ≥ 1,
    every state within its capacity and every operation. -/
theorem C13_step_refines (dflt : Nat) (hd : 1 ≤ dflt) (s : St α) (hs : Bounded s) (op : Stack.Op α) :
    Stack.allowed s op (Stack.step dflt s op) = true := by
  cases op with
  | make => simp [Stack.allowed, Stack.step]; omega
  | makeWithCapacity c =>
    by_cases h : c ≥ 1
    · have : ¬ c < 1 := by omega
      simp [Stack.allowed, Stack.step, h, this]
    · have : c < 1 := by omega
      simp [Stack.allowed, Stack.step, h, this]
  | makeFrom vs =>
    simp only [Stack.allowed, Stack.step, makeFrom, makeFromSequence_spec]
    split <;> simp <;> omega
  | addValue v =>
    simp only [Stack.allowed, Stack.step, addValue]
    by_cases h : s.vals.length < s.cap
    · have h2 : ¬ s.vals.length = s.cap := by omega
      simp [h, h2, insertValue_spec s.vals 0 v (by omega)]
    · have h2 : s.vals.length = s.cap := by unfold Bounded at hs; omega
      simp [h, h2]
  | removeTop =>
    simp only [Stack.allowed, Stack.step, removeTop]
    cases hv : s.vals with
    | nil => simp
    | cons x xs =>
      have hp : SeqSpec.pos (x :: xs).length 1 = some 0 := pos_one _ (by simp)
      rw [removeValue_some _ _ _ hp]
      simp
  | removeAll => simp [Stack.allowed, Stack.step]
  | asArray => simp [Stack.allowed, Stack.step]
  | iterate => simp [Stack.allowed, Stack.step]
  | getSize => simp [Stack.allowed, Stack.step]
  | getCapacity => simp [Stack.allowed, Stack.step]
  | isEmpty => simp [Stack.allowed, Stack.step]

/-- **capacity bound, one step**: no call – constructor or mutator – leaves a
    stack holding more values than its capacity. -/
theorem C13_step_bounded (dflt : Nat) (hd : 1 ≤ dflt) (s : St α) (hs : Bounded s) (op : Stack.Op α) :
    Bounded (Stack.Obs.state (Stack.step dflt s op) s) := by
  cases op with
  | make => simp [Stack.step, Stack.Obs.state, Bounded]
  | makeWithCapacity c =>
    simp only [Stack.step]; split <;> simp [Stack.Obs.state, Bounded, hs]
    exact hs
  | makeFrom vs =>
    simp only [Stack.step, Stack.Obs.state, Bounded, makeFrom, makeFromSequence_spec]
    split <;> omega
  | addValue v =>
    simp only [Stack.step, addValue]
    by_cases h : s.vals.length = s.cap
    · simp [h, Stack.Obs.state, hs]
    · simp only [h, if_false, insertValue_spec s.vals 0 v (by omega)]
      unfold Bounded at *; simp [Stack.Obs.state]; omega
  | removeTop =>
    simp only [Stack.step, removeTop]
    cases hv : s.vals with
    | nil => simp [Stack.Obs.state, hs]
    | cons x xs =>
      have hp : SeqSpec.pos (x :: xs).length 1 = some 0 := pos_one _ (by simp)
      rw [removeValue_some _ _ _ hp]
      unfold Bounded at hs; rw [hv] at hs; simp at hs
      simp [Stack.Obs.state, Bounded]; omega
  | removeAll => simp [Stack.step, Stack.Obs.state, Bounded]
  | asArray => simpa [Stack.step, Stack.Obs.state] using hs
  | iterate => simpa [Stack.step, Stack.Obs.state] using hs
  | getSize => simpa [Stack.step, Stack.Obs.state] using hs
  | getCapacity => simpa [Stack.step, Stack.Obs.state] using hs
  | isEmpty => simpa [Stack.step, Stack.Obs.state] using hs

/-- **capacity bound, every history**: after any finite sequence of calls
    starting from any stack within its capacity (in particular from any
    constructor), the number of values never exceeds `GetCapacity()`. -/
theorem C13_bound_history (dflt : Nat) (hd : 1 ≤ dflt) :
    ∀ (ops : List (Stack.Op α)) (s : St α), Bounded s → Bounded (runFrom dflt s ops)
  | [], s, hs => by simpa [runFrom] using hs
  | op :: ops, s, hs => by
    simp only [runFrom]
    exact C13_bound_history dflt hd ops _ (C13_step_bounded dflt hd s hs op)

/-- every constructor yields a stack within its capacity -/
theorem C13_constructors_bounded (dflt : Nat) (s0 : St α) (vs : List α) (c : Nat) (hc : 1 ≤ c) :
    Bounded (Stack.Obs.state (Stack.step dflt s0 (.makeFrom vs)) s0) ∧
    Bounded (Stack.Obs.state (Stack.step dflt s0 (.makeWithCapacity c)) s0) ∧
    Bounded (Stack.Obs.state (Stack.step dflt s0 (.make : Stack.Op α)) s0) := by
  refine ⟨?_, ?_, ?_⟩
  · simp only [Stack.step, Stack.Obs.state, Bounded, makeFrom, makeFromSequence_spec]; split <;> omega
  · have : ¬ c < 1 := by omega
    simp [Stack.step, this, Stack.Obs.state, Bounded]
  · simp [Stack.step, Stack.Obs.state, Bounded]

/-- a panicking call (full / empty / bad capacity) leaves the stack unchanged -/
theorem C13_panic_unchanged (dflt : Nat) (s : St α) (op : Stack.Op α) (s' : St α) (c : Panic)
    (h : Stack.step dflt s op = .panic s' c) : s' = s := by
  cases op <;> simp only [Stack.step, addValue, removeTop] at h <;>
    (try split at h) <;> (try split at h) <;>
    first
    | (injection h with h1 h2; exact h1.symm)
    | cases h

/-- non-vacuity: a full stack and the over-long constructor case -/
example : Stack.step 16 ({ cap := 2, vals := [5, 4] } : St Int) (.addValue 9) = .panic { cap := 2, vals := [5, 4] } .stackFull := by decide
example : (Stack.makeFrom 2 [1, 2, 3] : St Int) = { cap := 3, vals := [1, 2, 3] } := by decide

end CM
