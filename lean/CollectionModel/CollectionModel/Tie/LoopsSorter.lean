import CollectionModel.Generated.LoopsSorter
import CollectionModel.Model.Sorter
import CollectionModel.Lemmas.GoSemLemmas
/-
  T3L obligations for C09: `sorter_.mergeArrays`, `sortValues`, `ReverseValues` and
  `ShuffleValues`, TRANSLATED from the current text of sorter.go onto a memory of arrays
  (Generated/LoopsSorter.lean: index arithmetic with 64-bit wrap-around, bounds-checked
  slices, `copy` as memmove), compute what the list-level model `Model/Sorter.lean` computes.
-/
namespace CM
namespace Tie
open CM.GoSem CM.Sorter

set_option linter.unusedSectionVars false
set_option linter.unusedVariables false

variable {α : Type} [Inhabited α] {σ : Type}

theorem w64_succ (n : Nat) (h : IsInt64 ((n : Int) + 1)) : w64 ((n : Int) + 1) = ((n + 1 : Nat) : Int) := by
  rw [w64_id h]; omega

theorem setArr_arr_self (m : Mem α) (a : Nat) : m.setArr a (m.arr a) = m := by
  unfold Mem.setArr Mem.arr
  apply List.ext_getElem?
  intro i
  simp only [List.getD_eq_getElem?_getD]
  grind

theorem setArr_setArr (m : Mem α) (a : Nat) (x y : List α) : (m.setArr a x).setArr a y = m.setArr a y := by
  unfold Mem.setArr
  simp

theorem arr_setArr_same (m : Mem α) (a : Nat) (l : List α) (h : a < m.length) : (m.setArr a l).arr a = l := by
  rw [arr_setArr]; simp [h]

theorem arr_setArr_other (m : Mem α) (a c : Nat) (l : List α) (h : c ≠ a) : (m.setArr a l).arr c = m.arr c := by
  rw [arr_setArr]; simp [h]

/-- a window's values, by position -/
theorem window_getD (B : List α) (off len : Nat) (i : Nat) (hi : i < len) (hl : off + len ≤ B.length) :
    B.getD (off + i) default = ((B.drop off).take len).getD i default := by
  simp only [List.getD_eq_getElem?_getD]
  grind

theorem window_length (B : List α) (off len : Nat) (hl : off + len ≤ B.length) :
    ((B.drop off).take len).length = len := by
  simp; omega

theorem window_drop (B : List α) (off len k : Nat) :
    ((B.drop (off + k)).take (len - k)) = ((B.drop off).take len).drop k := by
  rw [List.drop_take, List.drop_drop]

theorem drop_cons_getD (L : List α) (i : Nat) (h : i < L.length) : L.drop i = L.getD i default :: L.drop (i + 1) := by
  rw [List.drop_eq_getElem_cons h]
  simp [List.getD_eq_getElem?_getD, List.getElem?_eq_getElem h]


theorem mergeM_nil_left (rank : σ → α → α → Rank × σ) (st : σ) (r : List α) : mergeM rank st [] r = (r, st) := by
  cases r <;> simp [mergeM]

theorem mergeM_nil_right (rank : σ → α → α → Rank × σ) (st : σ) (l : List α) : mergeM rank st l [] = (l, st) := by
  cases l <;> simp [mergeM]

theorem mergeM_length (rank : σ → α → α → Rank × σ) :
    ∀ st l r, (mergeM rank st l r).1.length = l.length + r.length
  | st, [], r => by simp [mergeM_nil_left]
  | st, a :: l, [] => by simp [mergeM]
  | st, a :: l, b :: r => by
    simp only [mergeM]
    split
    · have := mergeM_length rank (rank st a b).2 l (b :: r)
      simp at this ⊢; omega
    · have := mergeM_length rank (rank st a b).2 (a :: l) r
      simp at this ⊢; omega

/-- the loop of `mergeArrays`: from the state (`leftIndex`, `rightIndex`, `mergedIndex = leftIndex + rightIndex`) it
    writes `mergeM` of the remaining values over the merged window from `mergedIndex` on -/
theorem mergeLoop_tie (ranker : σ → α → α → Rank × σ) (left right merged : Slice) (BL BR : List α)
    (hv1 : left.arr ≠ merged.arr) (hv2 : right.arr ≠ merged.arr)
    (hLl : left.off + left.len ≤ BL.length) (hRl : right.off + right.len ≤ BR.length)
    (hcapL : left.len ≤ left.cap) (hcapR : right.len ≤ right.cap) (hcapM : merged.len ≤ merged.cap)
    (hmlen : merged.len = left.len + right.len)
    (hint : IsInt64 ((merged.len : Int) + 1)) :
    ∀ (fuel li ri : Nat) (mem : Mem α) (w : σ), li ≤ left.len → ri ≤ right.len → merged.len - (li + ri) < fuel →
      mem.arr left.arr = BL → mem.arr right.arr = BR → merged.arr < mem.length →
      merged.off + merged.len ≤ (mem.arr merged.arr).length →
      Generated.mergeArrays_loop1 ranker left right merged fuel (li : Int) (left.len : Int) (ri : Int) (right.len : Int)
          ((li + ri : Nat) : Int) (merged.len : Int) mem w
        = some (.ok (mem.setArr merged.arr (splice (mem.arr merged.arr) (merged.off + (li + ri))
              (mergeM ranker w (((BL.drop left.off).take left.len).drop li) (((BR.drop right.off).take right.len).drop ri)).1),
            (mergeM ranker w (((BL.drop left.off).take left.len).drop li) (((BR.drop right.off).take right.len).drop ri)).2)) := by
  intro fuel
  induction fuel with
  | zero => intro li ri mem w _ _ hf; omega
  | succ f ih =>
    intro li ri mem w h1 h2 hf hBL hBR hv hlen
    have hLlen := window_length BL left.off left.len hLl
    have hRlen := window_length BR right.off right.len hRl
    generalize hL : (BL.drop left.off).take left.len = L at *
    generalize hR : (BR.drop right.off).take right.len = R at *
    unfold Generated.mergeArrays_loop1
    have b1 : IsInt64 (((li + ri : Nat) : Int) + 1) := by unfold IsInt64 at *; omega
    have b2 : IsInt64 ((li : Int) + 1) := by unfold IsInt64 at *; omega
    have b3 : IsInt64 ((ri : Int) + 1) := by unfold IsInt64 at *; omega
    simp only [w64_succ _ b1, w64_succ _ b2, w64_succ _ b3]
    clear b1 b2 b3
    by_cases hdone : li + ri = merged.len
    · -- both exhausted: the loop ends
      have : ¬ (((li + ri : Nat) : Int) < (merged.len : Int)) := by omega
      simp only [this, decide_false, Bool.false_eq_true, if_false]
      have e1 : L.drop li = [] := List.drop_of_length_le (by omega)
      have e2 : R.drop ri = [] := List.drop_of_length_le (by omega)
      rw [e1, e2]
      simp [mergeM, splice_nil, setArr_arr_self]
    · have hlt : (((li + ri : Nat) : Int) < (merged.len : Int)) := by omega
      simp only [hlt, decide_true, if_true]
      by_cases hl : li < left.len
      · by_cases hr : ri < right.len
        · -- both sides have values: one ranker call, one write
          have c1 : ((li : Int) < (left.len : Int)) := by omega
          have c2 : ((ri : Int) < (right.len : Int)) := by omega
          simp only [c1, c2, decide_true, Bool.and_self, if_true]
          rw [read_ok mem left li hl, read_ok mem right ri hr]
          simp only [bindE_ok]
          rw [hBL, hBR, window_getD BL left.off left.len li hl hLl, window_getD BR right.off right.len ri hr hRl, hL, hR]
          rw [drop_cons_getD L li (by omega), drop_cons_getD R ri (by omega)]
          simp only [mergeM]
          cases hq : ranker w (L.getD li default) (R.getD ri default) with
          | mk q w1 =>
            simp only []
            by_cases hqlt : q = Rank.lt
            · subst hqlt
              simp only [beq_self_eq_true, if_true]
              rw [write_ok mem merged (li + ri) _ (by omega)]
              simp only [bindE_ok]
              have := ih (li + 1) ri (mem.setArr merged.arr ((mem.arr merged.arr).set (merged.off + (li + ri)) (L.getD li default))) w1
                (by omega) h2 (by omega) (by rw [arr_setArr_other _ _ _ _ hv1]; exact hBL) (by rw [arr_setArr_other _ _ _ _ hv2]; exact hBR)
                (by simpa using hv) (by rw [arr_setArr_same _ _ _ hv]; simpa using hlen)
              have e : li + 1 + ri = li + ri + 1 := by omega
              rw [e] at this
              rw [this, arr_setArr_same _ _ _ hv, setArr_setArr]
              have hlen1 : ((mergeM ranker w1 (L.drop (li + 1)) (R.getD ri default :: R.drop (ri + 1))).1).length
                  = (L.drop (li + 1)).length + (R.getD ri default :: R.drop (ri + 1)).length := by
                simpa using mergeM_length ranker w1 (L.drop (li + 1)) (R.getD ri default :: R.drop (ri + 1))
              rw [← drop_cons_getD R ri (by omega)] at hlen1 ⊢
              rw [← Nat.add_assoc merged.off (li + ri) 1, splice_set _ _ _ _ (by rw [hlen1]; simp; omega)]
            · have : (q == Rank.lt) = false := by cases q <;> simp_all
              simp only [this, Bool.false_eq_true, if_false]
              rw [write_ok mem merged (li + ri) _ (by omega)]
              simp only [bindE_ok]
              have := ih li (ri + 1) (mem.setArr merged.arr ((mem.arr merged.arr).set (merged.off + (li + ri)) (R.getD ri default))) w1
                h1 (by omega) (by omega) (by rw [arr_setArr_other _ _ _ _ hv1]; exact hBL) (by rw [arr_setArr_other _ _ _ _ hv2]; exact hBR)
                (by simpa using hv) (by rw [arr_setArr_same _ _ _ hv]; simpa using hlen)
              have e : li + (ri + 1) = li + ri + 1 := by omega
              rw [e] at this
              rw [this, arr_setArr_same _ _ _ hv, setArr_setArr]
              have hlen1 : ((mergeM ranker w1 (L.getD li default :: L.drop (li + 1)) (R.drop (ri + 1))).1).length
                  = (L.getD li default :: L.drop (li + 1)).length + (R.drop (ri + 1)).length := by
                simpa using mergeM_length ranker w1 (L.getD li default :: L.drop (li + 1)) (R.drop (ri + 1))
              rw [← drop_cons_getD L li (by omega)] at hlen1 ⊢
              rw [← Nat.add_assoc merged.off (li + ri) 1, splice_set _ _ _ _ (by rw [hlen1]; simp; omega)]
              simp [hqlt]
        · -- the right side is exhausted: the rest of the left side is copied in one go (again on every later iteration)
          have hre : ri = right.len := by omega
          subst hre
          have c1 : ((li : Int) < (left.len : Int)) := by omega
          have c2 : ¬ (((right.len : Nat) : Int) < (right.len : Int)) := by omega
          simp only [c1, c2, decide_true, decide_false, Bool.and_false, Bool.false_eq_true, if_false, if_true]
          have e2 : R.drop right.len = [] := List.drop_of_length_le (by omega)
          rw [e2, mergeM_nil_right]
          rw [sub_ok merged (li + right.len) merged.len (by omega) hcapM, sub_ok left li left.len (by omega) hcapL]
          simp only [bindE_ok]
          rw [copy_eq]
          simp only [Mem.view, hBL]
          rw [window_drop BL left.off left.len li, hL]
          have hmin : min (merged.len - (li + right.len)) (left.len - li) = left.len - li := by omega
          rw [hmin, List.take_of_length_le (by simp; omega)]
          have hsl : (splice (mem.arr merged.arr) (merged.off + (li + right.len)) (L.drop li)).length = (mem.arr merged.arr).length :=
            splice_length _ _ _ (by simp; omega)
          have := ih (li + 1) right.len (mem.setArr merged.arr (splice (mem.arr merged.arr) (merged.off + (li + right.len)) (L.drop li))) w
            (by omega) (Nat.le_refl _) (by omega) (by rw [arr_setArr_other _ _ _ _ hv1]; exact hBL) (by rw [arr_setArr_other _ _ _ _ hv2]; exact hBR)
            (by simpa using hv) (by rw [arr_setArr_same _ _ _ hv, hsl]; exact hlen)
          have e : li + 1 + right.len = li + right.len + 1 := by omega
          rw [e] at this
          rw [this, arr_setArr_same _ _ _ hv, setArr_setArr, e2, mergeM_nil_right]
          simp only []
          rw [drop_cons_getD L li (by omega)]
          rw [← Nat.add_assoc merged.off _ 1, splice_splice_tail _ _ _ _ (by simp; omega)]
      · -- the left side is exhausted
        have hle : li = left.len := by omega
        subst hle
        have hr : ri < right.len := by omega
        have c1 : ¬ (((left.len : Nat) : Int) < (left.len : Int)) := by omega
        simp only [c1, decide_false, Bool.false_and, Bool.false_eq_true, if_false]
        have e1 : L.drop left.len = [] := List.drop_of_length_le (by omega)
        rw [e1, mergeM_nil_left]
        rw [sub_ok merged (left.len + ri) merged.len (by omega) hcapM, sub_ok right ri right.len (by omega) hcapR]
        simp only [bindE_ok]
        rw [copy_eq]
        simp only [Mem.view, hBR]
        rw [window_drop BR right.off right.len ri, hR]
        have hmin : min (merged.len - (left.len + ri)) (right.len - ri) = right.len - ri := by omega
        rw [hmin, List.take_of_length_le (by simp; omega)]
        have hsl : (splice (mem.arr merged.arr) (merged.off + (left.len + ri)) (R.drop ri)).length = (mem.arr merged.arr).length :=
          splice_length _ _ _ (by simp; omega)
        have := ih left.len (ri + 1) (mem.setArr merged.arr (splice (mem.arr merged.arr) (merged.off + (left.len + ri)) (R.drop ri))) w
          (Nat.le_refl _) (by omega) (by omega) (by rw [arr_setArr_other _ _ _ _ hv1]; exact hBL) (by rw [arr_setArr_other _ _ _ _ hv2]; exact hBR)
          (by simpa using hv) (by rw [arr_setArr_same _ _ _ hv, hsl]; exact hlen)
        have e : left.len + (ri + 1) = left.len + ri + 1 := by omega
        rw [e] at this
        rw [this, arr_setArr_same _ _ _ hv, setArr_setArr, e1, mergeM_nil_left]
        simp only []
        rw [drop_cons_getD R ri (by omega)]
        rw [← Nat.add_assoc merged.off _ 1, splice_splice_tail _ _ _ _ (by simp; omega)]

/-- **`sorter_.mergeArrays` as written in sorter.go**: for two source windows and a target window on another array,
    with `len(merged) = len(left) + len(right)`, it writes `mergeM` of the two source views over the target window
    and touches nothing else; it calls the ranker exactly as `mergeM` does (the ranker's state ends up the same) -/
theorem mergeArrays_tie (ranker : σ → α → α → Rank × σ) (left right merged : Slice) (mem : Mem α) (w : σ) (fuel : Nat)
    (hv1 : left.arr ≠ merged.arr) (hv2 : right.arr ≠ merged.arr)
    (hLl : left.off + left.len ≤ (mem.arr left.arr).length) (hRl : right.off + right.len ≤ (mem.arr right.arr).length)
    (hcapL : left.len ≤ left.cap) (hcapR : right.len ≤ right.cap) (hcapM : merged.len ≤ merged.cap)
    (hmlen : merged.len = left.len + right.len) (hint : IsInt64 ((merged.len : Int) + 1))
    (hv : merged.arr < mem.length) (hlen : merged.off + merged.len ≤ (mem.arr merged.arr).length)
    (hfuel : merged.len < fuel) :
    Generated.mergeArrays ranker left right merged mem w fuel
      = some (.ok (mem.setArr merged.arr (splice (mem.arr merged.arr) merged.off
            (mergeM ranker w (mem.view left) (mem.view right)).1),
          (mergeM ranker w (mem.view left) (mem.view right)).2)) := by
  unfold Generated.mergeArrays
  have := mergeLoop_tie ranker left right merged (mem.arr left.arr) (mem.arr right.arr) hv1 hv2 hLl hRl hcapL hcapR hcapM hmlen hint
    fuel 0 0 mem w (Nat.zero_le _) (Nat.zero_le _) (by omega) rfl rfl hv hlen
  simpa [Mem.view] using this

/-! ### `sortValues`: whole arrays `a` (values) and `b` (buffer) of `n` values each -/

/-- the slice that shows the whole of an array of `n` values -/
def whole (a n : Nat) : Slice := ⟨a, 0, n, n⟩

theorem w64_add_nat (x y : Nat) (h : IsInt64 ((x : Int) + (y : Int))) : w64 ((x : Int) + (y : Int)) = ((x + y : Nat) : Int) := by
  rw [w64_id h]; omega

theorem w64_mul2_nat (x : Nat) (h : IsInt64 ((x : Int) * 2)) : w64 ((x : Int) * 2) = ((2 * x : Nat) : Int) := by
  rw [w64_id h]; omega

theorem clampI (x n : Nat) : (if decide ((x : Int) > (n : Int)) = true then (n : Int) else (x : Int)) = ((min x n : Nat) : Int) := by
  by_cases h : (x : Int) > (n : Int)
  · simp only [h, decide_true, if_true]; omega
  · simp only [h, decide_false, Bool.false_eq_true, if_false]; omega

theorem take_min_drop (X : List α) (p k : Nat) : (X.drop p).take (min (p + k) X.length - p) = (X.drop p).take k := by
  by_cases h : p + k ≤ X.length
  · rw [Nat.min_eq_left h]; congr 1; omega
  · rw [Nat.min_eq_right (by omega), List.take_of_length_le (by simp), List.take_of_length_le (by simp; omega)]

theorem mergePassM_nil (rank : σ → α → α → Rank × σ) (w f : Nat) (st : σ) : mergePassM rank w f st [] = ([], st) := by
  cases f <;> simp [mergePassM]

theorem mergePassM_step (rank : σ → α → α → Rank × σ) (w f : Nat) (st : σ) (xs : List α) (h : xs ≠ []) :
    mergePassM rank w (f + 1) st xs
      = ((mergeM rank st (xs.take w) ((xs.drop w).take w)).1
            ++ (mergePassM rank w f (mergeM rank st (xs.take w) ((xs.drop w).take w)).2 (xs.drop (2 * w))).1,
         (mergePassM rank w f (mergeM rank st (xs.take w) ((xs.drop w).take w)).2 (xs.drop (2 * w))).2) := by
  cases xs with
  | nil => exact absurd rfl h
  | cons x t => simp only [mergePassM]

theorem mergePassM_length (rank : σ → α → α → Rank × σ) (w : Nat) :
    ∀ (f : Nat) (st : σ) (xs : List α), (mergePassM rank w f st xs).1.length = xs.length := by
  intro f
  induction f with
  | zero => intro st xs; simp [mergePassM]
  | succ f ih =>
    intro st xs
    by_cases h : xs = []
    · subst h; simp [mergePassM_nil]
    · rw [mergePassM_step rank w f st xs h]
      simp only [List.length_append, mergeM_length, ih, List.length_take, List.length_drop]
      omega

/-- the inner loop of `sortValues` (one pass over chunk pairs of width `width`, from `left` on): it writes
    `mergePassM` of the rest of the buffer over the values array from `left` on -/
theorem sortLoop2_tie (ranker : σ → α → α → Rank × σ) (a b n width : Nat) (hab : a ≠ b) (hw : 1 ≤ width) (hwn : width ≤ n)
    (hint : IsInt64 (4 * (n : Int) + 4)) (X : List α) (hX : X.length = n) :
    ∀ (fuel left : Nat) (mem : Mem α) (w : σ) (mf : Nat),
      mem.arr b = X → (mem.arr a).length = n → a < mem.length → b < mem.length →
      (X.drop left).length ≤ mf → n + 2 ≤ fuel + min left n → left ≤ n + 2 * width →
      ∃ left' : Int,
      Generated.sortValues_loop2 ranker fuel (whole a n) (n : Int) (whole b n) (width : Int) (left : Int) mem w
        = some (.ok (whole a n, (n : Int), whole b n, (width : Int), left',
            mem.setArr a (splice (mem.arr a) left (mergePassM ranker width mf w (X.drop left)).1),
            (mergePassM ranker width mf w (X.drop left)).2)) := by
  intro fuel
  induction fuel with
  | zero => intro left mem w mf _ _ _ _ _ hf _; omega
  | succ f ih =>
    intro left mem w mf hb ha hav hbv hmf hf hleft
    unfold Generated.sortValues_loop2
    by_cases hlt : left < n
    · have c : ((left : Int) < (n : Int)) := by omega
      simp only [c, decide_true, if_true]
      rw [w64_add_nat left width (by unfold IsInt64 at *; omega), clampI]
      rw [w64_add_nat (min (left + width) n) width (by unfold IsInt64 at *; omega), clampI]
      rw [w64_mul2_nat width (by unfold IsInt64 at *; omega), w64_add_nat left (2 * width) (by unfold IsInt64 at *; omega)]
      generalize hmid : min (left + width) n = middle
      generalize hrig : min (middle + width) n = right
      have hm1 : left ≤ middle := by omega
      have hm2 : middle ≤ right := by omega
      have hm3 : right ≤ n := by omega
      unfold whole
      rw [sub_ok ⟨b, 0, n, n⟩ left middle hm1 (by simp; omega), sub_ok ⟨b, 0, n, n⟩ middle right hm2 (by simp; omega),
        sub_ok ⟨a, 0, n, n⟩ left right (by omega) (by simp; omega)]
      simp only [bindE_ok]
      rw [mergeArrays_tie ranker _ _ _ mem w f (by simpa using hab.symm) (by simpa using hab.symm)
        (by simp [hb, hX]; omega) (by simp [hb, hX]; omega) (by simp; omega) (by simp; omega) (by simp; omega)
        (by simp; omega) (by unfold IsInt64 at *; simp; omega) (by simpa using hav) (by simp [ha]; omega) (by simp; omega)]
      simp only [bindO_ok, Mem.view, hb, Nat.zero_add]
      -- the two chunks, as the model takes them
      have hL : (X.drop left).take (middle - left) = (X.drop left).take width := by
        rw [← hmid, ← hX]; exact take_min_drop X left width
      have hR : (X.drop middle).take (right - middle) = ((X.drop left).drop width).take width := by
        rw [← hrig, ← hX, take_min_drop X middle width, List.drop_drop]
        by_cases h2 : left + width ≤ n
        · have : middle = left + width := by omega
          rw [this]
        · have : middle = n := by omega
          rw [this, List.drop_of_length_le (by omega), List.drop_of_length_le (by omega)]
      rw [hL, hR]
      have hne : X.drop left ≠ [] := by
        intro e; have := congrArg List.length e; simp at this; omega
      obtain ⟨mf', rfl⟩ : ∃ k, mf = k + 1 := ⟨mf - 1, by have : (X.drop left).length ≥ 1 := by simp; omega
                                                         omega⟩
      rw [mergePassM_step ranker width mf' w (X.drop left) hne]
      generalize hm : mergeM ranker w ((X.drop left).take width) (((X.drop left).drop width).take width) = mr
      have hmlen : mr.1.length = ((X.drop left).take width).length + (((X.drop left).drop width).take width).length := by
        rw [← hm]; exact mergeM_length ranker w _ _
      have hmlen' : mr.1.length = min (2 * width) (n - left) := by
        rw [hmlen]; simp [hX]; omega
      have hsl : (splice (mem.arr a) left mr.1).length = (mem.arr a).length := splice_length _ _ _ (by rw [hmlen', ha]; omega)
      obtain ⟨left', hrec⟩ := ih (left + 2 * width) (mem.setArr a (splice (mem.arr a) left mr.1)) mr.2 mf'
        (by rw [arr_setArr_other _ _ _ _ hab.symm]; exact hb) (by rw [arr_setArr_same _ _ _ hav, hsl]; exact ha)
        (by simpa using hav) (by simpa using hbv) (by simp [hX] at hmf ⊢; omega) (by omega) (by omega)
      refine ⟨left', ?_⟩
      unfold whole at hrec
      rw [hrec, arr_setArr_same _ _ _ hav, setArr_setArr, List.drop_drop]
      by_cases h2 : left + 2 * width ≤ n
      · have : mr.1.length = 2 * width := by omega
        rw [← this, splice_append _ _ _ _ (by
          rw [mergePassM_length, ha]; simp [hX]; omega)]
      · rw [List.drop_of_length_le (by omega), mergePassM_nil, splice_nil]
        simp
    · have c : ¬ ((left : Int) < (n : Int)) := by omega
      simp only [c, decide_false, Bool.false_eq_true, if_false]
      refine ⟨(left : Int), ?_⟩
      rw [List.drop_of_length_le (by omega), mergePassM_nil, splice_nil, setArr_arr_self]

theorem view_whole (mem : Mem α) (p n : Nat) (h : (mem.arr p).length = n) : mem.view (whole p n) = mem.arr p := by
  simp [Mem.view, whole, ← h]

/-- what a run of the outer loop leaves behind: both arrays hold `ys`, nothing else changed -/
def Both (mem mem' : Mem α) (p q : Nat) (ys : List α) : Prop :=
  mem'.length = mem.length ∧ mem'.arr p = ys ∧ mem'.arr q = ys ∧ ∀ c, c ≠ p → c ≠ q → mem'.arr c = mem.arr c

/-- the outer loop of `sortValues` (doubling widths, the two arrays swapping roles after every pass, the final
    `copy`): both arrays end up holding `sortLoopM` of the buffer -/
theorem sortLoop1_tie (ranker : σ → α → α → Rank × σ) (n : Nat) (hint : IsInt64 (4 * (n : Int) + 4)) :
    ∀ (fuel p q width mf : Nat) (mem : Mem α) (w : σ),
      p ≠ q → p < mem.length → q < mem.length → (mem.arr p).length = n → (mem.arr q).length = n →
      1 ≤ width → width ≤ 2 * n + 1 → n ≤ width * 2 ^ mf → n + 3 + mf ≤ fuel →
      ∃ mem', Generated.sortValues_loop1 ranker fuel (whole p n) (n : Int) (whole q n) (width : Int) mem w
          = some (.ok (mem', (sortLoopM ranker mf width w (mem.arr q)).2))
        ∧ Both mem mem' p q (sortLoopM ranker mf width w (mem.arr q)).1 := by
  intro fuel
  induction fuel with
  | zero => intro p q width mf mem w _ _ _ _ _ _ _ _ hf; omega
  | succ f ih =>
    intro p q width mf mem w hpq hp hq hpl hql hw hwb hmf hf
    unfold Generated.sortValues_loop1
    by_cases hlt : width < n
    · have c : ((width : Int) < (n : Int)) := by omega
      simp only [c, decide_true, if_true]
      obtain ⟨mf', rfl⟩ : ∃ k, mf = k + 1 := by
        cases mf with
        | zero => simp at hmf; omega
        | succ k => exact ⟨k, rfl⟩
      obtain ⟨left', h2⟩ := sortLoop2_tie ranker p q n width hpq hw (by omega) hint (mem.arr q) hql f 0 mem w n
        rfl hpl hp hq (by simp [hql]) (by omega) (by omega)
      have e0 : ((0 : Nat) : Int) = (0 : Int) := rfl
      rw [e0] at h2
      rw [h2]
      simp only [bindO_ok, List.drop_zero]
      rw [w64_mul2_nat width (by unfold IsInt64 at *; omega)]
      generalize hpass : mergePassM ranker width n w (mem.arr q) = pass at *
      have hplen : pass.1.length = n := by rw [← hpass, mergePassM_length, hql]
      rw [splice_full _ _ (by rw [hplen, hpl])]
      obtain ⟨mem', h3, h4⟩ := ih q p (2 * width) mf' (mem.setArr p pass.1) pass.2 hpq.symm (by simpa using hq) (by simpa using hp)
        (by rw [arr_setArr_other _ _ _ _ hpq.symm]; exact hql) (by rw [arr_setArr_same _ _ _ hp]; exact hplen)
        (by omega) (by omega) (by rw [Nat.pow_succ] at hmf; rw [Nat.mul_comm 2 width, Nat.mul_assoc, Nat.mul_comm 2]; exact hmf) (by omega)
      rw [arr_setArr_same _ _ _ hp] at h3 h4
      refine ⟨mem', ?_, ?_⟩
      · rw [h3]; simp only [sortLoopM, hql, hlt, if_true, hpass]
      · simp only [sortLoopM, hql, hlt, if_true, hpass]
        obtain ⟨k1, k2, k3, k4⟩ := h4
        refine ⟨by simpa using k1, k3, k2, ?_⟩
        intro c hc1 hc2
        rw [k4 c hc2 hc1, arr_setArr_other _ _ _ _ hc1]
    · have c : ¬ ((width : Int) < (n : Int)) := by omega
      simp only [c, decide_false, Bool.false_eq_true, if_false]
      have hs : sortLoopM ranker mf width w (mem.arr q) = (mem.arr q, w) := by
        cases mf <;> simp [sortLoopM, hql, hlt]
      rw [hs, copy_eq, view_whole mem q n hql]
      simp only [whole, Nat.min_self]
      rw [List.take_of_length_le (by omega), splice_full _ _ (by rw [hql, hpl])]
      refine ⟨_, rfl, by simp, arr_setArr_same _ _ _ hp, by rw [arr_setArr_other _ _ _ _ hpq.symm], ?_⟩
      intro c hc1 _
      rw [arr_setArr_other _ _ _ _ hc1]

/-- **`sorter_.sortValues` as written in sorter.go** (buffer allocation, initial copy, doubling passes with the two
    arrays swapping roles, final copy; index arithmetic with 64-bit wrap-around; every slice operation bounds-checked):
    for an array of fewer than 2^61 values it returns, leaves `sortValuesM` of the contents in the array, calls the
    ranker exactly as `sortValuesM` does and changes no other existing array -/
theorem sortValues_tie (ranker : σ → α → α → Rank × σ) (mem : Mem α) (a : Nat) (w : σ) (fuel : Nat)
    (ha : a < mem.length) (hint : IsInt64 (4 * ((mem.arr a).length : Int) + 4)) (hfuel : 2 * (mem.arr a).length + 4 ≤ fuel) :
    ∃ mem', Generated.sortValues ranker (whole a (mem.arr a).length) mem w fuel
        = some (.ok (mem', (sortValuesM ranker w (mem.arr a)).2))
      ∧ mem'.arr a = (sortValuesM ranker w (mem.arr a)).1
      ∧ ∀ c, c < mem.length → c ≠ a → mem'.arr c = mem.arr c := by
  generalize hn : (mem.arr a).length = n at *
  unfold Generated.sortValues
  have e1 : ((whole a n).len : Int) = (n : Int) := rfl
  simp only [e1, make_ok mem n (by unfold IsInt64 at *; omega), bindE_ok]
  rw [copy_eq]
  have hb : mem.length ≠ a := by omega
  have hva : (mem ++ [List.replicate n (default : α)]).arr a = mem.arr a := by rw [arr_append_new]; simp [hb.symm]
  have hvb : (mem ++ [List.replicate n (default : α)]).arr mem.length = List.replicate n default := by rw [arr_append_new]; simp
  rw [view_whole _ a n (by rw [hva]; exact hn), hva, hvb]
  simp only [whole, Nat.min_self]
  rw [List.take_of_length_le (by omega), splice_full _ _ (by simp [hn])]
  have hl : (mem ++ [List.replicate n (default : α)]).length = mem.length + 1 := by simp
  obtain ⟨mem', h1, h2, h3, h4, h5⟩ := sortLoop1_tie ranker n hint fuel a mem.length 1 n
    ((mem ++ [List.replicate n (default : α)]).setArr mem.length (mem.arr a)) w hb.symm (by simp; omega) (by simp)
    (by rw [arr_setArr_other _ _ _ _ hb.symm, hva]; exact hn) (by rw [arr_setArr_same _ _ _ (by simp)]; exact hn)
    (Nat.le_refl 1) (by omega) (by simpa using Nat.le_of_lt Nat.lt_two_pow_self) (by omega)
  rw [arr_setArr_same _ _ _ (by simp)] at h1 h3 h4
  have e2 : ((1 : Nat) : Int) = (1 : Int) := rfl
  rw [e2] at h1
  unfold whole at h1
  refine ⟨mem', ?_, ?_, ?_⟩
  · rw [h1]; simp [sortValuesM, hn]
  · rw [h3]; simp [sortValuesM, hn]
  · intro c hc hca
    rw [h5 c hca (by omega), arr_setArr_other _ _ _ _ (by omega), arr_append_new]
    simp [Nat.ne_of_lt hc]

/-- the exported `SortValues` as written in sorter.go is the call of `sortValues` and nothing else (no second code path
    for large inputs, no goroutine: a `go` statement is outside the translator's subset and makes it refuse) -/
theorem sortValuesPublic_tie (ranker : σ → α → α → Rank × σ) (values : Slice) (mem : Mem α) (w : σ) (fuel : Nat) :
    Generated.sortValuesPublic ranker values mem w fuel = Generated.sortValues ranker values mem w fuel := by
  unfold Generated.sortValuesPublic
  cases Generated.sortValues ranker values mem w fuel with
  | none => rfl
  | some e =>
    cases e with
    | error p => rfl
    | ok r => obtain ⟨m, w'⟩ := r; rfl

/-! ### `ReverseValues`, `ShuffleValues` -/

theorem tdiv2n (a : Nat) : Int.tdiv (a : Int) 2 = ((a / 2 : Nat) : Int) := by
  rw [Int.tdiv_eq_ediv_of_nonneg (by omega)]; omega

theorem reverseLoop_tie (p n : Nat) (hint : IsInt64 ((n : Int) + 1)) :
    ∀ (fuel k index : Nat) (mem : Mem α), index + k = n / 2 → (mem.arr p).length = n → p < mem.length → k < fuel →
      Generated.reverseValues_loop1 (whole p n) fuel (n : Int) ((n / 2 : Nat) : Int) (index : Int) mem
        = some (.ok (mem.setArr p (reverseLoop k index (mem.arr p)))) := by
  intro fuel
  induction fuel with
  | zero => intro k index mem _ _ _ hf; omega
  | succ f ih =>
    intro k index mem hk hl hp hf
    unfold Generated.reverseValues_loop1
    cases k with
    | zero =>
      have c : ¬ ((index : Int) < ((n / 2 : Nat) : Int)) := by omega
      simp only [c, decide_false, Bool.false_eq_true, if_false, reverseLoop, setArr_arr_self]
    | succ k =>
      have c : ((index : Int) < ((n / 2 : Nat) : Int)) := by omega
      simp only [c, decide_true, if_true]
      have ej : w64 (w64 ((n : Int) - (index : Int)) - 1) = ((n - index - 1 : Nat) : Int) := by
        rw [w64_id (x := (n : Int) - (index : Int)) (by unfold IsInt64 at *; omega), w64_id (by unfold IsInt64 at *; omega)]; omega
      rw [ej, w64_succ index (by unfold IsInt64 at *; omega)]
      clear ej
      have hj : n - index - 1 < n := by omega
      have hi : index < n := by omega
      rw [read_ok mem (whole p n) (n - index - 1) hj, read_ok mem (whole p n) index hi]
      simp only [bindE_ok]
      rw [write_ok mem (whole p n) index _ hi]
      simp only [bindE_ok]
      rw [write_ok _ (whole p n) (n - index - 1) _ hj]
      simp only [bindE_ok, whole, Nat.zero_add]
      rw [arr_setArr_same _ _ _ hp, setArr_setArr]
      have := ih k (index + 1) (mem.setArr p (((mem.arr p).set index ((mem.arr p).getD (n - index - 1) default)).set (n - index - 1)
        ((mem.arr p).getD index default))) (by omega) (by rw [arr_setArr_same _ _ _ hp]; simp [hl]) (by simpa using hp) (by omega)
      unfold whole at this
      rw [this, arr_setArr_same _ _ _ hp, setArr_setArr]
      simp only [reverseLoop, swap, hl]

/-- **`sorter_.ReverseValues` as written in sorter.go** = the model's `reverseValues` (which `C09_reverse` proves to be
    `List.reverse`) -/
theorem reverseValues_tie (mem : Mem α) (p : Nat) (fuel : Nat) (hp : p < mem.length)
    (hint : IsInt64 (((mem.arr p).length : Int) + 1)) (hfuel : (mem.arr p).length / 2 < fuel) :
    Generated.reverseValues (whole p (mem.arr p).length) mem fuel
      = some (.ok (mem.setArr p (Sorter.reverseValues (mem.arr p)))) := by
  unfold Generated.reverseValues Sorter.reverseValues
  have e1 : ((whole p (mem.arr p).length).len : Int) = ((mem.arr p).length : Int) := rfl
  simp only [e1, tdiv2n]
  exact reverseLoop_tie p _ hint fuel _ 0 mem (by omega) rfl hp hfuel

/-- the indices `randomizeIndex` hands out for the positions `i, i+1, …`, and its state afterwards -/
def randList (rnd : σ → Int → Int × σ) (size : Int) : Nat → σ → List Nat × σ
  | 0, w => ([], w)
  | k+1, w => (((rnd w size).1.toNat) :: (randList rnd size k (rnd w size).2).1, (randList rnd size k (rnd w size).2).2)

theorem shuffleLoop_tie (rnd : σ → Int → Int × σ) (p n : Nat) (hint : IsInt64 ((n : Int) + 1))
    (hr : ∀ w, 0 ≤ (rnd w (n : Int)).1 ∧ (rnd w (n : Int)).1 < (n : Int)) :
    ∀ (fuel k i : Nat) (mem : Mem α) (w : σ), i + k = n → (mem.arr p).length = n → p < mem.length → k < fuel →
      Generated.shuffleValues_loop1 rnd (whole p n) fuel (n : Int) (i : Int) mem w
        = some (.ok (mem.setArr p (shuffleLoop i (randList rnd (n : Int) k w).1 (mem.arr p)), (randList rnd (n : Int) k w).2)) := by
  intro fuel
  induction fuel with
  | zero => intro k i mem w _ _ _ hf; omega
  | succ f ih =>
    intro k i mem w hk hl hp hf
    unfold Generated.shuffleValues_loop1
    cases k with
    | zero =>
      have c : ¬ ((i : Int) < (n : Int)) := by omega
      simp only [c, decide_false, Bool.false_eq_true, if_false, randList, shuffleLoop, setArr_arr_self]
    | succ k =>
      have c : ((i : Int) < (n : Int)) := by omega
      simp only [c, decide_true, if_true]
      rw [w64_succ i (by unfold IsInt64 at *; omega)]
      obtain ⟨r0, r1⟩ := hr w
      generalize hrw : rnd w (n : Int) = rw at *
      obtain ⟨r, w1⟩ := rw
      simp only [] at r0 r1 ⊢
      obtain ⟨rn, rfl⟩ : ∃ k : Nat, r = (k : Int) := ⟨r.toNat, by omega⟩
      have hrn : rn < n := by omega
      have hi : i < n := by omega
      rw [read_ok mem (whole p n) rn hrn, read_ok mem (whole p n) i hi]
      simp only [bindE_ok]
      rw [write_ok mem (whole p n) i _ hi]
      simp only [bindE_ok]
      rw [write_ok _ (whole p n) rn _ hrn]
      simp only [bindE_ok, whole, Nat.zero_add]
      rw [arr_setArr_same _ _ _ hp, setArr_setArr]
      have := ih k (i + 1) (mem.setArr p (((mem.arr p).set i ((mem.arr p).getD rn default)).set rn ((mem.arr p).getD i default))) w1
        (by omega) (by rw [arr_setArr_same _ _ _ hp]; simp [hl]) (by simpa using hp) (by omega)
      unfold whole at this
      rw [this, arr_setArr_same _ _ _ hp, setArr_setArr]
      simp only [randList, hrw, shuffleLoop, swap, Int.toNat_natCast]

/-- **`sorter_.ShuffleValues` as written in sorter.go** = the model's `shuffleValues` on the indices that
    `randomizeIndex` (crypto/rand; assumed to answer within `[0, size)`) hands out -/
theorem shuffleValues_tie (rnd : σ → Int → Int × σ) (mem : Mem α) (p : Nat) (w : σ) (fuel : Nat) (hp : p < mem.length)
    (hint : IsInt64 (((mem.arr p).length : Int) + 1)) (hfuel : (mem.arr p).length < fuel)
    (hr : ∀ w, 0 ≤ (rnd w ((mem.arr p).length : Int)).1 ∧ (rnd w ((mem.arr p).length : Int)).1 < ((mem.arr p).length : Int)) :
    Generated.shuffleValues rnd (whole p (mem.arr p).length) mem w fuel
      = some (.ok (mem.setArr p (Sorter.shuffleValues (randList rnd ((mem.arr p).length : Int) (mem.arr p).length w).1 (mem.arr p)),
          (randList rnd ((mem.arr p).length : Int) (mem.arr p).length w).2)) := by
  unfold Generated.shuffleValues Sorter.shuffleValues
  have e1 : ((whole p (mem.arr p).length).len : Int) = ((mem.arr p).length : Int) := rfl
  simp only [e1]
  exact shuffleLoop_tie rnd p _ hint hr fuel _ 0 mem w (by omega) rfl hp hfuel

/-- non-vacuity: the hypotheses of `sortValues_tie` are met by a concrete memory -/
example := sortValues_tie (fun (_ : Unit) (x y : Int) => (rankInt x y, ())) [[5, 3, 9, 1, 3]] 0 () 40 (by decide)
  (by unfold IsInt64; simp [Mem.arr]) (by simp [Mem.arr])
example : (Generated.reverseValues (whole 0 4) [[(1 : Int), 2, 3, 4]] 10).map (fun r => r.map (fun q => q.arr 0))
    = some (.ok [4, 3, 2, 1]) := by rfl

end Tie
end CM
