/- binary search, insertion and removal keep a Set strictly sorted -/
import CollectionModel.Model.SetM
import CollectionModel.Lemmas.SeqLemmas
namespace CM
namespace SetM
open CM.Seq CM.SeqSpec

variable {α : Type} [Inhabited α]

/-- strictly ascending under the collator: every earlier value ranks Lesser than every later one -/
def SSorted (rank : α → α → Rank) (l : List α) : Prop := l.Pairwise (fun a b => rank a b = .lt)

/-- membership up to rank-equivalence -/
def mem (rank : α → α → Rank) (l : List α) (v : α) : Bool := l.any (fun x => rank v x == .eq)

section order
variable {rank : α → α → Rank} (h : TotalPreorder rank)
include h

theorem tp_lt_gt (a b : α) : rank a b = .lt ↔ rank b a = .gt := by
  rw [h.mirror a b]; cases rank a b <;> simp [Rank.flip]

theorem tp_eq_symm (a b : α) : rank a b = .eq ↔ rank b a = .eq := by
  rw [h.mirror a b]; cases rank a b <;> simp [Rank.flip]

theorem tp_lt_trans (a b c : α) (h1 : rank a b = .lt) (h2 : rank b c = .lt) : rank a c = .lt := by
  have hac : rank a c ≠ .gt := h.trans a b c (by rw [h1]; decide) (by rw [h2]; decide)
  cases hc : rank a c with
  | lt => rfl
  | gt => exact absurd hc hac
  | eq =>
    have hca : rank c a ≠ .gt := by rw [(tp_eq_symm h a c).mp hc]; decide
    have hcb := h.trans c a b hca (by rw [h1]; decide)
    exact absurd ((tp_lt_gt h b c).mp h2) hcb

theorem tp_eq_lt (a b c : α) (h1 : rank a b = .eq) (h2 : rank b c = .lt) : rank a c = .lt := by
  have hac : rank a c ≠ .gt := h.trans a b c (by rw [h1]; decide) (by rw [h2]; decide)
  cases hc : rank a c with
  | lt => rfl
  | gt => exact absurd hc hac
  | eq =>
    -- c ≤ a ≤ b contradicts b < c
    have hca : rank c a ≠ .gt := by rw [(tp_eq_symm h a c).mp hc]; decide
    have hcb := h.trans c a b hca (by rw [h1]; decide)
    exact absurd ((tp_lt_gt h b c).mp h2) hcb

theorem tp_lt_eq (a b c : α) (h1 : rank a b = .lt) (h2 : rank b c = .eq) : rank a c = .lt := by
  have hac : rank a c ≠ .gt := h.trans a b c (by rw [h1]; decide) (by rw [h2]; decide)
  cases hc : rank a c with
  | lt => rfl
  | gt => exact absurd hc hac
  | eq =>
    -- b ≤ c ≤ a contradicts a < b
    have hbc : rank b c ≠ .gt := by rw [h2]; decide
    have hca : rank c a ≠ .gt := by rw [(tp_eq_symm h a c).mp hc]; decide
    have hba := h.trans b c a hbc hca
    exact absurd ((tp_lt_gt h a b).mp h1) hba

theorem tp_gt_of (v b c : α) (h1 : rank v b = .gt) (h2 : rank c b = .lt) : rank v c = .gt := by
  have hbv : rank b v = .lt := (tp_lt_gt h b v).mpr h1
  exact (tp_lt_gt h c v).mp (tp_lt_trans h c b v h2 hbv)

theorem tp_eq_trans (a b c : α) (h1 : rank a b = .eq) (h2 : rank b c = .eq) : rank a c = .eq := by
  have hac : rank a c ≠ .gt := h.trans a b c (by rw [h1]; decide) (by rw [h2]; decide)
  have hca : rank c a ≠ .gt :=
    h.trans c b a (by rw [(tp_eq_symm h b c).mp h2]; decide) (by rw [(tp_eq_symm h a b).mp h1]; decide)
  cases hc : rank a c with
  | eq => rfl
  | gt => exact absurd hc hac
  | lt => exact absurd ((tp_lt_gt h a c).mp hc) hca

end order

theorem ssorted_getD {rank : α → α → Rank} {l : List α} (hs : SSorted rank l) (i j : Nat)
    (hij : i < j) (hj : j < l.length) : rank (l.getD i default) (l.getD j default) = .lt := by
  have hi : i < l.length := by omega
  have := (List.pairwise_iff_getElem.mp hs) i j hi hj hij
  simpa [List.getD_eq_getElem?_getD, hi, hj] using this

theorem getValue_nat (l : List α) (m : Nat) (h1 : 1 ≤ m) (h2 : m ≤ l.length) :
    getValue l (m : Int) = .ok (l.getD (m - 1) default) := by
  have hp : pos l.length (m : Int) = some (m - 1) := by
    unfold pos
    have : (1 : Int) ≤ (m : Int) ∧ (m : Int) ≤ (l.length : Int) := by omega
    simp only [this, and_self, if_true]
    congr 1; omega
  unfold getValue
  rw [toZeroBased_some _ _ _ hp]

/-- the loop invariant of `findIndex` (P5): the candidates are exactly positions
    `first..last`, everything before ranks below the probe, everything after above. -/
theorem findLoop_spec (rank : α → α → Rank) (h : TotalPreorder rank) (l : List α) (v : α)
    (hs : SSorted rank l) :
    ∀ fuel first last size, size < fuel → first + size = last + 1 → 1 ≤ first → last ≤ l.length →
      (∀ i, i + 1 < first → rank v (l.getD i default) = .gt) →
      (∀ i, last ≤ i → i < l.length → rank v (l.getD i default) = .lt) →
      ∃ k b, findLoop rank l v fuel first last size = some (.ok (k, b)) ∧
        (b = true → 1 ≤ k ∧ k ≤ l.length ∧ rank v (l.getD (k-1) default) = .eq) ∧
        (b = false → k ≤ l.length ∧ (∀ i, i < k → rank v (l.getD i default) = .gt) ∧
                       (∀ i, k ≤ i → i < l.length → rank v (l.getD i default) = .lt)) := by
  intro fuel
  induction fuel with
  | zero => intro _ _ _ hf; omega
  | succ f ih =>
    intro first last size hf hsz h1 hl hlo hhi
    unfold findLoop
    by_cases hz : size = 0
    · simp only [hz, if_true]
      refine ⟨last, false, rfl, by simp, fun _ => ⟨hl, ?_, hhi⟩⟩
      intro i hi; apply hlo; omega
    · simp only [hz, if_false]
      have hm1 : first ≤ first + size / 2 := Nat.le_add_right _ _
      have hm2 : first + size / 2 ≤ last := by
        have : size / 2 < size := Nat.div_lt_self (by omega) (by decide)
        omega
      rw [getValue_nat l (first + size / 2) (by omega) (by omega)]
      simp only
      cases hr : rank v (l.getD (first + size / 2 - 1) default) with
      | eq =>
        exact ⟨first + size / 2, true, rfl, fun _ => ⟨by omega, by omega, hr⟩, by simp⟩
      | lt =>
        simp only
        apply ih
        · have : size / 2 < size := Nat.div_lt_self (by omega) (by decide)
          omega
        · omega
        · exact h1
        · omega
        · exact hlo
        · intro i hi1 hi2
          by_cases hie : i = first + size / 2 - 1
          · subst hie; exact hr
          · exact tp_lt_trans h _ _ _ hr (ssorted_getD hs _ _ (by omega) hi2)
      | gt =>
        simp only
        apply ih
        · omega
        · omega
        · omega
        · exact hl
        · intro i hi
          by_cases hie : i = first + size / 2 - 1
          · subst hie; exact hr
          · exact tp_gt_of h _ _ _ hr (ssorted_getD hs _ _ (by omega) (by omega))
        · exact hhi

/-- **findIndex specification** in membership form -/
theorem findIndex_spec (rank : α → α → Rank) (h : TotalPreorder rank) (l : List α) (v : α)
    (hs : SSorted rank l) :
    ∃ k b, findIndex rank l v = some (.ok (k, b)) ∧
      (b = true → 1 ≤ k ∧ k ≤ l.length ∧ rank v (l.getD (k-1) default) = .eq) ∧
      (b = false → k ≤ l.length ∧ (∀ x ∈ l.take k, rank v x = .gt) ∧ (∀ x ∈ l.drop k, rank v x = .lt)) := by
  obtain ⟨k, b, h1, h2, h3⟩ := findLoop_spec rank h l v hs (l.length + 1) 1 l.length l.length
    (by omega) (by omega) (by omega) (by omega) (by intro i hi; omega) (by intro i h1 h2; omega)
  refine ⟨k, b, h1, h2, ?_⟩
  intro hb
  obtain ⟨hk, hlo, hhi⟩ := h3 hb
  refine ⟨hk, ?_, ?_⟩
  · intro x hx
    obtain ⟨i, hi, rfl⟩ := List.mem_take_iff_getElem.mp hx
    have hi' : i < k := by omega
    have hil : i < l.length := by omega
    have := hlo i hi'
    simpa [List.getD_eq_getElem?_getD, hil] using this
  · intro x hx
    obtain ⟨i, hi, rfl⟩ := List.mem_drop_iff_getElem.mp hx
    have hi2 : k + i < l.length := by omega
    have := hhi (k + i) (by omega) hi2
    have e : l[k + i]? = some l[k + i] := List.getElem?_eq_getElem hi2
    simpa [List.getD_eq_getElem?_getD, e] using this

end SetM
end CM

namespace CM
namespace SetM
open CM.Seq CM.SeqSpec
variable {α : Type} [Inhabited α]

theorem mem_iff {rank : α → α → Rank} {l : List α} {v : α} :
    mem rank l v = true ↔ ∃ x ∈ l, rank v x = .eq := by
  simp [mem]

theorem mem_false_iff {rank : α → α → Rank} {l : List α} {v : α} :
    mem rank l v = false ↔ ∀ x ∈ l, rank v x ≠ .eq := by
  simp [mem]

theorem getD_mem (l : List α) (i : Nat) (h : i < l.length) : l.getD i default ∈ l := by
  simp [List.getD_eq_getElem?_getD, h]

/-- `found` is exactly membership up to rank-equivalence -/
theorem findIndex_found (rank : α → α → Rank) (h : TotalPreorder rank) (l : List α) (v : α)
    (hs : SSorted rank l) :
    ∃ k, findIndex rank l v = some (.ok (k, mem rank l v)) ∧
      (mem rank l v = true → 1 ≤ k ∧ k ≤ l.length ∧ rank v (l.getD (k-1) default) = .eq) ∧
      (mem rank l v = false → k ≤ l.length ∧ (∀ x ∈ l.take k, rank v x = .gt) ∧ (∀ x ∈ l.drop k, rank v x = .lt)) := by
  obtain ⟨k, b, h1, h2, h3⟩ := findIndex_spec rank h l v hs
  have hb : b = mem rank l v := by
    cases b with
    | true =>
      obtain ⟨a1, a2, a3⟩ := h2 rfl
      exact (mem_iff.mpr ⟨_, getD_mem l (k-1) (by omega), a3⟩).symm
    | false =>
      obtain ⟨a1, a2, a3⟩ := h3 rfl
      symm; apply mem_false_iff.mpr
      intro x hx
      rw [← List.take_append_drop k l] at hx
      rcases List.mem_append.mp hx with hx | hx
      · rw [a2 x hx]; decide
      · rw [a3 x hx]; decide
  subst hb
  exact ⟨k, h1, h2, h3⟩

theorem ssorted_insert {rank : α → α → Rank} (h : TotalPreorder rank) (l : List α) (v : α) (k : Nat)
    (hs : SSorted rank l) (hlo : ∀ x ∈ l.take k, rank v x = .gt) (hhi : ∀ x ∈ l.drop k, rank v x = .lt) :
    SSorted rank (l.take k ++ v :: l.drop k) := by
  unfold SSorted at *
  rw [← List.take_append_drop k l] at hs
  obtain ⟨hA, hB, hAB⟩ := List.pairwise_append.mp hs
  refine List.pairwise_append.mpr ⟨hA, List.pairwise_cons.mpr ⟨hhi, hB⟩, ?_⟩
  intro a ha b hb
  rcases List.mem_cons.mp hb with rfl | hb
  · exact (tp_lt_gt h a b).mpr (hlo a ha)
  · exact hAB a ha b hb

/-- **AddValue** on a strictly sorted set -/
theorem addValue_spec (rank : α → α → Rank) (h : TotalPreorder rank) (l : List α) (v : α)
    (hs : SSorted rank l) :
    (mem rank l v = true → addValue rank l v = some (.ok l)) ∧
    (mem rank l v = false → ∃ k, k ≤ l.length ∧
        addValue rank l v = some (.ok (l.take k ++ v :: l.drop k)) ∧
        SSorted rank (l.take k ++ v :: l.drop k)) := by
  obtain ⟨k, hf, ht, hn⟩ := findIndex_found rank h l v hs
  constructor
  · intro hm
    simp [addValue, hf, bindR, hm]
  · intro hm
    obtain ⟨hk, hlo, hhi⟩ := hn hm
    refine ⟨k, hk, ?_, ssorted_insert h l v k hs hlo hhi⟩
    simp [addValue, hf, bindR, hm, insertValue_spec l k v hk]

theorem addValue_cases (rank : α → α → Rank) (h : TotalPreorder rank) (l : List α) (v : α)
    (hs : SSorted rank l) :
    ∃ l', addValue rank l v = some (.ok l') ∧ SSorted rank l' ∧
      ((mem rank l v = true ∧ l' = l) ∨ (mem rank l v = false ∧ l'.Perm (v :: l))) := by
  obtain ⟨h1, h2⟩ := addValue_spec rank h l v hs
  cases hm : mem rank l v with
  | true => exact ⟨l, h1 hm, hs, Or.inl ⟨rfl, rfl⟩⟩
  | false =>
    obtain ⟨k, hk, he, hso⟩ := h2 hm
    refine ⟨_, he, hso, Or.inr ⟨rfl, ?_⟩⟩
    have : (l.take k ++ v :: l.drop k).Perm (v :: (l.take k ++ l.drop k)) := List.perm_middle
    simpa using this

theorem eraseIdx_eq_filter {rank : α → α → Rank} (h : TotalPreorder rank) (l : List α) (v : α) (k : Nat)
    (hs : SSorted rank l) (h1 : 1 ≤ k) (h2 : k ≤ l.length) (he : rank v (l.getD (k-1) default) = .eq) :
    l.eraseIdx (k-1) = l.filter (fun x => rank v x != .eq) := by
  have hk : k - 1 < l.length := by omega
  have hm : l.getD (k-1) default = l[k-1] := by simp [List.getD_eq_getElem?_getD, hk]
  rw [hm] at he
  have hsplit : l = l.take (k-1) ++ l[k-1] :: l.drop k := by
    have := (List.take_append_drop (k-1) l).symm
    rw [List.drop_eq_getElem_cons hk] at this
    have e : k - 1 + 1 = k := by omega
    rw [e] at this; exact this
  have hs' := hs
  unfold SSorted at hs'
  rw [hsplit] at hs'
  obtain ⟨hA, hB, hAB⟩ := List.pairwise_append.mp hs'
  have hB' := List.pairwise_cons.mp hB
  rw [List.eraseIdx_eq_take_drop_succ]
  have e : k - 1 + 1 = k := by omega
  rw [e]
  conv => rhs; rw [hsplit]
  rw [List.filter_append, List.filter_cons]
  have hA2 : (l.take (k-1)).filter (fun x => rank v x != .eq) = l.take (k-1) := by
    apply List.filter_eq_self.mpr
    intro x hx
    have hxm : rank x l[k-1] = .lt := hAB x hx _ (by simp)
    have : rank x v = .lt := tp_lt_eq h x _ v hxm ((tp_eq_symm h v _).mp he)
    have : rank v x = .gt := (tp_lt_gt h x v).mp this
    simp [this]
  have hB2 : (l.drop k).filter (fun x => rank v x != .eq) = l.drop k := by
    apply List.filter_eq_self.mpr
    intro x hx
    have hmx : rank l[k-1] x = .lt := hB'.1 x hx
    have : rank v x = .lt := tp_eq_lt h v _ x he hmx
    simp [this]
  simp [hA2, hB2, he]

/-- **RemoveValue** on a strictly sorted set: exactly the members not rank-equal to `v` remain -/
theorem removeValue_spec (rank : α → α → Rank) (h : TotalPreorder rank) (l : List α) (v : α)
    (hs : SSorted rank l) :
    removeValue rank l v = some (.ok (l.filter (fun x => rank v x != .eq))) := by
  obtain ⟨k, hf, ht, hn⟩ := findIndex_found rank h l v hs
  cases hm : mem rank l v with
  | true =>
    obtain ⟨h1, h2, he⟩ := ht hm
    have hp : pos l.length (k : Int) = some (k - 1) := by
      unfold pos
      have : (1 : Int) ≤ (k : Int) ∧ (k : Int) ≤ (l.length : Int) := by omega
      simp only [this, and_self, if_true]
      congr 1; omega
    simp only [removeValue, hf, bindR, hm, if_true]
    rw [removeValue_some l _ _ hp, ← eraseIdx_eq_filter h l v k hs h1 h2 he]
    rfl
  | false =>
    have hall := mem_false_iff.mp hm
    have : l.filter (fun x => rank v x != .eq) = l := by
      apply List.filter_eq_self.mpr
      intro x hx; simpa using hall x hx
    simp [removeValue, hf, bindR, hm, this]

theorem ssorted_filter {rank : α → α → Rank} (l : List α) (p : α → Bool) (hs : SSorted rank l) :
    SSorted rank (l.filter p) := List.Pairwise.filter p hs

end SetM
end CM

namespace CM
namespace SetM
open CM.Seq CM.SeqSpec
variable {α : Type} [Inhabited α]

theorem mem_mono {rank : α → α → Rank} {l l' : List α} {x : α} (hsub : ∀ y ∈ l, y ∈ l')
    (h : mem rank l x = true) : mem rank l' x = true := by
  obtain ⟨y, hy, he⟩ := mem_iff.mp h
  exact mem_iff.mpr ⟨y, hsub y hy, he⟩

/-- what a sequence of additions produces -/
structure AddsSpec (rank : α → α → Rank) (l vs r : List α) : Prop where
  sorted : SSorted rank r
  sub : ∀ x ∈ r, x ∈ l ∨ x ∈ vs
  keeps : ∀ x ∈ l, x ∈ r
  covers : ∀ x ∈ vs, mem rank r x = true

theorem addValues_spec (rank : α → α → Rank) (h : TotalPreorder rank) :
    ∀ (vs l : List α), SSorted rank l → ∃ r, addValues rank l vs = some (.ok r) ∧ AddsSpec rank l vs r
  | [], l, hs => ⟨l, rfl, ⟨hs, fun x hx => Or.inl hx, fun x hx => hx, by simp⟩⟩
  | v :: vs, l, hs => by
    obtain ⟨l', ha, hs', hc⟩ := addValue_cases rank h l v hs
    obtain ⟨r, hr, sp⟩ := addValues_spec rank h vs l' hs'
    refine ⟨r, by simp [addValues, ha, bindR, hr], ⟨sp.sorted, ?_, ?_, ?_⟩⟩
    · intro x hx
      rcases sp.sub x hx with hx | hx
      · rcases hc with ⟨_, rfl⟩ | ⟨_, hp⟩
        · exact Or.inl hx
        · rcases List.mem_cons.mp (hp.mem_iff.mp hx) with rfl | hx
          · exact Or.inr (by simp)
          · exact Or.inl hx
      · exact Or.inr (by simp [hx])
    · intro x hx
      apply sp.keeps
      rcases hc with ⟨_, rfl⟩ | ⟨_, hp⟩
      · exact hx
      · exact hp.mem_iff.mpr (by simp [hx])
    · intro x hx
      rcases List.mem_cons.mp hx with rfl | hx
      · rcases hc with ⟨hm, rfl⟩ | ⟨_, hp⟩
        · exact mem_mono sp.keeps hm
        · have : x ∈ r := sp.keeps x (hp.mem_iff.mpr (by simp))
          exact mem_iff.mpr ⟨x, this, h.refl x⟩
      · exact sp.covers x hx

theorem removeValues_spec (rank : α → α → Rank) (h : TotalPreorder rank) :
    ∀ (vs l : List α), SSorted rank l →
      removeValues rank l vs = some (.ok (l.filter (fun x => vs.all (fun v => rank v x != .eq))))
  | [], l, _ => by
    have : l.filter (fun _ => true) = l := List.filter_eq_self.mpr (by simp)
    simp [removeValues, this]
  | v :: vs, l, hs => by
    simp only [removeValues, removeValue_spec rank h l v hs, bindR]
    rw [removeValues_spec rank h vs _ (ssorted_filter l _ hs), List.filter_filter]
    congr 3
    funext x
    simp [Bool.and_comm]

theorem containsValue_spec (rank : α → α → Rank) (h : TotalPreorder rank) (l : List α) (v : α)
    (hs : SSorted rank l) : containsValue rank l v = some (.ok (mem rank l v)) := by
  obtain ⟨k, hf, _, _⟩ := findIndex_found rank h l v hs
  simp [containsValue, hf, bindR]

theorem containsAny_spec (rank : α → α → Rank) (h : TotalPreorder rank) (l : List α) (hs : SSorted rank l) :
    ∀ vs : List α, containsAny rank l vs = some (.ok (vs.any (fun v => mem rank l v)))
  | [] => by simp [containsAny]
  | v :: vs => by
    simp only [containsAny, containsValue_spec rank h l v hs, bindR, List.any_cons]
    cases mem rank l v <;> simp [containsAny_spec rank h l hs vs]

theorem containsAll_spec (rank : α → α → Rank) (h : TotalPreorder rank) (l : List α) (hs : SSorted rank l) :
    ∀ vs : List α, containsAll rank l vs = some (.ok (vs.all (fun v => mem rank l v)))
  | [] => by simp [containsAll]
  | v :: vs => by
    simp only [containsAll, containsValue_spec rank h l v hs, bindR, List.all_cons]
    cases mem rank l v <;> simp [containsAll_spec rank h l hs vs]

/-- **GetIndex agrees with the order**: `k > 0` exactly when `GetValue(k)` ranks equal to `v` -/
theorem getIndex_spec (rank : α → α → Rank) (h : TotalPreorder rank) (l : List α) (v : α)
    (hs : SSorted rank l) :
    ∃ k, getIndex rank l v = some (.ok k) ∧
      (mem rank l v = true → 1 ≤ k ∧ k ≤ l.length ∧ rank v (l.getD (k-1) default) = .eq) ∧
      (mem rank l v = false → k = 0) := by
  obtain ⟨k, hf, ht, _⟩ := findIndex_found rank h l v hs
  cases hm : mem rank l v with
  | true => exact ⟨k, by simp [getIndex, hf, bindR, hm], fun _ => ht hm, by simp⟩
  | false => exact ⟨0, by simp [getIndex, hf, bindR, hm], by simp, fun _ => rfl⟩

end SetM
end CM

namespace CM
namespace SetM
open CM.Seq CM.SeqSpec
variable {α : Type} [Inhabited α]

theorem ssorted_nil (rank : α → α → Rank) : SSorted rank ([] : List α) := List.Pairwise.nil

/-- result of the `And` loop; `rank2` is the second operand's own collator -/
theorem andLoop_spec (rank rank2 : α → α → Rank) (h : TotalPreorder rank) (h2 : TotalPreorder rank2)
    (second : List α) (hsec : SSorted rank2 second) :
    ∀ (vs result : List α), SSorted rank result →
      ∃ r, andLoop rank rank2 second result vs = some (.ok r) ∧ SSorted rank r ∧
        (∀ x ∈ r, x ∈ result ∨ (x ∈ vs ∧ mem rank2 second x = true)) ∧
        (∀ x ∈ result, x ∈ r) ∧
        (∀ x ∈ vs, mem rank2 second x = true → mem rank r x = true)
  | [], result, hs => ⟨result, rfl, hs, fun x hx => Or.inl hx, fun x hx => hx, by simp⟩
  | v :: vs, result, hs => by
    simp only [andLoop, containsValue_spec rank2 h2 second v hsec, bindR]
    cases hm : mem rank2 second v with
    | false =>
      obtain ⟨r, hr, h1, h2', h3, h4⟩ := andLoop_spec rank rank2 h h2 second hsec vs result hs
      refine ⟨r, by simpa using hr, h1, ?_, h3, ?_⟩
      · intro x hx
        rcases h2' x hx with hx | ⟨hx, hb⟩
        · exact Or.inl hx
        · exact Or.inr ⟨by simp [hx], hb⟩
      · intro x hx hb
        rcases List.mem_cons.mp hx with rfl | hx
        · rw [hm] at hb; cases hb
        · exact h4 x hx hb
    | true =>
      obtain ⟨l', ha, hs', hc⟩ := addValue_cases rank h result v hs
      obtain ⟨r, hr, h1, h2', h3, h4⟩ := andLoop_spec rank rank2 h h2 second hsec vs l' hs'
      refine ⟨r, by simp [ha, bindR, hr], h1, ?_, ?_, ?_⟩
      · intro x hx
        rcases h2' x hx with hx | ⟨hx, hb⟩
        · rcases hc with ⟨_, rfl⟩ | ⟨_, hp⟩
          · exact Or.inl hx
          · rcases List.mem_cons.mp (hp.mem_iff.mp hx) with rfl | hx
            · exact Or.inr ⟨by simp, hm⟩
            · exact Or.inl hx
        · exact Or.inr ⟨by simp [hx], hb⟩
      · intro x hx
        apply h3
        rcases hc with ⟨_, rfl⟩ | ⟨_, hp⟩
        · exact hx
        · exact hp.mem_iff.mpr (by simp [hx])
      · intro x hx hb
        rcases List.mem_cons.mp hx with rfl | hx
        · rcases hc with ⟨hmr, rfl⟩ | ⟨_, hp⟩
          · exact mem_mono h3 hmr
          · exact mem_iff.mpr ⟨x, h3 x (hp.mem_iff.mpr (by simp)), h.refl x⟩
        · exact h4 x hx hb

theorem setAnd_spec (rank rank2 : α → α → Rank) (h : TotalPreorder rank) (h2 : TotalPreorder rank2)
    (a b : List α) (hb : SSorted rank2 b) :
    ∃ r, setAnd rank rank2 a b = some (.ok r) ∧ SSorted rank r ∧
      (∀ x ∈ r, x ∈ a ∧ mem rank2 b x = true) ∧ (∀ x ∈ a, mem rank2 b x = true → mem rank r x = true) := by
  obtain ⟨r, hr, h1, h2', _, h4⟩ := andLoop_spec rank rank2 h h2 b hb a [] (ssorted_nil rank)
  refine ⟨r, hr, h1, ?_, h4⟩
  intro x hx
  rcases h2' x hx with hx | hx
  · simp at hx
  · exact hx

theorem setOr_spec (rank : α → α → Rank) (h : TotalPreorder rank) (a b : List α) :
    ∃ r, setOr rank a b = some (.ok r) ∧ SSorted rank r ∧
      (∀ x ∈ r, x ∈ a ∨ x ∈ b) ∧ (∀ x ∈ a ++ b, mem rank r x = true) := by
  obtain ⟨r1, hr1, s1⟩ := addValues_spec rank h a [] (ssorted_nil rank)
  obtain ⟨r, hr, s2⟩ := addValues_spec rank h b r1 s1.sorted
  refine ⟨r, by simp [setOr, hr1, bindR, hr], s2.sorted, ?_, ?_⟩
  · intro x hx
    rcases s2.sub x hx with hx | hx
    · rcases s1.sub x hx with hx | hx
      · simp at hx
      · exact Or.inl hx
    · exact Or.inr hx
  · intro x hx
    rcases List.mem_append.mp hx with hx | hx
    · exact mem_mono s2.keeps (s1.covers x hx)
    · exact s2.covers x hx

theorem setSans_spec (rank : α → α → Rank) (h : TotalPreorder rank) (a b : List α) :
    ∃ r, setSans rank a b = some (.ok r) ∧ SSorted rank r ∧
      (∀ x ∈ r, x ∈ a ∧ mem rank b x = false) ∧ (∀ x ∈ a, mem rank b x = false → mem rank r x = true) := by
  obtain ⟨r1, hr1, s1⟩ := addValues_spec rank h a [] (ssorted_nil rank)
  refine ⟨r1.filter (fun x => b.all (fun v => rank v x != .eq)),
    by simp [setSans, hr1, bindR, removeValues_spec rank h b r1 s1.sorted],
    ssorted_filter _ _ s1.sorted, ?_, ?_⟩
  · intro x hx
    obtain ⟨hx1, hx2⟩ := List.mem_filter.mp hx
    refine ⟨?_, ?_⟩
    · rcases s1.sub x hx1 with hx | hx
      · simp at hx
      · exact hx
    · apply mem_false_iff.mpr
      intro y hy he
      have := List.all_eq_true.mp hx2 y hy
      rw [(tp_eq_symm h x y).mp he] at this
      simp at this
  · intro x hx hnb
    obtain ⟨y, hy, he⟩ := mem_iff.mp (s1.covers x hx)
    refine mem_iff.mpr ⟨y, List.mem_filter.mpr ⟨hy, ?_⟩, he⟩
    apply List.all_eq_true.mpr
    intro v hv
    have hxv := mem_false_iff.mp hnb v hv
    -- if v ~ y then x ~ y ~ v, contradicting x not in b
    cases hvy : rank v y with
    | eq => exact absurd (tp_eq_trans h x y v he ((tp_eq_symm h v y).mp hvy)) hxv
    | lt => simp
    | gt => simp

/-- `Xor`; the second operand's collator `rank2` must not separate values the first one's
    ranks equal (e.g. the same collator, or the reversed one) -/
theorem setXor_spec (rank rank2 : α → α → Rank) (h : TotalPreorder rank) (h2 : TotalPreorder rank2)
    (hcompat : ∀ x y, rank2 x y = .eq → rank x y = .eq) (a b : List α) :
    ∃ r, setXor rank rank2 a b = some (.ok r) ∧ SSorted rank r ∧
      (∀ x ∈ r, (x ∈ a ∧ mem rank b x = false) ∨ (x ∈ b ∧ mem rank2 a x = false)) ∧
      (∀ x ∈ a, mem rank b x = false → mem rank r x = true) ∧
      (∀ x ∈ b, mem rank2 a x = false → mem rank r x = true) := by
  obtain ⟨x1, hx1, s1, a1, c1⟩ := setSans_spec rank h a b
  obtain ⟨x2, hx2, s2, a2, c2⟩ := setSans_spec rank2 h2 b a
  obtain ⟨r, hr, s3, a3, c3⟩ := setOr_spec rank h x1 x2
  refine ⟨r, by simp [setXor, hx1, hx2, bindR, hr], s3, ?_, ?_, ?_⟩
  · intro x hx
    rcases a3 x hx with hx | hx
    · exact Or.inl (a1 x hx)
    · exact Or.inr (a2 x hx)
  · intro x hx hnb
    obtain ⟨y, hy, he⟩ := mem_iff.mp (c1 x hx hnb)
    obtain ⟨z, hz, he2⟩ := mem_iff.mp (c3 y (List.mem_append.mpr (Or.inl hy)))
    exact mem_iff.mpr ⟨z, hz, tp_eq_trans h x y z he he2⟩
  · intro x hx hna
    obtain ⟨y, hy, he⟩ := mem_iff.mp (c2 x hx hna)
    obtain ⟨z, hz, he2⟩ := mem_iff.mp (c3 y (List.mem_append.mpr (Or.inr hy)))
    exact mem_iff.mpr ⟨z, hz, tp_eq_trans h x y z (hcompat x y he) he2⟩

end SetM
end CM
