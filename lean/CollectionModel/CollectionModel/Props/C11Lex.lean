/-
  C11, lexical level — the expression definitions of Syntax.cdsn for the literal kinds that
  have an unbounded set of spellings, proved for EVERY spelling:

    float:  sign? (zero | ordinal) '.' base10+ (('e'|'E') sign ordinal)?       C11_scan_float
    string: '"' (ESCAPE | ~['"' CONTROL])* '"'                                 C11_scan_string
    rune:   "'" (ESCAPE | any single character except the quote) "'"           C11_scan_rune

  (ordinal, integer, hexadecimal: Props/C11.lean).  Each theorem says that the recogniser of
  the scanner model matches exactly the whole literal, whatever follows it, provided what
  follows cannot extend the literal (a digit or an exponent after a float).
-/
import CollectionModel.Props.C11
namespace CM
open CM.Cdcn

theorem isDigit_of_19 (d : Nat) (h : isDigit19 d = true) : isDigit d = true := by
  have := (isDigit19_iff d).mp h
  have e0 : ch '0' = 48 := rfl
  have e9 : ch '9' = 57 := rfl
  simp [isDigit, e0, e9]; omega

theorem isDigit_iff (d : Nat) : isDigit d = true ↔ 48 ≤ d ∧ d ≤ 57 := by
  have e0 : ch '0' = 48 := rfl
  have e9 : ch '9' = 57 := rfl
  simp [isDigit, e0, e9]

/-- `(?:zero_|ordinal_)` on the integer part of a float: it is followed by the point -/
theorem zeroOrOrdinal_int (ip tail : List Nat)
    (hip : ip = [48] ∨ ∃ d ds, ip = d :: ds ∧ isDigit19 d = true ∧ ∀ c ∈ ds, isDigit c = true) :
    mZeroOrOrdinal (ip ++ 46 :: tail) = some ip.length := by
  have e0 : ch '0' = 48 := rfl
  rcases hip with rfl | ⟨d, ds, rfl, hd, hds⟩
  · simp [mZeroOrOrdinal, e0]
  · have hdr := (isDigit19_iff d).mp hd
    have hd0 : (d == ch '0') = false := by rw [e0]; simp; omega
    have hr : ∀ c, (46 :: tail).head? = some c → isDigit c = false := by
      intro c hc; simp at hc; subst hc; decide
    have := C11_scan_ordinal d ds (46 :: tail) hd hds hr
    simp only [List.cons_append] at this ⊢
    simp only [mZeroOrOrdinal, hd0, Bool.false_eq_true, if_false, this, List.length_cons]
    congr 1; omega

/-- the exponent part, or its absence -/
inductive ExpPart : List Nat → List Nat → Prop
  | none (rest : List Nat) (h : ∀ c, rest.head? = some c → isDigit c = false ∧ c ≠ 101 ∧ c ≠ 69) : ExpPart [] rest
  | some (e s d : Nat) (ds rest : List Nat) (he : e = 101 ∨ e = 69) (hs : isSign s = true) (hd : isDigit19 d = true)
      (hds : ∀ c ∈ ds, isDigit c = true) (hr : ∀ c, rest.head? = some c → isDigit c = false) : ExpPart (e :: s :: d :: ds) rest

theorem mExponent_none (rest : List Nat) (h : ∀ c, rest.head? = some c → isDigit c = false ∧ c ≠ 101 ∧ c ≠ 69) :
    mExponent rest = none := by
  have ee : ch 'e' = 101 := rfl
  have eE : ch 'E' = 69 := rfl
  match rest with
  | [] => rfl
  | [_] => rfl
  | c :: s :: r =>
    have := h c rfl
    simp [mExponent, ee, eE, this.2.1, this.2.2]

theorem mExponent_some (e s d : Nat) (ds rest : List Nat) (he : e = 101 ∨ e = 69) (hs : isSign s = true) (hd : isDigit19 d = true)
    (hds : ∀ c ∈ ds, isDigit c = true) (hr : ∀ c, rest.head? = some c → isDigit c = false) :
    mExponent (e :: s :: d :: ds ++ rest) = some (3 + ds.length) := by
  have ee : ch 'e' = 101 := rfl
  have eE : ch 'E' = 69 := rfl
  have hord := C11_scan_ordinal d ds rest hd hds hr
  have hcond : ((e == ch 'e' || e == ch 'E') && isSign s) = true := by
    rw [ee, eE, hs]; rcases he with rfl | rfl <;> simp
  simp only [List.cons_append] at hord ⊢
  simp only [mExponent, hcond, if_true, hord, Option.map_some]
  congr 1; omega

/-- a leading sign shifts the float recogniser by one rune -/
theorem mFloat_sign (sg c : Nat) (t : List Nat) (hsg : isSign sg = true) (hc : isSign c = false) :
    mFloat (sg :: c :: t) = (mFloat (c :: t)).map (· + 1) := by
  unfold mFloat
  simp only [hsg, hc, if_true, Bool.false_eq_true, if_false, List.drop_succ_cons, List.drop_zero, Nat.zero_add]
  cases hz : mZeroOrOrdinal (c :: t) with
  | none => rfl
  | some n =>
    simp only [Nat.add_comm 1 n, List.drop_succ_cons]
    cases hd : List.drop n (c :: t) with
    | nil => rfl
    | cons d rest =>
      simp only
      split
      · split
        · rfl
        · have e1 : ∀ k, List.drop (n + 1 + 1 + k) (sg :: c :: t) = List.drop (n + 1 + k) (c :: t) := by
            intro k; rw [show n + 1 + 1 + k = (n + 1 + k) + 1 by omega, List.drop_succ_cons]
          rw [e1]
          cases mExponent (List.drop (n + 1 + spanLen isDigit rest) (c :: t)) with
          | none => simp; omega
          | some e => simp; omega
      · rfl

/-- **lexical rule `float`** (`sign? scalar exponent?`, `scalar: (zero | ordinal) fraction`), for every spelling -/
theorem C11_scan_float (sign : Option Nat) (ip : List Nat) (f : Nat) (fs ex rest : List Nat)
    (hs : ∀ s, sign = some s → isSign s = true)
    (hip : ip = [48] ∨ ∃ d ds, ip = d :: ds ∧ isDigit19 d = true ∧ ∀ c ∈ ds, isDigit c = true)
    (hf : isDigit f = true) (hfs : ∀ c ∈ fs, isDigit c = true) (hex : ExpPart ex rest) :
    mFloat (sign.toList ++ (ip ++ 46 :: (f :: fs ++ (ex ++ rest)))) = some (sign.toList.length + ip.length + 1 + (1 + fs.length) + ex.length) := by
  have edot : ch '.' = 46 := rfl
  -- the head of the integer part is not a sign
  obtain ⟨c0, r0, hc0, hns0⟩ : ∃ c r, ip = c :: r ∧ isSign c = false := by
    rcases hip with rfl | ⟨d, ds, rfl, hd, _⟩
    · exact ⟨48, [], rfl, by decide⟩
    · refine ⟨d, ds, rfl, ?_⟩
      cases h : isSign d with
      | false => rfl
      | true => have := (isSign_iff d).mp h; have := (isDigit19_iff d).mp hd; omega
  -- the digits of the fraction end where the exponent part or the rest begins
  have hspan : spanLen isDigit (f :: fs ++ (ex ++ rest)) = 1 + fs.length := by
    have hr : ∀ c, (ex ++ rest).head? = some c → isDigit c = false := by
      intro c hc
      cases hex with
      | none _ h => simp at hc; exact (h c hc).1
      | some e s d ds _ he _ _ _ _ =>
        simp at hc; subst hc
        rcases he with rfl | rfl <;> decide
    have := spanLen_all isDigit (f :: fs) (ex ++ rest) (by intro c hc; rcases List.mem_cons.mp hc with rfl | hc; exact hf; exact hfs c hc) hr
    simpa [Nat.add_comm] using this
  have hexp : mExponent (ex ++ rest) = if ex = [] then none else some ex.length := by
    cases hex with
    | none _ h => simp [mExponent_none rest h]
    | some e s d ds _ he hs' hd hds hr =>
      have := mExponent_some e s d ds rest he hs' hd hds hr
      simp only [List.cons_append] at this ⊢
      rw [this]; simp; omega
  have hzo := zeroOrOrdinal_int ip (f :: fs ++ (ex ++ rest)) hip
  -- without a sign
  have core : mFloat (ip ++ 46 :: (f :: fs ++ (ex ++ rest))) = some (ip.length + 1 + (1 + fs.length) + ex.length) := by
    have hlen : ip.length = (c0 :: r0).length := by rw [hc0]
    unfold mFloat
    rw [show ip ++ 46 :: (f :: fs ++ (ex ++ rest)) = c0 :: (r0 ++ 46 :: (f :: fs ++ (ex ++ rest))) by rw [hc0]; rfl]
    simp only [hns0, Bool.false_eq_true, if_false]
    rw [show c0 :: (r0 ++ 46 :: (f :: fs ++ (ex ++ rest))) = ip ++ 46 :: (f :: fs ++ (ex ++ rest)) by rw [hc0]; rfl]
    simp only [List.drop_zero, hzo, Nat.zero_add]
    have hd1 : List.drop ip.length (ip ++ 46 :: (f :: fs ++ (ex ++ rest))) = 46 :: (f :: fs ++ (ex ++ rest)) := List.drop_left
    simp only [hd1, edot, beq_self_eq_true, if_true, hspan]
    have hd2 : List.drop (ip.length + 1 + (1 + fs.length)) (ip ++ 46 :: (f :: fs ++ (ex ++ rest))) = ex ++ rest := by
      have : ip ++ 46 :: (f :: fs ++ (ex ++ rest)) = (ip ++ 46 :: f :: fs) ++ (ex ++ rest) := by simp
      rw [this]
      exact List.drop_left' (by simp; omega)
    have hne : ¬ ((1 + fs.length == 0) = true) := by simp
    simp only [hne, if_false, hd2, hexp]
    by_cases hexnil : ex = []
    · subst hexnil; simp
    · simp [hexnil]
  cases sign with
  | none => simpa using core
  | some sg =>
    have hsg := hs sg rfl
    simp only [Option.toList_some, List.cons_append, List.nil_append, List.length_cons, List.length_nil]
    rw [hc0] at core ⊢
    simp only [List.cons_append] at core ⊢
    rw [mFloat_sign sg c0 _ hsg hns0, core]
    simp; omega

/-! ### strings -/

/-- the entry of the dynamic programme for the text itself -/
def sb (s : List Nat) : Option Nat := (strBody s).headD none

theorem strBody_getD : ∀ (s : List Nat) (j : Nat), (strBody s).getD j none = sb (s.drop j)
  | [], j => by cases j <;> simp [strBody, sb]
  | c :: r, 0 => by simp only [sb, strBody, List.drop_zero]; rfl
  | c :: r, j+1 => by
    have := strBody_getD r j
    simp only [strBody, List.getD_cons_succ, List.drop_succ_cons]
    exact this

/-- one step of the dynamic programme, in terms of `sb` of the suffixes -/
theorem sb_cons (c : Nat) (r : List Nat) :
    sb (c :: r) =
      ((match mEscape (c :: r) with
        | some k => (sb (r.drop (k - 1))).map (· + k)
        | none => none).orElse fun _ =>
       (if c != ch '"' && c != 10 then (sb r).map (· + 1) else none).orElse fun _ =>
       (if c == ch '"' then some 1 else none)) := by
  simp only [sb, strBody, List.headD_cons]
  cases mEscape (c :: r) with
  | none => rfl
  | some k =>
    simp only
    have := strBody_getD r (k - 1)
    simp only [sb] at this
    rw [this]

/-- a valid escape sequence: the scanner's escape rule matches exactly it, whatever follows -/
def ValidEsc (e : List Nat) : Prop := 2 ≤ e.length ∧ ∀ rest, mEscape (e ++ rest) = some e.length

/-- the pieces of a string body: an ordinary character or an escape sequence -/
inductive StrItem
  | chr (c : Nat)
  | esc (e : List Nat)

def StrItem.ok : StrItem → Prop
  | .chr c => c ≠ 34 ∧ c ≠ 10 ∧ c ≠ 92
  | .esc e => ValidEsc e

def StrItem.text : StrItem → List Nat
  | .chr c => [c]
  | .esc e => e

def flat : List StrItem → List Nat
  | [] => []
  | i :: is => i.text ++ flat is

theorem mEscape_not_backslash (c : Nat) (r : List Nat) (h : c ≠ 92) : mEscape (c :: r) = none := by
  have e : ch '\\' = 92 := rfl
  cases r with
  | nil => rfl
  | cons d r => simp [mEscape, e, h]

theorem sb_body : ∀ (items : List StrItem) (rest : List Nat), (∀ i ∈ items, i.ok) →
    sb (flat items ++ 34 :: rest) = some ((flat items).length + 1)
  | [], rest, _ => by
    have eq : ch '"' = 34 := rfl
    simp only [flat, List.nil_append, List.length_nil, Nat.zero_add]
    rw [sb_cons, mEscape_not_backslash 34 rest (by decide)]
    simp [eq]
  | .chr c :: items, rest, h => by
    have eq : ch '"' = 34 := rfl
    have hc : c ≠ 34 ∧ c ≠ 10 ∧ c ≠ 92 := h (.chr c) (by simp)
    have ih := sb_body items rest (fun i hi => h i (by simp [hi]))
    simp only [flat, StrItem.text, List.cons_append, List.nil_append, List.length_cons]
    rw [sb_cons, mEscape_not_backslash c _ hc.2.2, ih]
    simp [eq, hc.1, hc.2.1]
  | .esc e :: items, rest, h => by
    obtain ⟨hlen, hesc⟩ : ValidEsc e := h (.esc e) (by simp)
    have ih := sb_body items rest (fun i hi => h i (by simp [hi]))
    simp only [flat, StrItem.text, List.append_assoc, List.length_append]
    obtain ⟨c, r, rfl⟩ : ∃ c r, e = c :: r := by
      cases e with
      | nil => simp at hlen
      | cons c r => exact ⟨c, r, rfl⟩
    have hm := hesc (flat items ++ 34 :: rest)
    simp only [List.cons_append] at hm ⊢
    rw [sb_cons, hm]
    simp only [List.length_cons, Nat.add_sub_cancel]
    have hd : List.drop r.length (r ++ (flat items ++ 34 :: rest)) = flat items ++ 34 :: rest := List.drop_left
    rw [hd, ih]
    simp; omega

/-- **lexical rule `string`** (`'"' (ESCAPE | ~['"' CONTROL])* '"'`): every string literal – any
    sequence of ordinary characters and escape sequences between quotes – is matched entirely,
    whatever follows the closing quote -/
theorem C11_scan_string (items : List StrItem) (rest : List Nat) (h : ∀ i ∈ items, i.ok) :
    mString (34 :: (flat items ++ 34 :: rest)) = some ((flat items).length + 2) := by
  have eq : ch '"' = 34 := rfl
  have := sb_body items rest h
  simp only [sb, List.headD_eq_head?_getD] at this
  simp [mString, eq, this]

/-- the escapes of the grammar are valid: the simple ones ... -/
theorem validEsc_simple (c : Nat) (h : c ∈ [97, 98, 102, 110, 114, 116, 118, 39, 34, 92]) : ValidEsc [92, c] := by
  refine ⟨by simp, fun rest => ?_⟩
  simp only [List.mem_cons, List.mem_nil_iff, or_false] at h
  rcases h with rfl | rfl | rfl | rfl | rfl | rfl | rfl | rfl | rfl | rfl <;>
    simp [mEscape, ch, hexN]

/-- ... and `\xHH` (likewise `\uHHHH`, `\UHHHHHHHH`) -/
theorem validEsc_x (a b : Nat) (ha : isHex a = true) (hb : isHex b = true) : ValidEsc [92, 120, a, b] := by
  refine ⟨by simp, fun rest => ?_⟩
  simp [mEscape, ch, hexN, ha, hb]

example : mString ("\"a\\n\\x41\\\"b\" tail".toList.map ch) = some 12 := by decide

/-! ### runes -/

/-- **lexical rule `rune`**, an ordinary character between quotes -/
theorem C11_scan_rune_char (c : Nat) (rest : List Nat) (h : c ≠ 39 ∧ c ≠ 10 ∧ c ≠ 92) :
    mRune (39 :: c :: 39 :: rest) = some 3 := by
  have eq : ch '\'' = 39 := rfl
  simp [mRune, eq, mEscape_not_backslash c (39 :: rest) h.2.2, h.1, h.2.1]

/-- **lexical rule `rune`**, an escape sequence between quotes -/
theorem C11_scan_rune_esc (e rest : List Nat) (h : ValidEsc e) :
    mRune (39 :: (e ++ 39 :: rest)) = some (e.length + 2) := by
  have eq : ch '\'' = 39 := rfl
  have hd : List.drop e.length (e ++ 39 :: rest) = 39 :: rest := List.drop_left
  simp [mRune, eq, h.2 (39 :: rest), hd]; omega

/-! ### the token kinds: which recogniser wins in `scanTokens` -/

/-- a text starting with a double quote is a string token or no token at all -/
theorem C11_token_string (r : List Nat) : matchToken (34 :: r) = (mString (34 :: r)).map fun n => (TT.string, n) := by
  have hx : mHex (34 :: r) = none := by
    unfold mHex; split
    · rename_i z x r' hh; simp at hh; simp [hh.1.symm, ch]
    · rfl
  simp [matchToken, matchers, firstMatch, mBoolean, mComplex, mDelimiter, mEol, mFloat, hx, mInteger, mNil, mRune, mSpace, mType,
    mZeroOrOrdinal, mOrdinal, isSign, isDigit19, lit, startsWith, ch, List.isPrefixOf, spanLen]
  cases mString (34 :: r) <;> rfl

/-- a text starting with a single quote is a rune token or no token at all -/
theorem C11_token_rune (r : List Nat) : matchToken (39 :: r) = (mRune (39 :: r)).map fun n => (TT.rune, n) := by
  have hx : mHex (39 :: r) = none := by
    unfold mHex; split
    · rename_i z x r' hh; simp at hh; simp [hh.1.symm, ch]
    · rfl
  have hs : mString (39 :: r) = none := by simp [mString, ch]
  simp [matchToken, matchers, firstMatch, mBoolean, mComplex, mDelimiter, mEol, mFloat, hx, mInteger, mNil, mSpace, mType, hs,
    mZeroOrOrdinal, mOrdinal, isSign, isDigit19, lit, startsWith, ch, List.isPrefixOf, spanLen]
  cases mRune (39 :: r) <;> rfl

/-- a text the float recogniser matches, starting with a sign or a digit, is a float token -/
theorem C11_token_float (c : Nat) (r : List Nat) (n : Nat) (hc : isSign c = true ∨ isDigit c = true)
    (hm : mFloat (c :: r) = some n) : matchToken (c :: r) = some (.float, n) := by
  have hr : c = 43 ∨ c = 45 ∨ (48 ≤ c ∧ c ≤ 57) := by
    rcases hc with h | h
    · have := (isSign_iff c).mp h; omega
    · have := (isDigit_iff c).mp h; omega
  have e1 : ¬ c = 102 := by omega
  have e2 : ¬ c = 116 := by omega
  have e3 : ¬ c = 40 := by omega
  have e4 : ¬ c = 91 := by omega
  have e5 : ¬ c = 93 := by omega
  have e6 : ¬ c = 41 := by omega
  have e7 : ¬ c = 58 := by omega
  have e8 : ¬ c = 44 := by omega
  have e9 : ¬ c = 10 := by omega
  have f1 : ¬ 102 = c := by omega
  have f2 : ¬ 116 = c := by omega
  simp [matchToken, matchers, firstMatch, mBoolean, mComplex, mDelimiter, mEol, hm, lit, startsWith, ch, List.isPrefixOf,
    e1, e2, e3, e4, e5, e6, e7, e8, e9, f1, f2]

/-! ### complex numbers -/

/-- the spellings of `float`: sign? (zero | ordinal) '.' base10+ exponent? -/
def IsFloatText (F : List Nat) : Prop :=
  ∃ (sign : Option Nat) (ip : List Nat) (f : Nat) (fs ex : List Nat),
    F = sign.toList ++ (ip ++ 46 :: (f :: fs ++ ex)) ∧
    (∀ s, sign = some s → isSign s = true) ∧
    (ip = [48] ∨ ∃ d ds, ip = d :: ds ∧ isDigit19 d = true ∧ ∀ c ∈ ds, isDigit c = true) ∧
    isDigit f = true ∧ (∀ c ∈ fs, isDigit c = true) ∧
    (ex = [] ∨ ∃ e s d ds, ex = e :: s :: d :: ds ∧ (e = 101 ∨ e = 69) ∧ isSign s = true ∧ isDigit19 d = true ∧ ∀ c ∈ ds, isDigit c = true)

/-- what follows cannot extend a float: not a digit, not the start of an exponent -/
def FollowOk (rest : List Nat) : Prop := ∀ c, rest.head? = some c → isDigit c = false ∧ c ≠ 101 ∧ c ≠ 69

theorem float_text_match (F rest : List Nat) (hF : IsFloatText F) (hr : FollowOk rest) : mFloat (F ++ rest) = some F.length := by
  obtain ⟨sign, ip, f, fs, ex, rfl, hs, hip, hf, hfs, hex⟩ := hF
  have hexp : ExpPart ex rest := by
    rcases hex with rfl | ⟨e, s, d, ds, rfl, he, hs', hd, hds⟩
    · exact ExpPart.none rest hr
    · exact ExpPart.some e s d ds rest he hs' hd hds (fun c hc => (hr c hc).1)
  have := C11_scan_float sign ip f fs ex rest hs hip hf hfs hexp
  simp only [List.append_assoc, List.cons_append] at this ⊢
  rw [this]
  simp [List.length_append]; omega

/-- **lexical rule `complex`** (`"(" float sign float "i)"`), for every spelling of the two floats -/
theorem C11_scan_complex (F1 F2 : List Nat) (sg : Nat) (rest : List Nat) (h1 : IsFloatText F1) (h2 : IsFloatText F2)
    (hsg : isSign sg = true) :
    mComplex (40 :: (F1 ++ sg :: (F2 ++ 105 :: 41 :: rest))) = some (1 + F1.length + 1 + F2.length + 2) := by
  have ep : ch '(' = 40 := rfl
  have ei : ch 'i' = 105 := rfl
  have eq : ch ')' = 41 := rfl
  have hsgr := (isSign_iff sg).mp hsg
  have m1 := float_text_match F1 (sg :: (F2 ++ 105 :: 41 :: rest)) h1 (by
    intro c hc; simp at hc; subst hc
    rcases hsgr with rfl | rfl <;> decide)
  have m2 := float_text_match F2 (105 :: 41 :: rest) h2 (by intro c hc; simp at hc; subst hc; decide)
  have d1 : List.drop F1.length (F1 ++ sg :: (F2 ++ 105 :: 41 :: rest)) = sg :: (F2 ++ 105 :: 41 :: rest) := List.drop_left
  have d2 : List.drop F2.length (F2 ++ 105 :: 41 :: rest) = 105 :: 41 :: rest := List.drop_left
  simp [mComplex, ep, ei, eq, m1, d1, hsg, m2, d2]

example : IsFloatText ("-12.50E+3".toList.map ch) :=
  ⟨some 45, [49, 50], 53, [48], [69, 43, 51], by decide, by intro s h; cases h; decide,
    Or.inr ⟨49, [50], rfl, by decide, by decide⟩, by decide, by decide, Or.inr ⟨69, 43, 51, [], rfl, Or.inr rfl, by decide, by decide, by simp⟩⟩

end CM
