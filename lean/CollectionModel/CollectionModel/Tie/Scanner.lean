/-
  T2 obligations over the scanner's token patterns regenerated from cdcn/scanner.go
  (Generated/Scanner.lean): the constant-folded regular expression handed to
  regexp.MustCompile for every token type, and the order in which `scanTokens` tries the
  token types.  The recognisers of Model/Cdcn/Scan.lean were written from exactly these
  texts (one recogniser per pattern, named below) and `matchers` lists them in exactly this
  order.  Any change to a pattern or to the order breaks an obligation here; the check then
  searches for a source text on which the real scanner and the recognisers disagree.
-/
import CollectionModel.Generated.Scanner
import CollectionModel.Model.Cdcn.Scan
namespace CM
namespace Tie
open CM.Cdcn

/-- the pattern texts the recognisers implement, with the recogniser and its token type -/
def expectedPatterns : List (String × String × TT) := [
  ("BooleanToken",     "^(?:false|true)", .boolean),                                        -- mBoolean
  ("ComplexToken",     "^(?:\\(([+-]?(?:(?:0|[1-9][0-9]*)\\.[0-9]+)(?:[eE][+-][1-9][0-9]*)?)[+-]([+-]?(?:(?:0|[1-9][0-9]*)\\.[0-9]+)(?:[eE][+-][1-9][0-9]*)?)i\\))", .complex),  -- mComplex
  ("DelimiterToken",   "^(?:\\[|\\]|\\(|\\)|:|,)", .delimiter),                              -- mDelimiter
  ("EOLToken",         "^(?:\\n)", .eol),                                                    -- mEol
  ("FloatToken",       "^(?:[+-]?(?:(?:0|[1-9][0-9]*)\\.[0-9]+)(?:[eE][+-][1-9][0-9]*)?)", .float),   -- mFloat
  ("HexadecimalToken", "^(?:0x[0-9a-f]+)", .hexadecimal),                                    -- mHex
  ("IntegerToken",     "^(?:0|[+-]?[1-9][0-9]*)", .integer),                                 -- mInteger
  ("NilToken",         "^(?:nil)", .nil),                                                    -- mNil
  ("RuneToken",        "^(?:'(\\\\(?:(?:x[0-9a-f]{2}|u[0-9a-f]{4}|U[0-9a-f]{8})|[abfnrtv'\"\\\\])|[^'\\n])')", .rune),   -- mRune, mEscape
  ("SpaceToken",       "^(?:[ ]+)", .space),                                                 -- mSpace
  ("StringToken",      "^(?:\"(\\\\(?:(?:x[0-9a-f]{2}|u[0-9a-f]{4}|U[0-9a-f]{8})|[abfnrtv'\"\\\\])|[^\"\\n])*\")", .string),   -- mString, strBody
  ("TypeToken",        "^(?:Array|Catalog|List|Map|Queue|Set|Stack)", .type)                 -- mType
]

/-- every token pattern in the source is the text its recogniser was written from -/
theorem scanner_patterns_tie :
    Generated.matcherPatterns = expectedPatterns.map (fun e => (e.1, e.2.1)) := by
  set_option maxRecDepth 100000 in decide

/-- `scanTokens` tries the token types in the order of the model's `matchers` list -/
theorem scanner_order_tie :
    Generated.scanOrder = expectedPatterns.map (·.1) ∧ matchers.map (·.1) = expectedPatterns.map (·.2.2) := by decide

end Tie
end CM
