import CollectionModel.Model.Basic
import CollectionModel.Model.Seq
import CollectionModel.Model.Sorter
import CollectionModel.Model.SeqOps
import CollectionModel.Spec.SeqSpec
import CollectionModel.Lemmas.SeqLemmas
import CollectionModel.Lemmas.SorterLemmas
import CollectionModel.Props.C01
