/- driver for collator lines (C07, C08) -/
import Driver.Json
import CollectionModel.Generated.Facts
import CollectionModel.Model.Collator
open Lean CM CM.Coll

namespace Drv

def parseFl (j : Json) : Fl := if bool j "nan" then .nan else .num (int j "k")

partial def parseVal (j : Json) : Val :=
  match str j "t" with
  | "undef" => .undef
  | "bool" => .bool (bool j "b")
  | "byte" => .byte (nat j "n")
  | "uns" => .uns (nat j "n")
  | "int" => .int (int j "i")
  | "rune" => .rune (int j "i")
  | "flt" => .flt (parseFl (fld j "f"))
  | "cpx" => .cpx { re := parseFl (fld j "re"), im := parseFl (fld j "im"), abs := parseFl (fld j "abs"), ph := parseFl (fld j "ph") }
  | "str" => .str (nats j "s")
  | "arr" => .arr (bool j "cls") (bool j "nil") ((arr j "xs").toList.map parseVal)
  | "gomap" => .gomap (bool j "cls") (bool j "nil") ((arr j "es").toList.map fun e =>
      match e.getArr? with
      | .ok a => (parseVal (a.getD 0 Json.null), parseVal (a.getD 1 Json.null))
      | _ => (.undef, .undef))
  | "coll" => .coll (match str j "k" with
      | "catalog" => .catalog | "queue" => .queue | "set" => .set | "stack" => .stack | _ => .list)
      ((arr j "xs").toList.map parseVal)
  | "assoc" => .assoc (parseVal (fld j "k")) (parseVal (fld j "v"))
  | _ => .undef

/-- classification of the hard leaves a value contains: NaN anywhere, else complex anywhere -/
partial def hardTag : Val → Nat    -- 2 = NaN, 1 = complex, 0 = neither
  | .flt .nan => 2
  | .flt _ => 0
  | .cpx z => if z.re == .nan || z.im == .nan then 2 else 1
  | .arr _ _ xs => xs.foldl (fun m x => Nat.max m (hardTag x)) 0
  | .coll _ xs => xs.foldl (fun m x => Nat.max m (hardTag x)) 0
  | .gomap _ _ es => es.foldl (fun m e => Nat.max m (Nat.max (hardTag e.1) (hardTag e.2))) 0
  | .assoc k v => Nat.max (hardTag k) (hardTag v)
  | _ => 0

def tagStr (n : Nat) : String := if n == 2 then "nan" else if n == 1 then "cpx" else "plain"

inductive IRes | rank (r : Rank) | eq (b : Bool) | depth | otherPanic | hang
  deriving DecidableEq

def parseIRes (j : Json) (isRank : Bool) : IRes :=
  match str j "out" with
  | "ret" => if isRank then (match str j "r" with | "lt" => .rank .lt | "gt" => .rank .gt | _ => .rank .eq)
             else .eq (bool j "r")
  | "panic" => if str j "pc" == "depth" then .depth else .otherPanic
  | _ => .hang

def ofRank : Out Rank → IRes
  | .ok r => .rank r | .depth => .depth | .hang => .hang
def ofCmp : Out Bool → IRes
  | .ok b => .eq b | .depth => .depth | .hang => .hang

def iresStr : IRes → String
  | .rank r => r.toString | .eq b => toString b | .depth => "depth-panic" | .otherPanic => "other-panic" | .hang => "hang"

def isRet : IRes → Bool
  | .rank _ => true | .eq _ => true | _ => false

def le (r : IRes) : Bool := r == .rank .lt || r == .rank .eq

/-- how many collection levels a traversal of the value enters (associations are read through
    their getters and are not a level) -/
partial def levels : Val → Nat
  | .arr _ _ xs => 1 + xs.foldl (fun m x => Nat.max m (levels x)) 0
  | .coll _ xs => 1 + xs.foldl (fun m x => Nat.max m (levels x)) 0
  | .gomap _ _ es => 1 + es.foldl (fun m e => Nat.max m (Nat.max (levels e.1) (levels e.2))) 0
  | .assoc k v => Nat.max (levels k) (levels v)
  | _ => 0

/-- first failing check of a list of (name, ok) -/
def firstFail (l : List (String × Bool)) : Option String := (l.find? (fun p => !p.2)).map (·.1)

def collLine (j : Json) : String :=
  let a := parseVal (fld j "a")
  let b := parseVal (fld j "b")
  let max := nat j "max"
  let d0 := nat j "d0"
  let pid := str j "pid"
  let tag := tagStr (Nat.max (hardTag a) (hardTag b))
  let f := fuelFor a b
  let g := fun (k : String) (isRank : Bool) => parseIRes (fld j k) isRank
  let rab := g "rab" true; let rba := g "rba" true; let raa := g "raa" true; let rbb := g "rbb" true
  let cab := g "cab" false; let cba := g "cba" false; let caa := g "caa" false
  let rab2 := g "rab2" true; let cab2 := g "cab2" false
  let mrab := ofRank (rank max f d0 a b)
  let ro := bool j "rankonly"
  let corr := firstFail [
    ("rab", mrab == rab), ("rba", ofRank (rank max f d0 b a) == rba),
    ("raa", ofRank (rank max f d0 a a) == raa), ("rbb", ofRank (rank max f d0 b b) == rbb),
    ("cab", ro || ofCmp (cmp max f d0 a b) == cab), ("cba", ro || ofCmp (cmp max f d0 b a) == cba),
    ("caa", ofCmp (cmp max f d0 a a) == caa),
    ("rab2", ofRank (rank max f 0 a b) == rab2 || max != Generated.collatorDefaultMaximum), ("cab2", ro || ofCmp (cmp max f 0 a b) == cab2 || max != Generated.collatorDefaultMaximum)]
  let depthsOk := ["rab", "rba", "raa", "rbb", "cab", "cba", "caa"].all (fun k => nat (fld j k) "d1" == d0)
  let noCrash := [rab, rba, raa, rbb, cab, cba, caa].all (fun r => r != .hang && r != .otherPanic)
  let allRet := [rab, rba, raa, rbb, cab, cba, caa].all isRet
  -- the depth-limit panic is for values nested beyond the limit only (fresh collator: d0 = 0)
  let withinLimit := d0 == 0 && levels a ≤ max && levels b ≤ max
  let noEarlyDepth := !withinLimit || [rab, rba, raa, rbb, cab, cba, caa].all (fun r => r != .depth)
  let spec : Option String :=
    if pid == "C07" then firstFail [
      ("no-hang-or-crash", noCrash),
      ("depth-panic-within-limit", noEarlyDepth),
      ("depth-restored", depthsOk),
      ("refl", !isRet raa || raa == .rank .eq), ("refl", !isRet rbb || rbb == .rank .eq),
      ("mirror", !(isRet rab && isRet rba) || (match rab, rba with | .rank x, .rank y => y == x.flip | _, _ => true)),
      ("undef-first", !(a matches .undef) || (b matches .undef) || rab == .rank .lt || !isRet rab),
      ("independent-of-copies-and-history", max != Generated.collatorDefaultMaximum || !(isRet rab && isRet rab2) || rab == rab2)]
    else firstFail [
      ("no-hang-or-crash", noCrash),
      ("depth-panic-within-limit", noEarlyDepth),
      ("depth-restored", depthsOk),
      ("refl", !isRet caa || caa == .eq true),
      ("symm", !(isRet cab && isRet cba) || cab == cba),
      ("agrees-with-rank", ro || !(isRet cab && isRet rab) || (cab == .eq true) == (rab == .rank .eq)),
      ("rebuilt-copy-equal", !bool j "copy" || !isRet cab || cab == .eq true),
      ("single-mutation-unequal", !bool j "mut" || !isRet cab || cab == .eq false),
      ("independent-of-copies-and-history", max != Generated.collatorDefaultMaximum || !(isRet cab && isRet cab2) || cab == cab2)]
  let _ := allRet
  verdict corr.isNone spec.isNone s!"{pid}/{spec.getD "ok"}/{tag}"
    s!"corr-break:{corr.getD "-"} model rab={iresStr mrab}"

def coll3Line (j : Json) : String :=
  let a := parseVal (fld j "a"); let b := parseVal (fld j "b"); let c := parseVal (fld j "c")
  let max := nat j "max"
  let pid := str j "pid"
  let tag := tagStr (Nat.max (hardTag a) (Nat.max (hardTag b) (hardTag c)))
  let f := fuelFor a b + fuelFor b c
  let g := fun (k : String) (isRank : Bool) => parseIRes (fld j k) isRank
  let rab := g "rab" true; let rbc := g "rbc" true; let rac := g "rac" true
  let cab := g "cab" false; let cbc := g "cbc" false; let cac := g "cac" false
  let corr := firstFail [
    ("rab", ofRank (rank max f 0 a b) == rab), ("rbc", ofRank (rank max f 0 b c) == rbc), ("rac", ofRank (rank max f 0 a c) == rac),
    ("cab", ofCmp (cmp max f 0 a b) == cab), ("cbc", ofCmp (cmp max f 0 b c) == cbc), ("cac", ofCmp (cmp max f 0 a c) == cac)]
  let spec : Option String :=
    if pid == "C07" then firstFail [
      ("trans", !(isRet rab && isRet rbc && isRet rac) || !(le rab && le rbc) || le rac)]
    else firstFail [
      ("trans", !(isRet cab && isRet cbc && isRet cac) || !(cab == .eq true && cbc == .eq true) || cac == .eq true)]
  verdict corr.isNone spec.isNone s!"{pid}/{spec.getD "ok"}/{tag}" s!"corr-break:{corr.getD "-"}"

/-- unfolding of the self-containing lists built by the harness, deep enough to pass any limit -/
def unfoldCyc (shape : Nat) : Nat → Val
  | 0 => .coll .list []
  | n+1 =>
    let inner := unfoldCyc shape n
    match shape with
    | 0 => .coll .list [inner]
    | 1 => .coll .list [.int 1, inner, .str [120]]
    | 2 => .coll .list [.coll .list [inner]]
    | _ => .coll .list [.coll .list [.coll .list [.int 2, inner]]]

def collcycLine (j : Json) : String :=
  let pid := str j "pid"
  let max := nat j "max"
  let shape := nat j "shape"
  let rvv := parseIRes (fld j "rvv") true
  let cvv := parseIRes (fld j "cvv") false
  let spec := firstFail [
    ("self-containing-rank-must-end-in-depth-panic", pid != "C08" || rvv == .depth),
    ("self-containing-compare-must-end-in-depth-panic", pid != "C08" || cvv == .depth),
    ("collator-usable-after-depth-panic", pid != "C08" ||
        (parseIRes (fld j "after_r") true == .rank .lt && parseIRes (fld j "after_c") false == .eq true)),
    ("other-collator-unaffected", pid != "C08" || parseIRes (fld j "other_c") false == .eq true),
    ("depth-restored", nat (fld j "rvv") "d1" == 0 && nat (fld j "cvv") "d1" == 0)]
  let corr := if shape ≤ 3 then
      let v := unfoldCyc shape (max + 3)
      ofRank (rank max (fuelFor v v) 0 v v) == rvv && ofCmp (cmp max (fuelFor v v) 0 v v) == cvv
    else true
  verdict corr spec.isNone s!"{pid}/{spec.getD "ok"}/cyclic" ""

end Drv
