package main

import (
	"bufio"
	"encoding/json"
	"os"
)

func jInts(v any) []int {
	arr, _ := v.([]any)
	out := make([]int, 0, len(arr))
	for _, x := range arr {
		if f, ok := x.(float64); ok {
			out = append(out, int(f))
		}
	}
	return out
}

func jStr(m map[string]any, k string) string {
	s, _ := m[k].(string)
	return s
}

func jInt(m map[string]any, k string) int {
	f, _ := m[k].(float64)
	return int(f)
}

// replayFile re-executes recorded lines on the current tree: the recorded
// pre-state is rebuilt through the public constructors, then the recorded
// operation is applied and a fresh line is emitted.
func replayFile(path string, out *Out) {
	f, err := os.Open(path)
	if err != nil {
		panic(err)
	}
	defer f.Close()
	sc := bufio.NewScanner(f)
	sc.Buffer(make([]byte, 1<<20), 1<<26)
	for sc.Scan() {
		var m map[string]any
		if json.Unmarshal(sc.Bytes(), &m) != nil {
			continue
		}
		replayLine(m, out)
	}
}

func replayLine(m map[string]any, out *Out) {
	switch jStr(m, "k") {
	case "seq":
		replaySeq(m, out)
	case "stack":
		t := &stackTarget{out: out, dflt: jInt(m, "dflt")}
		pre := jInts(m["pre"])
		if jStr(m, "op") != "make" && jStr(m, "op") != "makeFrom" && jStr(m, "op") != "makeWithCapacity" {
			t.line(0, "makeWithCapacity", []int{max(jInt(m, "cap"), 1)}, nil)
			for i := len(pre) - 1; i >= 0; i-- {
				t.line(0, "addValue", []int{pre[i]}, nil)
			}
		}
		t.line(0, jStr(m, "op"), jInts(m["a"]), jInts(m["vs"]))
	case "iter":
		vals := jInts(m["vals"])
		src := jStr(m, "src")
		if src == "catalog" || src == "map" {
			for i := range vals {
				vals[i] = vals[i] % 1000
			}
		}
		h := makeIterSource(src, vals).iter()
		h.toSlot(jInt(m, "slot"))
		a := jInts(m["a"])
		k := 0
		if len(a) > 0 {
			k = a[0]
		}
		iterLine(out, 0, src, h, iterMove{jStr(m, "op"), k}, nil)
	default:
		if f, ok := replayers[jStr(m, "k")]; ok {
			f(m, out)
		}
	}
}

var replayers = map[string]func(map[string]any, *Out){}

func replaySeq(m map[string]any, out *Out) {
	o := seqOp{op: jStr(m, "op"), a: jInts(m["a"]), vs: jInts(m["vs"]), ws: jInts(m["ws"]), alias: jStr(m, "alias")}
	pre := jInts(m["pre"])
	kind := jStr(m, "tg")
	switch jStr(m, "ty") {
	case "string":
		replaySeqT(stringCodec(), kind, pre, o, out)
	case "float64":
		replaySeqT(floatCodec(), kind, pre, o, out)
	case "[]int":
		replaySeqT(sliceCodec(), kind, pre, o, out)
	case "any":
		replaySeqT(anyCodec(), kind, pre, o, out)
	default:
		replaySeqT(intCodec(), kind, pre, o, out)
	}
}

func replaySeqT[V any](c Codec[V], kind string, pre []int, o seqOp, out *Out) {
	t := &seqTarget[V]{c: c, kind: kind}
	if o.op != "make" && o.op != "concatenate" {
		t.line(out, "seq", 0, seqOp{op: "make", vs: pre}, nil)
	}
	t.line(out, "seq", 0, o, nil)
}
