/-
  Model for property C19: independence of distinct instances across goroutines.

  Memory is a map from locations to values.  One *action* is an atomic piece of
  a call (everything a goroutine does between two scheduling points that
  matter): it may read the locations in `rd`, may write the locations in `wr`,
  and its effect is a function of the memory.  A goroutine is a list of
  actions; a schedule is an interleaving of the goroutines' lists.

  What ties this to the code is the *sharing table* (Generated/Sharing.lean,
  regenerated from the Go source on every run): which struct fields are written
  after construction, and which objects with such fields are reachable from
  more than one instance (class-level fields, package-level variables).  The
  theorems here say what follows once the table shows no shared mutable
  location: every schedule gives the result of running the goroutines one
  after another.
-/
namespace CM
namespace Footprint

abbrev Loc := Nat
abbrev Mem := Loc → Int

structure Act where
  rd : List Loc
  wr : List Loc
  eff : Mem → Mem

/-- an action is well behaved when it changes nothing outside `wr` and what it
    writes depends only on the locations it may access -/
structure Act.WB (a : Act) : Prop where
  frame : ∀ (m : Mem) (l : Loc), l ∉ a.wr → a.eff m l = m l
  loc : ∀ (m m' : Mem), (∀ l, l ∈ a.rd ∨ l ∈ a.wr → m l = m' l) → ∀ l ∈ a.wr, a.eff m l = a.eff m' l

/-- no write of one meets an access of the other -/
def Act.indep (a b : Act) : Prop :=
  (∀ l ∈ a.wr, l ∉ b.rd ∧ l ∉ b.wr) ∧ (∀ l ∈ b.wr, l ∉ a.rd ∧ l ∉ a.wr)

def run (l : List Act) (m : Mem) : Mem := l.foldl (fun m a => a.eff m) m

/-- interleavings of any number of goroutines: repeatedly take the next action
    of some goroutine -/
inductive Interleave : List (List Act) → List Act → Prop
  | done (ts : List (List Act)) (h : ∀ t ∈ ts, t = []) : Interleave ts []
  | step (pre post : List (List Act)) (a : Act) (t : List Act) (l : List Act)
      (h : Interleave (pre ++ t :: post) l) : Interleave (pre ++ (a :: t) :: post) (a :: l)

/-! ### the class registries: `List[V]()`, `Set[V]()`, `Collator[V]()`, ... -/

/-- `xxxClass` maps: type name → class id (0 = absent).  One accessor call under
    the registry mutex is one atomic action: look up, create if absent, return. -/
structure Registry where
  classes : List (Nat × Nat)      -- (type, class id)
  next : Nat                      -- id of the next class object to be allocated
  deriving Repr, DecidableEq

def Registry.find (r : Registry) (ty : Nat) : Option Nat := (r.classes.find? (·.1 == ty)).map (·.2)

/-- the accessor: returns (registry', class) -/
def Registry.access (r : Registry) (ty : Nat) : Registry × Nat :=
  match r.find ty with
  | some c => (r, c)
  | none => ({ classes := (ty, r.next) :: r.classes, next := r.next + 1 }, r.next)

/-- results of a sequence of accessor calls (any schedule of atomic calls is a sequence) -/
def Registry.accessAll : Registry → List Nat → Registry × List Nat
  | r, [] => (r, [])
  | r, ty :: tys =>
    let (r1, c) := r.access ty
    let (r2, cs) := Registry.accessAll r1 tys
    (r2, c :: cs)

end Footprint
end CM
