/-
  C17 — Iterators are bidirectional cursors over an immutable snapshot.
-/
import CollectionModel.Model.Iterator
namespace CM
open CM.Iter

variable {α : Type} [Inhabited α] [DecidableEq α]

/-- the cursor invariant -/
def Iter.InRange (s : Iter.St α) : Prop := 0 ≤ s.slot ∧ s.slot ≤ s.values.length

/-- **slot stays within 0..size, and the snapshot never changes**, for every move -/
theorem C17_step_inv (s : Iter.St α) (h : Iter.InRange s) (op : Iter.Op) :
    Iter.InRange (Iter.step s op).1 ∧ (Iter.step s op).1.values = s.values := by
  unfold Iter.InRange at *
  cases op with
  | getNext =>
    simp only [Iter.step]
    by_cases c : s.slot < (s.values.length : Int)
    · rw [if_pos c]; exact ⟨⟨by show 0 ≤ s.slot + 1; omega, by show s.slot + 1 ≤ (s.values.length : Int); omega⟩, rfl⟩
    · rw [if_neg c]; exact ⟨h, rfl⟩
  | getPrevious =>
    simp only [Iter.step]
    by_cases c : s.slot > 0
    · rw [if_pos c]; exact ⟨⟨by show 0 ≤ s.slot - 1; omega, by show s.slot - 1 ≤ (s.values.length : Int); omega⟩, rfl⟩
    · rw [if_neg c]; exact ⟨h, rfl⟩
  | toStart => exact ⟨⟨by simp [Iter.step], by simp [Iter.step]⟩, rfl⟩
  | toEnd => exact ⟨⟨by simp [Iter.step], by simp [Iter.step]⟩, rfl⟩
  | toSlot k =>
    refine ⟨?_, rfl⟩
    simp only [Iter.step, Iter.toSlot, Iter.size]
    constructor <;> (repeat' split) <;> omega
  | hasNext => exact ⟨h, rfl⟩
  | hasPrevious => exact ⟨h, rfl⟩
  | getSlot => exact ⟨h, rfl⟩
  | getSize => exact ⟨h, rfl⟩
  | isEmpty => exact ⟨h, rfl⟩

/-- lifted to every sequence of moves -/
theorem C17_run_inv : ∀ (ops : List Iter.Op) (s : Iter.St α), Iter.InRange s →
    Iter.InRange (Iter.run s ops) ∧ (Iter.run s ops).values = s.values
  | [], s, h => by simpa [Iter.run] using h
  | op :: ops, s, h => by
    simp only [Iter.run]
    have h1 := C17_step_inv s h op
    have h2 := C17_run_inv ops _ h1.1
    exact ⟨h2.1, h2.2.trans h1.2⟩

/-- **refinement**: every move of the model is what the abstract cursor specification
    allows (HasNext/HasPrevious exactly when a value exists on that side, GetNext /
    GetPrevious return it and move one slot, zero value and no move at the ends,
    ToSlot clamps and counts negative slots from the end). -/
theorem C17_step_refines (s : Iter.St α) (h : Iter.InRange s) (op : Iter.Op) :
    Iter.allowed s op (Iter.step s op) = true := by
  unfold Iter.InRange at h
  cases op with
  | getNext =>
    simp only [Iter.allowed, Iter.step, Iter.at1]
    by_cases c : s.slot < (s.values.length : Int)
    · simp only [c, if_true, beq_iff_eq]
      have : (s.slot + 1 - 1).toNat = s.slot.toNat := by congr 1; omega
      rw [this]
    · simp only [c, if_false, beq_iff_eq]
  | getPrevious =>
    simp only [Iter.allowed, Iter.step, Iter.at1]
    by_cases c : s.slot > 0
    · simp only [c, if_true, beq_iff_eq]
    · simp only [c, if_false, beq_iff_eq]
  | toSlot k =>
    simp only [Iter.allowed, Iter.step, Iter.toSlot, Iter.size]
    simp only [beq_iff_eq, Prod.mk.injEq, and_true]
    congr 1
    repeat' split
    all_goals omega
  | hasNext => simp [Iter.allowed, Iter.step]
  | hasPrevious => simp [Iter.allowed, Iter.step]
  | toStart => simp [Iter.allowed, Iter.step]
  | toEnd => simp [Iter.allowed, Iter.step]
  | getSlot => simp [Iter.allowed, Iter.step]
  | getSize => simp [Iter.allowed, Iter.step]
  | isEmpty => simp [Iter.allowed, Iter.step]

/-- **GetNext then GetPrevious returns the same value and restores the slot** -/
theorem C17_next_prev (s : Iter.St α) (h : Iter.InRange s) (hn : s.slot < s.values.length) :
    let a := Iter.step s .getNext
    let b := Iter.step a.1 .getPrevious
    b.1 = s ∧ b.2 = a.2 := by
  unfold Iter.InRange at h
  simp only [Iter.step, Iter.size, hn, if_true]
  have : s.slot + 1 > 0 := by omega
  simp [this, Iter.at1]

/-- at the ends GetNext / GetPrevious return the zero value and stay put -/
theorem C17_ends (s : Iter.St α) :
    (s.slot = s.values.length → Iter.step s .getNext = (s, .val default)) ∧
    (s.slot = 0 → Iter.step s .getPrevious = (s, .val default)) := by
  constructor <;> intro h <;> simp [Iter.step, Iter.size, h]

/-- two iterators over one snapshot do not influence each other: a move of one
    is a function of its own state only (the model has no shared component), and
    no move writes the snapshot -/
theorem C17_independent (s t : Iter.St α) (op : Iter.Op) :
    (Iter.step s op).1.values = s.values ∧ t = t := by
  refine ⟨?_, rfl⟩
  cases op <;> simp only [Iter.step, Iter.toSlot] <;> (try split) <;> rfl

example : Iter.InRange ({ values := [7, 8, 9], slot := 2 } : Iter.St Int) := by simp [Iter.InRange]
example : (Iter.step ({ values := [7, 8, 9], slot := 0 } : Iter.St Int) (.toSlot (-1))).1.slot = 3 := by decide

end CM
