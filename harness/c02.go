package main

// C02 (ordered duplicate-free Set) and C15 (set algebra).

import (
	age "github.com/craterdog/go-collection-framework/v4/agent"
	col "github.com/craterdog/go-collection-framework/v4/collection"
)

// idCollator ranks values of type V through their canonical ids.
type idCollator[V any] struct {
	c    Codec[V]
	rank func(a, b int) age.Rank
}

func (x *idCollator[V]) GetClass() age.CollatorClassLike[V] { return age.Collator[V]() }
func (x *idCollator[V]) CompareValues(a, b V) bool {
	return x.rank(x.c.to(a), x.c.to(b)) == age.EqualRank
}
func (x *idCollator[V]) RankValues(a, b V) age.Rank { return x.rank(x.c.to(a), x.c.to(b)) }
func (x *idCollator[V]) GetDepth() int               { return 0 }
func (x *idCollator[V]) GetMaximum() int             { return 16 }

func setSetCodec() Codec[col.SetLike[int]] {
	return Codec[col.SetLike[int]]{"set[int]", 0,
		func(id int) col.SetLike[int] {
			switch {
			case id == 0:
				return nil
			case id%2 == 1:
				return col.Set[int](notation).MakeFromArray([]int{(id + 1) / 2})
			default:
				return col.Set[int](notation).MakeFromArray([]int{id / 2, id/2 + 100})
			}
		},
		func(v col.SetLike[int]) int {
			if v == nil {
				return 0
			}
			a := v.AsArray()
			if len(a) == 1 {
				return 2*a[0] - 1
			}
			return 2 * a[0]
		}}
}

type setTarget[V any] struct {
	c   Codec[V]
	rk  string
	set col.SetLike[V]
	out *Out
	n   int
}

func (t *setTarget[V]) collator() age.CollatorLike[V] { return t.collatorFor(t.rk) }

func (t *setTarget[V]) collatorFor(rk string) age.CollatorLike[V] {
	switch rk {
	case "rev":
		return &idCollator[V]{t.c, sortRankers["rev"]}
	case "coarse":
		return &idCollator[V]{t.c, sortRankers["coarse"]}
	}
	return nil
}

func (t *setTarget[V]) newSet(ids []int) col.SetLike[V] { return t.newSetWith(t.rk, ids) }

func (t *setTarget[V]) newSetWith(rk string, ids []int) col.SetLike[V] {
	class := col.Set[V](notation)
	var s col.SetLike[V]
	if cl := t.collatorFor(rk); cl != nil {
		s = class.MakeWithCollator(cl)
		for _, id := range ids {
			s.AddValue(t.c.from(id))
		}
		return s
	}
	if len(ids)%2 == 0 {
		return class.MakeFromArray(fromIDs(t.c, ids))
	}
	return class.MakeFromSequence(col.List[V](notation).MakeFromArray(fromIDs(t.c, ids)))
}

func (t *setTarget[V]) contents() []int {
	if t.set == nil {
		return []int{}
	}
	return ints(toIDs(t.c, t.set.AsArray()))
}

func (t *setTarget[V]) operand(o seqOp) col.Sequential[V] {
	if o.alias == "self" {
		return t.set
	}
	if len(o.alias) > 4 && o.alias[:4] == "set:" {
		return t.newSetWith(o.alias[4:], o.vs) // a Set ordered by another collator
	}
	return col.Array[V](notation).MakeFromArray(fromIDs(t.c, o.vs))
}

func (t *setTarget[V]) line(caseID int, o seqOp) callResult {
	c := t.c
	pre := t.contents()
	if o.alias == "self" {
		o.vs = pre
	}
	if len(o.alias) > 4 && o.alias[:4] == "set:" {
		// the protocol ships the operand in its own iteration order
		o.vs = ints(toIDs(c, t.newSetWith(o.alias[4:], o.vs).AsArray()))
	}
	rk2 := t.rk
	if len(o.alias) > 4 && o.alias[:4] == "rk2:" {
		rk2 = o.alias[4:]
		o.ws = sortedFor(rk2, o.ws)
	}
	arg := func(i int) int {
		if i < len(o.a) {
			return o.a[i]
		}
		return 0
	}
	var res any
	extra := J{}
	cr := guarded(opTimeout, func() {
		switch o.op {
		case "make":
			if len(o.alias) > 4 && o.alias[:4] == "set:" {
				// constructed from a Set that is ordered by another collator (the new set has the default one)
				t.set = col.Set[V](notation).MakeFromSequence(t.newSetWith(o.alias[4:], o.vs))
			} else {
				t.set = t.newSet(o.vs)
			}
		case "addValue":
			t.set.AddValue(c.from(arg(0)))
		case "addValues":
			t.set.AddValues(t.operand(o))
		case "removeValue":
			t.set.RemoveValue(c.from(arg(0)))
		case "removeValues":
			t.set.RemoveValues(t.operand(o))
		case "removeAll":
			t.set.RemoveAll()
		case "containsValue":
			res = J{"b": t.set.ContainsValue(c.from(arg(0)))}
		case "containsAny":
			res = J{"b": t.set.ContainsAny(t.operand(o))}
		case "containsAll":
			res = J{"b": t.set.ContainsAll(t.operand(o))}
		case "getIndex":
			res = J{"n": t.set.GetIndex(c.from(arg(0)))}
		case "getValue":
			res = J{"v": c.to(t.set.GetValue(arg(0)))}
		case "getValues":
			res = J{"l": ints(toIDs(c, t.set.GetValues(arg(0), arg(1)).AsArray()))}
		case "asArray":
			res = J{"l": ints(toIDs(c, t.set.AsArray()))}
		case "iterate":
			res = J{"l": ints(toIDs(c, walk[V](t.set)))}
		case "getSize":
			res = J{"n": t.set.GetSize()}
		case "isEmpty":
			res = J{"b": t.set.IsEmpty()}
		case "and", "or", "sans", "xor":
			a := t.newSet(o.vs)
			b := t.newSetWith(rk2, o.ws)
			if o.alias == "same" {
				b = a
			}
			class := col.Set[V](notation)
			var r col.SetLike[V]
			switch o.op {
			case "and":
				r = class.And(a, b)
			case "or":
				r = class.Or(a, b)
			case "sans":
				r = class.Sans(a, b)
			default:
				r = class.Xor(a, b)
			}
			t.set = r
			extra["aft_a"] = ints(toIDs(c, a.AsArray()))
			extra["aft_b"] = ints(toIDs(c, b.AsArray()))
			// independence: changing the result leaves the operands alone and vice versa
			snapR := toIDs(c, r.AsArray())
			probe := c.from(997)
			r.AddValue(probe)
			r.RemoveValue(probe)
			if len(snapR) > 0 {
				r.RemoveValue(c.from(snapR[0]))
			}
			indep := eqInts(toIDs(c, a.AsArray()), extra["aft_a"].([]int)) && eqInts(toIDs(c, b.AsArray()), extra["aft_b"].([]int))
			if len(snapR) > 0 {
				r.AddValue(c.from(snapR[0]))
			}
			a.AddValue(probe)
			b.RemoveAll()
			indep = indep && eqInts(toIDs(c, r.AsArray()), snapR)
			extra["indep"] = indep
		default:
			panic("harness: unknown set op " + o.op)
		}
	})
	j := J{"k": "set", "case": caseID, "ty": c.name, "rk": t.rk, "pre": pre, "op": o.op, "a": ints(o.a), "vs": ints(o.vs),
		"ws": ints(o.ws), "out": cr.kind, "post": t.contents()}
	if o.alias != "" {
		j["alias"] = o.alias
	}
	if rk2 != t.rk {
		j["rk2"] = rk2
	}
	if cr.kind == "ret" {
		j["res"] = res
	} else if cr.kind == "panic" {
		j["pc"], j["msg"] = cr.pc, cr.msg
	}
	for k, v := range extra {
		j[k] = v
	}
	t.out.emit(j)
	t.n++
	return cr
}

func eqInts(a, b []int) bool {
	if len(a) != len(b) {
		return false
	}
	for i := range a {
		if a[i] != b[i] {
			return false
		}
	}
	return true
}

func subsetOf(u []int, mask int) []int {
	var out []int
	for i, x := range u {
		if mask&(1<<i) != 0 {
			out = append(out, x)
		}
	}
	return out
}

// shuffled returns the ids in a seed-dependent order with some duplicates appended
func shuffled(r Rng, ids []int, dups bool) []int {
	out := append([]int{}, ids...)
	r.Shuffle(len(out), func(i, j int) { out[i], out[j] = out[j], out[i] })
	if dups && len(out) > 0 {
		out = append(out, out[0], out[len(out)/2])
	}
	return out
}

func runC02Type[V any](tier string, rng Rng, out *Out, c Codec[V], u []int, outside []int, rankers []string, caseID *int) {
	for _, rk := range rankers {
		// every single step from every subset state of the universe
		nsub := 1 << len(u)
		for mask := 0; mask < nsub; mask++ {
			state := subsetOf(u, mask)
			if tier != "thorough" && len(u) > 5 && mask%3 != 0 && mask != nsub-1 {
				continue
			}
			var ops []seqOp
			for _, v := range append(append([]int{}, u...), outside...) {
				ops = append(ops, seqOp{op: "addValue", a: []int{v}}, seqOp{op: "removeValue", a: []int{v}},
					seqOp{op: "containsValue", a: []int{v}}, seqOp{op: "getIndex", a: []int{v}})
			}
			n := len(state)
			for i := -(n + 1); i <= n+1; i++ {
				ops = append(ops, seqOp{op: "getValue", a: []int{i}})
			}
			ops = append(ops, seqOp{op: "getValues", a: []int{1, -1}}, seqOp{op: "getValues", a: []int{2, n}},
				seqOp{op: "asArray"}, seqOp{op: "iterate"}, seqOp{op: "getSize"}, seqOp{op: "isEmpty"}, seqOp{op: "removeAll"})
			for _, operand := range [][]int{{}, {u[0]}, shuffled(rng, u, true), shuffled(rng, outside, false), {u[len(u)-1], u[0], u[len(u)-1]}} {
				for _, name := range []string{"addValues", "removeValues", "containsAny", "containsAll"} {
					ops = append(ops, seqOp{op: name, vs: operand})
				}
			}
			for _, name := range []string{"addValues", "removeValues", "containsAny", "containsAll"} {
				ops = append(ops, seqOp{op: name, alias: "self"})
				for _, other := range []string{"nat", "rev"} {
					if other != rk && rk != "coarse" {
						ops = append(ops, seqOp{op: name, alias: "set:" + other, vs: shuffled(rng, u, false)},
							seqOp{op: name, alias: "set:" + other, vs: shuffled(rng, append(append([]int{}, outside...), u[0]), false)})
					}
				}
			}
			for _, o := range ops {
				*caseID++
				t := &setTarget[V]{c: c, rk: rk, out: out}
				t.line(*caseID, seqOp{op: "make", vs: shuffled(rng, state, mask%2 == 1)})
				t.line(*caseID, o)
			}
		}
		// a Set constructed from a Set that another collator orders, then used
		if rk == "nat" {
			for mask := 0; mask < nsub; mask++ {
				state := subsetOf(u, mask)
				for _, src := range []string{"rev", "nat"} {
					var ops []seqOp
					ops = append(ops, seqOp{op: "asArray"}, seqOp{op: "iterate"})
					for _, v := range u {
						ops = append(ops, seqOp{op: "containsValue", a: []int{v}}, seqOp{op: "getIndex", a: []int{v}}, seqOp{op: "addValue", a: []int{v}},
							seqOp{op: "removeValue", a: []int{v}})
					}
					for _, o := range ops {
						*caseID++
						t := &setTarget[V]{c: c, rk: rk, out: out}
						t.line(*caseID, seqOp{op: "make", alias: "set:" + src, vs: shuffled(rng, state, false)})
						t.line(*caseID, o)
						t.line(*caseID, seqOp{op: "asArray"})
					}
				}
			}
		}
		// class functions with an empty operand, the same operand twice, and a full one: the result is a new set, and
		// what happens to it later is not seen through the operands (nor the other way round)
		for mask := 0; rk == "nat" && mask < nsub; mask += 3 {
			state := subsetOf(u, mask)
			for _, op := range []string{"and", "or", "sans", "xor"} {
				for _, pair := range [][2][]int{{state, {}}, {{}, state}} {
					*caseID++
					t := &setTarget[V]{c: c, rk: rk, out: out}
					t.line(*caseID, seqOp{op: op, vs: pair[0], ws: pair[1]})
				}
				*caseID++
				t := &setTarget[V]{c: c, rk: rk, out: out}
				t.line(*caseID, seqOp{op: op, vs: state, ws: state, alias: "same"})
			}
		}
		// random histories over a larger domain
		hist, steps := 30, 60
		if tier == "thorough" {
			hist, steps = 300, 120
		}
		dom := append(append([]int{}, u...), outside...)
		for h := 0; h < hist; h++ {
			*caseID++
			t := &setTarget[V]{c: c, rk: rk, out: out}
			t.line(*caseID, seqOp{op: "make", vs: shuffled(rng, subsetOf(dom, rng.Intn(1<<len(dom))), true)})
			for s := 0; s < steps; s++ {
				v := dom[rng.Intn(len(dom))]
				n := len(t.contents())
				switch r := rng.Intn(14); {
				case r < 5:
					t.line(*caseID, seqOp{op: "addValue", a: []int{v}})
				case r < 8:
					t.line(*caseID, seqOp{op: "removeValue", a: []int{v}})
				case r == 8:
					t.line(*caseID, seqOp{op: "getIndex", a: []int{v}})
				case r == 9:
					t.line(*caseID, seqOp{op: "containsValue", a: []int{v}})
				case r == 10:
					t.line(*caseID, seqOp{op: "getValue", a: []int{rng.between(-n-1, n+1)}})
				case r == 11:
					t.line(*caseID, seqOp{op: []string{"addValues", "removeValues", "containsAny", "containsAll"}[rng.Intn(4)],
						vs: shuffled(rng, subsetOf(dom, rng.Intn(1<<len(dom))), true)})
				case r == 12:
					t.line(*caseID, seqOp{op: "asArray"})
				default:
					t.line(*caseID, seqOp{op: "iterate"})
				}
			}
		}
	}
}

func runC02(tier string, seed int64, out *Out) {
	rng := newRng(seed)
	caseID := 0
	all := []string{"nat", "rev", "coarse"}
	runC02Type(tier, rng, out, intCodec(), []int{1, 3, 4, 5, 8, 9}, []int{0, 2, 12}, all, &caseID)
	runC02Type(tier, rng, out, stringCodec(), []int{1, 3, 4, 5, 9}, []int{0, 2, 12}, all, &caseID)
	runC02Type(tier, rng, out, int64xCodec(), []int{-50, -49, -3, 2, 49, 50}, []int{0, -25, 25}, []string{"nat"}, &caseID)
	runC02Type(tier, rng, out, sliceCodec(), []int{1, 2, 3, 6, 7}, []int{0, 4, 9}, []string{"nat", "coarse"}, &caseID)
	runC02Type(tier, rng, out, anyCodec(), []int{249, 250, 251, 501, 502}, []int{0, 252, 503}, []string{"nat", "rev"}, &caseID)
	runC02Type(tier, rng, out, setSetCodec(), []int{1, 2, 3, 5, 6}, []int{0, 4, 8}, []string{"nat"}, &caseID)
	// large random domain (binary search at every size): ints up to size 200 / 1000
	maxSize := 200
	if tier == "thorough" {
		maxSize = 1000
	}
	caseID++
	t := &setTarget[int]{c: intCodec(), rk: "nat", out: out}
	t.line(caseID, seqOp{op: "make", vs: []int{}})
	for i := 0; i < maxSize; i++ {
		v := rng.Intn(3 * maxSize)
		t.line(caseID, seqOp{op: "addValue", a: []int{v}})
		if i%7 == 0 {
			t.line(caseID, seqOp{op: "getIndex", a: []int{rng.Intn(3 * maxSize)}})
			t.line(caseID, seqOp{op: "removeValue", a: []int{rng.Intn(3 * maxSize)}})
		}
	}
}

func runC15Type[V any](tier string, rng Rng, out *Out, c Codec[V], u []int, rankers []string, caseID *int, stride int) {
	nsub := 1 << len(u)
	for _, rk := range rankers {
		for ma := 0; ma < nsub; ma++ {
			for mb := 0; mb < nsub; mb++ {
				if stride > 1 && (ma*nsub+mb)%stride != 0 && ma != mb {
					continue
				}
				a, b := subsetOf(u, ma), subsetOf(u, mb)
				for _, op := range []string{"and", "or", "sans", "xor"} {
					*caseID++
					t := &setTarget[V]{c: c, rk: rk, out: out}
					t.line(*caseID, seqOp{op: op, vs: a, ws: b})
				}
			}
			// the same set passed twice
			for _, op := range []string{"and", "or", "sans", "xor"} {
				*caseID++
				t := &setTarget[V]{c: c, rk: rk, out: out}
				a := subsetOf(u, ma)
				t.line(*caseID, seqOp{op: op, vs: a, ws: a, alias: "same"})
			}
		}
	}
}

// sets in the protocol are shipped in the order the collator keeps them
func sortedFor(rk string, ids []int) []int {
	out := append([]int{}, ids...)
	rank := sortRankers[rk]
	for i := 1; i < len(out); i++ {
		for j := i; j > 0 && rank(out[j], out[j-1]) == age.LesserRank; j-- {
			out[j], out[j-1] = out[j-1], out[j]
		}
	}
	return out
}

func runC15(tier string, seed int64, out *Out) {
	rng := newRng(seed)
	caseID := 0
	stride := 5
	if tier == "thorough" {
		stride = 1
	}
	// exhaustive (thorough) / strided (quick): all pairs of subsets of a 6-value universe x 4 operations
	runC15Type(tier, rng, out, intCodec(), []int{1, 2, 4, 6, 7, 9}, []string{"nat"}, &caseID, stride)
	runC15Type(tier, rng, out, stringCodec(), []int{1, 2, 4, 6, 7, 9}, []string{"nat"}, &caseID, stride)
	// custom collators (values 0,1,2 / 3,4,5 / 6,7,8 tie under the coarse one: one per class)
	runC15Type(tier, rng, out, intCodec(), []int{9, 7, 4, 2, 1}, []string{"rev"}, &caseID, stride)
	runC15Type(tier, rng, out, intCodec(), []int{1, 4, 8, 9, 13}, []string{"coarse"}, &caseID, stride)
	// operands carrying different collators (same equivalence, opposite order)
	for _, pair := range [][2]string{{"nat", "rev"}, {"rev", "nat"}} {
		u := []int{1, 3, 5, 7, 9}
		for ma := 0; ma < 32; ma++ {
			for mb := 0; mb < 32; mb++ {
				if stride > 1 && (ma*32+mb)%3 != 0 {
					continue
				}
				for _, op := range []string{"and", "or", "sans", "xor"} {
					caseID++
					t := &setTarget[int]{c: intCodec(), rk: pair[0], out: out}
					t.line(caseID, seqOp{op: op, vs: sortedFor(pair[0], subsetOf(u, ma)), ws: subsetOf(u, mb), alias: "rk2:" + pair[1]})
				}
			}
		}
	}
	// composite elements
	runC15Type(tier, rng, out, sliceCodec(), []int{1, 2, 3, 6, 7}, []string{"nat"}, &caseID, stride)
	runC15Type(tier, rng, out, setSetCodec(), []int{1, 2, 3, 5}, []string{"nat"}, &caseID, 1)
	runC15Type(tier, rng, out, anyCodec(), []int{249, 250, 501, 502}, []string{"nat"}, &caseID, 1)
	// random pairs over a larger universe
	reps := 200
	if tier == "thorough" {
		reps = 3000
	}
	for i := 0; i < reps; i++ {
		var a, b []int
		for v := 0; v < 40; v++ {
			if rng.Intn(3) == 0 {
				a = append(a, v)
			}
			if rng.Intn(3) == 0 {
				b = append(b, v)
			}
		}
		for _, op := range []string{"and", "or", "sans", "xor"} {
			caseID++
			t := &setTarget[int]{c: intCodec(), rk: "nat", out: out}
			t.line(caseID, seqOp{op: op, vs: ints(a), ws: ints(b)})
		}
	}
}
