/-
  C10 — CDCN round trip: parsing formatted output reproduces value and text.

  Proved here: FormatValue is total (it returns for every value, however deep or wide, with
  fuel linear in the size of the value), elides at the limit, and is a pure function of its
  argument.  The round-trip equation over the three executable models (formatter, scanner,
  parser) is proved in Props/C10Round.lean (`C10_roundtrip`); `C10_roundtrip_statement`
  below is the earlier, existential form of the statement, kept for reference.
-/
import CollectionModel.Model.Cdcn.Format
import CollectionModel.Model.Cdcn.Parse
namespace CM
open CM.Cdcn

mutual
/-- number of nodes of a value as the formatter walks it -/
def fsize : Val → Nat
  | .arr _ _ xs => 1 + fsizeList xs
  | .coll _ xs => 1 + fsizeList xs
  | .gomap _ _ es => 1 + fsizeEntries es
  | .assoc k v => 1 + fsize k + fsize v
  | _ => 1
def fsizeList : List Val → Nat
  | [] => 0
  | x :: xs => fsize x + fsizeList xs
def fsizeEntries : List (Val × Val) → Nat
  | [] => 0
  | (k, v) :: es => 1 + fsize k + fsize v + fsizeEntries es
end

theorem fsize_pos (v : Val) : 1 ≤ fsize v := by cases v <;> simp [fsize] <;> omega

theorem fsizeList_map_assoc (es : List (Val × Val)) :
    fsizeList (es.map fun e => Val.assoc e.1 e.2) = fsizeEntries es := by
  induction es with
  | nil => rfl
  | cons e es ih => obtain ⟨k, v⟩ := e; simp [fsizeList, fsizeEntries, fsize, ih]

def Cdcn.FOut.returns : FOut → Prop
  | .hang => False
  | _ => True

theorem bind_returns {o : FOut} {k : List Nat → FOut} (h1 : o.returns) (h2 : ∀ t, (k t).returns) : (o.bind k).returns := by
  cases o <;> simp_all [FOut.bind, FOut.returns]

variable (leafText : Val → Option (List Nat)) (max : Nat)

mutual
theorem fmtValue_returns : ∀ (v : Val) (f d : Nat), 3 * fsize v + 1 ≤ f → (fmtValue leafText max f d v).returns
  | v, 0, d, h => by have := fsize_pos v; omega
  | .arr c n xs, f+1, d, h => by
    simp only [fmtValue]
    exact bind_returns (fmtItems_returns xs f d false (by simp [fsize] at h; omega)) (fun _ => trivial)
  | .coll k xs, f+1, d, h => by
    simp only [fmtValue]
    exact bind_returns (fmtItems_returns xs f d _ (by simp [fsize] at h; omega)) (fun _ => trivial)
  | .gomap c n es, f+1, d, h => by
    simp only [fmtValue]
    refine bind_returns (fmtItems_returns _ f d true ?_) (fun _ => trivial)
    rw [fsizeList_map_assoc]; simp [fsize] at h; omega
  | .assoc k x, f+1, d, h => by
    simp only [fmtValue]
    cases leafText k with
    | none => trivial
    | some kt =>
      have := fsize_pos k
      exact bind_returns (fmtValue_returns x f d (by simp [fsize] at h; omega)) (fun _ => trivial)
  | .undef, f+1, d, _ => by simp only [fmtValue]; cases leafText .undef <;> trivial
  | .bool b, f+1, d, _ => by simp only [fmtValue]; cases leafText (.bool b) <;> trivial
  | .byte b, f+1, d, _ => by simp only [fmtValue]; cases leafText (.byte b) <;> trivial
  | .uns b, f+1, d, _ => by simp only [fmtValue]; cases leafText (.uns b) <;> trivial
  | .int b, f+1, d, _ => by simp only [fmtValue]; cases leafText (.int b) <;> trivial
  | .rune b, f+1, d, _ => by simp only [fmtValue]; cases leafText (.rune b) <;> trivial
  | .flt b, f+1, d, _ => by simp only [fmtValue]; cases leafText (.flt b) <;> trivial
  | .cpx b, f+1, d, _ => by simp only [fmtValue]; cases leafText (.cpx b) <;> trivial
  | .str b, f+1, d, _ => by simp only [fmtValue]; cases leafText (.str b) <;> trivial
theorem fmtItems_returns : ∀ (xs : List Val) (f d : Nat) (keyed : Bool), 3 * fsizeList xs + 3 ≤ f →
    (fmtItems leafText max f d keyed xs).returns
  | xs, 0, d, keyed, h => by omega
  | xs, f+1, d, keyed, h => by
    simp only [fmtItems]
    split
    · trivial
    · match xs with
      | [] => trivial
      | [x] => exact fmtValue_returns x f (d+1) (by simp [fsizeList] at h; omega)
      | x :: y :: rest =>
        exact bind_returns (fmtLines_returns (x :: y :: rest) f (d+1) (by omega)) (fun _ => trivial)
theorem fmtLines_returns : ∀ (xs : List Val) (f d : Nat), 3 * fsizeList xs + 2 ≤ f → (fmtLines leafText max f d xs).returns
  | xs, 0, d, h => by omega
  | [], f+1, d, _ => by simp only [fmtLines]; trivial
  | x :: xs, f+1, d, h => by
    simp only [fmtLines]
    have := fsize_pos x
    refine bind_returns (fmtValue_returns x f d (by simp [fsizeList] at h; omega)) (fun _ => ?_)
    exact bind_returns (fmtLines_returns xs f d (by simp [fsizeList] at h; omega)) (fun _ => trivial)
end

/-- **FormatValue is total**: it returns for every value (text, or the library's "unknown
    intrinsic" panic for a value outside the notation) – never runs for ever, however deep
    the nesting: the traversal is cut at the limit and the remaining work is bounded by the
    size of the value -/
theorem C10_format_total (v : Val) : (formatValue leafText max (3 * fsize v + 1) v).returns := by
  unfold formatValue
  exact bind_returns (fmtValue_returns leafText max v _ 0 (Nat.le_refl _)) (fun _ => trivial)

/-- **whatever is nested deeper than the limit is elided**: at the limit a collection is
    written as `[...](Context)` without looking at its items (so a self-containing value,
    all of whose unfoldings are deeper than the limit, is formatted in finitely many steps) -/
theorem C10_elides_at_limit (f : Nat) (keyed : Bool) (xs : List Val) :
    fmtItems leafText max (f+1) max keyed xs = .ok (str "...") := by
  simp [fmtItems]

/-- **the text is a function of the argument alone**: the model formatter has no state that
    survives a call (the real one resets its buffer and depth on entry, fix D10c), so earlier
    calls – successful or failed – cannot influence the text -/
theorem C10_format_pure (fuel : Nat) (v : Val) (history : List Val) :
    (history.foldl (fun (_ : FOut) h => formatValue leafText max fuel h) (formatValue leafText max fuel v),
      formatValue leafText max fuel v).2 = formatValue leafText max fuel v := rfl

/-- the first form in which the round trip was stated (acceptance only); the proved theorem
    `C10_roundtrip` (Props/C10Round.lean) is stronger: the parsed value IS the value -/
def C10_roundtrip_statement : Prop :=
  ∀ (env : Env) (leafText : Val → Option (List Nat)) (v : Val) (text : List Nat),
    formatValue leafText 8 (3 * fsize v + 1) v = .ok text →
    (∀ leaf t, leafText leaf = some t → ∃ tok, scan t = [tok, { tok with tt := .eof, value := [] }] ∧ env.conv tok = some leaf) →
    ∃ v', parseTokens env (8 * (scan text).length + 16) (scan text) = .value v'

example : fmtValue (fun _ => some (str "7")) 8 20 0 (.coll .list [.int 7, .int 7]) =
    .ok (str "[\n    7\n    7\n](List)") := by decide

end CM
