package main

// Scanner facts (T2): the regular expression each token type is compiled from, after Go's
// constant folding (exactly the string handed to regexp.MustCompile), in the order of the
// matchers_ literal, and the order in which scanTokens tries the token types.

import (
	"fmt"
	"go/ast"
	"go/constant"
	"regexp/syntax"
	"strings"
	"unicode"
)

// leanRe renders a (simplified) regexp/syntax tree as a term of Model/Cdcn/Regex.lean's `Re`.
// Anything outside the subset the scanner uses (non-greedy operators, word boundaries, flags
// such as case folding, ...) makes the extractor refuse.
func leanRe(name string, re *syntax.Regexp) string {
	if re.Flags&syntax.NonGreedy != 0 && (re.Op == syntax.OpStar || re.Op == syntax.OpPlus || re.Op == syntax.OpQuest || re.Op == syntax.OpRepeat) {
		die("scanner: pattern %s uses a non-greedy operator", name)
	}
	fold := func(ctor, unit string, subs []*syntax.Regexp) string {
		if len(subs) == 0 {
			return unit
		}
		out := leanRe(name, subs[len(subs)-1])
		for i := len(subs) - 2; i >= 0; i-- {
			out = "(." + ctor + " " + leanRe(name, subs[i]) + " " + out + ")"
		}
		return out
	}
	switch re.Op {
	case syntax.OpEmptyMatch, syntax.OpBeginText:
		// the scanner applies every pattern to the remaining text: `^` holds at the start
		return ".empty"
	case syntax.OpNoMatch:
		return ".fail"
	case syntax.OpLiteral:
		if re.Flags&syntax.FoldCase != 0 {
			// regexp/syntax writes [eE] as the literal e with the fold flag: one class per rune
			out := ".empty"
			for i := len(re.Rune) - 1; i >= 0; i-- {
				var rs []string
				r := re.Rune[i]
				rs = append(rs, fmt.Sprintf("(%d, %d)", r, r))
				for f := unicode.SimpleFold(r); f != r; f = unicode.SimpleFold(f) {
					rs = append(rs, fmt.Sprintf("(%d, %d)", f, f))
				}
				cl := "(.cls [" + strings.Join(rs, ", ") + "])"
				if out == ".empty" {
					out = cl
				} else {
					out = "(.cat " + cl + " " + out + ")"
				}
			}
			return out
		}
		var cs []string
		for _, r := range re.Rune {
			cs = append(cs, fmt.Sprint(int(r)))
		}
		return "(.lit [" + strings.Join(cs, ", ") + "])"
	case syntax.OpCharClass:
		var rs []string
		for i := 0; i+1 < len(re.Rune); i += 2 {
			rs = append(rs, fmt.Sprintf("(%d, %d)", re.Rune[i], re.Rune[i+1]))
		}
		return "(.cls [" + strings.Join(rs, ", ") + "])"
	case syntax.OpCapture:
		return leanRe(name, re.Sub[0])
	case syntax.OpStar:
		return "(.star " + leanRe(name, re.Sub[0]) + ")"
	case syntax.OpPlus:
		return "(.plus " + leanRe(name, re.Sub[0]) + ")"
	case syntax.OpQuest:
		return "(.quest " + leanRe(name, re.Sub[0]) + ")"
	case syntax.OpConcat:
		return fold("cat", ".empty", re.Sub)
	case syntax.OpAlternate:
		return fold("alt", ".fail", re.Sub)
	}
	die("scanner: pattern %s uses the unsupported operator %v", name, re.Op)
	return ""
}

func leanString(s string) string {
	var b strings.Builder
	b.WriteByte('"')
	for _, r := range s {
		switch r {
		case '\\':
			b.WriteString("\\\\")
		case '"':
			b.WriteString("\\\"")
		case '\n':
			b.WriteString("\\n")
		case '\t':
			b.WriteString("\\t")
		default:
			if r < 32 || r > 126 {
				fmt.Fprintf(&b, "\\u{%x}", r)
			} else {
				b.WriteRune(r)
			}
		}
	}
	b.WriteByte('"')
	return b.String()
}

func genScanner() string {
	p := pkgNamed("/cdcn")
	var pats [][2]string
	var order []string
	for _, f := range p.Syntax {
		ast.Inspect(f, func(n ast.Node) bool {
			switch x := n.(type) {
			case *ast.KeyValueExpr:
				// matchers_: map[TokenType]*reg.Regexp{ K: reg.MustCompile(<const string>), ... }
				k, ok := x.Key.(*ast.Ident)
				if !ok || k.Name != "matchers_" {
					return true
				}
				cl, ok := x.Value.(*ast.CompositeLit)
				if !ok {
					return true
				}
				for _, e := range cl.Elts {
					kv, ok := e.(*ast.KeyValueExpr)
					if !ok {
						die("scanner: unexpected element in matchers_ at %s", fset.Position(e.Pos()))
					}
					name, ok := kv.Key.(*ast.Ident)
					call, ok2 := kv.Value.(*ast.CallExpr)
					if !ok || !ok2 || len(call.Args) != 1 {
						die("scanner: unexpected matcher at %s", fset.Position(e.Pos()))
					}
					sel, ok := call.Fun.(*ast.SelectorExpr)
					if !ok || sel.Sel.Name != "MustCompile" {
						die("scanner: matcher not built by MustCompile at %s", fset.Position(e.Pos()))
					}
					tv, ok := p.TypesInfo.Types[call.Args[0]]
					if !ok || tv.Value == nil || tv.Value.Kind() != constant.String {
						die("scanner: pattern of %s is not a constant string", name.Name)
					}
					pats = append(pats, [2]string{name.Name, constant.StringVal(tv.Value)})
				}
				return false
			case *ast.FuncDecl:
				if x.Name.Name != "scanTokens" || x.Body == nil {
					return true
				}
				ast.Inspect(x.Body, func(m ast.Node) bool {
					cc, ok := m.(*ast.CaseClause)
					if !ok {
						return true
					}
					for _, e := range cc.List {
						call, ok := e.(*ast.CallExpr)
						if !ok || len(call.Args) != 1 {
							die("scanner: unexpected case in scanTokens at %s", fset.Position(e.Pos()))
						}
						sel, ok := call.Fun.(*ast.SelectorExpr)
						arg, ok2 := call.Args[0].(*ast.Ident)
						if !ok || !ok2 || sel.Sel.Name != "foundToken" {
							die("scanner: unexpected case in scanTokens at %s", fset.Position(e.Pos()))
						}
						order = append(order, arg.Name)
					}
					return true
				})
				return false
			}
			return true
		})
	}
	if len(pats) == 0 || len(order) == 0 {
		die("scanner: matchers_ literal or scanTokens switch not found")
	}
	var b strings.Builder
	b.WriteString("import CollectionModel.Model.Cdcn.Regex\n" + header("The scanner's token patterns (constant-folded strings given to regexp.MustCompile) and the order in which scanTokens tries them."))
	b.WriteString("def matcherPatterns : List (String × String) := [\n")
	for i, pt := range pats {
		sep := ","
		if i == len(pats)-1 {
			sep = ""
		}
		fmt.Fprintf(&b, "  (%s, %s)%s\n", leanString(pt[0]), leanString(pt[1]), sep)
	}
	b.WriteString("]\n\n/-- the same patterns as syntax trees (regexp/syntax.Parse with Perl flags, then Simplify) -/\ndef matcherTrees : List (String × Cdcn.Re) := [\n")
	for i, pt := range pats {
		re, err := syntax.Parse(pt[1], syntax.Perl)
		if err != nil {
			die("scanner: pattern of %s does not parse: %v", pt[0], err)
		}
		sep := ","
		if i == len(pats)-1 {
			sep = ""
		}
		fmt.Fprintf(&b, "  (%s, %s)%s\n", leanString(pt[0]), leanRe(pt[0], re.Simplify()), sep)
	}
	b.WriteString("]\n\ndef scanOrder : List String := [")
	for i, o := range order {
		if i > 0 {
			b.WriteString(", ")
		}
		b.WriteString(leanString(o))
	}
	b.WriteString("]\n")
	b.WriteString(footer)
	return b.String()
}
