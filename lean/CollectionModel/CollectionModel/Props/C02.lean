/-
  C02 — Set stays strictly ordered, duplicate-free and equal to the mathematical set.
-/
import CollectionModel.Model.SetOps
import CollectionModel.Lemmas.SetLemmas
import CollectionModel.Props.C01
namespace CM
open CM.Seq CM.SetM

variable {α : Type} [Inhabited α] [DecidableEq α]

theorem strictAsc_iff (rank : α → α → Rank) : ∀ l : List α, strictAsc rank l = true ↔ SSorted rank l
  | [] => by simp [strictAsc, SSorted]
  | a :: rest => by
    simp only [strictAsc, SSorted, Bool.and_eq_true, List.all_eq_true, beq_iff_eq, List.pairwise_cons]
    rw [strictAsc_iff rank rest]; rfl

theorem member_eq_mem (rank : α → α → Rank) (l : List α) (v : α) : member rank l v = mem rank l v := rfl

/-- operations of the Set interface itself (the class functions And/Or/Sans/Xor are C15) -/
def SetM.Op.basic : SetM.Op α → Bool
  | .setAnd _ _ | .setOr _ _ | .setSans _ _ | .setXor _ _ => false
  | _ => true

/-- **binary search specification**: on a strictly ascending set `findIndex` returns
    `(k, true)` with `GetValue(k)` rank-equal to the probe exactly when such a member exists,
    and otherwise `(slot, false)` with `slot ≤ size`, everything before the slot below the
    probe and everything from the slot on above it. -/
theorem C02_findIndex (rank : α → α → Rank) (h : TotalPreorder rank) (l : List α) (v : α)
    (hs : SSorted rank l) :
    ∃ k, findIndex rank l v = some (.ok (k, mem rank l v)) ∧
      (mem rank l v = true → 1 ≤ k ∧ k ≤ l.length ∧ rank v (l.getD (k-1) default) = .eq) ∧
      (mem rank l v = false → k ≤ l.length ∧ (∀ x ∈ l.take k, rank v x = .gt) ∧ (∀ x ∈ l.drop k, rank v x = .lt)) :=
  findIndex_found rank h l v hs

/-- **one step**: every call on a strictly ascending set is what the abstract ordered,
    duplicate-free set allows (members = added-and-not-removed classes, one stored value per
    class, Contains*/GetIndex/GetValue agree with the order). -/
theorem C02_step_refines (rank : α → α → Rank) (h : TotalPreorder rank) (s : List α)
    (hs : SSorted rank s) (op : SetM.Op α) (hb : op.basic = true) :
    SetM.allowed rank s op (SetM.step rank s op) = true := by
  cases op with
  | addValue v =>
    simp only [SetM.allowed, SetM.allowed2, SetM.step, SetM.step2, member_eq_mem]
    obtain ⟨h1, h2⟩ := addValue_spec rank h s v hs
    by_cases hm : mem rank s v = true
    · simp [hm, h1 hm, obsR, SeqSpec.isRet]
    · have hm : mem rank s v = false := by simpa using hm
      obtain ⟨k, hk, he, hso⟩ := h2 hm
      have hp : (s.take k ++ v :: s.drop k).Perm (v :: s) := by
        have : (s.take k ++ v :: s.drop k).Perm (v :: (s.take k ++ s.drop k)) := List.perm_middle
        simpa using this
      simp [hm, he, obsR, retWhere, (strictAsc_iff rank _).mpr hso, List.isPerm_iff.mpr hp]
  | addValues vs =>
    obtain ⟨r, hr, sp⟩ := addValues_spec rank h vs s hs
    simp only [SetM.allowed, SetM.allowed2, SetM.step, SetM.step2, hr, obsR, retWhere, member_eq_mem]
    simp only [beq_self_eq_true, Bool.true_and, Bool.and_eq_true, List.all_eq_true, Bool.or_eq_true,
      List.contains_iff_mem]
    exact ⟨⟨⟨(strictAsc_iff rank r).mpr sp.sorted, sp.sub⟩, sp.keeps⟩, sp.covers⟩
  | removeValue v => simp [SetM.allowed, SetM.allowed2, SetM.step, SetM.step2, removeValue_spec rank h s v hs, obsR, SeqSpec.isRet]
  | removeValues vs => simp [SetM.allowed, SetM.allowed2, SetM.step, SetM.step2, removeValues_spec rank h vs s hs, obsR, SeqSpec.isRet]
  | removeAll => simp [SetM.allowed, SetM.allowed2, SetM.step, SetM.step2, SeqSpec.isRet]
  | containsValue v =>
    simp [SetM.allowed, SetM.allowed2, SetM.step, SetM.step2, containsValue_spec rank h s v hs, obsB, SeqSpec.isRet, member_eq_mem]
  | containsAny vs =>
    simp [SetM.allowed, SetM.allowed2, SetM.step, SetM.step2, containsAny_spec rank h s hs vs, obsB, SeqSpec.isRet, member_eq_mem]
  | containsAll vs =>
    simp [SetM.allowed, SetM.allowed2, SetM.step, SetM.step2, containsAll_spec rank h s hs vs, obsB, SeqSpec.isRet, member_eq_mem]
  | getIndex v =>
    obtain ⟨k, hk, ht, hf⟩ := getIndex_spec rank h s v hs
    simp only [SetM.allowed, SetM.allowed2, SetM.step, SetM.step2, hk, member_eq_mem]
    by_cases hm : mem rank s v = true
    · obtain ⟨a1, a2, a3⟩ := ht hm
      have hlt : k - 1 < s.length := by omega
      have e : s.getD (k-1) default = s[k-1] := by simp [List.getD_eq_getElem?_getD, hlt]
      rw [e] at a3
      simp [hm, List.getElem?_eq_getElem hlt, a3]; omega
    · have hm : mem rank s v = false := by simpa using hm
      simp [hm, hf hm]
  | getValue i =>
    exact C01_step_refines (fun a b => a == b) rank h s (.getValue i) trivial
  | getValues f l =>
    exact C01_step_refines (fun a b => a == b) rank h s (.getValues f l) trivial
  | asArray => simp [SetM.allowed, SetM.allowed2, SetM.step, SetM.step2, SeqSpec.isRet, (strictAsc_iff rank s).mpr hs]
  | iterate => simp [SetM.allowed, SetM.allowed2, SetM.step, SetM.step2, SeqSpec.isRet, (strictAsc_iff rank s).mpr hs]
  | getSize => simp [SetM.allowed, SetM.allowed2, SetM.step, SetM.step2, SeqSpec.isRet]
  | isEmpty => simp [SetM.allowed, SetM.allowed2, SetM.step, SetM.step2, SeqSpec.isRet]
  | make vs =>
    obtain ⟨r, hr, sp⟩ := addValues_spec rank h vs [] (ssorted_nil rank)
    simp only [SetM.allowed, SetM.allowed2, SetM.step, SetM.step2, makeFrom, hr, obsR, retWhere, member_eq_mem]
    simp only [beq_self_eq_true, Bool.true_and, Bool.and_eq_true, List.all_eq_true, List.contains_iff_mem]
    refine ⟨⟨(strictAsc_iff rank r).mpr sp.sorted, ?_⟩, sp.covers⟩
    intro x hx
    rcases sp.sub x hx with hx | hx
    · simp at hx
    · exact hx
  | setAnd a b => simp [SetM.Op.basic] at hb
  | setOr a b => simp [SetM.Op.basic] at hb
  | setSans a b => simp [SetM.Op.basic] at hb
  | setXor a b => simp [SetM.Op.basic] at hb

/-- state left behind by a call -/
def SetM.stateAfter (o : SetM.Obs α) (s : List α) : List α :=
  match o with
  | .ret s' _ => s'
  | .panic s' _ => s'
  | .hang => s

/-- **the order invariant is preserved by every call** -/
theorem C02_step_sorted (rank : α → α → Rank) (h : TotalPreorder rank) (s : List α)
    (hs : SSorted rank s) (op : SetM.Op α) (hb : op.basic = true) :
    SSorted rank (SetM.stateAfter (SetM.step rank s op) s) := by
  cases op with
  | addValue v =>
    obtain ⟨l', ha, hs', _⟩ := addValue_cases rank h s v hs
    simpa [SetM.step, SetM.step2, ha, obsR, SetM.stateAfter] using hs'
  | addValues vs =>
    obtain ⟨r, hr, sp⟩ := addValues_spec rank h vs s hs
    simpa [SetM.step, SetM.step2, hr, obsR, SetM.stateAfter] using sp.sorted
  | removeValue v =>
    simpa [SetM.step, SetM.step2, removeValue_spec rank h s v hs, obsR, SetM.stateAfter] using ssorted_filter s _ hs
  | removeValues vs =>
    simpa [SetM.step, SetM.step2, removeValues_spec rank h vs s hs, obsR, SetM.stateAfter] using ssorted_filter s _ hs
  | removeAll => simpa [SetM.step, SetM.step2, SetM.stateAfter] using ssorted_nil rank
  | containsValue v => simpa [SetM.step, SetM.step2, containsValue_spec rank h s v hs, obsB, SetM.stateAfter] using hs
  | containsAny vs => simpa [SetM.step, SetM.step2, containsAny_spec rank h s hs vs, obsB, SetM.stateAfter] using hs
  | containsAll vs => simpa [SetM.step, SetM.step2, containsAll_spec rank h s hs vs, obsB, SetM.stateAfter] using hs
  | getIndex v =>
    obtain ⟨k, hk, _, _⟩ := getIndex_spec rank h s v hs
    simpa [SetM.step, SetM.step2, hk, SetM.stateAfter] using hs
  | getValue i =>
    simp only [SetM.step, SetM.step2, Seq.step]
    cases Seq.getValue s i <;> simpa [SetM.stateAfter] using hs
  | getValues f l =>
    simp only [SetM.step, SetM.step2, Seq.step]
    cases Seq.getValues s f l <;> simpa [SetM.stateAfter] using hs
  | asArray => simpa [SetM.step, SetM.step2, SetM.stateAfter] using hs
  | iterate => simpa [SetM.step, SetM.step2, SetM.stateAfter] using hs
  | getSize => simpa [SetM.step, SetM.step2, SetM.stateAfter] using hs
  | isEmpty => simpa [SetM.step, SetM.step2, SetM.stateAfter] using hs
  | make vs =>
    obtain ⟨r, hr, sp⟩ := addValues_spec rank h vs [] (ssorted_nil rank)
    simpa [SetM.step, SetM.step2, makeFrom, hr, obsR, SetM.stateAfter] using sp.sorted
  | setAnd a b => simp [SetM.Op.basic] at hb
  | setOr a b => simp [SetM.Op.basic] at hb
  | setSans a b => simp [SetM.Op.basic] at hb
  | setXor a b => simp [SetM.Op.basic] at hb

def SetM.run (rank : α → α → Rank) : List α → List (SetM.Op α) → List α
  | s, [] => s
  | s, op :: ops => SetM.run rank (SetM.stateAfter (SetM.step rank s op) s) ops

/-- **after any finite history the set is strictly ascending** (hence duplicate-free),
    for the default collator or any caller-supplied total preorder -/
theorem C02_history_sorted (rank : α → α → Rank) (h : TotalPreorder rank) :
    ∀ (ops : List (SetM.Op α)) (s : List α), SSorted rank s → (∀ op ∈ ops, op.basic = true) →
      SSorted rank (SetM.run rank s ops)
  | [], s, hs, _ => by simpa [SetM.run] using hs
  | op :: ops, s, hs, hb => by
    simp only [SetM.run]
    exact C02_history_sorted rank h ops _ (C02_step_sorted rank h s hs op (hb op (by simp)))
      (fun o ho => hb o (by simp [ho]))

/-- **membership after AddValue**: exactly the old members plus the class of `v` -/
theorem C02_add_members (rank : α → α → Rank) (h : TotalPreorder rank) (s : List α) (v x : α)
    (hs : SSorted rank s) :
    ∃ s', addValue rank s v = some (.ok s') ∧
      (mem rank s' x = true ↔ (mem rank s x = true ∨ rank x v = .eq)) := by
  obtain ⟨s', ha, _, hc⟩ := addValue_cases rank h s v hs
  refine ⟨s', ha, ?_⟩
  rcases hc with ⟨hm, rfl⟩ | ⟨_, hp⟩
  · constructor
    · intro hx; exact Or.inl hx
    · rintro (hx | hx)
      · exact hx
      · obtain ⟨y, hy, he⟩ := mem_iff.mp hm
        exact mem_iff.mpr ⟨y, hy, tp_eq_trans h x v y hx he⟩
  · constructor
    · intro hx
      obtain ⟨y, hy, he⟩ := mem_iff.mp hx
      rcases List.mem_cons.mp (hp.mem_iff.mp hy) with rfl | hy
      · exact Or.inr he
      · exact Or.inl (mem_iff.mpr ⟨y, hy, he⟩)
    · rintro (hx | hx)
      · obtain ⟨y, hy, he⟩ := mem_iff.mp hx
        exact mem_iff.mpr ⟨y, hp.mem_iff.mpr (by simp [hy]), he⟩
      · exact mem_iff.mpr ⟨v, hp.mem_iff.mpr (by simp), hx⟩

/-- **membership after RemoveValue**: exactly the old members outside the class of `v` -/
theorem C02_remove_members (rank : α → α → Rank) (h : TotalPreorder rank) (s : List α) (v x : α)
    (hs : SSorted rank s) :
    ∃ s', removeValue rank s v = some (.ok s') ∧
      (mem rank s' x = true ↔ (mem rank s x = true ∧ rank x v ≠ .eq)) := by
  refine ⟨_, removeValue_spec rank h s v hs, ?_⟩
  constructor
  · intro hx
    obtain ⟨y, hy, he⟩ := mem_iff.mp hx
    obtain ⟨hy1, hy2⟩ := List.mem_filter.mp hy
    refine ⟨mem_iff.mpr ⟨y, hy1, he⟩, ?_⟩
    intro hxv
    have : rank v y = .eq := tp_eq_trans h v x y ((tp_eq_symm h x v).mp hxv) he
    simp [this] at hy2
  · rintro ⟨hx, hxv⟩
    obtain ⟨y, hy, he⟩ := mem_iff.mp hx
    refine mem_iff.mpr ⟨y, List.mem_filter.mpr ⟨hy, ?_⟩, he⟩
    cases hvy : rank v y with
    | eq => exact absurd (tp_eq_trans h x y v he ((tp_eq_symm h v y).mp hvy)) hxv
    | lt => simp
    | gt => simp

/-- the binary search never probes outside the list and never inserts beyond the end:
    from a Set the out-of-range zone of `List.InsertValue` is unreachable -/
theorem C02_slot_in_range (rank : α → α → Rank) (h : TotalPreorder rank) (l : List α) (v : α)
    (hs : SSorted rank l) : ∃ k b, findIndex rank l v = some (.ok (k, b)) ∧ k ≤ l.length := by
  obtain ⟨k, hf, ht, hn⟩ := findIndex_found rank h l v hs
  refine ⟨k, _, hf, ?_⟩
  cases hm : mem rank l v with
  | true => exact (ht hm).2.1
  | false => exact (hn hm).1

/-- non-vacuity: integers under natural, reversed and coarse collators are total preorders -/
example : TotalPreorder rankInt := rankInt_total
example : SSorted rankInt [1, 4, 9] := by simp [SSorted, rankInt]

end CM
