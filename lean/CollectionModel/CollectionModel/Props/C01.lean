/-
  C01 — List and Array behave as an ordinal-indexed sequence under every history.

  The model (`Seq.step`, mirroring list.go / array.go loop by loop) refines the
  abstract sequence specification `SeqSpec.allowed` for EVERY state, operation,
  index, slot, range and operand — and therefore for every finite history.
-/
import CollectionModel.Lemmas.SeqLemmas
import CollectionModel.Lemmas.SorterLemmas
namespace CM
open Seq SeqSpec Sorter

variable {α : Type} [Inhabited α] [DecidableEq α]

theorem ascending_of_asc (rank : α → α → Rank) : ∀ l : List α, Asc rank l → ascending rank l = true
  | [], _ => rfl
  | [_], _ => rfl
  | a :: b :: rest, h => by
    have h' := List.pairwise_cons.mp h
    simp only [ascending, Bool.and_eq_true, bne_iff_ne]
    exact ⟨h'.1 b (by simp), ascending_of_asc rank (b :: rest) h'.2⟩

/-- the shuffle operation is modelled with the index stream `crypto/rand` supplied;
    Go guarantees one index in `[0,size)` per position -/
def Op.wf (s : List α) : Op α → Prop
  | .shuffle rs => rs.length ≤ s.length ∧ ∀ r ∈ rs, r < s.length
  | _ => True

/-- **C01, one step**: for every state, every operation and every argument the
    model's observation is one the abstract ordinal-indexed sequence allows:
    in-range calls return exactly the take/drop result, out-of-range calls
    panic and leave the sequence unchanged, nothing is invented, dropped or
    reordered, and no call hangs. -/
theorem C01_step_refines (eqv : α → α → Bool) (rank : α → α → Rank) (hr : TotalPreorder rank)
    (s : List α) (op : Op α) (hwf : Op.wf s op) :
    allowed eqv rank s op (step eqv rank s op) = true := by
  cases op with
  | getValue i =>
    simp only [allowed, step, getValue]
    cases hp : pos s.length i with
    | some p =>
      have hlt := pos_lt _ _ _ hp
      simp [toZeroBased_some _ _ _ hp, List.getD_eq_getElem?_getD, hlt, isRet]
    | none =>
      obtain ⟨c, hc⟩ := toZeroBased_none _ _ hp
      simp [hc, isPanic]
  | getValues f l =>
    simp only [allowed, step, getValues]
    cases hf : pos s.length f with
    | none =>
      obtain ⟨c, hc⟩ := toZeroBased_none _ _ hf
      simp [hc, isPanic]
    | some pf =>
      rw [toZeroBased_some _ _ _ hf]
      cases hl : pos s.length l with
      | none =>
        obtain ⟨c, hc⟩ := toZeroBased_none _ _ hl
        simp [hc, isPanic]
      | some pl =>
        rw [toZeroBased_some _ _ _ hl]
        by_cases h1 : pf ≤ pl
        · have : ¬ pf > pl + 1 := by omega
          simp [h1, this, isRet]
        · by_cases h2 : pf > pl + 1
          · simp [h1, h2, isPanic]
          · have e : pl + 1 - pf = 0 := by omega
            simp [h1, h2, isRet, e]
  | setValue i v =>
    simp only [allowed, step, setValue]
    cases hp : pos s.length i with
    | some p => simp [toZeroBased_some _ _ _ hp, obsOf, isRet]
    | none =>
      obtain ⟨c, hc⟩ := toZeroBased_none _ _ hp
      simp [hc, obsOf, isPanic]
  | setValues i vs =>
    simp only [allowed, step, setValues]
    by_cases hvs : vs.isEmpty = true
    · simp only [hvs, if_true]
      have : vs = [] := by simpa using hvs
      subst this
      cases hp : pos s.length i with
      | some p =>
        have := pos_lt _ _ _ hp
        have h2 : ¬ p > s.length := by omega
        simp [toZeroBased_some _ _ _ hp, obsOf, isRet, overwrite, h2]
      | none =>
        obtain ⟨c, hc⟩ := toZeroBased_none _ _ hp
        simp [hc, obsOf, isPanic]
    · simp only [hvs]
      cases hp : pos s.length i with
      | some p =>
        rw [toZeroBased_some _ _ _ hp]
        by_cases hb : p + vs.length ≤ s.length
        · have : ¬ p + vs.length > s.length := by omega
          simp [hb, this, obsOf, isRet, overwrite]
        · have : p + vs.length > s.length := by omega
          simp [hb, this, obsOf, isPanic]
      | none =>
        obtain ⟨c, hc⟩ := toZeroBased_none _ _ hp
        simp [hc, obsOf, isPanic]
  | insertValue slot v =>
    simp only [allowed, step]
    by_cases h : slot ≤ s.length
    · simp [h, insertValue_spec s slot v h, obsOf, isRet]
    · simp [h, insertValue_out s slot v (by omega), obsOf, isPanic]
  | insertValues slot vs =>
    simp only [allowed, step]
    by_cases h : slot ≤ s.length
    · simp [h, insertValues_spec s slot vs h, obsOf, isRet]
    · simp [h, insertValues_out s slot vs (by omega), obsOf, isPanic]
  | appendValue v => simp [allowed, step, appendValue, isRet]
  | appendValues vs => simp [allowed, step, appendValues, isRet]
  | removeValue i =>
    simp only [allowed, step, removeValue, getValue]
    cases hp : pos s.length i with
    | some p =>
      have hlt := pos_lt _ _ _ hp
      simp [toZeroBased_some _ _ _ hp, toNormalized_some _ _ _ hp, removeLoop_spec,
        List.getD_eq_getElem?_getD, hlt, isRet]
    | none =>
      obtain ⟨c, hc⟩ := toZeroBased_none _ _ hp
      simp [hc, isPanic]
  | removeValues f l =>
    simp only [allowed, step, removeValues]
    cases hf : pos s.length f with
    | none =>
      obtain ⟨c, hc⟩ := toNormalized_none _ _ hf
      simp [hc, isPanic]
    | some pf =>
      rw [toNormalized_some _ _ _ hf]
      cases hl : pos s.length l with
      | none =>
        obtain ⟨c, hc⟩ := toNormalized_none _ _ hl
        simp [hc, isPanic]
      | some pl =>
        rw [toNormalized_some _ _ _ hl]
        by_cases h1 : pf ≤ pl
        · have a : ¬ ((pl : Int) + 1 - ((pf : Int) + 1) + 1 < 0) := by omega
          have e1 : ((pf : Int) + 1).toNat = pf + 1 := by omega
          have e2 : ((pl : Int) + 1).toNat = pl + 1 := by omega
          simp only [a, if_false, e1, e2, h1, if_true]
          rw [splitLoop_before (pf+1) (pl+1) s 0 (by omega) (by omega)]
          have e3 : pl + 1 + 1 - (pf + 1) = pl + 1 - pf := by omega
          simp [isRet, e3]
        · by_cases h2 : pf > pl + 1
          · have a : ((pl : Int) + 1 - ((pf : Int) + 1) + 1 < 0) := by omega
            simp [h1, a, isPanic]
          · have a : ¬ ((pl : Int) + 1 - ((pf : Int) + 1) + 1 < 0) := by omega
            have e1 : ((pf : Int) + 1).toNat = pf + 1 := by omega
            have e2 : ((pl : Int) + 1).toNat = pl + 1 := by omega
            simp only [a, if_false, e1, e2, h1]
            rw [splitLoop_before (pf+1) (pl+1) s 0 (by omega) (by omega)]
            have e3 : pl + 1 + 1 - (pf + 1) = 0 := by omega
            have e4 : pf = pl + 1 := by omega
            subst e4
            simp [isRet, e3]
  | removeAll => simp [allowed, step, isRet]
  | getIndex v => simp [allowed, step, isRet, getIndex_spec]
  | containsValue v => simp [allowed, step, isRet, containsValue_spec]
  | containsAny vs => simp [allowed, step, isRet, containsAny_spec]
  | containsAll vs => simp [allowed, step, isRet, containsAll_spec]
  | sort =>
    simp only [allowed, step, isRetWhere, arraySort]
    split
    · have hp := sortValues_perm rank s
      have ha := ascending_of_asc rank _ (sortValues_asc rank hr s)
      simp [ha, List.isPerm_iff.mpr hp]
    · have : Asc rank s := by
        match s with
        | [] => simp [Asc]
        | [_] => simp [Asc]
        | _ :: _ :: _ => simp at *
      simp [ascending_of_asc rank s this, List.isPerm_iff.mpr (List.Perm.refl s)]
  | reverse => simp [allowed, step, isRet, reverseValues_eq]
  | shuffle rs =>
    simp only [allowed, step, isRetWhere, shuffleValues]
    have hp := shuffleLoop_perm rs 0 s (by simpa using hwf.1) hwf.2
    simp [List.isPerm_iff.mpr hp]
  | asArray => simp [allowed, step, isRet]
  | iterate => simp [allowed, step, isRet]
  | getSize => simp [allowed, step, isRet]
  | isEmpty => simp [allowed, step, isRet]
  | make vs => simp [allowed, step, isRet, makeFromSequence_spec]
  | concatenate a b => simp [allowed, step, isRet, concatenate_spec]

theorem obsOf_ne_hang (s : List α) (e : Except Panic (List α)) : obsOf s e ≠ .hang := by
  cases e <;> simp [obsOf]

/-- **every call returns** (no modelled call can run for ever) -/
theorem C01_returns (eqv : α → α → Bool) (rank : α → α → Rank) (s : List α) (op : Op α) :
    step eqv rank s op ≠ .hang := by
  cases op with
  | getValue i => simp only [step]; cases getValue s i <;> simp
  | getValues f l => simp only [step]; cases getValues s f l <;> simp
  | setValue i v => exact obsOf_ne_hang _ _
  | setValues i vs => exact obsOf_ne_hang _ _
  | insertValue slot v => exact obsOf_ne_hang _ _
  | insertValues slot vs =>
    simp only [step]
    by_cases h : slot ≤ s.length
    · rw [insertValues_spec s slot vs h]; exact obsOf_ne_hang _ _
    · rw [insertValues_out s slot vs (by omega)]; exact obsOf_ne_hang _ _
  | removeValue i => simp only [step]; cases removeValue s i <;> simp
  | removeValues f l => simp only [step]; cases removeValues s f l <;> simp
  | _ => simp [step]

/-- state left behind by an observation (a hanging call leaves none) -/
def Obs.state : Obs α → List α → List α
  | .ret s _, _ => s
  | .panic s _, _ => s
  | .hang, s => s

/-- run a whole history on the model, collecting the observation of every call -/
def run (eqv : α → α → Bool) (rank : α → α → Rank) : List α → List (Op α) → List (List α × Op α × Obs α)
  | _, [] => []
  | s, op :: ops =>
    let o := step eqv rank s op
    (s, op, o) :: run eqv rank (Obs.state o s) ops

/-- **C01, every finite history**: along any sequence of operations from any
    state, every observation is allowed by the abstract sequence in the state
    the previous call left behind. -/
theorem C01_history (eqv : α → α → Bool) (rank : α → α → Rank) (hr : TotalPreorder rank) :
    ∀ (ops : List (Op α)) (s : List α), (∀ op ∈ ops, ∀ t, Op.wf t op) →
      ∀ x ∈ run eqv rank s ops, allowed eqv rank x.1 x.2.1 x.2.2 = true
  | [], _, _, x, hx => by simp [run] at hx
  | op :: ops, s, hwf, x, hx => by
    simp only [run, List.mem_cons] at hx
    rcases hx with rfl | hx
    · exact C01_step_refines eqv rank hr s op (hwf op (by simp) s)
    · exact C01_history eqv rank hr ops _ (fun o ho t => hwf o (by simp [ho]) t) x hx

/-- **a panicking call leaves the sequence unchanged** -/
theorem C01_panic_unchanged (eqv : α → α → Bool) (rank : α → α → Rank) (s : List α) (op : Op α)
    (s' : List α) (c : Panic) (h : step eqv rank s op = .panic s' c) : s' = s := by
  cases op <;> simp only [step, obsOf] at h <;> (try split at h) <;> (try split at h) <;>
    first
    | (cases h; rfl)
    | (injection h with h1 h2; exact h1.symm)
    | cases h

/-- frame: inserting touches exactly the addressed slot -/
theorem C01_insert_frame (l : List α) (slot : Nat) (v : α) (h : slot ≤ l.length) :
    ∃ l', insertValue l slot v = .ok l' ∧ l'.take slot = l.take slot ∧ l'[slot]? = some v ∧
      l'.drop (slot + 1) = l.drop slot := by
  refine ⟨_, insertValue_spec l slot v h, ?_, ?_, ?_⟩
  · simp [h]
  · simp [Nat.min_eq_left h]
  · have e : slot + 1 = (l.take slot).length + 1 := by simp [Nat.min_eq_left h]
    rw [e, List.drop_append]; simp

/-- non-vacuity: the out-of-range and in-range branches are both inhabited -/
example : step (fun a b => a == b) rankInt [1, 2, 3] (.insertValue 5 9) = .panic [1, 2, 3] .slot := by decide
example : step (fun a b => a == b) rankInt [1, 2, 3] (.insertValues 1 []) = .ret [1, 2, 3] .unit := by decide
example : step (fun a b => a == b) rankInt [1, 2, 3] (.setValues (-3) [7, 8, 9, 10, 11]) = .panic [1, 2, 3] .outOfRange := by decide
example : step (fun a b => a == b) rankInt [1, 2, 3] (.removeValues (-2) 3) = .ret [1] (.vals [2, 3]) := by decide

end CM
