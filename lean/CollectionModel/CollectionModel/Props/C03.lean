/-
  C03 — Catalog is an insertion-ordered map whose key index and order never diverge.
-/
import CollectionModel.Lemmas.AssocLemmas
import CollectionModel.Lemmas.SorterLemmas
import CollectionModel.Props.C01
namespace CM
open CM.Assoc CM.Seq CM.Sorter

variable {K V : Type} [DecidableEq K] [Inhabited K] [Inhabited V]

/-- **SetValue**: a new key is appended, an existing key has its value replaced in place,
    and the list and key index keep describing the same associations -/
theorem C03_set (c : Cat K V) (h : CatInv c) (k : K) (v : V) :
    (catSetValue c k v).assocs = specSet c.assocs k v ∧ CatInv (catSetValue c k v) :=
  ⟨catSetValue_assocs c h k v, catSetValue_inv c h k v⟩

/-- **RemoveValue**: deletes exactly that association and returns its value (zero when absent) -/
theorem C03_remove (c : Cat K V) (h : CatInv c) (k : K) :
    ∃ c', catRemoveValue c k = .ok ((lookup k c.assocs).getD default, c') ∧
      c'.assocs = specDel c.assocs k ∧ CatInv c' :=
  catRemoveValue_spec c h k

theorem C03_removeValues : ∀ (ks : List K) (c : Cat K V), CatInv c →
    ∃ c', catRemoveValues c ks = .ok (specRemoved c.assocs ks, c') ∧
      c'.assocs = ks.foldl specDel c.assocs ∧ CatInv c'
  | [], c, h => ⟨c, rfl, rfl, h⟩
  | k :: ks, c, h => by
    obtain ⟨c1, h1, h2, h3⟩ := catRemoveValue_spec c h k
    obtain ⟨c2, g1, g2, g3⟩ := C03_removeValues ks c1 h3
    refine ⟨c2, ?_, ?_, g3⟩
    · simp only [catRemoveValues, h1, g1, specRemoved, h2, specDel]
    · simp only [List.foldl_cons, g2, h2]

/-- **the views always describe the same associations** -/
theorem C03_views_agree (c : Cat K V) (h : CatInv c) (k : K) :
    catGetValue c k = (lookup k c.assocs).getD default ∧
    (c.assocs.map (·.1)).Nodup ∧
    (k ∈ c.assocs.map (·.1) ↔ (lookup k c.keys).isSome) := by
  refine ⟨by simp [catGetValue, h.same k], h.nodupA, ?_⟩
  rw [h.same k, ← any_key_iff]; simp

/-- **sorting, reversing or shuffling changes only the order, never the mapping** -/
theorem C03_reorder (c : Cat K V) (h : CatInv c) (l : List (K × V)) (hp : l.Perm c.assocs) :
    CatInv { c with assocs := l } ∧ ∀ k, lookup k l = lookup k c.assocs :=
  cat_perm_inv c h l hp

def Assoc.catAfter (o : CObs K V) (c : Cat K V) : Cat K V :=
  match o with
  | .ret c' _ => c'
  | .panic c' _ => c'
  | .hang => c

def Assoc.COp.wf (c : Cat K V) : COp K V → Prop
  | .shuffle rs => rs.length ≤ c.assocs.length ∧ ∀ r ∈ rs, r < c.assocs.length
  | _ => True

theorem catMakeFrom_fold (ps : List (K × V)) : ∀ (c : Cat K V), CatInv c →
    CatInv (ps.foldl (fun c p => catSetValue c p.1 p.2) c) ∧
    (ps.foldl (fun c p => catSetValue c p.1 p.2) c).assocs = ps.foldl (fun acc p => specSet acc p.1 p.2) c.assocs := by
  induction ps with
  | nil => intro c h; exact ⟨h, rfl⟩
  | cons p rest ih =>
    intro c h
    have := ih (catSetValue c p.1 p.2) (catSetValue_inv c h p.1 p.2)
    simp only [List.foldl_cons]
    exact ⟨this.1, by rw [this.2, catSetValue_assocs c h]⟩

theorem catExtract_inv (src : List (K × V)) : ∀ (ks : List K) (r : Cat K V), CatInv r →
    CatInv (ks.foldl (fun r k => match lookup k src with
      | some v => catSetValue r k v | none => r) r)
  | [], r, hr => hr
  | k :: ks, r, hr => by
    simp only [List.foldl_cons]
    apply catExtract_inv src ks
    cases lookup k src with
    | some v => exact catSetValue_inv r hr k v
    | none => exact hr

/-- **the invariant holds after every call** (constructors included) -/
theorem C03_step_inv (rank : (K × V) → (K × V) → Rank) (c : Cat K V) (h : CatInv c) (op : COp K V)
    (hwf : op.wf c) : CatInv (Assoc.catAfter (catStep rank c op) c) := by
  cases op with
  | setValue k v => exact catSetValue_inv c h k v
  | removeValue k =>
    obtain ⟨c', h1, _, h3⟩ := catRemoveValue_spec c h k
    simpa [catStep, h1, Assoc.catAfter] using h3
  | removeValues ks =>
    obtain ⟨c', h1, _, h3⟩ := C03_removeValues ks c h
    simpa [catStep, h1, Assoc.catAfter] using h3
  | removeAll => exact catEmpty_inv
  | sort =>
    refine (cat_perm_inv c h _ ?_).1
    unfold arraySort; split
    · exact sortValues_perm rank _
    · exact List.Perm.refl _
  | reverse =>
    refine (cat_perm_inv c h _ ?_).1
    rw [reverseValues_eq]; exact List.reverse_perm _
  | shuffle rs =>
    exact (cat_perm_inv c h _ (shuffleLoop_perm rs 0 c.assocs (by simpa using hwf.1) hwf.2)).1
  | make ps => exact (catMakeFrom_fold ps catEmpty catEmpty_inv).1
  | merge a b =>
    have h1 := catMakeFrom_fold a catEmpty catEmpty_inv
    exact (catMakeFrom_fold b _ h1.1).1
  | extract src ks => exact catExtract_inv src ks _ catEmpty_inv
  | _ => exact h

def Assoc.catRun (rank : (K × V) → (K × V) → Rank) : Cat K V → List (COp K V) → Cat K V
  | c, [] => c
  | c, op :: ops => Assoc.catRun rank (Assoc.catAfter (catStep rank c op) c) ops

/-- **after any finite history the key index and the order describe the same associations** -/
theorem C03_history_inv (rank : (K × V) → (K × V) → Rank) :
    ∀ (ops : List (COp K V)) (c : Cat K V), CatInv c → (∀ op ∈ ops, ∀ d, Assoc.COp.wf d op) →
      CatInv (Assoc.catRun rank c ops)
  | [], c, h, _ => by simpa [Assoc.catRun] using h
  | op :: ops, c, h, hw => by
    simp only [Assoc.catRun]
    exact C03_history_inv rank ops _ (C03_step_inv rank c h op (hw op (by simp) c))
      (fun o ho d => hw o (by simp [ho]) d)

example : CatInv ({ assocs := [((1 : Int), (5 : Int)), (2, 5)], keys := [(2, 5), (1, 5)] } : Cat Int Int) := by
  refine ⟨by simp [NodupKeys], by simp [NodupKeys], ?_⟩
  intro k
  by_cases h1 : (1 : Int) = k <;> by_cases h2 : (2 : Int) = k <;> simp [lookup, h1, h2] <;> omega

end CM
