/-
  Model of `collection/stack.go`: a capacity plus a List (top first).
  `AddValue` = guard + `InsertValue(0, v)`, `RemoveTop` = guard + `RemoveValue(1)`.
-/
import CollectionModel.Model.SeqOps
namespace CM
namespace Stack
open CM.Seq

structure St (α : Type) where
  cap : Nat
  vals : List α
  deriving Repr, DecidableEq

inductive Op (α : Type)
  | make                               -- Make(): default capacity
  | makeWithCapacity (c : Nat)
  | makeFrom (vs : List α)             -- MakeFromArray / MakeFromSequence
  | addValue (v : α) | removeTop | removeAll
  | asArray | iterate | getSize | getCapacity | isEmpty
  deriving Repr

abbrev Obs (α : Type) := Outcome (St α) (Res α)

variable {α : Type} [Inhabited α]

/-- `stack_.AddValue`: `size == capacity` guard, then `InsertValue(0, value)`. -/
def addValue (s : St α) (v : α) : Obs α :=
  if s.vals.length = s.cap then .panic s .stackFull
  else match insertValue s.vals 0 v with
    | .ok l => .ret { s with vals := l } .unit
    | .error p => .panic s p

/-- `stack_.RemoveTop`: `IsEmpty` guard, then `RemoveValue(1)`. -/
def removeTop (s : St α) : Obs α :=
  if s.vals.length = 0 then .panic s .stackEmpty
  else match removeValue s.vals 1 with
    | .ok (v, l) => .ret { s with vals := l } (.val v)
    | .error p => .panic s p

/-- constructors from initial values (after fix D13a): the capacity is the
    default one unless more values are supplied. -/
def makeFrom (dflt : Nat) (vs : List α) : St α :=
  let l := makeFromSequence vs
  { cap := if l.length > dflt then l.length else dflt, vals := l }

/-- one call; `dflt` is the class constant `defaultCapacity_` (generated fact). -/
def step (dflt : Nat) (s : St α) : Op α → Obs α
  | .make => .ret { cap := dflt, vals := [] } .unit
  | .makeWithCapacity c => if c < 1 then .panic s .capacity else .ret { cap := c, vals := [] } .unit
  | .makeFrom vs => .ret (makeFrom dflt vs) .unit
  | .addValue v => addValue s v
  | .removeTop => removeTop s
  | .removeAll => .ret { s with vals := [] } .unit
  | .asArray => .ret s (.vals s.vals)
  | .iterate => .ret s (.vals s.vals)
  | .getSize => .ret s (.nat s.vals.length)
  | .getCapacity => .ret s (.nat s.cap)
  | .isEmpty => .ret s (.bool (s.vals.length == 0))

/-- abstract LIFO specification: what each call may return -/
def allowed [DecidableEq α] (s : St α) (op : Op α) (o : Obs α) : Bool :=
  match op with
  | .make => (match o with | .ret s' .unit => s'.vals == [] && s'.cap ≥ 1 | _ => false)
  | .makeWithCapacity c =>
      if c ≥ 1 then o == .ret { cap := c, vals := [] } .unit
      else (match o with | .panic s' _ => s' == s | _ => false)
  | .makeFrom vs => (match o with | .ret s' .unit => s'.vals == vs && s'.vals.length ≤ s'.cap | _ => false)
  | .addValue v =>
      if s.vals.length < s.cap then o == .ret { s with vals := v :: s.vals } .unit
      else (match o with | .panic s' _ => s' == s | _ => false)
  | .removeTop => (match s.vals with
      | x :: xs => o == .ret { s with vals := xs } (.val x)
      | [] => (match o with | .panic s' _ => s' == s | _ => false))
  | .removeAll => o == .ret { s with vals := [] } .unit
  | .asArray => o == .ret s (.vals s.vals)
  | .iterate => o == .ret s (.vals s.vals)
  | .getSize => o == .ret s (.nat s.vals.length)
  | .getCapacity => o == .ret s (.nat s.cap)
  | .isEmpty => o == .ret s (.bool (s.vals.length == 0))

/-- the representation invariant: never more values than the capacity -/
def Bounded (s : St α) : Prop := s.vals.length ≤ s.cap

def Obs.state : Obs α → St α → St α
  | .ret s _, _ => s
  | .panic s _, _ => s
  | .hang, s => s

/-- a history starts with a constructor and continues with arbitrary calls -/
def runFrom (dflt : Nat) : St α → List (Op α) → St α
  | s, [] => s
  | s, op :: ops => runFrom dflt (Obs.state (step dflt s op) s) ops

end Stack
end CM
