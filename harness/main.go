package main

import (
	"flag"
	"fmt"
	"os"

	cdc "github.com/craterdog/go-collection-framework/v4/cdcn"
)

var notation = cdc.Notation().Make()

func main() {
	if len(os.Args) < 2 {
		fmt.Fprintln(os.Stderr, "usage: harness <ID> [-seed n] [-tier quick|thorough] [-out file]")
		os.Exit(2)
	}
	id := os.Args[1]
	fs := flag.NewFlagSet("harness", flag.ExitOnError)
	seed := fs.Int64("seed", 1, "PRNG seed")
	tier := fs.String("tier", "quick", "quick|thorough")
	outPath := fs.String("out", "-", "output file")
	replay := fs.String("replay", "", "re-execute the lines of this file")
	fs.Parse(os.Args[2:])
	out := newOut(*outPath)
	defer out.close()
	if *replay != "" {
		replayFile(*replay, out)
		return
	}
	switch id {
	case "C01":
		runC01(*tier, *seed, out)
	case "C02":
		runC02(*tier, *seed, out)
	case "C15":
		runC15(*tier, *seed, out)
	case "C03":
		runC03(*tier, *seed, out)
	case "C14":
		runC14(*tier, *seed, out)
	case "C16":
		runC16(*tier, *seed, out)
	case "C04", "C05":
		runQueueCheck(id, *tier, *seed, out)
	case "C19stress":
		runC19stress(*tier, *seed, out)
	case "C19":
		out.emit(J{"k": "qmeta", "pid": "C19", "note": "C19 is decided by the sharing table and the stress stage"})
	case "C06stress":
		runC06stress(*tier, *seed, out)
	case "C04stress":
		runC04stress(*tier, *seed, out)
	case "C18":
		runC18(*tier, *seed, out)
	case "C20":
		runC20(*tier, *seed, out)
	case "C06":
		runC06(*tier, *seed, out)
	case "C07", "C08":
		runCollator(id, *tier, *seed, out)
	case "C10":
		runC10(*tier, *seed, out)
	case "C10child":
		runC10child(int(*seed))
	case "C11":
		runC11(*tier, *seed, out)
	case "C12":
		runC12(*tier, *seed, out)
	case "C09":
		runC09(*tier, *seed, out)
	case "C13":
		runC13(*tier, *seed, out)
	case "C17":
		runC17(*tier, *seed, out)
	default:
		fmt.Fprintln(os.Stderr, "unknown id", id)
		os.Exit(2)
	}
}
