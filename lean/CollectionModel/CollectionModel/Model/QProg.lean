/-
  Well-formed producer / consumer / closer programs over the queue protocol of
  `Queue.lean`, for property C05's second sentence: every such program terminates
  under every schedule with every goroutine finished and every value consumed.

  A thread is a tiny program:
    prod todo sending   adds the values of `todo` one after another; `sending` = the
                        value has been appended and its token is not sent yet
    cons claimed fin    loops `v, ok := RemoveHead()` until ok = false; `claimed` = it
                        holds a token and has not popped yet; `fin` = it saw ok = false
    closer              calls CloseQueue once every producer has finished
  A step is one synchronisation operation of one thread; any thread whose operation
  can proceed may take it (every schedule).
-/
import CollectionModel.Model.Queue
namespace CM
namespace QProg

inductive T (α : Type)
  | prod (todo : List α) (sending : Bool)
  | cons (claimed : Bool) (fin : Bool)
  | closer
  deriving Repr, DecidableEq

structure PS (α : Type) where
  cap : Nat
  vals : List α
  tokens : Nat
  closed : Bool
  threads : List (T α)
  appended : List α       -- ghost
  popped : List α         -- ghost
  deriving Repr

variable {α : Type}

def prodDone : T α → Bool
  | .prod [] false => true
  | .prod _ _ => false
  | _ => true

def allProducersDone (s : PS α) : Bool := s.threads.all prodDone

inductive Step : PS α → PS α → Prop
  | prodAppend (s : PS α) (t : Nat) (v : α) (r : List α) (h : s.threads[t]? = some (.prod (v :: r) false)) :
      Step s { s with vals := s.vals ++ [v], appended := s.appended ++ [v], threads := s.threads.set t (.prod r true) }
  | prodSend (s : PS α) (t : Nat) (r : List α) (h : s.threads[t]? = some (.prod r true))
      (h2 : s.closed = false) (h3 : s.tokens < s.cap) :
      Step s { s with tokens := s.tokens + 1, threads := s.threads.set t (.prod r false) }
  | consRecv (s : PS α) (t : Nat) (h : s.threads[t]? = some (.cons false false)) (h2 : 0 < s.tokens) :
      Step s { s with tokens := s.tokens - 1, threads := s.threads.set t (.cons true false) }
  | consRecvClosed (s : PS α) (t : Nat) (h : s.threads[t]? = some (.cons false false)) (h2 : s.tokens = 0)
      (h3 : s.closed = true) :
      Step s { s with threads := s.threads.set t (.cons false true) }
  | consPop (s : PS α) (t : Nat) (x : α) (xs : List α) (h : s.threads[t]? = some (.cons true false)) (h2 : s.vals = x :: xs) :
      Step s { s with vals := xs, popped := s.popped ++ [x], threads := s.threads.set t (.cons false false) }
  | close (s : PS α) (t : Nat) (h : s.threads[t]? = some .closer) (h2 : allProducersDone s = true) (h3 : s.closed = false) :
      Step s { s with closed := true }

inductive Reach (s0 : PS α) : PS α → Prop
  | init : Reach s0 s0
  | step {s t} : Reach s0 s → Step s t → Reach s0 t

/-- a run of exactly `n` steps -/
inductive Run : PS α → Nat → PS α → Prop
  | nil (s : PS α) : Run s 0 s
  | cons {s t u : PS α} {n : Nat} : Step s t → Run t n u → Run s (n + 1) u

def isSending : T α → Bool | .prod _ true => true | _ => false
def isClaimed : T α → Bool | .cons true _ => true | _ => false
def isFin : T α → Bool | .cons _ true => true | _ => false
def isCons : T α → Bool | .cons _ _ => true | _ => false
def isCloser : T α → Bool | .closer => true | _ => false

def threadDone : T α → Bool
  | .prod [] false => true
  | .prod _ _ => false
  | .cons _ fin => fin
  | .closer => true

/-- every goroutine has finished: producers added everything, the queue is closed, every consumer saw ok = false -/
def AllFinished (s : PS α) : Prop := s.closed = true ∧ s.threads.all threadDone = true

/-- initial state of a program: fresh queue, nothing started -/
def initial (cap : Nat) (producers : List (List α)) (consumers : Nat) : PS α :=
  { cap := cap, vals := [], tokens := 0, closed := false,
    threads := producers.map (fun vs => T.prod vs false) ++ List.replicate consumers (T.cons false false) ++ [T.closer],
    appended := [], popped := [] }

/-- weight of a thread in the termination measure -/
def weight : T α → Nat
  | .prod todo sending => 10 * todo.length + (if sending then 4 else 0)
  | .cons claimed fin => if fin then 0 else if claimed then 3 else 2
  | .closer => 0

/-- the termination measure: strictly decreases with every step -/
def potential (s : PS α) : Nat :=
  (s.threads.map weight).sum + 4 * s.vals.length + 3 * s.tokens + (if s.closed then 0 else 1)

/-- the same program seen by the queue model: the program counters of `Queue.lean` -/
def pcOf : T α → Q.PC α
  | .prod _ true => .addSend
  | .prod _ false => .idle
  | .cons true _ => .remLock
  | .cons false _ => .idle
  | .closer => .idle

def toQ (s : PS α) : Q.St α :=
  { cap := s.cap, vals := s.vals, tokens := s.tokens, closed := s.closed, threads := s.threads.map pcOf,
    appended := s.appended, popped := s.popped }

end QProg
end CM
