package main

// Free-running (uncontrolled) stress programs.  This file is meant for the binary
// built with the race detector (go build -race -tags verif): the scheduler hook
// stays nil, goroutines run as the Go runtime pleases, the race detector writes its
// reports to the log named in GORACE, and the lines below carry what the clients
// observed so that the specification can judge them.

import (
	"sort"
	"fmt"
	"math/rand"
	"sync"
	"time"

	age "github.com/craterdog/go-collection-framework/v4/agent"
	cdc "github.com/craterdog/go-collection-framework/v4/cdcn"
	col "github.com/craterdog/go-collection-framework/v4/collection"
)

type stressProg struct {
	Mode      string `json:"mode"` // live | drain
	Cap       int    `json:"cap"`
	Producers int    `json:"producers"`
	Values    int    `json:"values"`
	Consumers int    `json:"consumers"`
	Observers int    `json:"observers"`
}

func runQueueStress(p stressProg) J {
	q := col.Queue[int](notation).MakeWithCapacity(uint(p.Cap))
	if p.Mode == "drain" {
		vs := make([]int, p.Values)
		for i := range vs {
			vs[i] = i + 1
		}
		q = col.Queue[int](notation).MakeFromArray(vs)
		q.CloseQueue()
	}
	var mu sync.Mutex
	var panics []string
	got := make([][]int, p.Consumers)
	maxSize := 0
	obsBad := ""
	var wgP, wgC, wgO sync.WaitGroup
	stop := make(chan struct{})
	guard := func(f func()) {
		defer func() {
			if r := recover(); r != nil {
				mu.Lock()
				panics = append(panics, classify(r))
				mu.Unlock()
			}
		}()
		f()
	}
	added := [][]int{}
	if p.Mode == "live" {
		for i := 0; i < p.Producers; i++ {
			vs := make([]int, p.Values)
			for j := range vs {
				vs[j] = (i+1)*100000 + j
			}
			added = append(added, vs)
			wgP.Add(1)
			go func() {
				defer wgP.Done()
				guard(func() {
					for _, v := range vs {
						q.AddValue(v)
					}
				})
			}()
		}
	} else {
		vs := make([]int, p.Values)
		for i := range vs {
			vs[i] = i + 1
		}
		added = append(added, vs)
	}
	for c := 0; c < p.Consumers; c++ {
		c := c
		wgC.Add(1)
		go func() {
			defer wgC.Done()
			guard(func() {
				for {
					v, ok := q.RemoveHead()
					if !ok {
						return
					}
					got[c] = append(got[c], v)
				}
			})
		}()
	}
	for o := 0; o < p.Observers; o++ {
		o := o
		wgO.Add(1)
		go func() {
			defer wgO.Done()
			guard(func() {
				for {
					select {
					case <-stop:
						return
					default:
					}
					if o%2 == 0 {
						n := q.GetSize()
						mu.Lock()
						if n > maxSize {
							maxSize = n
						}
						mu.Unlock()
					} else {
						a := q.AsArray()
						// what is listed was added, once, and per producer in order
						last := map[int]int{}
						for _, v := range a {
							pr := v / 100000
							if prev, ok := last[pr]; ok && prev >= v {
								mu.Lock()
								obsBad = "AsArray out of order or duplicated"
								mu.Unlock()
							}
							last[pr] = v
						}
					}
					time.Sleep(50 * time.Microsecond)
				}
			})
		}()
	}
	status := "done"
	finished := make(chan struct{})
	go func() {
		wgP.Wait()
		if p.Mode == "live" {
			guard(func() { q.CloseQueue() })
		}
		wgC.Wait()
		close(finished)
	}()
	select {
	case <-finished:
	case <-time.After(10 * time.Second):
		status = "hang"
	}
	close(stop)
	// the observers may themselves be stuck inside the queue when its lock discipline is broken
	obsDone := make(chan struct{})
	go func() { wgO.Wait(); close(obsDone) }()
	select {
	case <-obsDone:
	case <-time.After(5 * time.Second):
		status = "hang"
	}
	mu.Lock()
	defer mu.Unlock()
	if status == "hang" {
		// the consumers may still be appending: report what is safely known
		return J{"k": "stress", "pid": "C04", "prog": p, "status": status, "added": added, "got": [][]int{}, "panics": panics, "maxSize": maxSize, "obsBad": obsBad, "cap": p.Cap}
	}
	return J{"k": "stress", "pid": "C04", "prog": p, "status": status, "added": added, "got": got, "panics": panics, "maxSize": maxSize, "obsBad": obsBad, "cap": p.Cap}
}

func runC04stress(tier string, seed int64, out *Out) {
	r := rand.New(rand.NewSource(seed))
	n := 120
	if tier == "thorough" {
		n = 1500
	}
	stuck := 0
	for i := 0; i < n && stuck < 3; i++ {
		p := stressProg{Mode: "live", Cap: 1 + r.Intn(4), Producers: 1 + r.Intn(4), Values: 1 + r.Intn(60), Consumers: 1 + r.Intn(4), Observers: r.Intn(3)}
		if i%4 == 3 {
			p = stressProg{Mode: "drain", Values: 2 + r.Intn(60), Consumers: 2 + r.Intn(5)}
			p.Cap = p.Values
			if p.Cap < 16 {
				p.Cap = 16
			}
		}
		line := runQueueStress(p)
		if line["status"] == "hang" {
			stuck++ // three stuck programs settle the verdict; abandoned goroutines would only pile up
		}
		out.emit(line)
	}
}

// ---------------------------------------------------------------- C19

// a family runs a deterministic script on instances it creates itself and returns a digest
type family struct {
	name string
	run  func(id int) string
}

func digestInts(xs []int) string { return fmt.Sprint(xs) }

type stressRec struct {
	A []int
	B string
}

func composite(id, n int) [][]int {
	out := make([][]int, n)
	for i := range out {
		out[i] = []int{(id*7 + i*3) % 5, (id + i) % 3, i % 2}
	}
	return out
}

func scalars(id, n int) []int {
	out := make([]int, n)
	for i := range out {
		out[i] = (id*31 + i*17) % 23
	}
	return out
}

func families() []family {
	return []family{
		{"build", func(id int) string {
			l := col.List[int](notation).MakeFromArray(scalars(id, 20))
			s := col.Set[int](notation).MakeFromSequence(l)
			c := col.Catalog[int, int](notation).Make()
			for i, v := range scalars(id, 12) {
				c.SetValue(v, i)
			}
			st := col.Stack[int](notation).MakeFromSequence(s)
			return digestInts(l.AsArray()) + digestInts(s.AsArray()) + digestInts(c.GetKeys().AsArray()) + digestInts(st.AsArray())
		}},
		{"mutate", func(id int) string {
			l := col.List[int](notation).MakeFromArray(scalars(id, 10))
			for i := 0; i < 30; i++ {
				l.InsertValue(uint(i%l.GetSize()), i)
				l.RemoveValue(1 + (i*3)%l.GetSize())
				l.SetValue(1+i%l.GetSize(), id)
			}
			s := col.Set[int](notation).Make()
			for _, v := range scalars(id, 40) {
				s.AddValue(v)
				s.RemoveValue(v / 2)
			}
			return digestInts(l.AsArray()) + digestInts(s.AsArray())
		}},
		{"search", func(id int) string {
			l := col.List[[]int](notation).MakeFromArray(composite(id, 12))
			n := 0
			for _, v := range composite(id+1, 12) {
				n = n*3 + l.GetIndex(v)
				if l.ContainsValue(v) {
					n++
				}
			}
			return fmt.Sprint(n % 1000003)
		}},
		{"sort-default", func(id int) string {
			l := col.List[[]int](notation).MakeFromArray(composite(id, 25))
			l.SortValues()
			a := col.Array[int](notation).MakeFromArray(scalars(id, 30))
			a.SortValues()
			return fmt.Sprint(l.AsArray()) + digestInts(a.AsArray())
		}},
		{"sort-sorter", func(id int) string {
			vs := composite(id, 25)
			age.Sorter[[]int]().Make().SortValues(vs) // the class's default ranker
			ws := scalars(id, 30)
			age.Sorter[int]().Make().SortValues(ws)
			age.Sorter[int]().Make().ReverseValues(ws)
			return fmt.Sprint(vs) + digestInts(ws)
		}},
		{"sort-structs", func(id int) string {
			// Go structs with slice fields, ranked by the class's default ranker
			vs := make([]stressRec, 20)
			for i := range vs {
				vs[i] = stressRec{A: []int{(id + i*7) % 5, i % 3}, B: fmt.Sprint((id * i) % 11)}
			}
			age.Sorter[stressRec]().Make().SortValues(vs)
			s := col.Set[stressRec](notation).MakeFromArray(vs[:8])
			t := col.Set[stressRec](notation).MakeFromArray(vs[4:12])
			u := col.Set[stressRec](notation).Or(s, t)
			return fmt.Sprint(vs) + fmt.Sprint(u.AsArray())
		}},
		{"rank", func(id int) string {
			c := age.Collator[any]().Make()
			vs := composite(id, 10)
			n := 0
			for i := range vs {
				for j := range vs {
					n = n*3 + int(c.RankValues(vs[i], vs[j])) + 1
					if c.CompareValues(map[string]any{"a": vs[i]}, map[string]any{"a": vs[j]}) {
						n++
					}
					n %= 1000003
				}
			}
			return fmt.Sprint(n)
		}},
		{"format", func(id int) string {
			l := col.List[int](notation).MakeFromArray(scalars(id, 15))
			s := col.Set[int](notation).MakeFromArray(scalars(id, 15))
			nested := col.List[[]int](notation).MakeFromArray(composite(id, 6))
			out := ""
			for i := 0; i < 5; i++ {
				out = fmt.Sprint(l) + fmt.Sprint(s) + fmt.Sprint(nested)
			}
			return out
		}},
		{"format-notation", func(id int) string {
			n := cdc.Notation().Make()
			c := col.Catalog[string, any](n).Make()
			c.SetValue("k", composite(id, 3))
			c.SetValue("l", col.List[int](n).MakeFromArray(scalars(id, 5)))
			return n.FormatValue(c)
		}},
		{"parse", func(id int) string {
			n := cdc.Notation().Make()
			src := n.FormatValue(col.List[any](n).MakeFromArray([]any{id, "s", 1.5, col.Set[any](n).MakeFromArray([]any{id, id + 1})}))
			v := n.ParseSource(src)
			return n.FormatValue(v)
		}},
		{"shuffle", func(id int) string {
			// shuffles on distinct instances: each result is a permutation of its own input
			l := col.List[int](notation).MakeFromArray(scalars(id, 30))
			l.ShuffleValues()
			ws := scalars(id+1, 25)
			age.Sorter[int]().Make().ShuffleValues(ws)
			a := append([]int{}, l.AsArray()...)
			sort.Ints(a)
			sort.Ints(ws)
			return digestInts(a) + digestInts(ws)
		}},
		{"format-after-failure", func(id int) string {
			// a format call that panics half-way (a value without a CDCN form, nested) on one notation, then a call on
			// ANOTHER notation: what the second one writes must not depend on the first
			good := col.List[any](notation).MakeFromArray([]any{id, col.List[any](notation).MakeFromArray([]any{id + 1, "x"})})
			want := cdc.Notation().Make().FormatValue(good)
			func() {
				defer func() { recover() }()
				bad := col.List[any](notation).MakeFromArray([]any{1, col.List[any](notation).MakeFromArray([]any{2, unformattable{3}})})
				cdc.Notation().Make().FormatValue(bad)
			}()
			got := cdc.Notation().Make().FormatValue(good)
			got2 := fmt.Sprint(col.List[int](notation).MakeFromArray(scalars(id, 4)))
			return fmt.Sprint(want == got) + got + got2
		}},
		{"iterate", func(id int) string {
			l := col.List[int](notation).MakeFromArray(scalars(id, 20))
			it := l.GetIterator()
			n := 0
			for it.HasNext() {
				n = n*7 + it.GetNext()
				n %= 1000003
			}
			it.ToSlot(-3)
			for it.HasPrevious() {
				n = n*5 + it.GetPrevious()
				n %= 1000003
			}
			return fmt.Sprint(n)
		}},
		{"set-algebra", func(id int) string {
			a := col.Set[[]int](notation).MakeFromArray(composite(id, 10))
			b := col.Set[[]int](notation).MakeFromArray(composite(id+1, 10))
			c := col.Set[[]int](notation)
			r := c.Or(c.And(a, b), c.Xor(a, b))
			return fmt.Sprint(r.AsArray())
		}},
	}
}

// pairs of DIFFERENT instances that are related by a class function: And(a, b) and a
func relatedSets(id int) (func() string, func() string) {
	c := col.Set[[]int](notation)
	a := c.MakeFromArray(composite(id, 12))
	b := c.MakeFromArray(composite(id+2, 12))
	r := c.And(a, b) // a different instance
	f1 := func() string {
		for _, v := range composite(id+5, 30) {
			a.AddValue(v)
			a.RemoveValue(v)
		}
		return fmt.Sprint(a.AsArray())
	}
	f2 := func() string {
		for _, v := range composite(id+9, 30) {
			r.AddValue(v)
			r.RemoveValue(v)
		}
		return fmt.Sprint(r.AsArray())
	}
	return f1, f2
}

func runConcurrently(fs []func() string) (out []string, panics []string) {
	out = make([]string, len(fs))
	var wg sync.WaitGroup
	var mu sync.Mutex
	start := make(chan struct{})
	for i, f := range fs {
		i, f := i, f
		wg.Add(1)
		go func() {
			defer wg.Done()
			defer func() {
				if r := recover(); r != nil {
					mu.Lock()
					panics = append(panics, trunc(fmt.Sprint(r), 120))
					mu.Unlock()
				}
			}()
			<-start
			out[i] = f()
		}()
	}
	close(start)
	wg.Wait()
	return
}

// nestedValue builds [[[...[id]...]]] of the given depth
func nestedValue(depth, id int) any {
	var v any = []any{id}
	for i := 1; i < depth; i++ {
		v = []any{v, i}
	}
	return v
}

func runC19stress(tier string, seed int64, out *Out) {
	r := rand.New(rand.NewSource(seed))
	// first use of deep nesting levels: distinct formatters, collators and parsers reach depths
	// that nothing in this process has reached before, all at once
	{
		const g = 8
		fs := make([]func() string, g)
		for k := 0; k < g; k++ {
			k := k
			fs[k] = func() string {
				f := cdc.Formatter().MakeWithMaximum(64)
				c := age.Collator[any]().MakeWithMaximum(64)
				text := f.FormatValue(nestedValue(20+3*k, k))
				eq := c.CompareValues(nestedValue(20+3*k, k), nestedValue(20+3*k, k))
				return fmt.Sprint(len(text), eq)
			}
		}
		conc, panics := runConcurrently(fs)
		seq := make([]string, g)
		for k := range fs {
			seq[k] = fs[k]()
		}
		same := true
		for k := range seq {
			if seq[k] != conc[k] {
				same = false
			}
		}
		out.emit(J{"k": "indep", "pid": "C19", "families": []string{"deep-first-use", "deep-first-use"}, "g": g, "ids": []int{}, "same": same, "panics": panics})
	}
	// first use of 48 fresh types, 16 goroutines each: one class per type
	for ti, fu := range firstUses {
		const g = 16
		got := make([][]any, g)
		var wg sync.WaitGroup
		start := make(chan struct{})
		for k := 0; k < g; k++ {
			k := k
			wg.Add(1)
			go func() {
				defer wg.Done()
				<-start
				got[k] = fu(k)
			}()
		}
		close(start)
		wg.Wait()
		later := fu(0)
		distinct := make([]int, len(accessorNames))
		for a := range accessorNames {
			seen := map[any]bool{later[a]: true}
			for k := 0; k < g; k++ {
				seen[got[k][a]] = true
			}
			distinct[a] = len(seen)
		}
		out.emit(J{"k": "registry", "pid": "C19", "type": ti, "goroutines": g, "accessors": accessorNames, "distinct": distinct})
	}
	fams := families()
	reps := 3
	if tier == "thorough" {
		reps = 25
	}
	// every pair of families, on disjoint instances, in 2..16 goroutines
	for i := range fams {
		for j := i; j < len(fams); j++ {
			for _, g := range []int{2, 4, 8, 16} {
				for rep := 0; rep < reps; rep++ {
					ids := make([]int, g)
					fs := make([]func() string, g)
					names := make([]string, g)
					seq := make([]string, g)
					for k := 0; k < g; k++ {
						ids[k] = r.Intn(1000)
						f := fams[i]
						if k%2 == 1 {
							f = fams[j]
						}
						id := ids[k]
						fs[k] = func() string { return f.run(id) }
						names[k] = f.name
					}
					for k := range fs {
						seq[k] = fs[k]()
					}
					conc, panics := runConcurrently(fs)
					same := true
					for k := range seq {
						if seq[k] != conc[k] {
							same = false
						}
					}
					first := -1
					for k := range seq {
						if seq[k] != conc[k] {
							first = k
							break
						}
					}
					line := J{"k": "indep", "pid": "C19", "families": []string{fams[i].name, fams[j].name}, "g": g, "ids": ids, "same": same, "panics": panics}
					if first >= 0 {
						line["differs"] = J{"goroutine": first, "family": names[first], "sequential": trunc(seq[first], 300), "concurrent": trunc(conc[first], 300)}
					}
					out.emit(line)
				}
			}
		}
	}
	// a call that fails half-way on one instance, then the same question asked of ANOTHER instance (sequentially):
	// the answer is what it was before the failure
	for rep := 0; rep < 6; rep++ {
		good := col.List[any](notation).MakeFromArray([]any{rep, col.List[any](notation).MakeFromArray([]any{rep + 1, "x"})})
		deep := nestedValue(3+rep, rep)
		want := cdc.Notation().Make().FormatValue(good)
		wantEq := age.Collator[any]().Make().CompareValues(deep, nestedValue(3+rep, rep))
		func() {
			defer func() { recover() }()
			bad := col.List[any](notation).MakeFromArray([]any{1, col.List[any](notation).MakeFromArray([]any{2, unformattable{3}})})
			cdc.Notation().Make().FormatValue(bad)
		}()
		func() {
			defer func() { recover() }()
			age.Collator[any]().MakeWithMaximum(2).CompareValues(nestedValue(6, 1), nestedValue(6, 1))
		}()
		got := cdc.Notation().Make().FormatValue(good)
		gotEq := age.Collator[any]().Make().CompareValues(deep, nestedValue(3+rep, rep))
		line := J{"k": "indep", "pid": "C19", "families": []string{"after-a-failed-call-on-another-instance", "sequential"}, "g": 1, "ids": []int{rep},
			"same": want == got && wantEq == gotEq, "panics": []string{}}
		if want != got {
			line["differs"] = J{"goroutine": 0, "family": "format", "sequential": trunc(want, 300), "concurrent": trunc(got, 300)}
		}
		out.emit(line)
	}
	// instances related by a class function (the result of And and its first operand)
	for rep := 0; rep < reps*8; rep++ {
		id := r.Intn(1000)
		s1, s2 := relatedSets(id)
		e1, e2 := s1(), s2()
		c1, c2 := relatedSets(id)
		conc, panics := runConcurrently([]func() string{c1, c2})
		same := conc[0] == e1 && conc[1] == e2
		out.emit(J{"k": "indep", "pid": "C19", "families": []string{"set-operand", "set-result"}, "g": 2, "ids": []int{id}, "same": same, "panics": panics})
	}
}

// ---------------------------------------------------------------- C06

type wgGroup struct {
	wg   sync.WaitGroup
	mu   sync.Mutex
	adds int
}

func (g *wgGroup) Add(delta int) {
	g.mu.Lock()
	g.adds += delta
	g.mu.Unlock()
	g.wg.Add(delta)
}
func (g *wgGroup) Done() { g.wg.Done() }
func (g *wgGroup) Wait() { g.wg.Wait() }

// free-running Fork / Split / Split+Join with slow and bursty readers
func runPipeStress(p pipeProg, r *rand.Rand) J {
	class := col.Queue[int](notation)
	input := class.MakeWithCapacity(uint(p.Cap))
	grp := &wgGroup{}
	var outputs []col.QueueLike[int]
	helpers := 1
	switch p.Op {
	case "fork":
		outputs = class.Fork(grp, input, uint(p.Fan)).AsArray()
	case "split":
		outputs = class.Split(grp, input, uint(p.Fan)).AsArray()
	default:
		outputs = []col.QueueLike[int]{class.Join(grp, class.Split(grp, input, uint(p.Fan)))}
		helpers = 2
	}
	grp.mu.Lock()
	reg := grp.adds
	grp.mu.Unlock()
	outs := make([][]int, len(outputs))
	closed := make([]bool, len(outputs))
	late := false
	var mu sync.Mutex
	var readers sync.WaitGroup
	pauses := make([]int, len(outputs))
	for k := range pauses {
		pauses[k] = r.Intn(4) // 0: eager reader, otherwise slow / bursty
	}
	go func() {
		for _, v := range p.Input {
			input.AddValue(v)
		}
		input.CloseQueue()
	}()
	for k, o := range outputs {
		k, o := k, o
		readers.Add(1)
		go func() {
			defer readers.Done()
			n := 0
			for {
				v, ok := o.RemoveHead()
				if !ok {
					mu.Lock()
					closed[k] = true
					if o.GetSize() != 0 || len(o.AsArray()) != 0 {
						late = true
					}
					mu.Unlock()
					return
				}
				outs[k] = append(outs[k], v)
				n++
				if pauses[k] > 0 && n%(7*pauses[k]) == 0 {
					time.Sleep(time.Duration(pauses[k]*40) * time.Microsecond)
				}
			}
		}()
	}
	status := "done"
	finished := make(chan struct{})
	go func() { readers.Wait(); grp.Wait(); close(finished) }()
	select {
	case <-finished:
	case <-time.After(20 * time.Second):
		status = "hang"
	}
	mu.Lock()
	defer mu.Unlock()
	if status != "done" {
		outs = make([][]int, len(outputs))
	}
	return J{"k": "pipe", "pid": "C06", "prog": p, "op": p.Op, "input": ints(p.Input), "fan": p.Fan, "cap": p.Cap,
		"outs": outs, "status": status, "group": 0, "closed": closed, "late": late, "mode": "stress", "steps": 0, "reg": reg, "helpers": helpers, "elem": "int"}
}

func runC06stress(tier string, seed int64, out *Out) {
	r := rand.New(rand.NewSource(seed))
	n := 60
	if tier == "thorough" {
		n = 600
	}
	for i := 0; i < n; i++ {
		size := []int{0, 1, 5, 64, 333, 1000, 3000}[r.Intn(7)]
		in := make([]int, size)
		for j := range in {
			in[j] = j + 1
		}
		p := pipeProg{[]string{"fork", "split", "splitjoin"}[i%3], in, 2 + r.Intn(7), 1 + r.Intn(4), "int"}
		out.emit(runPipeStress(p, r))
	}
}
