package main

// C17: Iterators are bidirectional cursors over an immutable snapshot.

import (
	"math"
	age "github.com/craterdog/go-collection-framework/v4/agent"
	col "github.com/craterdog/go-collection-framework/v4/collection"
)

// iterSource is a collection of one of the seven kinds holding ints (keyed
// kinds hold key->value associations encoded as key*1000+value).
type iterSource struct {
	kind   string
	iter   func() iterHandle // obtain a fresh iterator + the snapshot it must enumerate
	mutate func(r Rng)       // apply one random mutation to the collection
}

type iterHandle struct {
	next, prev             func() int
	hasNext, hasPrev       func() bool
	toStart, toEnd         func()
	toSlot                 func(int)
	getSlot, getSize       func() int
	isEmpty                func() bool
	snapshot               []int
}

func wrapInt(it age.IteratorLike[int], snap []int) iterHandle {
	return iterHandle{it.GetNext, it.GetPrevious, it.HasNext, it.HasPrevious, it.ToStart, it.ToEnd, it.ToSlot,
		it.GetSlot, it.GetSize, it.IsEmpty, snap}
}

func assocID(a col.AssociationLike[int, int]) int {
	if a == nil {
		return 0
	}
	return a.GetKey()*1000 + a.GetValue()
}

func wrapAssoc(it age.IteratorLike[col.AssociationLike[int, int]], snap []int) iterHandle {
	return iterHandle{func() int { return assocID(it.GetNext()) }, func() int { return assocID(it.GetPrevious()) },
		it.HasNext, it.HasPrevious, it.ToStart, it.ToEnd, it.ToSlot, it.GetSlot, it.GetSize, it.IsEmpty, snap}
}

func assocIDs(as []col.AssociationLike[int, int]) []int {
	out := make([]int, len(as))
	for i, a := range as {
		out[i] = assocID(a)
	}
	return out
}

func makeIterSource(kind string, vals []int) *iterSource {
	src := &iterSource{kind: kind}
	switch kind {
	case "array":
		c := col.Array[int](notation).MakeFromArray(vals)
		src.iter = func() iterHandle { return wrapInt(c.GetIterator(), ints(c.AsArray())) }
		src.mutate = func(r Rng) {
			if c.GetSize() > 0 {
				switch r.Intn(5) {
				case 0:
					c.SetValue(1+r.Intn(c.GetSize()), 70+r.Intn(9))
				case 1:
					c.ReverseValues()
				case 2:
					c.SetValues(1+r.Intn(c.GetSize()), col.Array[int](notation).MakeFromArray([]int{60 + r.Intn(9)}))
				case 3:
					c.ShuffleValues()
				default:
					c.SortValues()
				}
			}
		}
	case "list":
		c := col.List[int](notation).MakeFromArray(vals)
		src.iter = func() iterHandle { return wrapInt(c.GetIterator(), ints(c.AsArray())) }
		src.mutate = func(r Rng) {
			switch r.Intn(8) {
			case 6:
				if c.GetSize() > 0 {
					c.SetValues(1+r.Intn(c.GetSize()), col.Array[int](notation).MakeFromArray([]int{60 + r.Intn(9)}))
				}
			case 7:
				c.ShuffleValues()
			case 0:
				c.AppendValue(70 + r.Intn(9))
			case 1:
				c.InsertValue(uint(r.Intn(c.GetSize()+1)), 80+r.Intn(9))
			case 2:
				if c.GetSize() > 0 {
					c.RemoveValue(1 + r.Intn(c.GetSize()))
				}
			case 3:
				if c.GetSize() > 0 {
					c.SetValue(1+r.Intn(c.GetSize()), 90+r.Intn(9))
				}
			case 4:
				c.ReverseValues()
			default:
				c.SortValues()
			}
		}
	case "set":
		c := col.Set[int](notation).MakeFromArray(vals)
		src.iter = func() iterHandle { return wrapInt(c.GetIterator(), ints(c.AsArray())) }
		src.mutate = func(r Rng) {
			if r.Intn(2) == 0 {
				c.AddValue(r.Intn(12))
			} else {
				c.RemoveValue(r.Intn(12))
			}
		}
	case "stack":
		c := col.Stack[int](notation).MakeFromArray(vals)
		src.iter = func() iterHandle { return wrapInt(c.GetIterator(), ints(c.AsArray())) }
		src.mutate = func(r Rng) {
			if r.Intn(2) == 0 && c.GetSize() < int(c.GetCapacity()) {
				c.AddValue(70 + r.Intn(9))
			} else if !c.IsEmpty() {
				c.RemoveTop()
			}
		}
	case "queue":
		c := col.Queue[int](notation).MakeFromArray(vals)
		src.iter = func() iterHandle { return wrapInt(c.GetIterator(), ints(c.AsArray())) }
		src.mutate = func(r Rng) {
			if r.Intn(2) == 0 && c.GetSize() < int(c.GetCapacity()) {
				c.AddValue(70 + r.Intn(9))
			} else if !c.IsEmpty() {
				c.RemoveHead()
			}
		}
	case "catalog":
		c := col.Catalog[int, int](notation).Make()
		for i, v := range vals {
			c.SetValue(i+1, v)
		}
		src.iter = func() iterHandle { return wrapAssoc(c.GetIterator(), assocIDs(c.AsArray())) }
		src.mutate = func(r Rng) {
			switch r.Intn(4) {
			case 0:
				c.SetValue(1+r.Intn(len(vals)+2), 70+r.Intn(9)) // may overwrite an existing key
			case 1:
				c.RemoveValue(1 + r.Intn(len(vals)+2))
			case 2:
				c.ReverseValues()
			default:
				c.SetValue(20+r.Intn(5), r.Intn(9))
			}
		}
	case "map":
		c := col.Map[int, int](notation).Make()
		for i, v := range vals {
			c.SetValue(i+1, v)
		}
		src.iter = func() iterHandle {
			truth := assocIDs(c.AsArray()) // what the Map holds now
			it := c.GetIterator()
			return wrapAssoc(it, mapSnapshot(truth, func() (int, bool) {
				if !it.HasNext() {
					it.ToStart()
					return 0, false
				}
				return assocID(it.GetNext()), true
			}))
		}
		src.mutate = func(r Rng) {
			if r.Intn(2) == 0 {
				c.SetValue(1+r.Intn(len(vals)+2), 70+r.Intn(9))
			} else {
				c.RemoveValue(1 + r.Intn(len(vals)+2))
			}
		}
	case "mapnan":
		// float keys, one of them NaN (a key that is not equal to itself: it can be stored and enumerated, never looked up)
		c := col.Map[float64, int](notation).Make()
		for i, v := range vals {
			k := float64(i) + 0.5
			if i%3 == 1 {
				k = math.NaN()
			}
			c.SetValue(k, v)
		}
		fid := func(a col.AssociationLike[float64, int]) int {
			if a == nil {
				return 0 // the zero value an iterator hands out at its ends
			}
			k := a.GetKey()
			if k != k {
				return 99000 + a.GetValue()
			}
			return int(k*2)*1000 + a.GetValue()
		}
		fids := func(as []col.AssociationLike[float64, int]) []int {
			out := make([]int, len(as))
			for i, a := range as {
				out[i] = fid(a)
			}
			return out
		}
		src.iter = func() iterHandle {
			truth := fids(c.AsArray())
			it := c.GetIterator()
			snap := mapSnapshot(truth, func() (int, bool) {
				if !it.HasNext() {
					it.ToStart()
					return 0, false
				}
				return fid(it.GetNext()), true
			})
			return iterHandle{func() int { return fid(it.GetNext()) }, func() int { return fid(it.GetPrevious()) },
				it.HasNext, it.HasPrevious, it.ToStart, it.ToEnd, it.ToSlot, it.GetSlot, it.GetSize, it.IsEmpty, snap}
		}
		src.mutate = func(r Rng) {
			if r.Intn(2) == 0 {
				c.SetValue(float64(r.Intn(len(vals)+2))+0.5, 70+r.Intn(9))
			} else {
				c.RemoveValue(float64(r.Intn(len(vals)+2)) + 0.5)
			}
		}
	}
	return src
}

// mapSnapshot: a Go map has no defined order, so the snapshot takes its ORDER from the iterator's first pass but its
// CONTENTS from what the Map held (AsArray): a value the iterator makes up takes the place of the one it should have shown
func mapSnapshot(truth []int, next func() (int, bool)) []int {
	left := append([]int{}, truth...)
	var snap []int
	var made []int
	for {
		v, ok := next()
		if !ok {
			break
		}
		found := false
		for i, t := range left {
			if t == v {
				left = append(left[:i], left[i+1:]...)
				found = true
				break
			}
		}
		if found {
			snap = append(snap, v)
		} else {
			made = append(made, len(snap))
			snap = append(snap, -1) // patched below
		}
	}
	for _, pos := range made {
		if len(left) > 0 {
			snap[pos] = left[0]
			left = left[1:]
		}
	}
	out := append(snap, left...)
	if out == nil {
		out = []int{}
	}
	return out
}

var iterKinds = []string{"array", "list", "set", "stack", "queue", "catalog", "map", "mapnan"}
var iterOps = []string{"getNext", "getPrevious", "hasNext", "hasPrevious", "toStart", "toEnd", "toSlot", "getSlot", "getSize", "isEmpty"}

type iterMove struct {
	op string
	k  int
}

func iterLine(out *Out, caseID int, kind string, h iterHandle, m iterMove, extra J) {
	var res any
	var slot int
	cr := guarded(0, func() {
		slot = h.getSlot()
		switch m.op {
		case "getNext":
			res = J{"v": h.next()}
		case "getPrevious":
			res = J{"v": h.prev()}
		case "hasNext":
			res = J{"b": h.hasNext()}
		case "hasPrevious":
			res = J{"b": h.hasPrev()}
		case "toStart":
			h.toStart()
		case "toEnd":
			h.toEnd()
		case "toSlot":
			h.toSlot(m.k)
		case "getSlot":
			res = J{"n": h.getSlot()}
		case "getSize":
			res = J{"n": h.getSize()}
		case "isEmpty":
			res = J{"b": h.isEmpty()}
		}
	})
	j := J{"k": "iter", "case": caseID, "src": kind, "vals": h.snapshot, "slot": slot, "op": m.op, "a": []int{m.k}, "out": cr.kind}
	if cr.kind == "ret" {
		j["res"] = res
		j["pslot"] = h.getSlot()
	} else {
		j["pc"], j["msg"] = cr.pc, cr.msg
	}
	for k, v := range extra {
		j[k] = v
	}
	out.emit(j)
}

func allMoves(size int) []iterMove {
	var ms []iterMove
	for _, op := range iterOps {
		if op == "toSlot" {
			for k := -size - 2; k <= size+2; k++ {
				ms = append(ms, iterMove{op, k})
			}
			// the ends of Go's int range: clamping must not depend on arithmetic that wraps around
			for _, k := range []int{math.MinInt, math.MinInt + 1, -(1 << 62), 1 << 62, math.MaxInt - 1, math.MaxInt} {
				ms = append(ms, iterMove{op, k})
			}
		} else {
			ms = append(ms, iterMove{op: op})
		}
	}
	return ms
}

func runC17(tier string, seed int64, out *Out) {
	rng := newRng(seed)
	caseID := 0
	maxLen := 2
	walks := 40
	if tier == "thorough" {
		maxLen, walks = 3, 400
	}
	// exhaustive: every move from every (size, slot) state, for every kind; and all
	// move sequences up to maxLen from the start (replayed), sizes 0..4
	for _, kind := range iterKinds {
		for size := 0; size <= 4; size++ {
			vals := make([]int, size)
			for i := range vals {
				vals[i] = 3 + 2*i
			}
			moves := allMoves(size)
			for slot := 0; slot <= size; slot++ {
				for _, m := range moves {
					caseID++
					h := makeIterSource(kind, vals).iter()
					h.toSlot(slot)
					iterLine(out, caseID, kind, h, m, nil)
				}
			}
			if kind == "list" || kind == "catalog" || size <= 2 {
				var rec func(seq []iterMove)
				rec = func(seq []iterMove) {
					if len(seq) == maxLen {
						caseID++
						h := makeIterSource(kind, vals).iter()
						for _, m := range seq {
							iterLine(out, caseID, kind, h, m, nil)
						}
						return
					}
					for _, m := range moves {
						rec(append(append([]iterMove{}, seq...), m))
					}
				}
				rec(nil)
			}
		}
	}
	// random walks interleaved with mutations of the source and moves of a second iterator
	for w := 0; w < walks; w++ {
		for _, kind := range iterKinds {
			caseID++
			size := rng.pick([]int{0, 1, 2, 3, 4, 7, 16})
			vals := make([]int, size)
			for i := range vals {
				vals[i] = 1 + rng.Intn(11)
			}
			if kind == "set" {
				vals = dedupSorted(vals)
			}
			src := makeIterSource(kind, vals)
			h1 := src.iter()
			h2 := src.iter()
			for s := 0; s < 30; s++ {
				m := iterMove{op: iterOps[rng.Intn(len(iterOps))], k: rng.between(-len(h1.snapshot)-2, len(h1.snapshot)+2)}
				switch rng.Intn(4) {
				case 0:
					src.mutate(rng)
					iterLine(out, caseID, kind, h1, m, J{"after": "mutation"})
				case 1:
					iterLine(out, caseID, kind, h2, m, J{"it": 2})
				default:
					iterLine(out, caseID, kind, h1, m, nil)
				}
				if rng.Intn(10) == 0 {
					h2 = src.iter() // a later iterator sees the later contents
				}
			}
		}
	}
}

func dedupSorted(xs []int) []int {
	seen := map[int]bool{}
	var out []int
	for _, x := range xs {
		if !seen[x] {
			seen[x] = true
			out = append(out, x)
		}
	}
	return out
}
