/- driver for storage scripts (C18) -/
import Driver.CollDrv
import CollectionModel.Model.Heap
open Lean CM CM.Heap

namespace Drv

def parseKind (s : String) : Kind :=
  match s with
  | "array" => .array | "list" => .list | "set" => .set | "stack" => .stack
  | "queue" => .queue | "catalog" => .catalog | _ => .map

def parsePairs (j : Json) (k : String) : List (Int × Int) :=
  (arr j k).toList.map fun p => match p.getArr? with
    | .ok a => (toInt (a.getD 0 Json.null), toInt (a.getD 1 Json.null))
    | _ => (0, 0)

def parseHeapOp (j : Json) : Option Op :=
  let x := nat j "x"; let y := nat j "y"
  match str j "op" with
  | "goArray" => some (.goArray (ints j "xs"))
  | "goPairs" => some (.goPairs (parsePairs j "ps"))
  | "goWrite" => some (.goWrite x (nat j "i") (int j "v"))
  | "goPairWrite" => some (.goPairWrite x (nat j "i") (int j "k") (int j "v"))
  | "goMapSet" => some (.goMapSet x (int j "k") (int j "v"))
  | "goMapDelete" => some (.goMapDelete x (int j "k"))
  | "makeFromArray" => some (.makeFromArray (parseKind (str j "kind")) y)
  | "makeFromSequence" => some (.makeFromSequence (parseKind (str j "kind")) y)
  | "makeFromMap" => some (.makeFromMap (parseKind (str j "kind")) y)
  | "asArray" => some (.asArray x)
  | "getValues" => some (.getValues x (int j "first") (int j "last"))
  | "getKeys" => some (.getKeys x)
  | "getValuesFor" => some (.getValuesFor x (nat j "keys"))
  | "removeValuesRange" => some (.removeValuesRange x (int j "first") (int j "last"))
  | "removeValuesFor" => some (.removeValuesFor x (nat j "keys"))
  | "concatenate" => some (.concatenate (nat j "a") (nat j "b"))
  | "setFn" => some (.setFn (nat j "which") (nat j "a") (nat j "b"))
  | "merge" => some (.merge (nat j "a") (nat j "b"))
  | "extract" => some (.extract (nat j "a") (nat j "keys"))
  | "setValue" => some (.setValue x (nat j "i") (int j "v"))
  | "setValues" => some (.setValues x (nat j "i") y)
  | "insertValues" => some (.insertValues x (nat j "slot") y)
  | "appendValues" => some (.appendValues x y)
  | "appendValue" => some (.appendValue x (int j "v"))
  | "removeValue" => some (.removeValue x (nat j "i"))
  | "reverse" => some (.reverse x)
  | "sort" => some (.sort x)
  | "addValues" => some (.addValues x y)
  | "removeValues" => some (.removeValues x y)
  | "addValue" => some (.addValue x (int j "v"))
  | "pushValue" => some (.pushValue x (int j "v"))
  | "removeFirst" => some (.removeFirst x)
  | "putValue" => some (.putValue x (int j "k") (int j "v"))
  | "dropKey" => some (.dropKey x (int j "k"))
  | "removeAll" => some (.removeAll x)
  | _ => none

/-- insertion sort of pairs by key (canonical form of unordered maps) -/
def sortPairs (ps : List (Int × Int)) : List (Int × Int) :=
  ps.foldl (fun acc p => (acc.takeWhile (fun q => q.1 ≤ p.1)) ++ p :: (acc.dropWhile (fun q => q.1 ≤ p.1))) []

def sortInts (xs : List Int) : List Int :=
  xs.foldl (fun acc p => (acc.takeWhile (· ≤ p)) ++ p :: (acc.dropWhile (· ≤ p))) []

def canonCell (unordered : Bool) : Cell → Cell
  | .pairs ps => if unordered then .pairs (sortPairs ps) else .pairs ps
  | c => c

/-- the real observation of one handle -/
def parseCellObs (j : Json) : Cell :=
  if has j "p" then .pairs (parsePairs j "p") else .vals (ints j "v")

def cellEq (a b : Cell) : Bool :=
  match a, b with
  | .vals [], .pairs [] => true
  | .pairs [], .vals [] => true
  | a, b => a == b

def cellStr : Cell → String
  | .vals xs => toString xs
  | .pairs ps => toString ps

/-- after ops whose real result was sorted by the harness, sort the model's new cell too -/
def postSort (s : St) : St :=
  let h := s.refs.length - 1
  match s.obs h with
  | .pairs ps => s.inplace h (.pairs (sortPairs ps))
  | .vals xs => s.inplace h (.vals (sortInts xs))

def heapLine (j : Json) : String :=
  let ops := (arr j "ops").toList
  let obs := (arr j "obs").toList
  let kinds := (arr j "kinds").toList.map (fun k => (k.getStr?).toOption.getD "")
  let unordered (h : Nat) : Bool := let k := kinds.getD h ""; k == "map" || k == "gomap"
  -- replay
  let rec go (s : St) (prev : List Cell) (ops : List Json) (obs : List Json) (step : Nat)
      (corr : Option String) (spec : Option String) : Option String × Option String :=
    match ops, obs with
    | o :: ops', ob :: obs' =>
      match parseHeapOp o with
      | none => (some s!"step {step}: unknown op", spec)
      | some op =>
        let s1 := exec s op
        let s' := if bool o "sorted" && s1.refs.length > s.refs.length then postSort s1 else s1
        let real := ((ob.getArr?).toOption.getD #[]).toList.map parseCellObs
        -- correspondence: every handle shows what the model shows
        let corr' := match corr with
          | some c => some c
          | none =>
            if real.length != s'.refs.length then some s!"step {step} ({str o "op"}): {real.length} handles, model {s'.refs.length}"
            else
              match (List.range real.length).find? (fun h => !cellEq (canonCell (unordered h) (s'.obs h)) (canonCell (unordered h) (real.getD h default))) with
              | some h => some s!"step {step} ({str o "op"}): handle {h} ({kinds.getD h ""}) shows {cellStr (real.getD h default)}, model {cellStr (s'.obs h)}"
              | none => none
        -- isolation, judged on the real observations alone
        let spec' := match spec with
          | some c => some c
          | none =>
            match (List.range prev.length).find? (fun h => op.receiver != some h && !cellEq (prev.getD h default) (real.getD h default)) with
            | some h => some s!"{str o "op"}-changed-{kinds.getD h ""}"
            | none => none
        go s' real ops' obs' (step + 1) corr' spec'
    | _, _ => (corr, spec)
  let (corr, spec) := go St.empty [] ops obs 0 none none
  -- self operand = separate copy
  let twin := fld j "twin"
  let spec2 := match spec with
    | some c => some c
    | none =>
      if has twin "want" then
        let recv := nat twin "recv"
        let last := ((obs.getLast?.getD Json.null).getArr?).toOption.getD #[]
        let got := parseCellObs (last.getD recv Json.null)
        if cellEq got (parseCellObs (fld twin "want")) then none else some "self-operand-differs-from-copy"
      else none
  let m := match corr with | some c => c | none => ""
  match spec2 with
  | none => verdict corr.isNone true "" m
  | some f => verdict corr.isNone false s!"alias/{f}" m

end Drv
