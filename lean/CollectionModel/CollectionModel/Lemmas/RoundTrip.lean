/-
  The round trip of the notation (C10) on the three executable models: the text the
  formatter model writes for a value of the canonical universe is read by the scanner
  model as the tokens of a syntax tree (Model/Cdcn/Sentence.lean) whose meaning is that
  value.  Together with C11_sentence_accepted (every syntax tree is parsed to its meaning)
  this gives `parse (scan (format v)) = v`.

  The text of a leaf is an external (`strconv`); what the proof needs of it is the explicit
  hypothesis `LeafLex`: a leaf's text is read as one literal token wherever the formatter
  puts it, and the conversion oracle maps that token back to the leaf.
-/
import CollectionModel.Lemmas.ScanFormat
namespace CM
namespace Cdcn

/-- what follows a leaf in the formatter's output: the end of an inline sequence, a new
    line, or the colon after a key -/
def Term (rest : Src) : Prop := ∃ c r, rest = c :: r ∧ (c = ch ']' ∨ c = 10 ∨ c = ch ':')

/-- non-empty text that does not start with a space -/
def Starts (t : Src) : Prop := ∃ c r, t = c :: r ∧ c ≠ 32

theorem Starts.nosp {t : Src} (h : Starts t) (rest : Src) : NoSp (t ++ rest) := by
  obtain ⟨c, r, rfl, hc⟩ := h
  intro r' e
  simp at e
  exact hc e.1

/-- the contract of the leaf texts (`strconv.Format*`, `Quote`, `QuoteRune`) with the scanner
    and the conversion oracle (`strconv.Parse*`, `Unquote`): wherever the formatter puts it,
    the text of a leaf is one token of a literal kind, and that token converts back to the leaf -/
structure LeafLex (leafText : Val → Option (List Nat)) (conv : Token → Option Val) : Prop where
  lex : ∀ leaf t, leafText leaf = some t → ∃ tt, isLiteralKind tt = true ∧
      (∀ rest, Term rest → matchToken (t ++ rest) = some (tt, t.length)) ∧
      (∀ line pos, conv { tt := tt, value := t, line := line, pos := pos } = some leaf)

theorem term_eol (r : Src) : Term (10 :: r) := ⟨10, r, rfl, Or.inr (Or.inl rfl)⟩
theorem term_rbracket (r : Src) : Term (ch ']' :: r) := ⟨_, r, rfl, Or.inl rfl⟩
theorem term_colon (r : Src) : Term (ch ':' :: r) := ⟨_, r, rfl, Or.inr (Or.inr rfl)⟩

variable {leafText : Val → Option (List Nat)} {conv : Token → Option Val}

theorem LeafLex.starts (h : LeafLex leafText conv) (leaf : Val) (t : List Nat) (ht : leafText leaf = some t) : Starts t := by
  obtain ⟨tt, hk, hm, _⟩ := h.lex leaf t ht
  have h1 := hm [10] (term_eol [])
  cases t with
  | nil =>
    simp only [List.nil_append, match_eol] at h1
    injection h1 with h1; injection h1 with h1 _
    subst h1; exact absurd hk (by decide)
  | cons c r =>
    refine ⟨c, r, rfl, ?_⟩
    intro e
    subst e
    rw [List.cons_append, match_space] at h1
    injection h1 with h1; injection h1 with h1 _
    subst h1; exact absurd hk (by decide)

/-- a leaf is read as one literal token that converts back to the leaf -/
theorem scan_leaf (h : LeafLex leafText conv) (leaf : Val) (t : List Nat) (ht : leafText leaf = some t)
    (R : Src) (lc : Nat × Nat) (hR : Term R) :
    ∃ tok lc', isLiteralKind tok.tt = true ∧ conv tok = some leaf ∧ scanFrom (t ++ R) lc = tok :: scanFrom R lc' := by
  obtain ⟨tt, hk, hm, hc⟩ := h.lex leaf t ht
  obtain ⟨c, r, rfl, _⟩ := h.starts leaf t ht
  refine ⟨{ tt := tt, value := c :: r, line := lc.1, pos := lc.2 }, advance lc (c :: r), hk, hc _ _, ?_⟩
  have hne : tt ≠ .space := by intro e; subst e; exact absurd hk (by decide)
  have := scanFrom_token c (r ++ R) lc tt (c :: r).length (by rw [← List.cons_append]; exact hm R hR) (by simp) hne
  rw [List.cons_append, this]
  have ht : List.take (c :: r).length (c :: (r ++ R)) = c :: r := by rw [← List.cons_append]; simp
  have hd : List.drop (c :: r).length (c :: (r ++ R)) = R := by rw [← List.cons_append]; simp
  rw [ht, hd]

/-! ### the canonical universe: what the notation can write and read back -/

/-- requirement on the items of a collection kind -/
def CollOk (mkSet : List Val → Option Val) : CK → List Val → Prop
  | .catalog, xs => (∀ x ∈ xs, isAssocVal x = true) ∧ Val.catalogOf (pairsOf xs) = xs
  | .set, xs => (∀ x ∈ xs, isAssocVal x = false) ∧ mkSet xs = some (.coll .set xs)
  | _, xs => ∀ x ∈ xs, isAssocVal x = false

mutual
/-- `Canon d v`: written at depth `d`, the value is within the formatter's limit and is
    what the parser builds: Arrays (not raw Go slices), Maps (not raw Go maps) with distinct
    keys, Catalogs with distinct keys, Sets as `Set.MakeFromSequence` orders them;
    associations only as the items of Catalogs and Maps -/
def Canon (mkSet : List Val → Option Val) (max : Nat) : Nat → Val → Prop
  | d, .arr cls n xs => cls = true ∧ n = false ∧ d < max ∧ CanonList mkSet max (d+1) xs ∧ (∀ x ∈ xs, isAssocVal x = false)
  | d, .coll k xs => d < max ∧ CanonList mkSet max (d+1) xs ∧ CollOk mkSet k xs
  | d, .gomap cls n es => cls = true ∧ n = false ∧ d < max ∧ CanonEntries mkSet max (d+1) es ∧ Val.mapOf es = es
  | d, .assoc _ x => Canon mkSet max d x ∧ isAssocVal x = false
  | _, _ => True
def CanonList (mkSet : List Val → Option Val) (max : Nat) : Nat → List Val → Prop
  | _, [] => True
  | d, x :: xs => Canon mkSet max d x ∧ CanonList mkSet max d xs
def CanonEntries (mkSet : List Val → Option Val) (max : Nat) : Nat → List (Val × Val) → Prop
  | _, [] => True
  | d, (_, x) :: es => (Canon mkSet max d x ∧ isAssocVal x = false) ∧ CanonEntries mkSet max d es
end

def isCollVal : Val → Bool
  | .arr _ _ _ => true
  | .coll _ _ => true
  | .gomap _ _ _ => true
  | _ => false

def SValue.isColl : SValue → Bool
  | .coll _ _ _ _ _ _ => true
  | .lit _ => false

theorem canonList_entries (mkSet : List Val → Option Val) (max d : Nat) :
    ∀ es : List (Val × Val), CanonEntries mkSet max d es → CanonList mkSet max d (es.map fun e => Val.assoc e.1 e.2)
  | [], _ => by simp [CanonList]
  | (k, x) :: es, h => by
    simp only [CanonEntries] at h
    simp only [List.map, CanonList, Canon]
    exact ⟨h.1, canonList_entries mkSet max d es h.2⟩

theorem pairsOf_map_assoc : ∀ es : List (Val × Val), pairsOf (es.map fun e => Val.assoc e.1 e.2) = es
  | [] => rfl
  | (k, x) :: es => by
    have := pairsOf_map_assoc es
    simp only [pairsOf, List.map, List.filterMap_cons] at this ⊢
    rw [this]

theorem all_assoc_map (es : List (Val × Val)) : ∀ x ∈ es.map (fun e => Val.assoc e.1 e.2), isAssocVal x = true := by
  intro x hx
  simp only [List.mem_map] at hx
  obtain ⟨e, _, rfl⟩ := hx
  rfl

theorem bind_ok {o : FOut} {k : List Nat → FOut} {t : List Nat} (h : o.bind k = .ok t) : ∃ t1, o = .ok t1 ∧ k t1 = .ok t := by
  cases o with
  | ok t1 => exact ⟨t1, rfl, h⟩
  | lib => simp [FOut.bind] at h
  | hang => simp [FOut.bind] at h

theorem str_colon_space : str ": " = [ch ':', 32] := by decide
theorem str_colon : str ":" = [ch ':'] := by decide
theorem str_space : str " " = [32] := by decide

end Cdcn
end CM
