/-
  C19 — Distinct instances are independent across goroutines.

  Statement (properties.jsonl): any mix of operations on different collection,
  iterator, collator, sorter, formatter and notation instances performed from
  different goroutines yields the same results as running them one after
  another, with no data race; the generic class accessors may be called
  concurrently and always return the one class for that type.

  What is proved here, for any number of goroutines, any number of actions and
  every schedule:
    * `C19_commute`, `C19_schedule_independent`: if no action of one goroutine
      writes a location that an action of another goroutine reads or writes,
      every interleaving ends in the memory that running the goroutines one
      after another produces (results are locations too, so they agree as well);
    * `C19_owned_independent`: actions confined to the locations their own
      instance owns, plus read-only shared locations, satisfy that hypothesis;
    * `C19_registry_one_class`: a class accessor that looks up and inserts in
      one critical section returns one class per type in every schedule.
  What is NOT proved: that the Go code's accesses are the ones in the sharing
  table (that is the extractor's job, checked by `Generated/Sharing.lean` and by
  the race-detector matrix), and the Go memory model itself.
-/
import CollectionModel.Model.Footprint
namespace CM
open CM.Footprint

theorem C19_commute (a b : Act) (ha : a.WB) (hb : b.WB) (hi : a.indep b) (m : Mem) :
    a.eff (b.eff m) = b.eff (a.eff m) := by
  funext l
  by_cases hla : l ∈ a.wr
  · -- written by a: b does not touch it, and a sees the same inputs either way
    have hlb : l ∉ b.wr := (hi.1 l hla).2
    rw [hb.frame _ l hlb]
    apply ha.loc _ _ _ l hla
    intro l' hl'
    apply hb.frame
    intro hw
    rcases hl' with h | h
    · exact (hi.2 l' hw).1 h
    · exact (hi.2 l' hw).2 h
  · rw [ha.frame _ l hla]
    by_cases hlb : l ∈ b.wr
    · apply hb.loc _ _ _ l hlb
      intro l' hl'
      symm
      apply ha.frame
      intro hw
      rcases hl' with h | h
      · exact (hi.1 l' hw).1 h
      · exact (hi.1 l' hw).2 h
    · rw [hb.frame _ l hlb, hb.frame _ l hlb, ha.frame _ l hla]

theorem run_append (l1 l2 : List Act) (m : Mem) : run (l1 ++ l2) m = run l2 (run l1 m) := by
  simp [run, List.foldl_append]

/-- an action independent of every action of a list can be moved across it -/
theorem run_swap (b : Act) (hb : b.WB) : ∀ (l : List Act) (m : Mem),
    (∀ a ∈ l, a.WB ∧ a.indep b) → run l (b.eff m) = b.eff (run l m)
  | [], _, _ => rfl
  | a :: l, m, h => by
    have ha := h a (by simp)
    simp only [run, List.foldl_cons]
    rw [C19_commute a b ha.1 hb ha.2 m]
    exact run_swap b hb l (a.eff m) (fun x hx => h x (by simp [hx]))

def AllWB (ts : List (List Act)) : Prop := ∀ t ∈ ts, ∀ a ∈ t, a.WB

/-- actions of different goroutines are independent -/
def CrossIndep (ts : List (List Act)) : Prop :=
  ∀ (i j : Nat) (hi : i < ts.length) (hj : j < ts.length), i ≠ j → ∀ a ∈ ts[i], ∀ b ∈ ts[j], a.indep b

theorem indep_symm {a b : Act} (h : a.indep b) : b.indep a := ⟨h.2, h.1⟩

/-- **every schedule is equivalent to the sequential one**: any interleaving of
    any number of goroutines whose actions are pairwise independent across
    goroutines ends in the memory obtained by running goroutine 1 to
    completion, then goroutine 2, and so on. -/
theorem C19_schedule_independent : ∀ (ts : List (List Act)) (l : List Act), Interleave ts l →
    AllWB ts → CrossIndep ts → ∀ m, run l m = run ts.flatten m := by
  intro ts l hl
  induction hl with
  | done ts h =>
    intro _ _ m
    have : ts.flatten = [] := by
      rw [List.flatten_eq_nil_iff]; exact h
    rw [this]
  | step pre post a t l _ ih =>
    intro hwb hci m
    have hwb' : AllWB (pre ++ t :: post) := by
      intro u hu x hx
      rcases List.mem_append.mp hu with hu | hu
      · exact hwb u (by simp [hu]) x hx
      · rcases List.mem_cons.mp hu with rfl | hu
        · exact hwb (a :: u) (by simp) x (by simp [hx])
        · exact hwb u (by simp [hu]) x hx
    have hci' : CrossIndep (pre ++ t :: post) := by
      intro i j hi hj hij x hx y hy
      have hi2 : i < (pre ++ (a :: t) :: post).length := by simpa using hi
      have hj2 : j < (pre ++ (a :: t) :: post).length := by simpa using hj
      have key := hci i j hi2 hj2 hij
      have sub : ∀ (k : Nat) (hk : k < (pre ++ t :: post).length) (hk2 : k < (pre ++ (a :: t) :: post).length),
          ∀ z ∈ (pre ++ t :: post)[k], z ∈ (pre ++ (a :: t) :: post)[k] := by
        intro k hk hk2 z hz
        by_cases h1 : k < pre.length
        · rw [List.getElem_append_left h1] at hz ⊢; exact hz
        · rw [List.getElem_append_right (by omega)] at hz ⊢
          by_cases h2 : k - pre.length = 0
          · simp only [h2, List.getElem_cons_zero] at hz ⊢; simp [hz]
          · obtain ⟨q, hq⟩ : ∃ q, k - pre.length = q + 1 := ⟨k - pre.length - 1, by omega⟩
            simp only [hq, List.getElem_cons_succ] at hz ⊢; exact hz
      exact key x (sub i hi hi2 x hx) y (sub j hj hj2 y hy)
    simp only [run, List.foldl_cons]
    have e := ih hwb' hci' (a.eff m)
    simp only [run] at e
    rw [e]
    -- move `a` in front of everything the goroutines before its own do
    have hawb : a.WB := hwb (a :: t) (by simp) a (by simp)
    have hpre : ∀ x ∈ pre.flatten, x.WB ∧ x.indep a := by
      intro x hx
      obtain ⟨u, hu, hxu⟩ := List.mem_flatten.mp hx
      obtain ⟨i, hi, rfl⟩ := List.getElem_of_mem hu
      have hi2 : i < (pre ++ (a :: t) :: post).length := by simp; omega
      have hj2 : pre.length < (pre ++ (a :: t) :: post).length := by simp
      have hx' : x ∈ (pre ++ (a :: t) :: post)[i] := by rw [List.getElem_append_left hi]; exact hxu
      have ha' : a ∈ (pre ++ (a :: t) :: post)[pre.length] := by
        rw [List.getElem_append_right (by omega)]; simp
      exact ⟨hwb _ (by simp [List.getElem_mem hi]) x hxu, hci i pre.length hi2 hj2 (by omega) x hx' a ha'⟩
    have := run_swap a hawb pre.flatten m hpre
    simp only [List.flatten_append, List.flatten_cons, List.foldl_append, List.foldl_cons]
    simp only [run] at this
    rw [this]

/-! ### instances own their locations -/

/-- instance `i` owns the locations `own i`; `shared` locations are read-only -/
structure Owned (own : Nat → Loc → Prop) (shared : Loc → Prop) (i : Nat) (a : Act) : Prop where
  writes : ∀ l ∈ a.wr, own i l
  reads : ∀ l ∈ a.rd, own i l ∨ shared l

/-- **distinct instances are independent**: when no location is owned by two
    instances and owned locations are not shared ones, actions confined to
    different instances never conflict -/
theorem C19_owned_independent (own : Nat → Loc → Prop) (shared : Loc → Prop)
    (hdisj : ∀ i j l, i ≠ j → own i l → ¬ own j l) (hsh : ∀ i l, own i l → ¬ shared l)
    (i j : Nat) (hij : i ≠ j) (a b : Act) (ha : Owned own shared i a) (hb : Owned own shared j b) :
    a.indep b := by
  constructor
  · intro l hl
    have ho := ha.writes l hl
    constructor
    · intro hr
      rcases hb.reads l hr with h | h
      · exact hdisj i j l hij ho h
      · exact hsh i l ho h
    · intro hw; exact hdisj i j l hij ho (hb.writes l hw)
  · intro l hl
    have ho := hb.writes l hl
    constructor
    · intro hr
      rcases ha.reads l hr with h | h
      · exact hdisj j i l (Ne.symm hij) ho h
      · exact hsh j l ho h
    · intro hw; exact hdisj j i l (Ne.symm hij) ho (ha.writes l hw)

/-! ### class registries -/

theorem find_access_same (r : Registry) (ty : Nat) :
    (r.access ty).1.find ty = some (r.access ty).2 := by
  unfold Registry.access
  cases h : r.find ty with
  | some c => simp [h]
  | none => simp [Registry.find]

theorem find_access_other (r : Registry) (ty ty' : Nat) (c : Nat) (h : r.find ty' = some c) :
    (r.access ty).1.find ty' = some c := by
  unfold Registry.access
  cases h2 : r.find ty with
  | some c2 => simpa using h
  | none =>
    have hne : ty ≠ ty' := by intro he; subst he; rw [h] at h2; cases h2
    simp only [Registry.find, List.find?_cons]
    have : ((ty, r.next).1 == ty') = false := by simp [hne]
    rw [this]
    exact h

/-- once a type has a class, every later accessor call – by whichever goroutine,
    for whichever types, in whichever order – returns that class for it -/
theorem C19_registry_stable : ∀ (tys : List Nat) (r : Registry) (ty c : Nat), r.find ty = some c →
    ((r.accessAll tys).1.find ty = some c) ∧
    ∀ k (hk : k < tys.length), tys[k] = ty → (r.accessAll tys).2[k]? = some c
  | [], r, ty, c, h => ⟨h, fun k hk => by simp at hk⟩
  | t :: tys, r, ty, c, h => by
    have h1 : (r.access t).1.find ty = some c := find_access_other r t ty c h
    have ih := C19_registry_stable tys (r.access t).1 ty c h1
    refine ⟨by simpa [Registry.accessAll] using ih.1, ?_⟩
    intro k hk hkt
    cases k with
    | zero =>
      simp only [List.getElem_cons_zero] at hkt
      subst hkt
      have : (r.access t).2 = c := by
        unfold Registry.access; simp [h]
      simp [Registry.accessAll, this]
    | succ k =>
      simp only [List.getElem_cons_succ] at hkt
      have := ih.2 k (by simpa using hk) hkt
      simpa [Registry.accessAll] using this

/-- **one class per type**: in any sequence of accessor calls (any schedule of
    the atomic accessors), two calls for the same type return the same class -/
theorem C19_registry_one_class (tys : List Nat) (r : Registry) (i j : Nat)
    (hi : i < tys.length) (hj : j < tys.length) (hij : i ≤ j) (hsame : tys[i] = tys[j]) :
    (r.accessAll tys).2[i]? = (r.accessAll tys).2[j]? := by
  induction tys generalizing r i j with
  | nil => simp at hi
  | cons t tys ih =>
    cases i with
    | zero =>
      cases j with
      | zero => rfl
      | succ j =>
        simp only [List.getElem_cons_zero, List.getElem_cons_succ] at hsame
        have hf := find_access_same r t
        have := (C19_registry_stable tys (r.access t).1 t (r.access t).2 hf).2 j (by simpa using hj) hsame.symm
        simp [Registry.accessAll, this]
    | succ i =>
      cases j with
      | zero => omega
      | succ j =>
        simp only [List.getElem_cons_succ] at hsame
        have := ih (r.access t).1 i j (by simpa using hi) (by simpa using hj) (by omega) hsame
        simpa [Registry.accessAll] using this

/-! ### non-vacuity -/

/-- two counters owned by two instances: incrementing them in either order -/
def incr (l : Loc) : Act := { rd := [l], wr := [l], eff := fun m x => if x = l then m l + 1 else m x }

theorem incr_wb (l : Loc) : (incr l).WB :=
  ⟨fun m x hx => by simp [incr] at hx ⊢; intro h; exact absurd h hx,
   fun m m' h x hx => by
     simp [incr] at hx ⊢; subst hx
     have := h x (Or.inl (by simp [incr]))
     simp [this]⟩

example : (incr 0).indep (incr 1) := by simp [Act.indep, incr]

example : ((Registry.accessAll { classes := [], next := 1 } [7, 8, 7, 7, 8]).2) = [1, 2, 1, 1, 2] := by decide

end CM
