/-
  Model of `cdcn/formatter.go` (after the fixes D10a float text, D10b singletons count as a
  level, D10c fresh state per call).  The text of a leaf (strconv.FormatInt/FormatUint/
  FormatBool/FormatFloat/Quote/QuoteRune) is the external `leafText`.
-/
import CollectionModel.Model.Val
import CollectionModel.Model.Cdcn.Scan
namespace CM
namespace Cdcn

inductive FOut
  | ok (text : List Nat)
  | lib            -- "Attempted to format unknown intrinsic" / a collection used as a key
  | hang
  deriving Repr, DecidableEq

def str (s : String) : List Nat := s.toList.map ch

/-- `appendNewline`: a newline followed by four spaces per level -/
def newline (d : Nat) : List Nat := 10 :: List.replicate (4 * d) 32

def ctxName : Val → List Nat
  | .arr _ _ _ => str "Array"
  | .gomap _ _ _ => str "Map"
  | .coll .catalog _ => str "Catalog"
  | .coll .list _ => str "List"
  | .coll .queue _ => str "Queue"
  | .coll .set _ => str "Set"
  | .coll .stack _ => str "Stack"
  | _ => []

def FOut.bind (o : FOut) (k : List Nat → FOut) : FOut :=
  match o with
  | .ok t => k t
  | .lib => .lib
  | .hang => .hang

variable (leafText : Val → Option (List Nat)) (max : Nat)

mutual
/-- `formatValue` at depth `d` -/
def fmtValue : Nat → Nat → Val → FOut
  | 0, _, _ => .hang
  | f+1, d, v =>
    match v with
    | .arr _ _ xs => (fmtItems f d false xs).bind fun t => .ok (ch '[' :: t ++ ch ']' :: ch '(' :: ctxName v ++ [ch ')'])
    | .coll k xs => (fmtItems f d (k == .catalog) xs).bind fun t => .ok (ch '[' :: t ++ ch ']' :: ch '(' :: ctxName v ++ [ch ')'])
    | .gomap _ _ es => (fmtItems f d true (es.map fun e => .assoc e.1 e.2)).bind fun t =>
        .ok (ch '[' :: t ++ ch ']' :: ch '(' :: ctxName v ++ [ch ')'])
    | .assoc k x =>
      (match leafText k with
       | none => .lib
       | some kt => (fmtValue f d x).bind fun t => .ok (kt ++ str ": " ++ t))
    | leaf => (match leafText leaf with | some t => .ok t | none => .lib)
/-- `formatArray` / `formatValues` / `formatMap` / `formatAssociations`: elision at the limit,
    empty marker, inline singleton (one level deeper), multi-line otherwise -/
def fmtItems : Nat → Nat → Bool → List Val → FOut
  | 0, _, _, _ => .hang
  | f+1, d, keyed, xs =>
    if d = max then .ok (str "...")
    else match xs with
      | [] => .ok (if keyed then str ":" else str " ")
      | [x] => fmtValue f (d+1) x
      | xs => (fmtLines f (d+1) xs).bind fun t => .ok (t ++ newline d)
/-- the loop of the multi-line arm: a newline and the value, for every value -/
def fmtLines : Nat → Nat → List Val → FOut
  | 0, _, _ => .hang
  | _+1, _, [] => .ok []
  | f+1, d, x :: xs =>
    (fmtValue f d x).bind fun t => (fmtLines f d xs).bind fun rest => .ok (newline d ++ t ++ rest)
end

/-- public `FormatValue`: a fresh buffer and depth, the value, a final newline -/
def formatValue (fuel : Nat) (v : Val) : FOut :=
  (fmtValue leafText max fuel 0 v).bind fun t => .ok (t ++ [10])

end Cdcn
end CM
