import CollectionModel.Lemmas.RoundTrip
namespace CM
namespace Cdcn

variable (env : Env)

/-- what the scanner reads from the text of a value -/
def ValueLex (t : Src) (v : Val) : Prop :=
  Starts t ∧ ∀ R lc, Term R → ∃ (S : SValue) (lc' : Nat × Nat),
    scanFrom (t ++ R) lc = S.toks ++ scanFrom R lc' ∧ S.Good ∧ S.mean env = some v ∧ (isCollVal v = true → S.isColl = true)

def AssocLex (t : Src) (k x : Val) : Prop :=
  Starts t ∧ ∀ R lc, Term R → ∃ (A : SAssoc) (lc' : Nat × Nat),
    scanFrom (t ++ R) lc = A.toks ++ scanFrom R lc' ∧ A.Good ∧ A.mean env = some (k, x)

def ItemsLex (t : Src) (xs : List Val) : Prop :=
  ∀ R lc, ∃ (I : SItems) (lc' : Nat × Nat),
    scanFrom (t ++ ch ']' :: R) lc = I.toks ++ scanFrom (ch ']' :: R) lc' ∧ I.Good ∧ I.mean env = some xs

def LinesLex (t : Src) (xs : List Val) : Prop :=
  (t = [] ∨ ∃ r, t = 10 :: r) ∧ ∀ R lc, (∃ r, R = 10 :: r) → ∃ (V : SVals) (lc' : Nat × Nat),
    scanFrom (t ++ R) lc = V.toks ++ scanFrom R lc' ∧ V.Good isEol ∧ V.mean env = some xs

def ALinesLex (t : Src) (xs : List Val) : Prop :=
  (t = [] ∨ ∃ r, t = 10 :: r) ∧ ∀ R lc, (∃ r, R = 10 :: r) → ∃ (V : SAssocs) (lc' : Nat × Nat),
    scanFrom (t ++ R) lc = V.toks ++ scanFrom R lc' ∧ V.Good isEol ∧ V.mean env = some (pairsOf xs)

variable {env}

theorem leaf_lex {leafText : Val → Option (List Nat)} (hl : LeafLex leafText env.conv) (leaf : Val) (t : List Nat)
    (ht : leafText leaf = some t) (hc : isCollVal leaf = false) : ValueLex env t leaf := by
  refine ⟨hl.starts leaf t ht, fun R lc hR => ?_⟩
  obtain ⟨tok, lc', hk, hconv, hs⟩ := scan_leaf hl leaf t ht R lc hR
  exact ⟨.lit tok, lc', by simp [SValue.toks, hs], hk, hconv, by simp [hc]⟩

/-- a collection: `[` items `](Type)` -/
theorem coll_lex (v : Val) (ti : Src) (items : List Val) (hctx : ctxName v ≠ []) (hi : ItemsLex env ti items)
    (hcoll : collOf env.mkSet (ctxName v) items = some v) :
    ValueLex env (ch '[' :: ti ++ ch ']' :: ch '(' :: ctxName v ++ [ch ')']) v := by
  refine ⟨⟨_, _, rfl, by decide⟩, fun R lc _ => ?_⟩
  obtain ⟨lb, lc1, hlb, e1⟩ := scan_lbracket (ti ++ ch ']' :: ch '(' :: (ctxName v ++ ch ')' :: R)) lc
  obtain ⟨I, lc2, e2, hIg, hIm⟩ := hi (ch '(' :: (ctxName v ++ ch ')' :: R)) lc1
  obtain ⟨rb, lp, ty, rp, lc3, hrb, hlp, hty, htyv, hrp, e3⟩ := scan_context v hctx R lc2
  refine ⟨.coll lb I rb lp ty rp, lc3, ?_, ⟨hlb, hIg, hrb, hlp, hty, hrp⟩, ?_, fun _ => rfl⟩
  · have : (ch '[' :: ti ++ ch ']' :: ch '(' :: ctxName v ++ [ch ')']) ++ R
        = ch '[' :: (ti ++ ch ']' :: ch '(' :: (ctxName v ++ ch ')' :: R)) := by simp
    rw [this, e1, e2, e3]
    simp [SValue.toks]
  · simp only [SValue.mean, hIm, htyv, hcoll]

end Cdcn
end CM
