package main

// C18: Go arrays and maps crossing the API are copied, never aliased.
// A script is a sequence of storage-relevant calls over a table of handles; after
// every step the contents seen through EVERY handle are recorded.  The driver
// replays the script on the Lean storage model (Model/Heap.lean) and judges the
// real observations: only the receiver of a step (and its new result) may change.

import (
	"fmt"
	"math/rand"
	"sort"

	col "github.com/craterdog/go-collection-framework/v4/collection"
)

type hobj struct {
	kind string // goarr gopairs gomap array list set stack queue catalog map
	v    any
}

type script struct {
	hs    []hobj
	ops   []J
	obs   [][]any // observation of all handles after each step
	fail  string
	label string
	twin  J
}

type assoc = col.AssociationLike[int, int]

func (s *script) observe() []any {
	out := make([]any, len(s.hs))
	for i, h := range s.hs {
		out[i] = observeObj(h)
	}
	return out
}

func pairsJ(as []assoc, sorted bool) J {
	ps := make([][2]int, len(as))
	for i, a := range as {
		ps[i] = [2]int{a.GetKey(), a.GetValue()}
	}
	if sorted {
		sort.Slice(ps, func(i, j int) bool { return ps[i][0] < ps[j][0] })
	}
	return J{"p": ps}
}

func observeObj(h hobj) any {
	switch v := h.v.(type) {
	case []int:
		return J{"v": append([]int{}, v...)}
	case []assoc:
		return pairsJ(v, false)
	case map[int]int:
		ps := [][2]int{}
		for k, x := range v {
			ps = append(ps, [2]int{k, x})
		}
		sort.Slice(ps, func(i, j int) bool { return ps[i][0] < ps[j][0] })
		return J{"p": ps}
	case col.Sequential[int]:
		return J{"v": append([]int{}, v.AsArray()...)}
	case col.Sequential[assoc]:
		return pairsJ(v.AsArray(), h.kind == "map")
	}
	return J{"v": []int{}}
}

// do performs one step on the real objects; the op is recorded in model terms
func (s *script) do(op J, f func()) bool {
	if s.fail != "" {
		return false
	}
	cr := guarded(0, f)
	if cr.kind != "ret" {
		// a panicking call is not part of a storage script: drop it and stop here
		s.fail = fmt.Sprintf("%v: %s %s", op["op"], cr.pc, cr.msg)
		return false
	}
	s.ops = append(s.ops, op)
	s.obs = append(s.obs, s.observe())
	return true
}

func (s *script) add(kind string, v any) int {
	if kind == "array" {
		// a returned Sequential: what it really is decides how it can be mutated
		switch v.(type) {
		case col.ListLike[int]:
			kind = "list"
		case col.SetLike[int]:
			kind = "set"
		}
	}
	s.hs = append(s.hs, hobj{kind, v})
	return len(s.hs) - 1
}

func seqInts(h hobj) col.Sequential[int] { return h.v.(col.Sequential[int]) }

var valueKinds = []string{"array", "list", "set", "stack", "queue"}
var keyedKinds = []string{"catalog", "map"}

func (s *script) goArray(xs []int) int {
	var h int
	s.do(J{"op": "goArray", "xs": xs}, func() { h = s.add("goarr", append([]int{}, xs...)) })
	return h
}

func mkPairs(ps [][2]int) []assoc {
	out := make([]assoc, len(ps))
	for i, p := range ps {
		out[i] = col.Association[int, int](notation).Make(p[0], p[1])
	}
	return out
}

func (s *script) goPairs(ps [][2]int) int {
	var h int
	s.do(J{"op": "goPairs", "ps": ps}, func() { h = s.add("gopairs", mkPairs(ps)) })
	return h
}

func (s *script) goMap(ps [][2]int) int {
	var h int
	// a Go map holds one value per key: the model's pairs are those of the map
	m := map[int]int{}
	for _, p := range ps {
		m[p[0]] = p[1]
	}
	var canon [][2]int
	for k, v := range m {
		canon = append(canon, [2]int{k, v})
	}
	sort.Slice(canon, func(i, j int) bool { return canon[i][0] < canon[j][0] })
	s.do(J{"op": "goPairs", "ps": canon, "gomap": true}, func() { h = s.add("gomap", m) })
	return h
}

func (s *script) makeFromArray(kind string, y int) int {
	var h int
	s.do(J{"op": "makeFromArray", "kind": kind, "y": y}, func() {
		switch kind {
		case "array":
			h = s.add(kind, col.Array[int](notation).MakeFromArray(s.hs[y].v.([]int)))
		case "list":
			h = s.add(kind, col.List[int](notation).MakeFromArray(s.hs[y].v.([]int)))
		case "set":
			h = s.add(kind, col.Set[int](notation).MakeFromArray(s.hs[y].v.([]int)))
		case "stack":
			h = s.add(kind, col.Stack[int](notation).MakeFromArray(s.hs[y].v.([]int)))
		case "queue":
			h = s.add(kind, col.Queue[int](notation).MakeFromArray(s.hs[y].v.([]int)))
		case "catalog":
			h = s.add(kind, col.Catalog[int, int](notation).MakeFromArray(s.hs[y].v.([]assoc)))
		case "map":
			h = s.add(kind, col.Map[int, int](notation).MakeFromArray(s.hs[y].v.([]assoc)))
		}
	})
	return h
}

func (s *script) makeFromSequence(kind string, y int) int {
	var h int
	fromMap := s.hs[y].kind == "map" && kind == "catalog"
	s.do(J{"op": "makeFromSequence", "kind": kind, "y": y, "sorted": fromMap}, func() {
		defer func() {
			if fromMap {
				s.hs[h].v.(col.CatalogLike[int, int]).SortValues()
			}
		}()
		switch kind {
		case "array":
			h = s.add(kind, col.Array[int](notation).MakeFromSequence(seqInts(s.hs[y])))
		case "list":
			h = s.add(kind, col.List[int](notation).MakeFromSequence(seqInts(s.hs[y])))
		case "set":
			h = s.add(kind, col.Set[int](notation).MakeFromSequence(seqInts(s.hs[y])))
		case "stack":
			h = s.add(kind, col.Stack[int](notation).MakeFromSequence(seqInts(s.hs[y])))
		case "queue":
			h = s.add(kind, col.Queue[int](notation).MakeFromSequence(seqInts(s.hs[y])))
		case "catalog":
			h = s.add(kind, col.Catalog[int, int](notation).MakeFromSequence(s.hs[y].v.(col.Sequential[assoc])))
		case "map":
			h = s.add(kind, col.Map[int, int](notation).MakeFromSequence(s.hs[y].v.(col.Sequential[assoc])))
		}
	})
	return h
}

func (s *script) makeFromMap(kind string, y int) int {
	var h int
	s.do(J{"op": "makeFromMap", "kind": kind, "y": y, "sorted": kind == "catalog"}, func() {
		if kind == "catalog" {
			c := col.Catalog[int, int](notation).MakeFromMap(s.hs[y].v.(map[int]int))
			c.SortValues() // the iteration order of a Go map is unspecified: fix it
			h = s.add(kind, c)
		} else {
			h = s.add(kind, col.Map[int, int](notation).MakeFromMap(s.hs[y].v.(map[int]int)))
		}
	})
	return h
}

func (s *script) asArray(x int) int {
	var h int
	s.do(J{"op": "asArray", "x": x, "sorted": s.hs[x].kind == "map"}, func() {
		switch v := s.hs[x].v.(type) {
		case col.Sequential[int]:
			h = s.add("goarr", v.AsArray())
		case col.Sequential[assoc]:
			as := v.AsArray()
			if s.hs[x].kind == "map" {
				sort.Slice(as, func(i, j int) bool { return as[i].GetKey() < as[j].GetKey() })
			}
			h = s.add("gopairs", as)
		}
	})
	return h
}

func (s *script) getValues(x, first, last int) int {
	var h int
	s.do(J{"op": "getValues", "x": x, "first": first, "last": last}, func() {
		h = s.add("array", s.hs[x].v.(col.Accessible[int]).GetValues(first, last))
	})
	return h
}

type keyed interface {
	GetKeys() col.Sequential[int]
	GetValues(keys col.Sequential[int]) col.Sequential[int]
	RemoveValues(keys col.Sequential[int]) col.Sequential[int]
	SetValue(key int, value int)
	RemoveValue(key int) int
	RemoveAll()
}

func (s *script) getKeys(x int) int {
	var h int
	s.do(J{"op": "getKeys", "x": x, "sorted": s.hs[x].kind == "map"}, func() {
		ks := s.hs[x].v.(keyed).GetKeys()
		if s.hs[x].kind == "map" {
			// the order of a Go map is unspecified: fix it (in place, on the result only)
			ks.(col.Sortable[int]).SortValues()
		}
		h = s.add("array", ks)
	})
	return h
}

func (s *script) getValuesFor(x, keys int) int {
	var h int
	s.do(J{"op": "getValuesFor", "x": x, "keys": keys}, func() {
		h = s.add("array", s.hs[x].v.(keyed).GetValues(seqInts(s.hs[keys])))
	})
	return h
}

func (s *script) removeValuesFor(x, keys int) int {
	var h int
	s.do(J{"op": "removeValuesFor", "x": x, "keys": keys}, func() {
		h = s.add("array", s.hs[x].v.(keyed).RemoveValues(seqInts(s.hs[keys])))
	})
	return h
}

func (s *script) removeValuesRange(x, first, last int) int {
	var h int
	s.do(J{"op": "removeValuesRange", "x": x, "first": first, "last": last}, func() {
		h = s.add("array", s.hs[x].v.(col.ListLike[int]).RemoveValues(first, last))
	})
	return h
}

func (s *script) concatenate(a, b int) int {
	var h int
	s.do(J{"op": "concatenate", "a": a, "b": b}, func() {
		h = s.add("list", col.List[int](notation).Concatenate(s.hs[a].v.(col.ListLike[int]), s.hs[b].v.(col.ListLike[int])))
	})
	return h
}

func (s *script) setFn(which, a, b int) int {
	var h int
	s.do(J{"op": "setFn", "which": which, "a": a, "b": b}, func() {
		c := col.Set[int](notation)
		x, y := s.hs[a].v.(col.SetLike[int]), s.hs[b].v.(col.SetLike[int])
		var r col.SetLike[int]
		switch which {
		case 0:
			r = c.And(x, y)
		case 1:
			r = c.Or(x, y)
		case 2:
			r = c.Sans(x, y)
		default:
			r = c.Xor(x, y)
		}
		h = s.add("set", r)
	})
	return h
}

func (s *script) merge(a, b int) int {
	var h int
	s.do(J{"op": "merge", "a": a, "b": b}, func() {
		h = s.add("catalog", col.Catalog[int, int](notation).Merge(s.hs[a].v.(col.CatalogLike[int, int]), s.hs[b].v.(col.CatalogLike[int, int])))
	})
	return h
}

func (s *script) extract(a, keys int) int {
	var h int
	s.do(J{"op": "extract", "a": a, "keys": keys}, func() {
		h = s.add("catalog", col.Catalog[int, int](notation).Extract(s.hs[a].v.(col.CatalogLike[int, int]), seqInts(s.hs[keys])))
	})
	return h
}

// ---- mutators ----

func (s *script) size(x int) int {
	switch v := s.hs[x].v.(type) {
	case []int:
		return len(v)
	case []assoc:
		return len(v)
	case map[int]int:
		return len(v)
	case col.Sequential[int]:
		return v.GetSize()
	case col.Sequential[assoc]:
		return v.GetSize()
	}
	return 0
}

// mutate applies the m-th applicable mutator of handle x (with operand y for the
// bulk ones); returns false when none applies
func (s *script) mutate(x int, m int, r *rand.Rand, y int) bool {
	h := s.hs[x]
	n := s.size(x)
	val := 90 + r.Intn(9)
	pos := 0
	if n > 0 {
		pos = r.Intn(n)
	}
	switch h.kind {
	case "goarr":
		if n == 0 {
			return false
		}
		return s.do(J{"op": "goWrite", "x": x, "i": pos, "v": val}, func() { h.v.([]int)[pos] = val })
	case "gopairs":
		if n == 0 {
			return false
		}
		as := h.v.([]assoc)
		if m%2 == 0 {
			k := as[pos].GetKey()
			return s.do(J{"op": "goPairWrite", "x": x, "i": pos, "k": k, "v": val, "how": "object"}, func() { as[pos].SetValue(val) })
		}
		return s.do(J{"op": "goPairWrite", "x": x, "i": pos, "k": val, "v": val + 1, "how": "slot"}, func() {
			as[pos] = col.Association[int, int](notation).Make(val, val+1)
		})
	case "gomap":
		mp := h.v.(map[int]int)
		if m%2 == 0 || n == 0 {
			k := r.Intn(6)
			return s.do(J{"op": "goMapSet", "x": x, "k": k, "v": val}, func() { mp[k] = val })
		}
		k := r.Intn(6)
		return s.do(J{"op": "goMapDelete", "x": x, "k": k}, func() { delete(mp, k) })
	case "array":
		a := h.v.(col.ArrayLike[int])
		switch m % 4 {
		case 0:
			if n == 0 {
				return false
			}
			return s.do(J{"op": "setValue", "x": x, "i": pos, "v": val}, func() { a.SetValue(pos+1, val) })
		case 1:
			return s.do(J{"op": "reverse", "x": x}, func() { a.ReverseValues() })
		case 2:
			return s.do(J{"op": "sort", "x": x}, func() { a.SortValues() })
		default:
			if y < 0 || n == 0 || s.size(y) == 0 || s.size(y) > n-pos {
				return false
			}
			return s.do(J{"op": "setValues", "x": x, "i": pos, "y": y}, func() { a.SetValues(pos+1, seqInts(s.hs[y])) })
		}
	case "list":
		l := h.v.(col.ListLike[int])
		switch m % 9 {
		case 0:
			if n == 0 {
				return false
			}
			return s.do(J{"op": "setValue", "x": x, "i": pos, "v": val}, func() { l.SetValue(pos+1, val) })
		case 1:
			return s.do(J{"op": "appendValue", "x": x, "v": val}, func() { l.AppendValue(val) })
		case 2:
			if n == 0 {
				return false
			}
			return s.do(J{"op": "removeValue", "x": x, "i": pos}, func() { l.RemoveValue(pos + 1) })
		case 3:
			return s.do(J{"op": "reverse", "x": x}, func() { l.ReverseValues() })
		case 4:
			return s.do(J{"op": "sort", "x": x}, func() { l.SortValues() })
		case 5:
			if y < 0 {
				return false
			}
			return s.do(J{"op": "appendValues", "x": x, "y": y}, func() { l.AppendValues(seqInts(s.hs[y])) })
		case 6:
			if y < 0 {
				return false
			}
			slot := r.Intn(n + 1)
			return s.do(J{"op": "insertValues", "x": x, "slot": slot, "y": y}, func() { l.InsertValues(uint(slot), seqInts(s.hs[y])) })
		case 7:
			if y < 0 || n == 0 || s.size(y) == 0 || s.size(y) > n-pos {
				return false
			}
			return s.do(J{"op": "setValues", "x": x, "i": pos, "y": y}, func() { l.SetValues(pos+1, seqInts(s.hs[y])) })
		default:
			return s.do(J{"op": "removeAll", "x": x}, func() { l.RemoveAll() })
		}
	case "set":
		st := h.v.(col.SetLike[int])
		switch m % 4 {
		case 0:
			return s.do(J{"op": "addValue", "x": x, "v": val}, func() { st.AddValue(val) })
		case 1:
			if y < 0 {
				return false
			}
			return s.do(J{"op": "addValues", "x": x, "y": y}, func() { st.AddValues(seqInts(s.hs[y])) })
		case 2:
			if y < 0 {
				return false
			}
			return s.do(J{"op": "removeValues", "x": x, "y": y}, func() { st.RemoveValues(seqInts(s.hs[y])) })
		default:
			return s.do(J{"op": "removeAll", "x": x}, func() { st.RemoveAll() })
		}
	case "stack":
		st := h.v.(col.StackLike[int])
		switch m % 3 {
		case 0:
			if n >= int(st.GetCapacity()) {
				return false
			}
			return s.do(J{"op": "pushValue", "x": x, "v": val}, func() { st.AddValue(val) })
		case 1:
			if n == 0 {
				return false
			}
			return s.do(J{"op": "removeFirst", "x": x}, func() { st.RemoveTop() })
		default:
			return s.do(J{"op": "removeAll", "x": x}, func() { st.RemoveAll() })
		}
	case "queue":
		q := h.v.(col.QueueLike[int])
		switch m % 3 {
		case 0:
			if n >= int(q.GetCapacity()) {
				return false
			}
			return s.do(J{"op": "appendValue", "x": x, "v": val}, func() { q.AddValue(val) })
		case 1:
			if n == 0 {
				return false
			}
			return s.do(J{"op": "removeFirst", "x": x}, func() { q.RemoveHead() })
		default:
			return s.do(J{"op": "removeAll", "x": x}, func() { q.RemoveAll() })
		}
	case "catalog", "map":
		k := h.v.(keyed)
		switch m % 4 {
		case 0:
			key := r.Intn(6)
			return s.do(J{"op": "putValue", "x": x, "k": key, "v": val, "kind": h.kind}, func() { k.SetValue(key, val) })
		case 1:
			key := r.Intn(6)
			return s.do(J{"op": "dropKey", "x": x, "k": key}, func() { k.RemoveValue(key) })
		case 2:
			if h.kind != "catalog" {
				return false
			}
			return s.do(J{"op": "reverse", "x": x}, func() { h.v.(col.CatalogLike[int, int]).ReverseValues() })
		default:
			return s.do(J{"op": "removeAll", "x": x, "pairs": true}, func() { k.RemoveAll() })
		}
	}
	return false
}

func mutatorCount(kind string) int {
	switch kind {
	case "goarr":
		return 1
	case "gopairs", "gomap":
		return 2
	case "array":
		return 4
	case "list":
		return 9
	case "set":
		return 4
	case "stack", "queue":
		return 3
	case "catalog", "map":
		return 4
	}
	return 0
}

func (s *script) emit(out *Out, caseID int) {
	kinds := make([]string, len(s.hs))
	for i, h := range s.hs {
		kinds[i] = h.kind
	}
	out.emit(J{"k": "heap", "pid": "C18", "case": caseID, "label": s.label, "ops": s.ops, "obs": s.obs, "kinds": kinds, "dropped": s.fail, "twin": s.twin})
}

func contents(r *rand.Rand, n int) []int {
	xs := make([]int, n)
	for i := range xs {
		xs[i] = r.Intn(7)
	}
	return xs
}

func pairContents(r *rand.Rand, n int) [][2]int {
	ps := make([][2]int, n)
	for i := range ps {
		ps[i] = [2]int{r.Intn(6), 10 + r.Intn(9)}
	}
	return ps
}

// a bulk-operation operand for handle x: the receiver itself, a view of it, a copy
func (s *script) operandFor(x int, how int) int {
	n := s.size(x)
	switch how {
	case 0:
		return x
	case 1:
		if n == 0 {
			return -1
		}
		if _, ok := s.hs[x].v.(col.Accessible[int]); !ok {
			return -1
		}
		return s.getValues(x, 1, n)
	case 2:
		if n < 2 {
			return -1
		}
		if _, ok := s.hs[x].v.(col.Accessible[int]); !ok {
			return -1
		}
		return s.getValues(x, 2, n)
	default:
		a := s.asArray(x)
		return s.makeFromArray("list", a)
	}
}

func runC18(tier string, seed int64, out *Out) {
	r := rand.New(rand.NewSource(seed))
	caseID := 0
	flush := func(s *script) {
		caseID++
		s.emit(out, caseID)
	}
	maxN := 4
	repsAB := 1
	if tier == "thorough" {
		repsAB = 5
	}
	for repAB := 0; repAB < repsAB; repAB++ {
		// A. constructors from a Go array / Go map: write the argument at every position,
		//    then mutate the collection with every mutator; B. results of every getter:
		//    mutate the result at every position, then the collection with every mutator.
		for n := 0; n <= maxN; n++ {
			for _, kind := range append(append([]string{}, valueKinds...), keyedKinds...) {
				keyedK := kind == "catalog" || kind == "map"
				for variant := 0; variant < 3; variant++ {
					s := &script{label: fmt.Sprintf("ctor/%s/n%d/v%d", kind, n, variant)}
					var g, c int
					if keyedK {
						if variant == 2 {
							g = s.goMap(pairContents(r, n))
							c = s.makeFromMap(kind, g)
						} else {
							g = s.goPairs(pairContents(r, n))
							c = s.makeFromArray(kind, g)
						}
					} else {
						g = s.goArray(contents(r, n))
						c = s.makeFromArray(kind, g)
					}
					// every position of the argument
					for i := 0; i < n; i++ {
						switch s.hs[g].kind {
						case "goarr":
							s.do(J{"op": "goWrite", "x": g, "i": i, "v": 70 + i}, func() { s.hs[g].v.([]int)[i] = 70 + i })
						case "gopairs":
							as := s.hs[g].v.([]assoc)
							if variant == 0 {
								k := as[i].GetKey()
								s.do(J{"op": "goPairWrite", "x": g, "i": i, "k": k, "v": 70 + i, "how": "object"}, func() { as[i].SetValue(70 + i) })
							} else {
								s.do(J{"op": "goPairWrite", "x": g, "i": i, "k": 40 + i, "v": 70 + i, "how": "slot"}, func() {
									as[i] = col.Association[int, int](notation).Make(40+i, 70+i)
								})
							}
						case "gomap":
							s.mutate(g, i, r, -1)
						}
					}
					// every mutator of the collection (self operand for the bulk ones)
					for m := 0; m < mutatorCount(kind); m++ {
						s.mutate(c, m, r, c)
					}
					// and the argument once more
					s.mutate(g, 0, r, -1)
					flush(s)
				}
				// results
				getters := []string{"asArray", "iterArray"}
				if kind == "array" || kind == "list" || kind == "set" {
					getters = append(getters, "getValues")
				}
				if kind == "list" {
					getters = append(getters, "removeValuesRange", "concatenate", "concatenateEmpty")
				}
				if kind == "set" {
					getters = append(getters, "and", "or", "sans", "xor")
				}
				if keyedK {
					getters = append(getters, "getKeys", "getValuesFor", "removeValuesFor")
				}
				if kind == "catalog" {
					getters = append(getters, "merge", "mergeEmpty", "extract")
				}
				for _, kind2 := range []string{"array", "list", "set", "stack", "queue", "catalog", "map"} {
					if (kind2 == "catalog" || kind2 == "map") == keyedK {
						getters = append(getters, "seq:"+kind2)
					}
				}
				for _, gt := range getters {
					s := &script{label: fmt.Sprintf("result/%s/%s/n%d", kind, gt, n)}
					var g, c int
					if keyedK {
						g = s.goPairs(pairContents(r, n))
					} else {
						g = s.goArray(contents(r, n))
					}
					c = s.makeFromArray(kind, g)
					res := -1
					size := s.size(c)
					switch gt {
					case "asArray", "iterArray":
						res = s.asArray(c)
					case "getValues":
						if size == 0 {
							continue
						}
						f := 1 + r.Intn(size)
						l := f + r.Intn(size-f+1)
						res = s.getValues(c, f, l)
					case "removeValuesRange":
						if size == 0 {
							continue
						}
						f := 1 + r.Intn(size)
						l := f + r.Intn(size-f+1)
						res = s.removeValuesRange(c, f, l)
					case "concatenate", "concatenateEmpty":
						m2 := r.Intn(3)
						if gt == "concatenateEmpty" {
							m2 = 0
						}
						g2 := s.goArray(contents(r, m2))
						c2 := s.makeFromArray("list", g2)
						if r.Intn(2) == 0 || gt == "concatenateEmpty" {
							res = s.concatenate(c, c2)
						} else {
							res = s.concatenate(c2, c)
						}
						if gt == "concatenateEmpty" {
							// also the mirror image: empty first operand
							res2 := s.concatenate(c2, c)
							s.mutate(res2, 1, r, -1)
						}
					case "and", "or", "sans", "xor":
						m2 := r.Intn(4)
						if n%2 == 0 {
							m2 = 0
						}
						g2 := s.goArray(contents(r, m2))
						c2 := s.makeFromArray("set", g2)
						which := map[string]int{"and": 0, "or": 1, "sans": 2, "xor": 3}[gt]
						res = s.setFn(which, c, c2)
						res2 := s.setFn(which, c2, c)
						s.mutate(res2, 0, r, -1)
					case "getKeys":
						res = s.getKeys(c)
					case "getValuesFor", "removeValuesFor":
						ks := s.getKeys(c)
						extra := s.goArray([]int{r.Intn(8), r.Intn(8)})
						el := s.makeFromArray("list", extra)
						s.mutate(el, 5, r, ks) // AppendValues(keys)
						if gt == "getValuesFor" {
							res = s.getValuesFor(c, el)
						} else {
							res = s.removeValuesFor(c, el)
						}
					case "merge", "mergeEmpty":
						m2 := r.Intn(3)
						if gt == "mergeEmpty" {
							m2 = 0
						}
						g2 := s.goPairs(pairContents(r, m2))
						c2 := s.makeFromArray("catalog", g2)
						res = s.merge(c, c2)
						res2 := s.merge(c2, c)
						s.mutate(res2, 0, r, -1)
					case "extract":
						ks := s.getKeys(c)
						res = s.extract(c, ks)
					default: // seq:<kind2>: construct kind2 from this collection as a sequence
						res = s.makeFromSequence(gt[4:], c)
					}
					if res < 0 || s.fail != "" {
						flush(s)
						continue
					}
					// mutate the result at every position (Go arrays), or with every mutator
					rk := s.hs[res].kind
					if rk == "goarr" || rk == "gopairs" {
						for i := 0; i < s.size(res); i++ {
							if rk == "goarr" {
								s.do(J{"op": "goWrite", "x": res, "i": i, "v": 80 + i}, func() { s.hs[res].v.([]int)[i] = 80 + i })
							} else {
								as := s.hs[res].v.([]assoc)
								k := as[i].GetKey()
								s.do(J{"op": "goPairWrite", "x": res, "i": i, "k": k, "v": 80 + i, "how": "object"}, func() { as[i].SetValue(80 + i) })
							}
						}
					} else {
						for m := 0; m < mutatorCount(rk); m++ {
							s.mutate(res, m, r, res)
						}
					}
					// then the collection with every mutator (operand: the result where it fits)
					for m := 0; m < mutatorCount(kind); m++ {
						op := -1
						if _, ok := s.hs[res].v.(col.Sequential[int]); ok && !keyedK {
							op = res
						}
						s.mutate(c, m, r, op)
					}
					if rk != "goarr" && rk != "gopairs" {
						s.mutate(res, 0, r, -1)
					}
					flush(s)
				}
			}
		}
	}
	// C. every bulk operation with the receiver itself and views of it as operand;
	//    the twin script passes a detached copy instead and must end in the same state
	bulk := map[string][]int{"list": {5, 6, 7}, "array": {3}, "set": {1, 2}}
	for n := 0; n <= maxN; n++ {
		for _, kind := range []string{"array", "list", "set"} {
			for _, m := range bulk[kind] {
				for how := 0; how < 4; how++ {
					for rep := 0; rep < 3; rep++ {
						xs := contents(r, n)
						sd := r.Int63()
						build := func(how int, reps int) (*script, int) {
							rr := rand.New(rand.NewSource(sd))
							s := &script{label: fmt.Sprintf("self/%s/m%d/how%d/n%d", kind, m, how, n)}
							g := s.goArray(xs)
							c := s.makeFromArray(kind, g)
							y := s.operandFor(c, how)
							for i := 0; i < reps && y >= 0; i++ {
								s.mutate(c, m, rr, y)
							}
							return s, c
						}
						// with the receiver itself as operand a second call would see the changed
						// receiver, which no copy taken beforehand can imitate: one call then
						reps := 2
						if how == 0 {
							reps = 1
						}
						s, c := build(how, reps)
						if how <= 1 && s.fail == "" {
							t, tc := build(3, reps)
							if t.fail == "" && len(t.obs) > 0 && len(s.obs) > 0 {
								s.twin = J{"recv": c, "want": t.obs[len(t.obs)-1][tc]}
							}
						}
						flush(s)
					}
				}
			}
		}
	}
	// D. random scripts
	count := 300
	if tier == "thorough" {
		count = 4000
	}
	for i := 0; i < count; i++ {
		s := &script{label: "random"}
		steps := 6 + r.Intn(14)
		for st := 0; st < steps && s.fail == ""; st++ {
			if len(s.hs) == 0 || r.Intn(4) == 0 {
				switch r.Intn(3) {
				case 0:
					s.goArray(contents(r, r.Intn(5)))
				case 1:
					s.goPairs(pairContents(r, r.Intn(5)))
				default:
					s.goMap(pairContents(r, r.Intn(5)))
				}
				continue
			}
			x := r.Intn(len(s.hs))
			h := s.hs[x]
			switch r.Intn(3) {
			case 0: // derive something from x
				switch h.kind {
				case "goarr":
					s.makeFromArray(valueKinds[r.Intn(5)], x)
				case "gopairs":
					s.makeFromArray(keyedKinds[r.Intn(2)], x)
				case "gomap":
					s.makeFromMap(keyedKinds[r.Intn(2)], x)
				case "catalog", "map":
					switch r.Intn(4) {
					case 0:
						s.asArray(x)
					case 1:
						s.getKeys(x)
					case 2:
						s.makeFromSequence(keyedKinds[r.Intn(2)], x)
					default:
						ks := s.getKeys(x)
						if h.kind == "catalog" {
							s.extract(x, ks)
						} else {
							s.getValuesFor(x, ks)
						}
					}
				default:
					switch r.Intn(4) {
					case 0:
						s.asArray(x)
					case 1:
						n := s.size(x)
						if _, ok := h.v.(col.Accessible[int]); ok && n > 0 {
							f := 1 + r.Intn(n)
							s.getValues(x, f, f+r.Intn(n-f+1))
						}
					case 2:
						s.makeFromSequence(valueKinds[r.Intn(5)], x)
					default:
						if h.kind == "list" {
							s.concatenate(x, x)
						} else if h.kind == "set" {
							s.setFn(r.Intn(4), x, x)
						}
					}
				}
			default: // mutate x, operand = a random value sequence (possibly x itself)
				y := -1
				var cands []int
				for i, o := range s.hs {
					if _, ok := o.v.(col.Sequential[int]); ok && o.kind != "queue" {
						cands = append(cands, i)
					}
				}
				if len(cands) > 0 {
					y = cands[r.Intn(len(cands))]
				}
				s.mutate(x, r.Intn(9), r, y)
			}
		}
		flush(s)
	}
}
