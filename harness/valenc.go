package main

// Encoding of Go values into the model's value universe (Val) for the collator
// and CDCN checks.  This is the harness's observation function: it mirrors what
// reflection shows (kind, type name, contents), nothing of the collator's logic.

import (
	"math"
	"math/cmplx"
	"reflect"
	"strings"
)

// floatKey: order-preserving integer image of the IEEE bits; +0 and -0 map to 0.
func floatKey(f float64) int64 {
	b := math.Float64bits(f)
	if b>>63 == 0 {
		return int64(b)
	}
	return -int64(b & 0x7fffffffffffffff)
}

func encFloat(f float64) J {
	if f != f {
		return J{"nan": true}
	}
	return J{"k": floatKey(f)}
}

func encVal(v any) J {
	if v == nil {
		return J{"t": "undef"}
	}
	switch x := v.(type) {
	case bool:
		return J{"t": "bool", "b": x}
	case uint8:
		return J{"t": "byte", "n": uint64(x)}
	case uint16:
		return J{"t": "uns", "n": uint64(x)}
	case uint32:
		return J{"t": "uns", "n": uint64(x)}
	case uint64:
		return J{"t": "uns", "n": x}
	case uint:
		return J{"t": "uns", "n": uint64(x)}
	case int8:
		return J{"t": "int", "i": int64(x)}
	case int16:
		return J{"t": "int", "i": int64(x)}
	case int64:
		return J{"t": "int", "i": x}
	case int:
		return J{"t": "int", "i": int64(x)}
	case int32:
		return J{"t": "rune", "i": int64(x)}
	case float32:
		return J{"t": "flt", "f": encFloat(float64(x))}
	case float64:
		return J{"t": "flt", "f": encFloat(x)}
	case complex64:
		return encComplex(complex128(x))
	case complex128:
		return encComplex(x)
	case string:
		bs := make([]int, len(x))
		for i := 0; i < len(x); i++ {
			bs[i] = int(x[i])
		}
		return J{"t": "str", "s": bs}
	}
	rv := reflect.ValueOf(v)
	ts := rv.Type().String()
	switch rv.Kind() {
	case reflect.Slice, reflect.Array:
		xs := []J{}
		for i := 0; i < rv.Len(); i++ {
			xs = append(xs, encVal(rv.Index(i).Interface()))
		}
		return J{"t": "arr", "cls": strings.HasPrefix(ts, "collection.array_"), "nil": rv.Kind() == reflect.Slice && rv.IsNil(), "xs": xs}
	case reflect.Map:
		es := [][2]J{}
		it := rv.MapRange()
		for it.Next() {
			es = append(es, [2]J{encVal(it.Key().Interface()), encVal(it.Value().Interface())})
		}
		return J{"t": "gomap", "cls": strings.HasPrefix(ts, "collection.map_"), "nil": rv.IsNil(), "es": es}
	case reflect.Pointer, reflect.Interface:
		if rv.IsNil() {
			return J{"t": "undef"}
		}
		if m := rv.MethodByName("GetKey"); m.IsValid() && !rv.MethodByName("GetKeys").IsValid() {
			k := m.Call(nil)[0].Interface()
			val := rv.MethodByName("GetValue").Call(nil)[0].Interface()
			return J{"t": "assoc", "k": encVal(k), "v": encVal(val)}
		}
		if m := rv.MethodByName("AsArray"); m.IsValid() {
			arr := m.Call(nil)[0]
			xs := []J{}
			for i := 0; i < arr.Len(); i++ {
				xs = append(xs, encVal(arr.Index(i).Interface()))
			}
			kind := "list"
			for _, k := range []string{"catalog", "list", "queue", "set", "stack"} {
				if strings.HasPrefix(ts, "*collection."+k+"_") {
					kind = k
				}
			}
			return J{"t": "coll", "k": kind, "xs": xs}
		}
	}
	return J{"t": "unsupported", "ty": ts}
}

func encComplex(z complex128) J {
	return J{"t": "cpx", "re": encFloat(real(z)), "im": encFloat(imag(z)), "abs": encFloat(cmplx.Abs(z)), "ph": encFloat(cmplx.Phase(z))}
}
