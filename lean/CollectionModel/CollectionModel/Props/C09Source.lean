/-
  C09 on the source as it is written: the theorems of Props/C09.lean carried over to the
  definitions TRANSLATED from sorter.go on every run (Generated/LoopsSorter.lean) through the
  refinement theorems of Tie/LoopsSorter.lean.
-/
import CollectionModel.Tie.LoopsSorter
import CollectionModel.Props.C09
namespace CM
open CM.GoSem CM.Sorter CM.Tie

variable {α : Type} [Inhabited α]

/-- a pure ranker, as the stateful-ranker interface of the translation sees it -/
def pureRanker (rank : α → α → Rank) : Unit → α → α → Rank × Unit := fun _ a b => (rank a b, ())

theorem mergeM_pure (rank : α → α → Rank) : ∀ (l r : List α), mergeM (pureRanker rank) () l r = (merge rank l r, ())
  | [], r => by cases r <;> simp [mergeM, merge]
  | a :: l, [] => by simp [mergeM, merge]
  | a :: l, b :: r => by
    have h1 := mergeM_pure rank l (b :: r)
    have h2 := mergeM_pure rank (a :: l) r
    simp only [mergeM, merge]
    by_cases h : rank a b = .lt
    · simp only [pureRanker, h, if_true] at h1 ⊢; rw [h1]
    · simp only [pureRanker, h, if_false] at h2 ⊢; rw [h2]

theorem mergePassM_pure (rank : α → α → Rank) (w : Nat) :
    ∀ (f : Nat) (xs : List α), mergePassM (pureRanker rank) w f () xs = (mergePass rank w f xs, ())
  | 0, xs => by simp [mergePassM, mergePass]
  | f+1, [] => by simp [mergePassM, mergePass]
  | f+1, x :: xs => by
    simp only [mergePassM, mergePass, mergeM_pure, mergePassM_pure rank w f]

theorem sortLoopM_pure (rank : α → α → Rank) :
    ∀ (f w : Nat) (xs : List α), sortLoopM (pureRanker rank) f w () xs = (sortLoop rank f w xs, ())
  | 0, w, xs => by simp [sortLoopM, sortLoop]
  | f+1, w, xs => by
    simp only [sortLoopM, sortLoop, mergePassM_pure]
    split
    · exact sortLoopM_pure rank f (2 * w) _
    · rfl

theorem sortValuesM_pure (rank : α → α → Rank) (xs : List α) :
    sortValuesM (pureRanker rank) () xs = (sortValues rank xs, ()) := sortLoopM_pure rank _ _ _

/-- **SortValues as written in sorter.go terminates and leaves a permutation, for every ranking function** –
    stateful, random or inconsistent – and every array of fewer than 2^61 values; no other array is touched -/
theorem C09_source_sort_perm {σ : Type} (ranker : σ → α → α → Rank × σ) (mem : Mem α) (a : Nat) (w : σ) (fuel : Nat)
    (ha : a < mem.length) (hint : IsInt64 (4 * ((mem.arr a).length : Int) + 4)) (hfuel : 2 * (mem.arr a).length + 4 ≤ fuel) :
    ∃ mem' w', Generated.sortValues ranker (whole a (mem.arr a).length) mem w fuel = some (.ok (mem', w'))
      ∧ (mem'.arr a).Perm (mem.arr a) ∧ ∀ c, c < mem.length → c ≠ a → mem'.arr c = mem.arr c := by
  obtain ⟨mem', h1, h2, h3⟩ := sortValues_tie ranker mem a w fuel ha hint hfuel
  exact ⟨mem', _, h1, by rw [h2]; exact C09_sort_perm_any_ranker ranker w (mem.arr a), h3⟩

/-- **… and when the ranker is a total preorder the array ends up ascending** -/
theorem C09_source_sort_ascending (rank : α → α → Rank) (hr : TotalPreorder rank) (mem : Mem α) (a : Nat) (fuel : Nat)
    (ha : a < mem.length) (hint : IsInt64 (4 * ((mem.arr a).length : Int) + 4)) (hfuel : 2 * (mem.arr a).length + 4 ≤ fuel) :
    ∃ mem', Generated.sortValues (pureRanker rank) (whole a (mem.arr a).length) mem () fuel = some (.ok (mem', ()))
      ∧ mem'.arr a = sortValues rank (mem.arr a)
      ∧ (mem'.arr a).Pairwise (fun x y => rank x y ≠ .gt) ∧ (mem'.arr a).Perm (mem.arr a) := by
  obtain ⟨mem', h1, h2, _⟩ := sortValues_tie (pureRanker rank) mem a () fuel ha hint hfuel
  rw [sortValuesM_pure] at h1 h2
  exact ⟨mem', h1, h2, by rw [h2]; exact C09_sort_ascending rank hr _, by rw [h2]; exact C09_sort_perm rank _⟩

/-- **ReverseValues as written in sorter.go reverses exactly** -/
theorem C09_source_reverse (mem : Mem α) (p : Nat) (fuel : Nat) (hp : p < mem.length)
    (hint : IsInt64 (((mem.arr p).length : Int) + 1)) (hfuel : (mem.arr p).length / 2 < fuel) :
    Generated.reverseValues (whole p (mem.arr p).length) mem fuel = some (.ok (mem.setArr p (mem.arr p).reverse)) := by
  rw [reverseValues_tie mem p fuel hp hint hfuel, C09_reverse]

/-- **ShuffleValues as written in sorter.go yields a permutation** whenever `randomizeIndex` answers within `[0, size)` -/
theorem C09_source_shuffle_perm {σ : Type} (rnd : σ → Int → Int × σ) (mem : Mem α) (p : Nat) (w : σ) (fuel : Nat) (hp : p < mem.length)
    (hint : IsInt64 (((mem.arr p).length : Int) + 1)) (hfuel : (mem.arr p).length < fuel)
    (hr : ∀ w, 0 ≤ (rnd w ((mem.arr p).length : Int)).1 ∧ (rnd w ((mem.arr p).length : Int)).1 < ((mem.arr p).length : Int)) :
    ∃ mem' w', Generated.shuffleValues rnd (whole p (mem.arr p).length) mem w fuel = some (.ok (mem', w'))
      ∧ (mem'.arr p).Perm (mem.arr p) := by
  refine ⟨_, _, shuffleValues_tie rnd mem p w fuel hp hint hfuel hr, ?_⟩
  rw [arr_setArr_same _ _ _ hp]
  have hlen : ∀ (k : Nat) (w : σ), (randList rnd ((mem.arr p).length : Int) k w).1.length = k := by
    intro k; induction k with
    | zero => intro w; rfl
    | succ k ih => intro w; simp [randList, ih]
  have hmem : ∀ (k : Nat) (w : σ), ∀ r ∈ (randList rnd ((mem.arr p).length : Int) k w).1, r < (mem.arr p).length := by
    intro k; induction k with
    | zero => intro w r hr'; simp [randList] at hr'
    | succ k ih =>
      intro w r hr'
      simp only [randList, List.mem_cons] at hr'
      rcases hr' with rfl | h
      · have := hr w; omega
      · exact ih _ r h
  exact C09_shuffle_perm _ _ (by rw [hlen]; exact Nat.le_refl _) (hmem _ w)

end CM
