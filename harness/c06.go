package main

// C06: Fork, Split and Join conserve, order and terminate streams.

import (
	"strconv"
	"time"

	col "github.com/craterdog/go-collection-framework/v4/collection"
)

type pipeProg struct {
	Op    string `json:"op"` // fork | split | splitjoin
	Input []int  `json:"input"`
	Fan   int    `json:"fan"`
	Cap   int    `json:"cap"`
	Elem  string `json:"elem"` // int | string (one value of the stream is the empty string) | any (one value is nil)
}

type pipeRun struct {
	status string
	outs   [][]int
	group  int
	evs    []any
	branch []int
	picked []int
	closed []bool // every reader saw ok=false
	late   bool   // a value arrived after closure
	reg    int    // helpers registered with the wait group when the class function returned
}

// the stream is a list of distinct ids; the element type decides how an id travels
func runPipe(p pipeProg, rng *Rng, choices []int) pipeRun {
	special := -1 // the id that travels as the undefined value of the element type
	if len(p.Input) > 1 {
		special = p.Input[1]
	}
	switch p.Elem {
	case "string":
		return runPipeT[string](p, rng, choices, func(i int) string {
			if i == special {
				return ""
			}
			return strconv.Itoa(i)
		}, func(v string) int {
			if v == "" {
				return special
			}
			n, _ := strconv.Atoi(v)
			return n
		})
	case "any":
		return runPipeT[any](p, rng, choices, func(i int) any {
			if i == special {
				return nil
			}
			return i
		}, func(v any) int {
			if v == nil {
				return special
			}
			return v.(int)
		})
	}
	return runPipeT[int](p, rng, choices, func(i int) int { return i }, func(v int) int { return v })
}

func runPipeT[V any](p pipeProg, rng *Rng, choices []int, conv func(int) V, back func(V) int) pipeRun {
	s := newSched(rng, choices)
	defer s.stop()
	class := col.Queue[V](notation)
	input := class.MakeWithCapacity(uint(p.Cap))
	grp := &group{s: s}
	var res pipeRun
	var outputs []col.QueueLike[V]
	// the library helpers are started before the scheduler takes control of the workers;
	// they run freely up to their first synchronisation point and are adopted there
	switch p.Op {
	case "fork":
		outputs = class.Fork(grp, input, uint(p.Fan)).AsArray()
		s.expected = 1
	case "split":
		outputs = class.Split(grp, input, uint(p.Fan)).AsArray()
		s.expected = 1
	default:
		mids := class.Split(grp, input, uint(p.Fan))
		outputs = []col.QueueLike[V]{class.Join(grp, mids)}
		s.expected = 2
	}
	// the helpers must be registered with the caller's group before the function returns:
	// a caller that waits on the group straight away must not get through
	res.reg = grp.registered()
	res.outs = make([][]int, len(outputs))
	res.closed = make([]bool, len(outputs))
	s.spawn(func(t int) { // feeder
		for _, v := range p.Input {
			s.record(J{"call": "addLock", "t": t, "v": v})
			input.AddValue(conv(v))
			s.record(J{"ret": "AddValue", "t": t})
		}
		s.record(J{"call": "closeLock", "t": t, "v": 0})
		input.CloseQueue()
		s.record(J{"ret": "CloseQueue", "t": t})
	})
	for k, o := range outputs {
		k, o := k, o
		s.spawn(func(t int) { // one reader per output
			for {
				s.record(J{"call": "remRecv", "t": t, "v": 0})
				w, ok := o.RemoveHead()
				v := 0
				if ok {
					v = back(w)
				}
				s.record(J{"ret": "RemoveHead", "t": t, "v": v, "ok": ok})
				if !ok {
					res.closed[k] = true
					// nothing may arrive after closure
					if o.GetSize() != 0 || len(o.AsArray()) != 0 {
						res.late = true
					}
					return
				}
				res.outs[k] = append(res.outs[k], v)
			}
		})
	}
	// every value costs a bounded number of synchronisation steps per queue it passes through
	res.status = s.run(400 + 60*(len(p.Input)+2)*(p.Fan+2))
	if res.status == "done" {
		done := make(chan struct{})
		go func() { grp.Wait(); close(done) }()
		select {
		case <-done:
		case <-time.After(3 * time.Second):
			res.status = "group-not-released"
		}
	}
	res.group = grp.count()
	res.branch, res.picked = s.branch, s.picked
	s.mu.Lock()
	trace := append([]J{}, s.trace...)
	s.mu.Unlock()
	res.evs = toModelEvents(trace)
	return res
}

func pipeLine(out *Out, caseID int, p pipeProg, r pipeRun, mode string) {
	out.emit(J{"k": "pipe", "pid": "C06", "case": caseID, "prog": p, "op": p.Op, "input": ints(p.Input), "fan": p.Fan, "cap": p.Cap,
		"outs": r.outs, "status": r.status, "group": r.group, "closed": r.closed, "late": r.late, "mode": mode, "steps": len(r.picked), "reg": r.reg, "helpers": map[string]int{"fork": 1, "split": 1, "splitjoin": 2}[p.Op], "elem": p.Elem})
}

func runC06(tier string, seed int64, out *Out) {
	rng := newRng(seed)
	caseID := 0
	budget, randomRuns := 25, 4
	if tier == "thorough" {
		budget, randomRuns = 1500, 40
	}
	exhausted := 0
	progs := 0
	for _, op := range []string{"fork", "split", "splitjoin"} {
		for n := 0; n <= 4; n++ {
			for fan := 2; fan <= 3; fan++ {
				for cap := 1; cap <= 2; cap++ {
					in := make([]int, n)
					for i := range in {
						in[i] = 10 + i
					}
					p := pipeProg{op, in, fan, cap, []string{"int", "string", "any"}[(n+fan+cap)%3]}
					progs++
					// depth-first enumeration of schedules by replay
					var prefix []int
					for runs := 0; runs < budget; runs++ {
						r := runPipe(p, nil, prefix)
						caseID++
						pipeLine(out, caseID, p, r, "dfs")
						i := len(r.picked) - 1
						for i >= 0 && r.picked[i]+1 >= r.branch[i] {
							i--
						}
						if i < 0 {
							exhausted++
							break
						}
						prefix = append(append([]int{}, r.picked[:i]...), r.picked[i]+1)
					}
					for i := 0; i < randomRuns; i++ {
						r := runPipe(p, &rng, nil)
						caseID++
						pipeLine(out, caseID, p, r, "random")
					}
				}
			}
		}
	}
	// longer streams, wider fan-out, random schedules
	long := 6
	if tier == "thorough" {
		long = 60
	}
	for i := 0; i < long; i++ {
		n := rng.pick([]int{17, 33, 64, 100})
		in := make([]int, n)
		for j := range in {
			in[j] = j
		}
		p := pipeProg{[]string{"fork", "split", "splitjoin"}[i%3], in, 2 + rng.Intn(7), 1 + rng.Intn(3), []string{"int", "string", "any"}[(i/3)%3]}
		r := runPipe(p, &rng, nil)
		caseID++
		pipeLine(out, caseID, p, r, "random-long")
	}
	out.emit(J{"k": "qmeta", "pid": "C06", "programs": progs, "exhausted": exhausted})
}
