/-
  C10 — **the round trip, proved on the composition of the three executable models**
  (formatter → scanner → parser): for every value of the canonical universe within the
  formatter's depth limit, nested and wide without bound,

      ParseSource (FormatValue v) = v.

  `Canon` (Lemmas/RoundTrip.lean) is the explicit, structural well-formedness predicate: the
  value is what the parser builds (Arrays, Lists, Queues, Stacks of values; Sets as
  `Set.MakeFromSequence` orders them; Catalogs and Maps of associations with distinct leaf
  keys), and every collection in it sits above the depth at which the formatter elides.
  `LeafLex` is the contract of the externals (`strconv` formatting and parsing of leaves): a
  leaf's text is one literal token wherever the formatter puts it – before `]`, a newline or
  `:` – and the conversion oracle maps that token back to the leaf.  The correspondence run
  checks this contract on every leaf text the real formatter produces.

  Chain: `rt_all` (the scanner model reads the formatter model's text as the tokens of a
  syntax tree whose meaning is `v`), then `C11_sentence_accepted` (every syntax tree is
  parsed to its meaning), with the fuel and push-back capacity the driver uses.
-/
import CollectionModel.Lemmas.RoundTrip3
import CollectionModel.Props.C11Complete
namespace CM
open CM.Cdcn

theorem scanFrom_final (lc : Nat × Nat) :
    ∃ e eof, isEol e = true ∧ eof.tt = .eof ∧ scanFrom [10] lc = [e, eof] := by
  refine ⟨{ tt := .eol, value := [10], line := lc.1, pos := lc.2 },
    { tt := .eof, value := [], line := (advance lc [10]).1, pos := (advance lc [10]).2 }, rfl, rfl, ?_⟩
  rw [scanFrom_token 10 [] lc .eol 1 (match_eol _) (by omega) (by decide)]
  simp only [List.take, List.drop, scanFrom_nil]

/-- **C10 round trip.**  Parsing the text the formatter writes for a canonical collection
    gives exactly that collection back – same kinds, element order, key/value pairing and
    leaves – for every width and nesting below the depth limit. -/
theorem C10_roundtrip (leafText : Val → Option (List Nat)) (max stackSize : Nat) (hcap : 3 < stackSize)
    (conv : Token → Option Val) (mkSet : List Val → Option Val) (v : Val) (fuel : Nat) (text : List Nat)
    (hl : LeafLex leafText conv) (hcanon : Canon mkSet max 0 v) (hcoll : isCollVal v = true)
    (hfmt : formatValue leafText max fuel v = .ok text) :
    parseTokens { stackSize := stackSize, nlines := (text.filter (· == 10)).length + 1, conv := conv, mkSet := mkSet }
      (8 * (scan text).length + 16) (scan text) = .value v := by
  unfold formatValue at hfmt
  obtain ⟨t0, h0, ht⟩ := bind_ok hfmt
  injection ht with ht; subst ht
  let env : Env := { stackSize := stackSize, nlines := ((t0 ++ [10]).filter (· == 10)).length + 1, conv := conv, mkSet := mkSet }
  have hna : isAssocVal v = false := by cases v <;> simp_all [isCollVal, isAssocVal]
  obtain ⟨_, hlex⟩ := (rt_all (env := env) (max := max) hl fuel).1 v 0 t0 hcanon hna h0
  obtain ⟨S, lc', e1, hSg, hSm, hSc⟩ := hlex [10] (1, 1) (term_eol [])
  obtain ⟨e, eof, he, heof, e2⟩ := scanFrom_final lc'
  have hscan : scan (t0 ++ [10]) = S.toks ++ ([e] ++ [eof]) := by
    rw [scan_eq_scanFrom, e1, e2]; rfl
  cases S with
  | lit tok => simp [SValue.isColl] at hSc; exact absurd hcoll (by simp [hSc])
  | coll lb items rb lp ty rp =>
    exact C11_sentence_accepted (t0 ++ [10]) stackSize hcap conv mkSet lb items rb lp ty rp [e] eof v hSg hSm
      (by intro x hx; simp at hx; subst hx; exact he) heof hscan

/-- consequently the text is a fixpoint: formatting what was parsed back gives the same text -/
theorem C10_text_fixpoint (leafText : Val → Option (List Nat)) (max stackSize : Nat) (hcap : 3 < stackSize)
    (conv : Token → Option Val) (mkSet : List Val → Option Val) (v : Val) (fuel : Nat) (text : List Nat)
    (hl : LeafLex leafText conv) (hcanon : Canon mkSet max 0 v) (hcoll : isCollVal v = true)
    (hfmt : formatValue leafText max fuel v = .ok text) :
    ∃ v', parseTokens { stackSize := stackSize, nlines := (text.filter (· == 10)).length + 1, conv := conv, mkSet := mkSet }
      (8 * (scan text).length + 16) (scan text) = .value v' ∧ formatValue leafText max fuel v' = .ok text :=
  ⟨v, C10_roundtrip leafText max stackSize hcap conv mkSet v fuel text hl hcanon hcoll hfmt, hfmt⟩

/-! ### the hypotheses are satisfiable: a complete instance -/

/-- a tiny notation of booleans: `true` and `false` written as the real formatter writes them -/
def boolText : Val → Option (List Nat)
  | .bool true => some (str "true")
  | .bool false => some (str "false")
  | _ => none
def boolConv (t : Token) : Option Val :=
  if t.value = str "true" then some (.bool true) else if t.value = str "false" then some (.bool false) else none

theorem boolLex : LeafLex boolText boolConv := by
  constructor
  intro leaf t ht
  cases leaf <;> simp [boolText] at ht
  rename_i b
  cases b
  · simp at ht; subst ht
    refine ⟨.boolean, rfl, fun rest _ => ?_, fun _ _ => by simp [boolConv] <;> decide⟩
    simp [matchToken, matchers, firstMatch, mBoolean, lit, startsWith, str, ch, List.isPrefixOf]
    decide
  · simp at ht; subst ht
    refine ⟨.boolean, rfl, fun rest _ => ?_, fun _ _ => by simp [boolConv] <;> decide⟩
    simp [matchToken, matchers, firstMatch, mBoolean, lit, startsWith, str, ch, List.isPrefixOf]
    decide

/-- a Catalog-free instance with nesting: `[[true, false](List) , [](Stack)]`-like value -/
def sampleValue : Val := .coll .list [.coll .list [.bool true, .bool false], .coll .stack [], .bool true]

example : Canon (fun _ => none) 8 0 sampleValue := by
  simp [sampleValue, Canon, CanonList, CollOk, isAssocVal]

example : ∃ text, formatValue boolText 8 100 sampleValue = .ok text ∧
    parseTokens { stackSize := 4, nlines := (text.filter (· == 10)).length + 1, conv := boolConv, mkSet := fun _ => none }
      (8 * (scan text).length + 16) (scan text) = .value sampleValue := by
  cases hf : formatValue boolText 8 100 sampleValue with
  | ok text =>
    exact ⟨text, rfl, C10_roundtrip boolText 8 4 (by decide) boolConv _ sampleValue 100 text boolLex
      (by simp [sampleValue, Canon, CanonList, CollOk, isAssocVal]) rfl hf⟩
  | lib => exact absurd hf (by decide)
  | hang => exact absurd hf (by decide)

end CM
