package main

import (
	"time"

	col "github.com/craterdog/go-collection-framework/v4/collection"
)

// seqOp is one operation of the sequence family in protocol form.
type seqOp struct {
	op    string
	a     []int  // integer arguments (indices, slots, value ids)
	vs    []int  // operand contents as ids
	ws    []int  // second operand (concatenate)
	alias string // "", "self", "view": how the operand is passed
}

var opTimeout = 5 * time.Second

// seqTarget runs operations on one real List (or Array) and reports observations.
type heldView[V any] struct {
	seq  col.Sequential[V]
	snap []int
	from string
}

type seqTarget[V any] struct {
	held  []heldView[V] // results handed out earlier: they must never change afterwards
	c     Codec[V]
	list  col.ListLike[V]
	array col.ArrayLike[V] // set when the target is an Array
	staleBy string
	kind  string           // "list" | "array"
}

func (t *seqTarget[V]) contents() []int {
	if t.kind == "array" {
		if t.array == nil {
			return []int{}
		}
		return toIDs(t.c, t.array.AsArray())
	}
	if t.list == nil {
		return []int{}
	}
	return toIDs(t.c, t.list.AsArray())
}

func (t *seqTarget[V]) seq() col.Sequential[V] {
	if t.kind == "array" {
		return t.array
	}
	return t.list
}

func (t *seqTarget[V]) operand(o seqOp) col.Sequential[V] {
	switch o.alias {
	case "self":
		return t.seq()
	case "view":
		// a GetValues view of the whole receiver (an empty receiver has no view)
		if t.seq().GetSize() == 0 {
			return t.seq()
		}
		if t.kind == "array" {
			return t.array.GetValues(1, -1)
		}
		return t.list.GetValues(1, -1)
	}
	return col.Array[V](notation).MakeFromArray(fromIDs(t.c, o.vs))
}

func walk[V any](s col.Sequential[V]) []V {
	var out []V
	it := s.GetIterator()
	for it.HasNext() {
		out = append(out, it.GetNext())
	}
	return out
}

// apply executes one operation; res is the JSON form of the result.
func (t *seqTarget[V]) apply(o seqOp) (res any, cr callResult) {
	c := t.c
	arg := func(i int) int {
		if i < len(o.a) {
			return o.a[i]
		}
		return 0
	}
	isArr := t.kind == "array"
	cr = guarded(opTimeout, func() {
		switch o.op {
		case "getValue":
			var v V
			if isArr {
				v = t.array.GetValue(arg(0))
			} else {
				v = t.list.GetValue(arg(0))
			}
			res = J{"v": c.to(v)}
		case "getValues":
			var s col.Sequential[V]
			if isArr {
				s = t.array.GetValues(arg(0), arg(1))
			} else {
				s = t.list.GetValues(arg(0), arg(1))
			}
			res = J{"l": ints(toIDs(c, s.AsArray()))}
			t.hold(s, "getValues")
		case "setValue":
			if isArr {
				t.array.SetValue(arg(0), c.from(arg(1)))
			} else {
				t.list.SetValue(arg(0), c.from(arg(1)))
			}
		case "setValues":
			if isArr {
				t.array.SetValues(arg(0), t.operand(o))
			} else {
				t.list.SetValues(arg(0), t.operand(o))
			}
		case "insertValue":
			t.list.InsertValue(uint(arg(0)), c.from(arg(1)))
		case "insertValues":
			t.list.InsertValues(uint(arg(0)), t.operand(o))
		case "appendValue":
			t.list.AppendValue(c.from(arg(0)))
		case "appendValues":
			t.list.AppendValues(t.operand(o))
		case "removeValue":
			res = J{"v": c.to(t.list.RemoveValue(arg(0)))}
		case "removeValues":
			removed := t.list.RemoveValues(arg(0), arg(1))
			res = J{"l": ints(toIDs(c, removed.AsArray()))}
			t.hold(removed, "removeValues")
		case "removeAll":
			t.list.RemoveAll()
		case "getIndex":
			res = J{"n": t.list.GetIndex(c.from(arg(0)))}
		case "containsValue":
			res = J{"b": t.list.ContainsValue(c.from(arg(0)))}
		case "containsAny":
			res = J{"b": t.list.ContainsAny(t.operand(o))}
		case "containsAll":
			res = J{"b": t.list.ContainsAll(t.operand(o))}
		case "sort":
			if isArr {
				t.array.SortValues()
			} else {
				t.list.SortValues()
			}
		case "reverse":
			if isArr {
				t.array.ReverseValues()
			} else {
				t.list.ReverseValues()
			}
		case "shuffle":
			if isArr {
				t.array.ShuffleValues()
			} else {
				t.list.ShuffleValues()
			}
		case "asArray":
			res = J{"l": ints(toIDs(c, t.seq().AsArray()))}
		case "iterate":
			res = J{"l": ints(toIDs(c, walk(t.seq())))}
		case "getSize":
			res = J{"n": t.seq().GetSize()}
		case "isEmpty":
			res = J{"b": t.seq().IsEmpty()}
		case "make":
			// alternate between the two constructors; the source array is
			// scribbled over afterwards (it must have been copied).
			src := fromIDs(c, o.vs)
			if isArr {
				if len(o.vs)%2 == 0 {
					t.array = col.Array[V](notation).MakeFromArray(src)
				} else {
					t.array = col.Array[V](notation).MakeFromSequence(col.List[V](notation).MakeFromArray(src))
				}
			} else {
				if len(o.vs)%2 == 0 {
					t.list = col.List[V](notation).MakeFromArray(src)
				} else {
					t.list = col.List[V](notation).MakeFromSequence(col.Array[V](notation).MakeFromArray(src))
				}
			}
			var zero V
			for i := range src {
				src[i] = zero
			}
		case "concatenate":
			a := col.List[V](notation).MakeFromArray(fromIDs(c, o.vs))
			b := col.List[V](notation).MakeFromArray(fromIDs(c, o.ws))
			if o.alias == "self" {
				b = a
			}
			t.list = col.List[V](notation).Concatenate(a, b)
		default:
			panic("harness: unknown op " + o.op)
		}
	})
	return res, cr
}

// hold remembers a result handed out by the collection.  Writing through it must
// not reach the collection, and later changes of the collection must not reach it.
func (t *seqTarget[V]) hold(s col.Sequential[V], from string) {
	before := t.contents()
	if a, ok := s.(col.ArrayLike[V]); ok && a.GetSize() > 0 {
		a.SetValue(1, t.c.from(t.c.to(a.GetValue(-1)))) // overwrite the first value with a copy of the last
		a.ReverseValues()
	}
	if !eqInts(before, t.contents()) {
		t.staleBy = from + ": writing through the result changed the receiver"
	}
	if len(t.held) >= 3 {
		t.held = t.held[1:]
	}
	t.held = append(t.held, heldView[V]{s, toIDs(t.c, s.AsArray()), from})
}

func (t *seqTarget[V]) checkHeld() string {
	for _, h := range t.held {
		if !eqInts(toIDs(t.c, h.seq.AsArray()), h.snap) {
			return h.from + ": an earlier result changed after a later call"
		}
	}
	return ""
}

// line runs one op and emits the protocol line.
func (t *seqTarget[V]) line(out *Out, kind string, caseID int, o seqOp, extra J) callResult {
	pre := t.contents()
	if o.alias == "self" || o.alias == "view" {
		o.vs = pre
	}
	if o.op == "concatenate" && o.alias == "self" {
		o.ws = o.vs
	}
	res, cr := t.apply(o)
	j := J{"k": kind, "case": caseID, "ty": t.c.name, "tg": t.kind, "pre": ints(pre), "op": o.op,
		"a": ints(o.a), "vs": ints(o.vs), "out": cr.kind}
	if o.op == "concatenate" {
		j["ws"] = ints(o.ws)
	}
	if o.alias != "" {
		j["alias"] = o.alias
	}
	switch cr.kind {
	case "ret":
		j["post"] = ints(t.contents())
		j["res"] = res
	case "panic":
		j["post"] = ints(t.contents())
		j["pc"] = cr.pc
		j["msg"] = cr.msg
	}
	for k, v := range extra {
		j[k] = v
	}
	if cr.kind != "hang" {
		if t.staleBy == "" {
			t.staleBy = t.checkHeld()
		}
		if t.staleBy != "" {
			j["stale"] = t.staleBy
			t.staleBy = ""
			t.held = nil
		}
	}
	out.emit(j)
	return cr
}
