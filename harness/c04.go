package main

// C04 / C05: the queue under controlled schedules.

import (
	mod "github.com/craterdog/go-collection-framework/v4"
	"fmt"
	"time"

	col "github.com/craterdog/go-collection-framework/v4/collection"
)

type qprog struct {
	Cap        int     `json:"cap"`
	Producers  [][]int `json:"producers"`
	Consumers  int     `json:"consumers"`
	Closer     bool    `json:"closer"`     // CloseQueue after all producers have finished
	CloseEarly bool    `json:"closeEarly"` // CloseQueue at any time (a client error when an AddValue is in flight)
	Observers  int     `json:"observers"`
	RemoveAll  bool    `json:"removeAll"` // one RemoveAll at any time
	Take       int     `json:"take"`      // consumers stop after this many values when there is no closer (0: until closed)
	Rounds     int     `json:"rounds"`    // 2: after everything has finished, RemoveAll (nothing in flight) and run the program again on the same queue
}

func (p qprog) steps() int {
	n := 0
	for _, vs := range p.Producers {
		n += 2 * len(vs)
	}
	n = n*2 + 2*p.Consumers + 4 + 2*p.Observers
	if p.Rounds > 1 {
		n = n*p.Rounds + 2
	}
	return n
}

type qrun struct {
	status string
	evs    []any
	added  []int
	got    [][]int
	branch []int
	picked []int
	nthr   int
}

func panicClass(f func()) (pc string) {
	defer func() {
		if r := recover(); r != nil {
			pc = classify(r)
			if pc == "" {
				pc = "lib"
			}
		}
	}()
	f()
	return ""
}

// runQueueProgram executes one program under one schedule.
func runQueueProgram(p qprog, rng *Rng, choices []int) qrun {
	s := newSched(rng, choices)
	defer s.stop()
	q := col.Queue[int](notation).MakeWithCapacity(uint(p.Cap))
	var res qrun
	rounds := p.Rounds
	if rounds < 1 {
		rounds = 1
	}
	res.got = make([][]int, p.Consumers*rounds)
	call := func(t int, pc string, v int) { s.record(J{"call": pc, "t": t, "v": v}) }
	finished := make([]int, rounds+1)
	spawned := make([]int, rounds+1)
	gateOpen := make([]bool, rounds+1)
	gateOpen[0] = true
	for round := 0; round < rounds; round++ {
		round := round
		producersDone := 0
		gate := func() bool { return gateOpen[round] }
		spawn := func(f func(t int)) {
			spawned[round]++
			s.spawn(func(t int) {
				defer func() { finished[round]++ }()
				if round > 0 {
					s.await(gate)
				}
				f(t)
			})
		}
		for _, vs := range p.Producers {
			vs := vs
			spawn(func(t int) {
				for _, v0 := range vs {
					v := v0 + 100*round
					call(t, "addLock", v)
					if pc := panicClass(func() { q.AddValue(v) }); pc != "" {
						s.record(J{"panic": pc, "t": t})
					} else {
						s.record(J{"ret": "AddValue", "t": t})
					}
				}
				producersDone++
			})
		}
		for c := 0; c < p.Consumers; c++ {
			c := c + round*p.Consumers
			spawn(func(t int) {
				for n := 0; p.Take == 0 || n < p.Take; n++ {
					call(t, "remRecv", 0)
					var v int
					var ok bool
					if pc := panicClass(func() { v, ok = q.RemoveHead() }); pc != "" {
						s.record(J{"panic": pc, "t": t})
						return
					}
					s.record(J{"ret": "RemoveHead", "t": t, "v": v, "ok": ok})
					if !ok {
						return
					}
					res.got[c] = append(res.got[c], v)
				}
			})
		}
		if p.Closer || p.CloseEarly {
			spawn(func(t int) {
				if p.Closer {
					s.await(func() bool { return producersDone == len(p.Producers) })
				}
				call(t, "closeLock", 0)
				if pc := panicClass(func() { q.CloseQueue() }); pc != "" {
					s.record(J{"panic": pc, "t": t})
				} else {
					s.record(J{"ret": "CloseQueue", "t": t})
				}
			})
		}
		if round+1 < rounds {
			// the janitor: once every call of this round has returned, reset the queue for reuse
			s.spawn(func(t int) {
				s.await(func() bool { return finished[round] == spawned[round] })
				call(t, "removeAllLock", 0)
				q.RemoveAll()
				s.record(J{"ret": "RemoveAll", "t": t})
				gateOpen[round+1] = true
			})
		}
	}
	for o := 0; o < p.Observers; o++ {
		o := o
		s.spawn(func(t int) {
			switch o % 3 {
			case 0:
				call(t, "sizeLock", 0)
				n := q.GetSize()
				s.record(J{"ret": "GetSize", "t": t, "n": n})
			case 1:
				call(t, "arrayLock", 0)
				a := q.AsArray()
				s.record(J{"ret": "AsArray", "t": t, "l": ints(a)})
			default:
				call(t, "emptyLock", 0)
				b := q.IsEmpty()
				s.record(J{"ret": "IsEmpty", "t": t, "b": b})
			}
		})
	}
	if p.RemoveAll {
		s.spawn(func(t int) {
			call(t, "removeAllLock", 0)
			q.RemoveAll()
			s.record(J{"ret": "RemoveAll", "t": t})
		})
	}
	res.status = s.run(200 + 10*p.steps())
	res.branch, res.picked = s.branch, s.picked
	res.nthr = len(s.gs)
	if res.status != "done" {
		time.Sleep(5 * time.Millisecond) // let released goroutines get out of the hook
	}
	s.mu.Lock()
	trace := append([]J{}, s.trace...)
	s.mu.Unlock()
	for round := 0; round < rounds; round++ {
		for _, vs := range p.Producers {
			for _, v := range vs {
				res.added = append(res.added, v+100*round)
			}
		}
	}
	res.evs = toModelEvents(trace)
	return res
}

// toModelEvents turns the recorded trace into the event vocabulary of the Lean model.
func toModelEvents(trace []J) []any {
	next := func(i int, t any) J { // the next entry of the same thread
		for k := i + 1; k < len(trace); k++ {
			if trace[k]["t"] == t {
				return trace[k]
			}
		}
		return J{}
	}
	var evs []any
	for i, e := range trace {
		t := e["t"]
		if pc, ok := e["call"]; ok {
			evs = append(evs, []any{"call", t, pc, e["v"]})
			continue
		}
		ev, isGrant := e["ev"].(string)
		if !isGrant {
			continue
		}
		n := next(i, t)
		_, panicked := n["panic"]
		qi := e["q"]
		switch ev {
		case "add.lock":
			evs = append(evs, []any{"addLock", t, qi})
		case "add.send":
			if panicked {
				evs = append(evs, []any{"addSendPanic", t, qi})
			} else {
				evs = append(evs, []any{"addSend", t, qi})
			}
		case "rem.recv":
			ok := true
			if n["ret"] == "RemoveHead" {
				ok, _ = n["ok"].(bool)
			}
			evs = append(evs, []any{"remRecv", t, qi, ok})
		case "rem.lock":
			if panicked {
				evs = append(evs, []any{"remLockPanic", t, qi})
			} else {
				evs = append(evs, []any{"remLock", t, qi, n["v"]})
			}
		case "close.lock":
			if panicked {
				evs = append(evs, []any{"closePanic", t, qi})
			} else {
				evs = append(evs, []any{"closeLock", t, qi})
			}
		case "size.lock":
			evs = append(evs, []any{"sizeLock", t, qi, n["n"]})
		case "empty.lock":
			evs = append(evs, []any{"emptyLock", t, qi, n["b"]})
		case "array.lock", "iter.lock":
			evs = append(evs, []any{"arrayLock", t, qi, n["l"]})
		case "removeall.lock":
			evs = append(evs, []any{"removeAllLock", t, qi})
		}
	}
	return evs
}

func qLine(out *Out, pid string, caseID int, p qprog, r qrun, mode string) {
	out.emit(J{"k": "qtrace", "pid": pid, "case": caseID, "prog": p, "cap": p.Cap, "n": r.nthr, "evs": r.evs, "status": r.status,
		"added": ints(r.added), "got": r.got, "mode": mode, "steps": len(r.picked)})
}

// dfs explores every schedule of the program (up to maxRuns), by re-running it with choice prefixes.
func dfs(out *Out, pid string, caseID *int, p qprog, maxRuns int) (runs int, complete bool) {
	var prefix []int
	for runs < maxRuns {
		r := runQueueProgram(p, nil, prefix)
		runs++
		*caseID++
		qLine(out, pid, *caseID, p, r, "dfs")
		// next prefix: bump the deepest choice that still has an alternative
		i := len(r.picked) - 1
		for i >= 0 && r.picked[i]+1 >= r.branch[i] {
			i--
		}
		if i < 0 {
			return runs, true
		}
		prefix = append(append([]int{}, r.picked[:i]...), r.picked[i]+1)
	}
	return runs, false
}

func smallPrograms(withRemoveAll bool) []qprog {
	var ps []qprog
	for cap := 1; cap <= 3; cap++ {
		for np := 1; np <= 3; np++ {
			for nv := 1; nv <= 3; nv++ {
				for nc := 1; nc <= 3; nc++ {
					prods := make([][]int, np)
					k := 1
					for i := range prods {
						for j := 0; j < nv; j++ {
							prods[i] = append(prods[i], k)
							k++
						}
					}
					ps = append(ps, qprog{Cap: cap, Producers: prods, Consumers: nc, Closer: true})
					if np*nv <= 3 {
						ps = append(ps, qprog{Cap: cap, Producers: prods, Consumers: nc, Closer: true, Observers: 2})
					}
					if withRemoveAll && np*nv <= 2 && nc == 1 && cap <= 2 {
						ps = append(ps, qprog{Cap: cap, Producers: prods, Consumers: nc, Closer: true, RemoveAll: true})
					}
					if np*nv <= 2 && nc <= 2 {
						// reuse: close, drain, RemoveAll with nothing in flight, then the same program again
						ps = append(ps, qprog{Cap: cap, Producers: prods, Consumers: nc, Closer: true, Rounds: 2})
					}
				}
			}
		}
	}
	return ps
}

func runQueueCheck(pid, tier string, seed int64, out *Out) {
	rng := newRng(seed)
	caseID := 0
	progs := smallPrograms(true)
	// exhaustive DFS for the programs small enough, random schedules for all
	budget := 60
	randomRuns := 6
	if tier == "thorough" {
		budget, randomRuns = 4000, 60
	}
	exhausted := 0
	for _, p := range progs {
		b := budget
		if p.RemoveAll {
			b = 25
		}
		if p.steps() <= 16 || tier == "thorough" && p.steps() <= 24 {
			_, complete := dfs(out, pid, &caseID, p, b)
			if complete {
				exhausted++
			}
		}
		for i := 0; i < randomRuns; i++ {
			r := runQueueProgram(p, &rng, nil)
			caseID++
			qLine(out, pid, caseID, p, r, "random")
		}
	}
	// a client error on purpose: CloseQueue while an AddValue may be in flight (D04c)
	for i := 0; i < 20; i++ {
		p := qprog{Cap: 1, Producers: [][]int{{1, 2}}, Consumers: 1, CloseEarly: true}
		r := runQueueProgram(p, &rng, nil)
		caseID++
		qLine(out, pid, caseID, p, r, "random")
	}
	out.emit(J{"k": "qmeta", "pid": pid, "programs": len(progs), "exhausted": exhausted})
	if pid == "C05" {
		ctorLines(out, &caseID)
	}
}

// ctorLines: constructing a queue from N values must return for every N (class, module, parsed literal)
func ctorLines(out *Out, caseID *int) {
	dflt := int(col.Queue[int](notation).DefaultCapacity())
	for n := 0; n <= 4*dflt+1; n++ {
		vs := make([]int, n)
		for i := range vs {
			vs[i] = i + 1
		}
		for _, via := range []string{"array", "sequence", "literal", "module-array", "module-sequence", "module-source"} {
			*caseID++
			var size, capacity int
			var contents []int
			cr := guarded(5*time.Second, func() {
				switch via {
				case "array":
					q := col.Queue[int](notation).MakeFromArray(vs)
					size, capacity, contents = q.GetSize(), int(q.GetCapacity()), q.AsArray()
				case "sequence":
					q := col.Queue[int](notation).MakeFromSequence(col.List[int](notation).MakeFromArray(vs))
					size, capacity, contents = q.GetSize(), int(q.GetCapacity()), q.AsArray()
				case "module-array":
					if n == 0 {
						// an empty Go array selects the default constructor
						q := mod.Queue[int](vs)
						size, capacity, contents = q.GetSize(), int(q.GetCapacity()), q.AsArray()
						break
					}
					q := mod.Queue[int](vs)
					size, capacity, contents = q.GetSize(), int(q.GetCapacity()), q.AsArray()
				case "module-sequence":
					q := mod.Queue[int](col.Sequential[int](col.List[int](notation).MakeFromArray(vs)))
					size, capacity, contents = q.GetSize(), int(q.GetCapacity()), q.AsArray()
				case "module-source":
					src := "["
					for i, v := range vs {
						if i > 0 {
							src += ", "
						}
						src += fmt.Sprint(v)
					}
					if n == 0 {
						src += " "
					}
					src += "](Queue)"
					q := mod.Queue[int64](src)
					size, capacity = q.GetSize(), int(q.GetCapacity())
					for _, x := range q.AsArray() {
						contents = append(contents, int(x))
					}
				default:
					src := "["
					for i, v := range vs {
						if i > 0 {
							src += ", "
						}
						src += fmt.Sprint(v)
					}
					if n == 0 {
						src += " "
					}
					src += "](Queue)"
					q := notation.ParseSource(src).(col.QueueLike[any])
					size, capacity = q.GetSize(), int(q.GetCapacity())
					for _, x := range q.AsArray() {
						contents = append(contents, int(x.(int64)))
					}
				}
			})
			out.emit(J{"k": "qctor", "pid": "C05", "case": *caseID, "via": via, "n": n, "out": cr.kind, "size": size, "qcap": capacity,
				"contents": ints(contents), "vs": ints(vs), "dflt": dflt})
		}
	}
}
