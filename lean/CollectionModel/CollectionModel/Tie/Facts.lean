/-
  Obligations over the numeric class constants regenerated from the Go source
  (Generated/Facts.lean).  The models are parametric in these constants; the
  places where a concrete value matters are stated here.
-/
import CollectionModel.Generated.Facts
namespace CM
namespace Tie

/-- capacities for which the stack / queue theorems are stated (`1 ≤ cap`) -/
theorem default_capacities_positive :
    1 ≤ Generated.queueDefaultCapacity ∧ 1 ≤ Generated.stackDefaultCapacity := by decide

/-- the parser pushes back at most three tokens before consuming again
    (`parseAssociation`: key, colon, value); its stack must hold them, and its
    token queue must hold at least one token -/
theorem parser_sizes : 3 ≤ Generated.parserStackSize ∧ 1 ≤ Generated.parserQueueSize := by decide

/-- the formatter elides below a positive depth; the collator allows a positive depth -/
theorem maxima_positive : 1 ≤ Generated.formatterDefaultMaximum ∧ 1 ≤ Generated.collatorDefaultMaximum := by decide

end Tie
end CM
