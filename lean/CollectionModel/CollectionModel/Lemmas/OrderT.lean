/-
  A canonical ordered domain `T` (tagged trees with integer-list leaves) whose
  comparison `cmpT` is a lawful three-way comparison.  The collator's ranking of
  map-free, complex-free values is shown (in CollatorLemmas) to be `cmpT ∘ enc`,
  so reflexivity, mirror symmetry and transitivity transfer from here.
-/
import CollectionModel.Model.Basic
namespace CM

/-- composition of two comparison results along a chain a ? b ? c (undefined when they pull apart) -/
def Rank.comp : Rank → Rank → Option Rank
  | .eq, r => some r
  | r, .eq => some r
  | .lt, .lt => some .lt
  | .gt, .gt => some .gt
  | _, _ => none

/-- a lawful three-way comparison -/
structure Lawful {α : Type} (c : α → α → Rank) : Prop where
  refl : ∀ a, c a a = .eq
  mirror : ∀ a b, c b a = (c a b).flip
  comp : ∀ a b x r, (c a b).comp (c b x) = some r → c a x = r

theorem Lawful.totalPreorder {α : Type} {c : α → α → Rank} (h : Lawful c) : TotalPreorder c where
  refl := h.refl
  mirror := h.mirror
  trans a b x h1 h2 := by
    cases hab : c a b <;> cases hbx : c b x <;> simp [hab, hbx] at h1 h2 <;>
      (have := h.comp a b x; simp [hab, hbx, Rank.comp] at this; simp [this])

theorem rankNat_lawful : Lawful rankNat where
  refl a := by simp [rankNat]
  mirror a b := by
    unfold rankNat
    by_cases h1 : a < b <;> by_cases h2 : b < a <;> simp [h1, h2, Rank.flip] <;> omega
  comp a b x r := by
    unfold rankNat
    by_cases h1 : a < b <;> by_cases h2 : b < a <;> by_cases h3 : b < x <;> by_cases h4 : x < b <;>
      by_cases h5 : a < x <;> by_cases h6 : x < a <;> simp [h1, h2, h3, h4, h5, h6, Rank.comp] <;>
      (first | omega | (intro h; subst h; rfl) | (intro h; omega))

theorem rankInt_lawful : Lawful rankInt where
  refl a := by simp [rankInt]
  mirror a b := by
    unfold rankInt
    by_cases h1 : a < b <;> by_cases h2 : b < a <;> simp [h1, h2, Rank.flip] <;> omega
  comp a b x r := by
    unfold rankInt
    by_cases h1 : a < b <;> by_cases h2 : b < a <;> by_cases h3 : b < x <;> by_cases h4 : x < b <;>
      by_cases h5 : a < x <;> by_cases h6 : x < a <;> simp [h1, h2, h3, h4, h5, h6, Rank.comp] <;>
      (first | omega | (intro h; subst h; rfl) | (intro h; omega))

/-- lexicographic order with a proper prefix first -/
def lexRank {α : Type} (c : α → α → Rank) : List α → List α → Rank
  | [], [] => .eq
  | [], _ :: _ => .lt
  | _ :: _, [] => .gt
  | a :: as, b :: bs => match c a b with
    | .eq => lexRank c as bs
    | r => r

theorem comp_eq_left (r s : Rank) (h : Rank.comp .eq r = some s) : r = s := by
  cases r <;> simp [Rank.comp] at h <;> exact h

theorem comp_ne_eq {r1 r2 r : Rank} (h2 : r2 ≠ .eq) (h : Rank.comp r1 r2 = some r) : r = r2 := by
  cases r1 <;> cases r2 <;> simp [Rank.comp] at h <;> first | exact h.symm | exact absurd rfl h2

theorem comp_ne_eq_left {r1 r2 r : Rank} (h1 : r1 ≠ .eq) (h : Rank.comp r1 r2 = some r) : r = r1 := by
  cases r1 <;> cases r2 <;> simp [Rank.comp] at h <;> first | exact h.symm | exact absurd rfl h1

theorem lexRank_refl_on {α : Type} (c : α → α → Rank) (a : List α) (h : ∀ p ∈ a, c p p = .eq) :
    lexRank c a a = .eq := by
  induction a with
  | nil => rfl
  | cons x xs ih =>
    simp only [lexRank, h x (by simp)]
    exact ih (fun p hp => h p (by simp [hp]))

theorem lexRank_mirror_on {α : Type} (c : α → α → Rank) (a b : List α)
    (h : ∀ p ∈ a, ∀ q, c q p = (c p q).flip) : lexRank c b a = (lexRank c a b).flip := by
  induction a generalizing b with
  | nil => cases b <;> simp [lexRank, Rank.flip]
  | cons x xs ih =>
    cases b with
    | nil => simp [lexRank, Rank.flip]
    | cons y ys =>
      simp only [lexRank]
      rw [h x (by simp) y]
      have ih' := ih ys (fun p hp => h p (by simp [hp]))
      cases hxy : c x y <;> simp [Rank.flip, ih']

theorem lexRank_comp_on {α : Type} (c : α → α → Rank) (a b x : List α) (r : Rank)
    (h : ∀ p ∈ a, ∀ q s r, (c p q).comp (c q s) = some r → c p s = r) :
    (lexRank c a b).comp (lexRank c b x) = some r → lexRank c a x = r := by
  induction a generalizing b x r with
  | nil =>
    cases b with
    | nil => cases x <;> simp [lexRank, Rank.comp] <;> (intro h; exact h)
    | cons q qs =>
      cases x with
      | nil =>
        simp only [lexRank]
        intro hh; simp [Rank.comp] at hh
      | cons s ss =>
        simp only [lexRank]
        intro hh; exact (comp_ne_eq_left (by decide) hh).symm
  | cons p ps ih =>
    have hp := h p (by simp)
    have ih' := fun b x r => ih b x r (fun p' hp' => h p' (by simp [hp']))
    cases b with
    | nil => cases x <;> simp [lexRank, Rank.comp] <;> (intro h; exact h)
    | cons q qs =>
      cases x with
      | nil =>
        simp only [lexRank]
        cases hpq : c p q <;> simp [Rank.comp]
        all_goals (try (intro h; exact h))
        · cases lexRank c ps qs <;> simp [Rank.comp] <;> (intro h; exact h)
      | cons s ss =>
        simp only [lexRank]
        cases hpq : c p q with
        | eq =>
          cases hqs : c q s with
          | eq =>
            have := hp q s .eq (by simp [hpq, hqs, Rank.comp])
            simp only [this]
            exact ih' qs ss r
          | lt =>
            have := hp q s .lt (by simp [hpq, hqs, Rank.comp])
            simp only [this]
            intro hh; exact (comp_ne_eq (by decide) hh).symm
          | gt =>
            have := hp q s .gt (by simp [hpq, hqs, Rank.comp])
            simp only [this]
            intro hh; exact (comp_ne_eq (by decide) hh).symm
        | lt =>
          simp only
          cases hqs : c q s with
          | eq =>
            have := hp q s .lt (by simp [hpq, hqs, Rank.comp])
            simp only [this]
            intro hh; exact (comp_ne_eq_left (by decide) hh).symm
          | lt =>
            have := hp q s .lt (by simp [hpq, hqs, Rank.comp])
            simp only [this]
            intro hh; simp [Rank.comp] at hh; exact hh
          | gt => simp [Rank.comp]
        | gt =>
          simp only
          cases hqs : c q s with
          | eq =>
            have := hp q s .gt (by simp [hpq, hqs, Rank.comp])
            simp only [this]
            intro hh; exact (comp_ne_eq_left (by decide) hh).symm
          | gt =>
            have := hp q s .gt (by simp [hpq, hqs, Rank.comp])
            simp only [this]
            intro hh; simp [Rank.comp] at hh; exact hh
          | lt => simp [Rank.comp]

theorem lexRank_lawful {α : Type} {c : α → α → Rank} (h : Lawful c) : Lawful (lexRank c) where
  refl a := lexRank_refl_on c a (fun p _ => h.refl p)
  mirror a b := lexRank_mirror_on c a b (fun p _ q => h.mirror p q)
  comp a b x r := lexRank_comp_on c a b x r (fun p _ q s r => h.comp p q s r)

/-! ### the canonical domain -/

inductive T
  | leaf (tag : Nat) (k : List Int)
  | node (tag : Nat) (kids : List T)
  deriving Repr

mutual
def cmpT : T → T → Rank
  | .leaf t1 k1, .leaf t2 k2 => match rankNat t1 t2 with | .eq => lexRank rankInt k1 k2 | r => r
  | .leaf t1 _, .node t2 _ => match rankNat t1 t2 with | .eq => .lt | r => r
  | .node t1 _, .leaf t2 _ => match rankNat t1 t2 with | .eq => .gt | r => r
  | .node t1 xs, .node t2 ys => match rankNat t1 t2 with | .eq => cmpTs xs ys | r => r
def cmpTs : List T → List T → Rank
  | [], [] => .eq
  | [], _ :: _ => .lt
  | _ :: _, [] => .gt
  | x :: xs, y :: ys => match cmpT x y with
    | .eq => cmpTs xs ys
    | r => r
end

theorem cmpTs_eq_lex : ∀ xs ys, cmpTs xs ys = lexRank cmpT xs ys
  | [], [] => by simp [cmpTs, lexRank]
  | [], _ :: _ => by simp [cmpTs, lexRank]
  | _ :: _, [] => by simp [cmpTs, lexRank]
  | x :: xs, y :: ys => by simp [cmpTs, lexRank, cmpTs_eq_lex xs ys]

/-- two-level lexicographic combination: the tag decides unless it ties -/
def lex2 (r1 inner : Rank) : Rank := match r1 with | .eq => inner | r => r

theorem lex2_comp (ra rb rc ia ib ic r : Rank)
    (hc : ∀ r', ra.comp rb = some r' → rc = r')
    (hi : ra = .eq → rb = .eq → ∀ r', ia.comp ib = some r' → ic = r') :
    (lex2 ra ia).comp (lex2 rb ib) = some r → lex2 rc ic = r := by
  cases ra <;> cases rb
  · -- lt, lt
    have h := hc .lt (by simp [Rank.comp]); subst h
    simp only [lex2]; intro hh; simp [Rank.comp] at hh; exact hh
  · -- lt, eq
    have h := hc .lt (by simp [Rank.comp]); subst h
    simp only [lex2]; intro hh; exact (comp_ne_eq_left (by decide) hh).symm
  · -- lt, gt
    simp only [lex2]; intro hh; simp [Rank.comp] at hh
  · -- eq, lt
    have h := hc .lt (by simp [Rank.comp]); subst h
    simp only [lex2]; intro hh; exact (comp_ne_eq (by decide) hh).symm
  · -- eq, eq
    have h := hc .eq (by simp [Rank.comp]); subst h
    simp only [lex2]; exact hi rfl rfl r
  · -- eq, gt
    have h := hc .gt (by simp [Rank.comp]); subst h
    simp only [lex2]; intro hh; exact (comp_ne_eq (by decide) hh).symm
  · -- gt, lt
    simp only [lex2]; intro hh; simp [Rank.comp] at hh
  · -- gt, eq
    have h := hc .gt (by simp [Rank.comp]); subst h
    simp only [lex2]; intro hh; exact (comp_ne_eq_left (by decide) hh).symm
  · -- gt, gt
    have h := hc .gt (by simp [Rank.comp]); subst h
    simp only [lex2]; intro hh; simp [Rank.comp] at hh; exact hh

theorem cmpT_unfold (a b : T) : cmpT a b =
    lex2 (rankNat (match a with | .leaf t _ => t | .node t _ => t) (match b with | .leaf t _ => t | .node t _ => t))
      (match a, b with
       | .leaf _ k1, .leaf _ k2 => lexRank rankInt k1 k2
       | .leaf _ _, .node _ _ => .lt
       | .node _ _, .leaf _ _ => .gt
       | .node _ xs, .node _ ys => cmpTs xs ys) := by
  cases a <;> cases b <;> simp [cmpT, lex2] <;> split <;> simp_all

theorem cmpT_refl : ∀ a : T, cmpT a a = .eq
  | .leaf t k => by simp [cmpT, rankNat_lawful.refl, (lexRank_lawful rankInt_lawful).refl]
  | .node t xs => by
    simp only [cmpT, rankNat_lawful.refl, cmpTs_eq_lex]
    exact lexRank_refl_on cmpT xs (fun p _ => cmpT_refl p)
termination_by a => sizeOf a
decreasing_by
  simp_wf
  have := List.sizeOf_lt_of_mem ‹p ∈ xs›
  omega

theorem cmpT_mirror : ∀ a b : T, cmpT b a = (cmpT a b).flip
  | .leaf t1 k1, .leaf t2 k2 => by
    simp only [cmpT, rankNat_lawful.mirror t1 t2]
    cases rankNat t1 t2 <;> simp [Rank.flip, (lexRank_lawful rankInt_lawful).mirror k1 k2]
  | .leaf t1 k1, .node t2 ys => by
    simp only [cmpT, rankNat_lawful.mirror t1 t2]
    cases rankNat t1 t2 <;> simp [Rank.flip]
  | .node t1 xs, .leaf t2 k2 => by
    simp only [cmpT, rankNat_lawful.mirror t1 t2]
    cases rankNat t1 t2 <;> simp [Rank.flip]
  | .node t1 xs, .node t2 ys => by
    simp only [cmpT, rankNat_lawful.mirror t1 t2, cmpTs_eq_lex]
    have := lexRank_mirror_on cmpT xs ys (fun p _ q => cmpT_mirror p q)
    cases rankNat t1 t2 <;> simp [Rank.flip, this]
termination_by a => sizeOf a
decreasing_by
  simp_wf
  have := List.sizeOf_lt_of_mem ‹p ∈ xs›
  omega

theorem cmpT_comp : ∀ (a b x : T) (r : Rank), (cmpT a b).comp (cmpT b x) = some r → cmpT a x = r
  | a, b, x, r => by
    rw [cmpT_unfold a b, cmpT_unfold b x, cmpT_unfold a x]
    apply lex2_comp
    · exact fun r' => rankNat_lawful.comp _ _ _ r'
    · intro _ _ r'
      cases a with
      | leaf t1 k1 =>
        cases b with
        | leaf t2 k2 =>
          cases x with
          | leaf t3 k3 => exact (lexRank_lawful rankInt_lawful).comp k1 k2 k3 r'
          | node t3 zs =>
            simp only
            intro hh; exact (comp_ne_eq (by decide) hh).symm
        | node t2 ys =>
          cases x with
          | leaf t3 k3 => simp [Rank.comp]
          | node t3 zs =>
            simp only
            intro hh; exact (comp_ne_eq_left (by decide) hh).symm
      | node t1 xs =>
        cases b with
        | leaf t2 k2 =>
          cases x with
          | leaf t3 k3 =>
            simp only
            intro hh; exact (comp_ne_eq_left (by decide) hh).symm
          | node t3 zs => simp [Rank.comp]
        | node t2 ys =>
          cases x with
          | leaf t3 k3 =>
            simp only
            intro hh; exact (comp_ne_eq (by decide) hh).symm
          | node t3 zs =>
            simp only [cmpTs_eq_lex]
            exact lexRank_comp_on cmpT xs ys zs r' (fun p _ q s r'' => cmpT_comp p q s r'')
termination_by a => sizeOf a
decreasing_by
  simp_wf
  have := List.sizeOf_lt_of_mem ‹p ∈ xs›
  omega

theorem cmpT_lawful : Lawful cmpT := ⟨cmpT_refl, cmpT_mirror, cmpT_comp⟩

end CM

namespace CM

theorem rankNat_eq {a b : Nat} (h : rankNat a b = .eq) : a = b := by
  unfold rankNat at h
  by_cases h1 : a < b <;> by_cases h2 : b < a <;> simp [h1, h2] at h; omega

theorem rankInt_eq {a b : Int} (h : rankInt a b = .eq) : a = b := by
  unfold rankInt at h
  by_cases h1 : a < b <;> by_cases h2 : b < a <;> simp [h1, h2] at h; omega

theorem lexRank_eq_on {α : Type} (c : α → α → Rank) : ∀ (a b : List α),
    (∀ p ∈ a, ∀ q, c p q = .eq → p = q) → lexRank c a b = .eq → a = b
  | [], [], _, _ => rfl
  | [], _ :: _, _, h => by simp [lexRank] at h
  | _ :: _, [], _, h => by simp [lexRank] at h
  | x :: xs, y :: ys, hc, h => by
    simp only [lexRank] at h
    cases hxy : c x y <;> rw [hxy] at h <;> simp at h
    have e1 := hc x (by simp) y hxy
    have e2 := lexRank_eq_on c xs ys (fun p hp => hc p (by simp [hp])) h
    rw [e1, e2]

/-- `cmpT` answers Equal only for identical trees (it is antisymmetric) -/
theorem cmpT_eq : ∀ (a b : T), cmpT a b = .eq → a = b
  | .leaf t1 k1, .leaf t2 k2, h => by
    simp only [cmpT] at h
    cases ht : rankNat t1 t2 <;> rw [ht] at h <;> simp at h
    rw [rankNat_eq ht, lexRank_eq_on rankInt k1 k2 (fun p _ q hq => rankInt_eq hq) h]
  | .leaf t1 _, .node t2 _, h => by
    simp only [cmpT] at h
    cases ht : rankNat t1 t2 <;> rw [ht] at h <;> simp at h
  | .node t1 _, .leaf t2 _, h => by
    simp only [cmpT] at h
    cases ht : rankNat t1 t2 <;> rw [ht] at h <;> simp at h
  | .node t1 xs, .node t2 ys, h => by
    simp only [cmpT] at h
    cases ht : rankNat t1 t2 <;> rw [ht] at h <;> simp at h
    rw [cmpTs_eq_lex] at h
    rw [rankNat_eq ht, lexRank_eq_on cmpT xs ys (fun p _ q hq => cmpT_eq p q hq) h]
termination_by a => sizeOf a
decreasing_by
  simp_wf
  have := List.sizeOf_lt_of_mem ‹p ∈ xs›
  omega

end CM
