import CollectionModel.Generated.LoopsSet
import CollectionModel.Model.SetM
/-
  T3L obligation for C02: the binary search TRANSLATED from the current text of
  `set_.findIndex` (Generated/LoopsSet.lean, rewritten on every run; `int` arithmetic wraps
  at 64 bits, `/` truncates) is the model's `SetM.findIndex`, for every list shorter than
  2^63, every collator and every probe.  `C02_findIndex` and everything built on it are
  therefore statements about the loop as it is written in the source now.
-/
namespace CM
namespace Tie
open CM.GoSem

/-- how the model's result is read as the Go result (`int`, `bool`) -/
def findRes (r : Option (Except Panic (Nat × Bool))) : Option (Except Panic (Int × Bool)) :=
  r.map (fun e => e.map (fun (p : Nat × Bool) => ((p.1 : Int), p.2)))

theorem tdiv2 (a : Nat) : Int.tdiv (a : Int) 2 = ((a / 2 : Nat) : Int) := by
  rw [Int.tdiv_eq_ediv_of_nonneg (by omega)]; omega

/-- the loop, under the invariant `1 ≤ first`, `last + 1 = first + size`, `last ≤ |l|` -/
theorem findIndex_loop_tie {α : Type} [Inhabited α] (rank : α → α → Rank) (l : List α) (v : α)
    (hl : IsInt64 ((l.length : Int) + 1)) :
    ∀ (fuel first last size : Nat), 1 ≤ first → last + 1 = first + size → last ≤ l.length →
      Generated.findIndex_loop1 (l.length : Int) (fun i => Seq.getValue l i) rank v fuel first last size
        = findRes (SetM.findLoop rank l v fuel first last size) := by
  intro fuel
  induction fuel with
  | zero => intro first last size _ _ _; rfl
  | succ f ih =>
    intro first last size h1 h2 h3
    unfold Generated.findIndex_loop1 SetM.findLoop
    by_cases hs : size = 0
    · subst hs; simp [findRes, Except.map]
    · have hpos : ((size : Int) > 0) := by omega
      simp only [hpos, decide_true, if_true, hs, if_false]
      have hmid : w64 ((first : Int) + Int.tdiv (size : Int) 2) = ((first + size / 2 : Nat) : Int) := by
        rw [tdiv2, w64_id (by unfold IsInt64 at *; omega)]; omega
      rw [hmid]
      have hle : first + size / 2 ≤ last := by omega
      cases hg : Seq.getValue l ((first + size / 2 : Nat) : Int) with
      | error p => simp [findRes, Except.map]
      | ok candidate =>
        simp only [bindE_ok]
        cases hr : rank v candidate with
        | lt =>
          have e1 : w64 (((first + size / 2 : Nat) : Int) - 1) = ((first + size / 2 - 1 : Nat) : Int) := by
            rw [w64_id (by unfold IsInt64 at *; omega)]; omega
          have e2 : w64 (((first + size / 2 : Nat) : Int) - (first : Int)) = ((first + size / 2 - first : Nat) : Int) := by
            rw [w64_id (by unfold IsInt64 at *; omega)]; omega
          simp only [e1, e2, beq_self_eq_true, if_true]
          exact ih first (first + size / 2 - 1) (first + size / 2 - first) h1 (by omega) (by omega)
        | eq => simp [findRes, Except.map]
        | gt =>
          have e1 : w64 (((first + size / 2 : Nat) : Int) + 1) = ((first + size / 2 + 1 : Nat) : Int) := by
            rw [w64_id (by unfold IsInt64 at *; omega)]; omega
          have e2 : w64 ((last : Int) - ((first + size / 2 : Nat) : Int)) = ((last - (first + size / 2) : Nat) : Int) := by
            rw [w64_id (by unfold IsInt64 at *; omega)]; omega
          have n1 : (Rank.gt == Rank.lt) = false := by decide
          have n2 : (Rank.gt == Rank.eq) = false := by decide
          simp only [e1, e2, n1, n2, beq_self_eq_true, if_true, if_false, Bool.false_eq_true]
          exact ih (first + size / 2 + 1) last (last - (first + size / 2)) (by omega) (by omega) h3

/-- `set_.findIndex` as written in set.go = `SetM.findIndex` (with the model's fuel) -/
theorem findIndex_tie {α : Type} [Inhabited α] (rank : α → α → Rank) (l : List α) (v : α)
    (hl : IsInt64 ((l.length : Int) + 1)) :
    Generated.findIndex (l.length : Int) (fun i => Seq.getValue l i) rank v (l.length + 1)
      = findRes (SetM.findIndex rank l v) := by
  unfold Generated.findIndex SetM.findIndex
  exact findIndex_loop_tie rank l v hl (l.length + 1) 1 l.length l.length (by omega) (by omega) (by omega)

/-- non-vacuity: a three-element set, found and not found -/
example : Generated.findIndex (3 : Int) (fun i => Seq.getValue [10, 20, 30] i) rankInt (20 : Int) 4 = some (.ok (2, true)) := by rfl
example : Generated.findIndex (3 : Int) (fun i => Seq.getValue [10, 20, 30] i) rankInt (25 : Int) 4 = some (.ok (2, false)) := by rfl

end Tie
end CM
