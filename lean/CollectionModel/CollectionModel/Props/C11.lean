/-
  C11 — Every sentence of the CDCN grammar is accepted with its intended meaning.

  Proved: the literal-exactness half (an accepted literal is exactly what the standard
  conversion says; a conversion error is a diagnostic, never a replacement value), the
  lexical rules for integers, hexadecimals and keywords for ALL digit strings, and that the
  parse result is a function of the source alone.  The completeness half (every derivation
  of the grammar is accepted and denotes the stated collection) is held by the
  correspondence run over generated derivations, not proved (see DESIGN.md, C11).
-/
import CollectionModel.Model.Cdcn.Parse
namespace CM
open CM.Cdcn

/-- **accepted text is never silently altered**: whenever `parseIntrinsic` accepts a literal,
    the value is exactly the conversion of the token it consumed; if the conversion fails the
    outcome is a diagnostic (or an out-of-range line, impossible by C12_token_line_in_range),
    never a value -/
theorem C11_literal_exact (env : Env) : ∀ (kinds : List TT) (s : PS) (tok0 : Option Token) (v : Val) (tok : Option Token) (s' : PS),
    parseIntrinsic.go env kinds s tok0 = .ok v tok s' → ∃ t, tok = some t ∧ env.conv t = some v
  | [], s, tok0, v, tok, s', h => by simp [parseIntrinsic.go] at h
  | tt :: rest, s, tok0, v, tok, s', h => by
    simp only [parseIntrinsic.go] at h
    split at h
    · rename_i x tk s1 heq
      cases tk with
      | none => simp at h
      | some t =>
        simp only at h
        cases hc : env.conv t with
        | none =>
          rw [hc] at h
          simp only [fail] at h
          split at h <;> cases h
        | some w =>
          rw [hc] at h
          simp only at h
          cases h
          exact ⟨t, rfl, hc⟩
    · exact C11_literal_exact env rest _ _ v tok s' h
    all_goals cases h

theorem C11_parseIntrinsic_exact (env : Env) (s : PS) (v : Val) (tok : Option Token) (s' : PS)
    (h : parseIntrinsic env s = .ok v tok s') : ∃ t, tok = some t ∧ env.conv t = some v :=
  C11_literal_exact env _ s none v tok s' h

/-- **the result is the same on every run**: the parser's outcome is a function of the token
    stream, and the token stream is a function of the source; the scanner and parser
    goroutines only communicate through one FIFO queue with a single producer and a single
    consumer (C04), so no schedule can change what the parser reads -/
theorem C11_deterministic (env : Env) (src : Src) (f : Nat) :
    ∀ r1 r2, r1 = parseTokens env f (scan src) → r2 = parseTokens env f (scan src) → r1 = r2 :=
  fun _ _ h1 h2 => h1.trans h2.symm

theorem spanLen_all (p : Nat → Bool) : ∀ (l rest : List Nat), (∀ c ∈ l, p c = true) →
    (∀ c, rest.head? = some c → p c = false) → spanLen p (l ++ rest) = l.length
  | [], rest, _, hr => by
    cases rest with
    | nil => rfl
    | cons c cs => simp [spanLen, hr c rfl]
  | x :: xs, rest, hl, hr => by
    have := spanLen_all p xs rest (fun c hc => hl c (by simp [hc])) hr
    simp [spanLen, hl x (by simp), this]; omega

/-- **lexical rule `ordinal`**: a non-zero digit followed by any digits is matched entirely -/
theorem C11_scan_ordinal (d : Nat) (ds rest : List Nat) (hd : isDigit19 d = true) (hds : ∀ c ∈ ds, isDigit c = true)
    (hr : ∀ c, rest.head? = some c → isDigit c = false) :
    mOrdinal (d :: ds ++ rest) = some (1 + ds.length) := by
  simp [mOrdinal, hd, spanLen_all isDigit ds rest hds hr]

theorem isDigit19_iff (d : Nat) : isDigit19 d = true ↔ 49 ≤ d ∧ d ≤ 57 := by
  have e1 : ch '1' = 49 := rfl
  have e9 : ch '9' = 57 := rfl
  simp [isDigit19, e1, e9]

theorem isSign_iff (s : Nat) : isSign s = true ↔ s = 43 ∨ s = 45 := by
  have e1 : ch '+' = 43 := rfl
  have e2 : ch '-' = 45 := rfl
  simp [isSign, e1, e2]

/-- **lexical rule `integer`** (`zero | sign? ordinal`), for every digit string -/
theorem C11_scan_integer (sign : Option Nat) (d : Nat) (ds rest : List Nat)
    (hs : ∀ s, sign = some s → isSign s = true) (hd : isDigit19 d = true) (hds : ∀ c ∈ ds, isDigit c = true)
    (hr : ∀ c, rest.head? = some c → isDigit c = false) :
    mInteger (sign.toList ++ d :: ds ++ rest) = some (sign.toList.length + 1 + ds.length) := by
  have e0 : ch '0' = 48 := rfl
  have hdr := (isDigit19_iff d).mp hd
  have hd0 : (d == ch '0') = false := by rw [e0]; simp; omega
  have hord := C11_scan_ordinal d ds rest hd hds hr
  cases sign with
  | none =>
    have hns : isSign d = false := by
      cases h : isSign d with
      | false => rfl
      | true => have := (isSign_iff d).mp h; omega
    simp only [Option.toList_none, List.nil_append, List.length_nil, Nat.zero_add]
    have : mInteger (d :: ds ++ rest) = mOrdinal (d :: ds ++ rest) := by
      simp [mInteger, hd0, hns]
    rw [this, hord]
  | some s =>
    have hss := hs s rfl
    have hsr := (isSign_iff s).mp hss
    have hs0 : (s == ch '0') = false := by rw [e0]; simp; omega
    simp only [Option.toList_some, List.cons_append, List.nil_append, List.length_cons, List.length_nil]
    have : mInteger (s :: (d :: ds ++ rest)) = (mOrdinal (d :: ds ++ rest)).map (· + 1) := by
      simp [mInteger, hs0, hss]
    simp only [List.cons_append] at this hord ⊢
    rw [this, hord]; simp; omega

/-- **lexical rule `hexadecimal`**: `0x` followed by one or more lower-case hex digits -/
theorem C11_scan_hex (h : Nat) (hs rest : List Nat) (hh : isHex h = true) (hhs : ∀ c ∈ hs, isHex c = true)
    (hr : ∀ c, rest.head? = some c → isHex c = false) :
    mHex (ch '0' :: ch 'x' :: h :: hs ++ rest) = some (3 + hs.length) := by
  have := spanLen_all isHex (h :: hs) rest (by intro c hc; rcases List.mem_cons.mp hc with rfl | hc; exact hh; exact hhs c hc) hr
  simp only [List.cons_append, List.length_cons] at this
  have e0 : (ch '0' == ch '0') = true := by simp
  have ex : (ch 'x' == ch 'x') = true := by simp
  simp only [mHex, e0, ex, Bool.and_self, if_true, this]
  simp; omega

/-- keywords, delimiters and type names are single tokens of the right kind -/
example : (scan ("[true,false,nil](Catalog)".toList.map ch)).map (·.tt) =
    [.delimiter, .boolean, .delimiter, .boolean, .delimiter, .nil, .delimiter, .delimiter, .type, .delimiter, .eof] := by decide

/-- **recorded finding**: `'''` is derivable from the published rule `rune: "'" ~[CONTROL] "'"`
    but the scanner's rune pattern excludes the quote: the sentence is rejected at that rune -/
theorem C11_counterexample_rune_quote :
    ((scan ("[''']".toList.map ch)).map (·.tt)) = [.delimiter, .error, .eof] := by decide

end CM
