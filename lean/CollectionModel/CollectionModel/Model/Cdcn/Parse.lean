/-
  Model of `cdcn/parser.go` (after the fixes D11a/b, D12a, D12b): recursive descent over
  the scanner's token stream with the push-back stack `next_` (capacity `stackSize`) and the
  named-return-token convention `(value, token, ok)`.

  Scanner and parser run in two goroutines connected by a FIFO queue with one producer and
  one consumer; by C04 the parser receives exactly `scan src` in order, so the model feeds
  the parser that list.  Literal conversion (`strconv`) is the parameter `conv`;
  `mkSet` is `Set.MakeFromSequence` with the default collator.
-/
import CollectionModel.Model.Cdcn.Scan
import CollectionModel.Model.Val
namespace CM
namespace Cdcn

structure PS where
  rest : List Token        -- tokens not yet taken from the queue
  stack : List Token       -- `next_`: read but unprocessed tokens, top first
  deriving Repr

/-- outcome of a parse method -/
inductive PR (α : Type)
  | ok (a : α) (tok : Option Token) (s : PS)   -- `ok = true`
  | no (tok : Option Token) (s : PS)           -- `ok = false`
  | diag (tok : Token)                         -- panic with the located syntax diagnostic
  | rt                                         -- Go runtime error (nil dereference, failed type assertion, index out of range)
  | lib                                        -- any other library panic (push-back stack full, unknown context, ...)
  | hang                                       -- blocks for ever on the token queue / model fuel exhausted
  deriving Repr

structure Env where
  stackSize : Nat                      -- `parserClass.stackSize_`
  nlines : Nat                         -- len(strings.Split(source, "\n"))
  conv : Token → Option Val            -- strconv conversion of a literal token (none = conversion error)
  mkSet : List Val → Option Val        -- Set[any].MakeFromSequence (none = the collator panicked)

variable (env : Env)

/-- `formatError(token)` followed by `panic`: dereferences the token and indexes the source lines -/
def fail {α : Type} (tok : Option Token) : PR α :=
  match tok with
  | none => .rt
  | some t => if 1 ≤ t.line ∧ t.line ≤ env.nlines then .diag t else .rt

/-- `getNextToken` -/
def getNext (s : PS) : PR Token :=
  match s.stack with
  | t :: st => .ok t (some t) { s with stack := st }
  | [] =>
    match s.rest with
    | [] => .hang
    | t :: r => if t.tt = .error then fail env (some t) else .ok t (some t) { s with rest := r }

/-- `putBack` = `next_.AddValue(token)`: panics when the stack is at capacity -/
def putBack {α : Type} (t : Token) (s : PS) (k : PS → PR α) : PR α :=
  if s.stack.length = env.stackSize then .lib else k { s with stack := t :: s.stack }

/-- `parseToken(expectedType, expectedValue)` -/
def parseToken (tt : TT) (val : Option String) (s : PS) : PR (List Nat) :=
  match getNext env s with
  | .ok t _ s' =>
    if t.tt == tt && (match val with | none => true | some v => t.value == v.toList.map ch) then .ok t.value (some t) s'
    else putBack env t s' (fun s'' => .no (some t) s'')
  | .no tok s' => .no tok s'
  | .diag t => .diag t
  | .rt => .rt
  | .lib => .lib
  | .hang => .hang

/-- `parseIntrinsic`: the eight literal kinds in source order; a conversion error is a diagnostic (fix D11) -/
def parseIntrinsic (s : PS) : PR Val :=
  let kinds := [TT.boolean, TT.complex, TT.float, TT.hexadecimal, TT.integer, TT.nil, TT.rune, TT.string]
  let rec go : List TT → PS → Option Token → PR Val
    | [], s, tok => .no tok s
    | tt :: rest, s, _ =>
      match parseToken env tt none s with
      | .ok _ tok s' =>
        (match tok with
         | some t => (match env.conv t with | some v => .ok v tok s' | none => fail env tok)
         | none => .rt)
      | .no tok s' => go rest s' tok
      | .diag t => .diag t
      | .rt => .rt
      | .lib => .lib
      | .hang => .hang
  go kinds s none

def isAssocVal : Val → Bool
  | .assoc _ _ => true
  | _ => false

def pairsOf (items : List Val) : List (Val × Val) :=
  items.filterMap fun v => match v with | .assoc k v => some (k, v) | _ => none

/-- build the collection for a context (the `switch context` of `parseCollection`) -/
def mkCollection (ctx : List Nat) (items : List Val) (closeTok : Option Token) (s : PS) : PR Val :=
  let isAssoc : Val → Bool := isAssocVal
  let pairs : List (Val × Val) := pairsOf items
  let name := fun (str : String) => ctx = str.toList.map ch
  if name "Array" then .ok (.arr true false items) closeTok s
  else if name "Catalog" then
    (if items.all isAssoc then .ok (.coll .catalog (Val.catalogOf pairs)) closeTok s else fail env closeTok)
  else if name "Map" then
    (if items.all isAssoc then .ok (.gomap true false (Val.mapOf pairs)) closeTok s else fail env closeTok)
  else if name "List" then .ok (.coll .list items) closeTok s
  else if name "Queue" then .ok (.coll .queue items) closeTok s
  else if name "Set" then (match env.mkSet items with | some v => .ok v closeTok s | none => .lib)
  else if name "Stack" then .ok (.coll .stack items) closeTok s
  else .lib

mutual
/-- `parseValue` -/
def parseValue : Nat → PS → PR Val
  | 0, _ => .hang
  | f+1, s =>
    match parseIntrinsic env s with
    | .ok v tok s' => .ok v tok s'
    | .no _ s' => parseCollection f s'
    | .diag t => .diag t | .rt => .rt | .lib => .lib | .hang => .hang

/-- `parseCollection` = `parseSequence` `parseContext` + construction -/
def parseCollection : Nat → PS → PR Val
  | 0, _ => .hang
  | f+1, s =>
    match parseSequence f s with
    | .no tok s' => .no tok s'
    | .diag t => .diag t | .rt => .rt | .lib => .lib | .hang => .hang
    | .ok items _ s1 =>
      -- parseContext
      match parseToken env .delimiter (some "(") s1 with
      | .no tok _ => fail env tok
      | .diag t => .diag t | .rt => .rt | .lib => .lib | .hang => .hang
      | .ok _ _ s2 =>
        match parseToken env .type none s2 with
        | .no tok _ => fail env tok
        | .diag t => .diag t | .rt => .rt | .lib => .lib | .hang => .hang
        | .ok ctx _ s3 =>
          match parseToken env .delimiter (some ")") s3 with
          | .no tok _ => fail env tok
          | .diag t => .diag t | .rt => .rt | .lib => .lib | .hang => .hang
          | .ok _ tok s4 => mkCollection env ctx items tok s4

/-- `parseSequence`: "[" Items "]" -/
def parseSequence : Nat → PS → PR (List Val)
  | 0, _ => .hang
  | f+1, s =>
    match parseToken env .delimiter (some "[") s with
    | .no tok s' => .no tok s'
    | .diag t => .diag t | .rt => .rt | .lib => .lib | .hang => .hang
    | .ok _ _ s1 =>
      match parseItems f s1 with
      | .no tok _ => fail env tok
      | .diag t => .diag t | .rt => .rt | .lib => .lib | .hang => .hang
      | .ok items _ s2 =>
        match parseToken env .delimiter (some "]") s2 with
        | .no tok _ => fail env tok
        | .diag t => .diag t | .rt => .rt | .lib => .lib | .hang => .hang
        | .ok _ tok s3 => .ok items tok s3

/-- `parseItems`: associations first, then values (fix D12a: the callee's token is kept) -/
def parseItems : Nat → PS → PR (List Val)
  | 0, _ => .hang
  | f+1, s =>
    match parseAssociations f s with
    | .ok items tok s' => .ok items tok s'
    | .diag t => .diag t | .rt => .rt | .lib => .lib | .hang => .hang
    | .no _ s' =>
      match parseValues f s' with
      | .ok items tok s'' => .ok items tok s''
      | .no tok s'' => .no tok s''
      | .diag t => .diag t | .rt => .rt | .lib => .lib | .hang => .hang

/-- `parseAssociations`: ":" (empty) | inline | multi-line -/
def parseAssociations : Nat → PS → PR (List Val)
  | 0, _ => .hang
  | f+1, s =>
    match parseToken env .delimiter (some ":") s with
    | .ok _ tok s' => .ok [] tok s'
    | .diag t => .diag t | .rt => .rt | .lib => .lib | .hang => .hang
    | .no _ s' =>
      match parseInlineAssociations f s' with
      | .ok items tok s'' => .ok items tok s''
      | .diag t => .diag t | .rt => .rt | .lib => .lib | .hang => .hang
      | .no _ s'' => parseMultilineAssociations f s''

/-- `parseAssociation`: key ":" value -/
def parseAssociation : Nat → PS → PR Val
  | 0, _ => .hang
  | f+1, s =>
    match parseIntrinsic env s with
    | .no tok s' => .no tok s'
    | .diag t => .diag t | .rt => .rt | .lib => .lib | .hang => .hang
    | .ok key tok s1 =>
      match parseToken env .delimiter (some ":") s1 with
      | .diag t => .diag t | .rt => .rt | .lib => .lib | .hang => .hang
      | .no _ s2 =>
        -- the intrinsic token is not a key: put it back
        (match tok with
         | some t => putBack env t s2 (fun s3 => .no tok s3)
         | none => .rt)
      | .ok _ _ s2 =>
        match parseValue f s2 with
        | .no tok' _ => fail env tok'
        | .diag t => .diag t | .rt => .rt | .lib => .lib | .hang => .hang
        | .ok v tok' s3 => .ok (.assoc key v) tok' s3

/-- the loop of `parseInlineAssociations`; `acc` is the catalog built so far (as pairs, in order) -/
def inlineAssocLoop : Nat → List (Val × Val) → Val → PS → PR (List Val)
  | 0, _, _, _ => .hang
  | f+1, acc, a, s =>
    let acc' := match a with | .assoc k v => Val.catalogSet acc k v | _ => acc
    match parseToken env .delimiter (some ",") s with
    | .diag t => .diag t | .rt => .rt | .lib => .lib | .hang => .hang
    | .no tok s' => .ok (acc'.map fun p => .assoc p.1 p.2) tok s'
    | .ok _ _ s' =>
      match parseAssociation f s' with
      | .no tok _ => fail env tok
      | .diag t => .diag t | .rt => .rt | .lib => .lib | .hang => .hang
      | .ok a' _ s'' => inlineAssocLoop f acc' a' s''

def parseInlineAssociations : Nat → PS → PR (List Val)
  | 0, _ => .hang
  | f+1, s =>
    match parseAssociation f s with
    | .no tok s' => .no tok s'
    | .diag t => .diag t | .rt => .rt | .lib => .lib | .hang => .hang
    | .ok a _ s' => inlineAssocLoop f [] a s'

/-- the loop of `parseMultilineAssociations` -/
def multiAssocLoop : Nat → List (Val × Val) → Val → Option Token → PS → PR (List Val)
  | 0, _, _, _, _ => .hang
  | f+1, acc, a, tok, s =>
    let acc' := match a with | .assoc k v => Val.catalogSet acc k v | _ => acc
    match parseToken env .eol none s with
    | .diag t => .diag t | .rt => .rt | .lib => .lib | .hang => .hang
    | .no eolTok _ => fail env eolTok
    | .ok _ _ s' =>
      match parseAssociation f s' with
      | .diag t => .diag t | .rt => .rt | .lib => .lib | .hang => .hang
      | .no tok' s'' => .ok (acc'.map fun p => .assoc p.1 p.2) tok' s''
      | .ok a' tok' s'' => multiAssocLoop f acc' a' tok' s''

def parseMultilineAssociations : Nat → PS → PR (List Val)
  | 0, _ => .hang
  | f+1, s =>
    match parseToken env .eol none s with
    | .diag t => .diag t | .rt => .rt | .lib => .lib | .hang => .hang
    | .no eolTok s' => .no eolTok s'
    | .ok _ eolTok s' =>
      match parseAssociation f s' with
      | .diag t => .diag t | .rt => .rt | .lib => .lib | .hang => .hang
      | .no tok s'' =>
        -- this must be a sequence of values instead: put the EOL back
        (match eolTok with
         | some t => putBack env t s'' (fun s3 => .no tok s3)
         | none => .rt)
      | .ok a tok s'' => multiAssocLoop f [] a tok s''

/-- `parseValues`: "]" ahead (empty) | inline | multi-line -/
def parseValues : Nat → PS → PR (List Val)
  | 0, _ => .hang
  | f+1, s =>
    match parseToken env .delimiter (some "]") s with
    | .diag t => .diag t | .rt => .rt | .lib => .lib | .hang => .hang
    | .ok _ tok s' =>
      (match tok with
       | some t => putBack env t s' (fun s'' => .ok [] tok s'')
       | none => .rt)
    | .no _ s' =>
      match parseInlineValues f s' with
      | .ok items tok s'' => .ok items tok s''
      | .diag t => .diag t | .rt => .rt | .lib => .lib | .hang => .hang
      | .no _ s'' => parseMultilineValues f s''

def inlineValuesLoop : Nat → List Val → Val → PS → PR (List Val)
  | 0, _, _, _ => .hang
  | f+1, acc, v, s =>
    let acc' := acc ++ [v]
    match parseToken env .delimiter (some ",") s with
    | .diag t => .diag t | .rt => .rt | .lib => .lib | .hang => .hang
    | .no tok s' => .ok acc' tok s'
    | .ok _ _ s' =>
      match parseValue f s' with
      | .no tok _ => fail env tok
      | .diag t => .diag t | .rt => .rt | .lib => .lib | .hang => .hang
      | .ok v' _ s'' => inlineValuesLoop f acc' v' s''

def parseInlineValues : Nat → PS → PR (List Val)
  | 0, _ => .hang
  | f+1, s =>
    match parseValue f s with
    | .no tok s' => .no tok s'
    | .diag t => .diag t | .rt => .rt | .lib => .lib | .hang => .hang
    | .ok v _ s' => inlineValuesLoop f [] v s'

def multiValuesLoop : Nat → List Val → Val → PS → PR (List Val)
  | 0, _, _, _ => .hang
  | f+1, acc, v, s =>
    let acc' := acc ++ [v]
    match parseToken env .eol none s with
    | .diag t => .diag t | .rt => .rt | .lib => .lib | .hang => .hang
    | .no eolTok _ => fail env eolTok
    | .ok _ _ s' =>
      match parseValue f s' with
      | .diag t => .diag t | .rt => .rt | .lib => .lib | .hang => .hang
      | .no tok s'' => .ok acc' tok s''
      | .ok v' _ s'' => multiValuesLoop f acc' v' s''

def parseMultilineValues : Nat → PS → PR (List Val)
  | 0, _ => .hang
  | f+1, s =>
    match parseToken env .eol none s with
    | .diag t => .diag t | .rt => .rt | .lib => .lib | .hang => .hang
    | .no eolTok s' => .no eolTok s'
    | .ok _ _ s' =>
      match parseValue f s' with
      | .no tok _ => fail env tok
      | .diag t => .diag t | .rt => .rt | .lib => .lib | .hang => .hang
      | .ok v _ s'' => multiValuesLoop f [] v s''
end

/-- the `for ok { parseToken(EOLToken) }` loop of `ParseSource` -/
def skipEols : Nat → PS → PR Unit
  | 0, _ => .hang
  | f+1, s =>
    match parseToken env .eol none s with
    | .ok _ _ s' => skipEols f s'
    | .no tok s' => .ok () tok s'
    | .diag t => .diag t | .rt => .rt | .lib => .lib | .hang => .hang

/-- final outcome of `ParseSource` -/
inductive Parsed
  | value (v : Val)
  | diag (tok : Token)
  | rt | lib | hang
  deriving Repr

/-- `parser_.ParseSource` on the token stream delivered by the scanner -/
def parseTokens (fuel : Nat) (toks : List Token) : Parsed :=
  match parseCollection env fuel { rest := toks, stack := [] } with
  | .no tok _ => (match fail env (α := Unit) tok with | .diag t => .diag t | .rt => .rt | _ => .lib)
  | .diag t => .diag t | .rt => .rt | .lib => .lib | .hang => .hang
  | .ok v _ s =>
    match skipEols env fuel s with
    | .diag t => .diag t | .rt => .rt | .lib => .lib | .hang => .hang
    | .no _ _ => .lib
    | .ok _ _ s' =>
      match parseToken env .eof none s' with
      | .ok _ _ _ => .value v
      | .no tok _ => (match fail env (α := Unit) tok with | .diag t => .diag t | .rt => .rt | _ => .lib)
      | .diag t => .diag t | .rt => .rt | .lib => .lib | .hang => .hang

end Cdcn
end CM
