package main

// Free-running (uncontrolled) stress programs.  This file is meant for the binary
// built with the race detector (go build -race -tags verif): the scheduler hook
// stays nil, goroutines run as the Go runtime pleases, the race detector writes its
// reports to the log named in GORACE, and the lines below carry what the clients
// observed so that the specification can judge them.

import (
	"math/rand"
	"sync"
	"time"

	col "github.com/craterdog/go-collection-framework/v4/collection"
)

type stressProg struct {
	Mode      string `json:"mode"` // live | drain
	Cap       int    `json:"cap"`
	Producers int    `json:"producers"`
	Values    int    `json:"values"`
	Consumers int    `json:"consumers"`
	Observers int    `json:"observers"`
}

func runQueueStress(p stressProg) J {
	q := col.Queue[int](notation).MakeWithCapacity(uint(p.Cap))
	if p.Mode == "drain" {
		vs := make([]int, p.Values)
		for i := range vs {
			vs[i] = i + 1
		}
		q = col.Queue[int](notation).MakeFromArray(vs)
		q.CloseQueue()
	}
	var mu sync.Mutex
	var panics []string
	got := make([][]int, p.Consumers)
	maxSize := 0
	obsBad := ""
	var wgP, wgC, wgO sync.WaitGroup
	stop := make(chan struct{})
	guard := func(f func()) {
		defer func() {
			if r := recover(); r != nil {
				mu.Lock()
				panics = append(panics, classify(r))
				mu.Unlock()
			}
		}()
		f()
	}
	added := [][]int{}
	if p.Mode == "live" {
		for i := 0; i < p.Producers; i++ {
			vs := make([]int, p.Values)
			for j := range vs {
				vs[j] = (i+1)*100000 + j
			}
			added = append(added, vs)
			wgP.Add(1)
			go func() {
				defer wgP.Done()
				guard(func() {
					for _, v := range vs {
						q.AddValue(v)
					}
				})
			}()
		}
	} else {
		vs := make([]int, p.Values)
		for i := range vs {
			vs[i] = i + 1
		}
		added = append(added, vs)
	}
	for c := 0; c < p.Consumers; c++ {
		c := c
		wgC.Add(1)
		go func() {
			defer wgC.Done()
			guard(func() {
				for {
					v, ok := q.RemoveHead()
					if !ok {
						return
					}
					got[c] = append(got[c], v)
				}
			})
		}()
	}
	for o := 0; o < p.Observers; o++ {
		o := o
		wgO.Add(1)
		go func() {
			defer wgO.Done()
			guard(func() {
				for {
					select {
					case <-stop:
						return
					default:
					}
					if o%2 == 0 {
						n := q.GetSize()
						mu.Lock()
						if n > maxSize {
							maxSize = n
						}
						mu.Unlock()
					} else {
						a := q.AsArray()
						// what is listed was added, once, and per producer in order
						last := map[int]int{}
						for _, v := range a {
							pr := v / 100000
							if prev, ok := last[pr]; ok && prev >= v {
								mu.Lock()
								obsBad = "AsArray out of order or duplicated"
								mu.Unlock()
							}
							last[pr] = v
						}
					}
					time.Sleep(50 * time.Microsecond)
				}
			})
		}()
	}
	status := "done"
	finished := make(chan struct{})
	go func() {
		wgP.Wait()
		if p.Mode == "live" {
			guard(func() { q.CloseQueue() })
		}
		wgC.Wait()
		close(finished)
	}()
	select {
	case <-finished:
	case <-time.After(10 * time.Second):
		status = "hang"
	}
	close(stop)
	wgO.Wait()
	mu.Lock()
	defer mu.Unlock()
	if status == "hang" {
		// the consumers may still be appending: report what is safely known
		return J{"k": "stress", "pid": "C04", "prog": p, "status": status, "added": added, "got": [][]int{}, "panics": panics, "maxSize": maxSize, "obsBad": obsBad, "cap": p.Cap}
	}
	return J{"k": "stress", "pid": "C04", "prog": p, "status": status, "added": added, "got": got, "panics": panics, "maxSize": maxSize, "obsBad": obsBad, "cap": p.Cap}
}

func runC04stress(tier string, seed int64, out *Out) {
	r := rand.New(rand.NewSource(seed))
	n := 120
	if tier == "thorough" {
		n = 1500
	}
	for i := 0; i < n; i++ {
		p := stressProg{Mode: "live", Cap: 1 + r.Intn(4), Producers: 1 + r.Intn(4), Values: 1 + r.Intn(60), Consumers: 1 + r.Intn(4), Observers: r.Intn(3)}
		if i%4 == 3 {
			p = stressProg{Mode: "drain", Values: 2 + r.Intn(60), Consumers: 2 + r.Intn(5)}
			p.Cap = p.Values
			if p.Cap < 16 {
				p.Cap = 16
			}
		}
		out.emit(runQueueStress(p))
	}
}
