package main

import "math"

// C01: List and Array behave as an ordinal-indexed sequence.

type seqCfg struct {
	tier string
	rng  Rng
	out  *Out
	kind string // protocol kind: "seq"
	next int    // case counter
}

var listOps = []string{"getValue", "getValues", "setValue", "setValues", "insertValue", "insertValues",
	"appendValue", "appendValues", "removeValue", "removeValues", "removeAll", "getIndex",
	"containsValue", "containsAny", "containsAll", "sort", "reverse", "shuffle", "asArray",
	"iterate", "getSize", "isEmpty", "make"}
var arrayOps = []string{"getValue", "getValues", "setValue", "setValues", "sort", "reverse", "shuffle",
	"asArray", "iterate", "getSize", "isEmpty", "make"}

// operand variants for bulk operations
func operandVariants(u []int) []seqOp {
	return []seqOp{
		{vs: []int{}}, {vs: []int{u[1]}}, {vs: []int{u[1], u[2]}}, {vs: []int{u[2], u[1], u[2], u[0], u[3]}},
		{alias: "self"}, {alias: "view"},
	}
}

// allSteps enumerates every single operation with every boundary argument on a
// target holding `contents` (exhaustive small scope).
func allSteps(kind string, n int, u []int) []seqOp {
	var ops []seqOp
	lo, hi := -(n + 2), n+2
	list := kind == "list"
	for i := lo; i <= hi; i++ {
		ops = append(ops, seqOp{op: "getValue", a: []int{i}})
		ops = append(ops, seqOp{op: "setValue", a: []int{i, u[3]}})
		if list {
			ops = append(ops, seqOp{op: "removeValue", a: []int{i}})
		}
		for l := lo; l <= hi; l++ {
			ops = append(ops, seqOp{op: "getValues", a: []int{i, l}})
			if list {
				ops = append(ops, seqOp{op: "removeValues", a: []int{i, l}})
			}
		}
		for _, v := range operandVariants(u) {
			v.op, v.a = "setValues", []int{i}
			ops = append(ops, v)
		}
	}
	// the ends of Go's int range: index normalisation must not depend on arithmetic that wraps around
	for _, i := range []int{math.MinInt, math.MinInt + 1, -(1 << 62), 1 << 62, math.MaxInt - 1, math.MaxInt} {
		ops = append(ops, seqOp{op: "getValue", a: []int{i}})
		ops = append(ops, seqOp{op: "setValue", a: []int{i, u[3]}})
		ops = append(ops, seqOp{op: "getValues", a: []int{i, n}}, seqOp{op: "getValues", a: []int{1, i}}, seqOp{op: "getValues", a: []int{i, i}})
		ops = append(ops, seqOp{op: "setValues", a: []int{i}, vs: []int{u[1]}})
		if list {
			ops = append(ops, seqOp{op: "removeValue", a: []int{i}})
			ops = append(ops, seqOp{op: "removeValues", a: []int{i, n}}, seqOp{op: "removeValues", a: []int{1, i}})
		}
	}
	if list {
		for s := 0; s <= n+3; s++ {
			ops = append(ops, seqOp{op: "insertValue", a: []int{s, u[3]}})
			for _, v := range operandVariants(u) {
				v.op, v.a = "insertValues", []int{s}
				ops = append(ops, v)
			}
		}
		ops = append(ops, seqOp{op: "appendValue", a: []int{u[2]}}, seqOp{op: "removeAll"})
		for _, v := range operandVariants(u) {
			for _, name := range []string{"appendValues", "containsAny", "containsAll"} {
				w := v
				w.op = name
				ops = append(ops, w)
			}
		}
		for _, x := range u {
			ops = append(ops, seqOp{op: "getIndex", a: []int{x}}, seqOp{op: "containsValue", a: []int{x}})
		}
	}
	for _, name := range []string{"sort", "reverse", "shuffle", "asArray", "iterate", "getSize", "isEmpty"} {
		ops = append(ops, seqOp{op: name})
	}
	return ops
}

// contentsOfSize: a few contents per size: distinct, with duplicates, with the zero value.
func contentsOfSize(n int, u []int) [][]int {
	if n == 0 {
		return [][]int{{}}
	}
	a := make([]int, n)
	b := make([]int, n)
	c := make([]int, n)
	for i := 0; i < n; i++ {
		a[i] = u[(i+1)%len(u)]       // distinct-ish ascending
		b[i] = u[(n-i)%3]            // duplicates, unsorted
		c[i] = u[(i*2+len(u)-1)%len(u)] // includes u[0] (zero value) somewhere
	}
	return [][]int{a, b, c}
}

func randomOp(r Rng, kind string, n int, u []int) seqOp {
	names := listOps
	if kind == "array" {
		names = arrayOps
	}
	name := names[r.Intn(len(names))]
	idx := func() int {
		switch r.Intn(10) {
		case 0:
			return 0
		case 1:
			return n + 1 + r.Intn(2)
		case 2:
			return -(n + 1 + r.Intn(2))
		case 3:
			return n
		case 4:
			return -n
		case 5:
			return 1
		case 6:
			return -1
		}
		if n == 0 {
			return r.between(-2, 2)
		}
		k := 1 + r.Intn(n)
		if r.Intn(2) == 0 {
			return -k
		}
		return k
	}
	val := func() int { return u[r.Intn(len(u))] }
	operand := func() seqOp {
		switch r.Intn(8) {
		case 0:
			return seqOp{alias: "self"}
		case 1:
			return seqOp{alias: "view"}
		case 2:
			return seqOp{vs: []int{}}
		}
		k := 1 + r.Intn(4)
		vs := make([]int, k)
		for i := range vs {
			vs[i] = val()
		}
		return seqOp{vs: vs}
	}
	o := seqOp{op: name}
	switch name {
	case "getValue", "removeValue":
		o.a = []int{idx()}
	case "getValues", "removeValues":
		f := idx()
		l := idx()
		if r.Intn(3) > 0 && f > 0 && l > 0 && f > l {
			f, l = l, f
		}
		o.a = []int{f, l}
	case "setValue":
		o.a = []int{idx(), val()}
	case "setValues":
		o = operand()
		o.op, o.a = name, []int{idx()}
	case "insertValue":
		o.a = []int{r.between(0, n+1), val()}
	case "insertValues":
		o = operand()
		o.op, o.a = name, []int{r.between(0, n+1)}
	case "appendValue", "getIndex", "containsValue":
		o.a = []int{val()}
	case "appendValues", "containsAny", "containsAll":
		o = operand()
		o.op = name
	case "make":
		k := r.pick([]int{0, 1, 2, 3, 7, 8, 9, 15, 16, 17, 33})
		if r.Intn(4) == 0 {
			k = r.Intn(70)
		}
		o.vs = make([]int, k)
		for i := range o.vs {
			o.vs[i] = val()
		}
	}
	return o
}

func runC01Type[V any](cfg *seqCfg, c Codec[V], u []int) {
	maxN, hist, histLen := 3, 60, 40
	if cfg.tier == "thorough" {
		maxN, hist, histLen = 5, 600, 60
	}
	for _, kind := range []string{"list", "array"} {
		// exhaustive single steps from every small state
		for n := 0; n <= maxN; n++ {
			for _, contents := range contentsOfSize(n, u) {
				for _, o := range allSteps(kind, n, u) {
					if hangs >= maxHangs && o.op == "insertValues" && o.alias == "" && len(o.vs) == 0 {
						continue // avoid piling up spinning goroutines once the hang is established
					}
					cfg.next++
					t := &seqTarget[V]{c: c, kind: kind}
					t.line(cfg.out, cfg.kind, cfg.next, seqOp{op: "make", vs: contents}, nil)
					t.line(cfg.out, cfg.kind, cfg.next, o, nil)
				}
			}
		}
		// random histories
		for h := 0; h < hist; h++ {
			cfg.next++
			t := &seqTarget[V]{c: c, kind: kind}
			n0 := cfg.rng.pick([]int{0, 1, 2, 3, 4, 8, 16, 17})
			init := make([]int, n0)
			for i := range init {
				init[i] = u[cfg.rng.Intn(len(u))]
			}
			t.line(cfg.out, cfg.kind, cfg.next, seqOp{op: "make", vs: init}, nil)
			for s := 0; s < histLen; s++ {
				n := len(t.contents())
				o := randomOp(cfg.rng, kind, n, u)
				if hangs >= maxHangs && o.op == "insertValues" && len(o.vs) == 0 && o.alias == "" {
					continue
				}
				if cr := t.line(cfg.out, cfg.kind, cfg.next, o, nil); cr.kind == "hang" {
					break
				}
			}
		}
	}
	// class function Concatenate
	for _, a := range [][]int{{}, {u[1]}, {u[1], u[2], u[1]}} {
		for _, b := range [][]int{{}, {u[2]}, {u[3], u[1]}} {
			cfg.next++
			t := &seqTarget[V]{c: c, kind: "list"}
			t.line(cfg.out, cfg.kind, cfg.next, seqOp{op: "concatenate", vs: a, ws: b}, nil)
		}
		cfg.next++
		t := &seqTarget[V]{c: c, kind: "list"}
		t.line(cfg.out, cfg.kind, cfg.next, seqOp{op: "concatenate", vs: a, alias: "self"}, nil)
	}
}

func runC01(tier string, seed int64, out *Out) {
	cfg := &seqCfg{tier: tier, rng: newRng(seed), out: out, kind: "seq"}
	runC01Type(cfg, intCodec(), []int{0, 1, 2, 3, -1, 7})
	runC01Type(cfg, stringCodec(), []int{0, 1, 2, 3, 5, 9})
	runC01Type(cfg, floatCodec(), []int{0, 1, 2, 3, -3, 8})
	runC01Type(cfg, sliceCodec(), []int{0, 1, 2, 3, 4, 6})
	runC01Type(cfg, anyCodec(), []int{0, 249, 250, 251, 501, 502})
}
