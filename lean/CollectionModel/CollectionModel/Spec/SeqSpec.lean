/-
  Abstract specification of property C01: an ordinal-indexed sequence.
  `allowed s op o` says whether observation `o` (outcome + state left behind)
  is acceptable for operation `op` applied to the abstract sequence `s`.  It is
  written with library functions (`take`, `drop`, `set`, `eraseIdx`,
  `findIdx?`, `isPerm`) and knows nothing about the loops of the Go code.
-/
import CollectionModel.Model.SeqOps
namespace CM
namespace SeqSpec
open CM.Seq

variable {α : Type}

/-- zero-based position addressed by ordinal `i` in a sequence of length `n`:
    `i ≥ 1` counts from the front, `-i` from the back; 0 and out-of-range are undefined. -/
def pos (n : Nat) (i : Int) : Option Nat :=
  if 1 ≤ i ∧ i ≤ (n : Int) then some (i - 1).toNat
  else if -(n : Int) ≤ i ∧ i ≤ -1 then some ((n : Int) + i).toNat
  else none

/-- no adjacent pair ranks Greater -/
def ascending (rank : α → α → Rank) : List α → Bool
  | [] => true
  | [_] => true
  | a :: b :: rest => (rank a b != .gt) && ascending rank (b :: rest)

variable [DecidableEq α]

def isRet (o : Obs α) (s : List α) (r : Res α) : Bool :=
  match o with
  | .ret s' r' => s' == s && r' == r
  | _ => false

def isPanic (o : Obs α) (s : List α) : Bool :=
  match o with
  | .panic s' _ => s' == s
  | _ => false

/-- returns normally with result `r` and a state satisfying `p` -/
def isRetWhere (o : Obs α) (r : Res α) (p : List α → Bool) : Bool :=
  match o with
  | .ret s' r' => r' == r && p s'
  | _ => false

def firstIndex (eqv : α → α → Bool) (s : List α) (v : α) : Nat :=
  match s.findIdx? (fun c => eqv c v) with
  | none => 0
  | some i => i + 1

def allowed (eqv : α → α → Bool) (rank : α → α → Rank) (s : List α) (op : Op α) (o : Obs α) : Bool :=
  let n := s.length
  match op with
  | .getValue i => match pos n i with
      | some p => (match s[p]? with | some v => isRet o s (.val v) | none => false)
      | none => isPanic o s
  | .getValues f l => match pos n f, pos n l with
      | some pf, some pl =>
        if pf ≤ pl then isRet o s (.vals ((s.drop pf).take (pl + 1 - pf)))
        else isRet o s (.vals []) || isPanic o s
      | _, _ => isPanic o s
  | .setValue i v => match pos n i with
      | some p => isRet o (s.set p v) .unit
      | none => isPanic o s
  | .setValues i vs =>
      if vs.isEmpty then isRet o s .unit || isPanic o s
      else match pos n i with
        | some p => if p + vs.length ≤ n then isRet o (s.take p ++ vs ++ s.drop (p + vs.length)) .unit
                    else isPanic o s
        | none => isPanic o s
  | .insertValue slot v =>
      if slot ≤ n then isRet o (s.take slot ++ v :: s.drop slot) .unit else isPanic o s
  | .insertValues slot vs =>
      if slot ≤ n then isRet o (s.take slot ++ vs ++ s.drop slot) .unit else isPanic o s
  | .appendValue v => isRet o (s ++ [v]) .unit
  | .appendValues vs => isRet o (s ++ vs) .unit
  | .removeValue i => match pos n i with
      | some p => (match s[p]? with | some v => isRet o (s.eraseIdx p) (.val v) | none => false)
      | none => isPanic o s
  | .removeValues f l => match pos n f, pos n l with
      | some pf, some pl =>
        if pf ≤ pl then isRet o (s.take pf ++ s.drop (pl + 1)) (.vals ((s.drop pf).take (pl + 1 - pf)))
        else isRet o s (.vals []) || isPanic o s
      | _, _ => isPanic o s
  | .removeAll => isRet o [] .unit
  | .getIndex v => isRet o s (.nat (firstIndex eqv s v))
  | .containsValue v => isRet o s (.bool (s.any (fun c => eqv c v)))
  | .containsAny vs => isRet o s (.bool (vs.any (fun v => s.any (fun c => eqv c v))))
  | .containsAll vs => isRet o s (.bool (vs.all (fun v => s.any (fun c => eqv c v))))
  | .sort => isRetWhere o .unit (fun s' => s'.isPerm s && ascending rank s')
  | .reverse => isRet o s.reverse .unit
  | .shuffle _ => isRetWhere o .unit (fun s' => s'.isPerm s)
  | .asArray => isRet o s (.vals s)
  | .iterate => isRet o s (.vals s)
  | .getSize => isRet o s (.nat n)
  | .isEmpty => isRet o s (.bool (n == 0))
  | .make vs => isRet o vs .unit
  | .concatenate a b => isRet o (a ++ b) .unit

end SeqSpec
end CM
