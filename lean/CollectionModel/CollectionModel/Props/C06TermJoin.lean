/-
  C06, termination half for **Split followed by Join**: for every input stream, fan-out
  n ≥ 1, capacity ≥ 1 and interleaving of the feeder, the Split helper, the Join helper and
  the reader of the joined queue,
  `C06_splitjoin_step_decreases`, `C06_splitjoin_run_bounded`, `C06_splitjoin_no_deadlock`
  (the round-robin positions of Split and Join agree: Join never waits on an empty queue
  while Split waits on a full one), `C06_splitjoin_terminates` (every maximal run is finite
  and ends with both helpers at `group.Done()`, every queue closed and drained, and the reader
  holding exactly the input).
-/
import CollectionModel.Props.C06TermSplit
namespace CM
open CM.Pipes

variable {α : Type}

def hpotSJ (n : Nat) : HS α → Nat
  | .recv => n + 1
  | .send _ => n + 1 + 4
  | .close k => n - k
  | .done => 0

def hjpot : HJ α → Nat
  | .recv => 2
  | .send _ => 4
  | .close => 1
  | .done => 0

def sjPot (n : Nat) (s : SJ α) : Nat :=
  6 * s.rest.length + 5 * s.inq.length + hpotSJ n s.h + 3 * sumTo n (fun k => (s.mid k).length) + hjpot s.hj
    + s.ob.length + (if s.inClosed then 0 else 1) + (if s.rdDone then 0 else 1)

theorem C06_splitjoin_step_decreases (n cap : Nat) (s t : SJ α) (ht : s.turn < n) (htj : s.turnJ < n) (h : JStep n cap s t) :
    sjPot n t < sjPot n s := by
  cases h with
  | feed v r h1 h2 h3 =>
    simp only [sjPot, h1, h3, List.length_cons, List.length_append, List.length_nil]; omega
  | feedClose h1 h3 => simp only [sjPot, h3]; simp
  | hRecv v q h1 h2 => simp only [sjPot, h1, h2, hpotSJ, List.length_cons]; omega
  | hRecvClosed h1 h2 h3 => simp only [sjPot, h1, hpotSJ]; omega
  | hSend v h1 h2 h3 =>
    have hs := sumTo_upd n (fun j => (s.mid j).length) (fun j => (upd s.mid s.turn (s.mid s.turn ++ [v]) j).length) s.turn ht
      (fun j hj => by simp [upd, hj])
    simp only [upd_same, List.length_append, List.length_cons, List.length_nil] at hs
    simp only [sjPot, h1, hpotSJ]; omega
  | hClose k h1 hk =>
    simp only [sjPot, h1]
    by_cases hk1 : k + 1 < n
    · simp only [hk1, if_true, hpotSJ]; omega
    · simp only [hk1, if_false, hpotSJ]; omega
  | jRecv v b h1 h2 =>
    have hs := sumTo_upd n (fun j => (s.mid j).length) (fun j => (upd s.mid s.turnJ b j).length) s.turnJ htj
      (fun j hj => by simp [upd, hj])
    simp only [upd_same, h2, List.length_cons] at hs
    simp only [sjPot, h1, hjpot]; omega
  | jRecvClosed h1 h2 h3 => simp only [sjPot, h1, hjpot]; omega
  | jSend v h1 h2 h3 => simp only [sjPot, h1, hjpot, List.length_append, List.length_cons, List.length_nil]; omega
  | jClose h1 => simp only [sjPot, h1, hjpot]; omega
  | read v b h1 h2 => simp only [sjPot, h1, List.length_cons]; omega
  | readClosed h1 h2 h3 => simp only [sjPot, h3]; simp

inductive JRun (n cap : Nat) : SJ α → Nat → SJ α → Prop
  | zero (s) : JRun n cap s 0 s
  | succ {s t u m} : JStep n cap s t → JRun n cap t m u → JRun n cap s (m + 1) u

theorem jreach_of_run (n cap : Nat) (s0 : SJ α) : ∀ (m : Nat) (s u : SJ α), JReach n cap s0 s → JRun n cap s m u → JReach n cap s0 u
  | 0, s, u, hr, h => by cases h; exact hr
  | m+1, s, u, hr, h => by
    cases h with
    | succ hs hrun => exact jreach_of_run n cap s0 m _ u (JReach.step hr hs) hrun

theorem sj_turns (input : List α) (n cap : Nat) (hn : 1 ≤ n) (s : SJ α) (hr : JReach n cap (initSJ input) s) :
    s.turn < n ∧ s.turnJ < n := by
  have inv := C06_splitjoin_inv input n cap (by omega) s hr
  exact ⟨by rw [inv.turn]; exact Nat.mod_lt _ (by omega), by rw [inv.turnJ]; exact Nat.mod_lt _ (by omega)⟩

theorem C06_splitjoin_run_bounded (input : List α) (n cap : Nat) (hn : 1 ≤ n) : ∀ (m : Nat) (s u : SJ α),
    JReach n cap (initSJ input) s → JRun n cap s m u → m + sjPot n u ≤ sjPot n s
  | 0, s, u, _, h => by cases h; omega
  | m+1, s, u, hr, h => by
    cases h with
    | succ hs hrun =>
      have ht := sj_turns input n cap hn s hr
      have := C06_splitjoin_run_bounded input n cap hn m _ u (JReach.step hr hs) hrun
      have := C06_splitjoin_step_decreases n cap _ _ ht.1 ht.2 hs
      omega

/-- progress facts of the two helpers and the reader -/
structure SJProg (n : Nat) (s : SJ α) : Prop where
  closeLt : ∀ k, s.h = .close k → k < n
  closedAll : s.h = .done → ∀ k, k < n → s.mclosed k = true
  jdone : s.hj = .done → s.oClosed = true
  rdClosed : s.rdDone = true → s.oClosed = true ∧ s.ob = []

theorem sj_prog_init (input : List α) (n : Nat) : SJProg n (initSJ input) := by
  refine ⟨?_, ?_, ?_, ?_⟩ <;> intros <;> simp_all [initSJ]

/-- the closing loop has closed every queue below its position -/
structure SJClosed (s : SJ α) : Prop where
  below : ∀ j, s.h = .close j → ∀ k, k < j → s.mclosed k = true

theorem sj_prog_step (input : List α) (n cap : Nat) (hn : 1 ≤ n) (s t : SJ α) (hi : SJInv input n s)
    (hp : SJProg n s ∧ SJClosed s) (hs : JStep n cap s t) : SJProg n t ∧ SJClosed t := by
  obtain ⟨hp, hc⟩ := hp
  cases hs with
  | feed v r h1 h2 h3 => exact ⟨⟨hp.closeLt, hp.closedAll, hp.jdone, hp.rdClosed⟩, ⟨hc.below⟩⟩
  | feedClose h1 h3 => exact ⟨⟨hp.closeLt, hp.closedAll, hp.jdone, hp.rdClosed⟩, ⟨hc.below⟩⟩
  | hRecv v q h1 h2 =>
    refine ⟨⟨?_, ?_, hp.jdone, hp.rdClosed⟩, ⟨?_⟩⟩
    · intro k e; simp at e
    · intro e; simp at e
    · intro j e; simp at e
  | hRecvClosed h1 h2 h3 =>
    refine ⟨⟨?_, ?_, hp.jdone, hp.rdClosed⟩, ⟨?_⟩⟩
    · intro k e; simp at e; omega
    · intro e; simp at e
    · intro j e k hk; simp at e; omega
  | hSend v h1 h2 h3 =>
    refine ⟨⟨?_, ?_, hp.jdone, hp.rdClosed⟩, ⟨?_⟩⟩
    · intro k e; simp at e
    · intro e; simp at e
    · intro j e; simp at e
  | hClose k h1 hk =>
    refine ⟨⟨?_, ?_, hp.jdone, hp.rdClosed⟩, ⟨?_⟩⟩
    · intro k' e; simp only at e; split at e <;> simp at e; omega
    · intro e k' hk'
      simp only at e; split at e <;> simp at e
      by_cases hkk : k' = k
      · subst hkk; simp [upd]
      · simp only [upd, hkk, if_false]; exact hc.below k h1 k' (by omega)
    · intro j e k' hk'
      simp only at e; split at e <;> simp at e
      subst e
      by_cases hkk : k' = k
      · subst hkk; simp [upd]
      · simp only [upd, hkk, if_false]; exact hc.below k h1 k' (by omega)
  | jRecv v b h1 h2 =>
    refine ⟨⟨hp.closeLt, hp.closedAll, ?_, hp.rdClosed⟩, ⟨hc.below⟩⟩
    intro e; simp at e
  | jRecvClosed h1 h2 h3 =>
    refine ⟨⟨hp.closeLt, hp.closedAll, ?_, hp.rdClosed⟩, ⟨hc.below⟩⟩
    intro e; simp at e
  | jSend v h1 h2 h3 =>
    refine ⟨⟨hp.closeLt, hp.closedAll, ?_, ?_⟩, ⟨hc.below⟩⟩
    · intro e; simp at e
    · intro e
      have := (hp.rdClosed e).1
      rw [h3] at this; cases this
  | jClose h1 =>
    refine ⟨⟨hp.closeLt, hp.closedAll, fun _ => rfl, ?_⟩, ⟨hc.below⟩⟩
    intro e; exact ⟨rfl, (hp.rdClosed e).2⟩
  | read v b h1 h2 =>
    refine ⟨⟨hp.closeLt, hp.closedAll, hp.jdone, ?_⟩, ⟨hc.below⟩⟩
    intro e; simp only at e; rw [h2] at e; cases e
  | readClosed h1 h2 h3 =>
    refine ⟨⟨hp.closeLt, hp.closedAll, hp.jdone, ?_⟩, ⟨hc.below⟩⟩
    intro _; exact ⟨h2, h1⟩

theorem sj_prog_reach (input : List α) (n cap : Nat) (hn : 1 ≤ n) (s : SJ α) (h : JReach n cap (initSJ input) s) :
    SJProg n s ∧ SJClosed s := by
  induction h with
  | init => exact ⟨sj_prog_init input n, ⟨by intro j e; simp [initSJ] at e⟩⟩
  | step hr hs ih => exact sj_prog_step input n cap hn _ _ (C06_splitjoin_inv input n cap (by omega) _ hr) ih hs

/-- the final state of the Split → Join network -/
def SJFinal (n : Nat) (s : SJ α) : Prop :=
  s.h = .done ∧ s.hj = .done ∧ (∀ k, k < n → s.mclosed k = true ∧ s.mid k = []) ∧ s.oClosed = true ∧ s.ob = [] ∧ s.rdDone = true

theorem splitSpec_head (n k i : Nat) (v : α) (l : List α) (h : i % n = k) : splitSpec n k i (v :: l) ≠ [] := by
  simp [splitSpec, h]

/-- **nobody waits for ever** in Split → Join -/
theorem C06_splitjoin_no_deadlock (input : List α) (n cap : Nat) (hn : 1 ≤ n) (hcap : 1 ≤ cap) (s : SJ α)
    (hr : JReach n cap (initSJ input) s) : SJFinal n s ∨ ∃ t, JStep n cap s t := by
  have inv := C06_splitjoin_inv input n cap (by omega) s hr
  obtain ⟨hp, hcl⟩ := sj_prog_reach input n cap hn s hr
  obtain ⟨htn, htjn⟩ := sj_turns input n cap hn s hr
  -- the Split side (feeder and Split helper) can move unless the helper is done or blocked on a full queue
  have splitSide : (∀ v, s.h = .send v → (s.mid s.turn).length < cap) → s.h ≠ .done → ∃ t, JStep n cap s t := by
    intro hroom hnd
    cases hh : s.h with
    | recv =>
      cases hq : s.inq with
      | cons v q => exact ⟨_, JStep.hRecv s v q hh hq⟩
      | nil =>
        cases hc : s.inClosed with
        | true => exact ⟨_, JStep.hRecvClosed s hh hq hc⟩
        | false =>
          cases hrest : s.rest with
          | nil => exact ⟨_, JStep.feedClose s hrest hc⟩
          | cons v r => exact ⟨_, JStep.feed s v r hrest (by rw [hq]; simp; omega) hc⟩
    | send v =>
      have hnc : s.mclosed s.turn = false := by
        cases hc : s.mclosed s.turn with
        | false => rfl
        | true =>
          rcases inv.noLate _ hc with ⟨j, hj, _⟩ | hd
          · rw [hh] at hj; cases hj
          · rw [hh] at hd; cases hd
      exact ⟨_, JStep.hSend s v hh (hroom v hh) hnc⟩
    | close k => exact ⟨_, JStep.hClose s k hh (hp.closeLt k hh)⟩
    | done => exact absurd hh hnd
  -- the reader can move when it has not finished and the joined queue holds a value or is closed
  have reader : s.rdDone = false → (s.ob ≠ [] ∨ s.oClosed = true) → ∃ t, JStep n cap s t := by
    intro hd hb
    cases hob : s.ob with
    | nil =>
      rcases hb with hb | hb
      · exact absurd hob hb
      · exact ⟨_, JStep.readClosed s hob hb hd⟩
    | cons v b => exact ⟨_, JStep.read s v b hob hd⟩
  cases hhj : s.hj with
  | send v =>
    right
    have hnc : s.oClosed = false := by
      cases hc : s.oClosed with
      | false => rfl
      | true => have := inv.oLate hc; rw [hhj] at this; cases this
    by_cases hfull : s.ob.length < cap
    · exact ⟨_, JStep.jSend s v hhj hfull hnc⟩
    · have hne : s.ob ≠ [] := by intro e; rw [e] at hfull; simp at hfull; omega
      have hnd : s.rdDone = false := by
        cases hd : s.rdDone with
        | false => rfl
        | true => have := (hp.rdClosed hd).1; rw [hnc] at this; cases this
      exact reader hnd (Or.inl hne)
  | close => exact Or.inr ⟨_, JStep.jClose s hhj⟩
  | recv =>
    right
    cases hm : s.mid s.turnJ with
    | cons v b => exact ⟨_, JStep.jRecv s v b hhj hm⟩
    | nil =>
      cases hmc : s.mclosed s.turnJ with
      | true => exact ⟨_, JStep.jRecvClosed s hhj hm hmc⟩
      | false =>
        -- Join waits on an empty open queue: then nothing is in flight between Split and Join
        have hlater : s.later = [] := by
          cases hl : s.later with
          | nil => rfl
          | cons x l =>
            exfalso
            have hm' := inv.mids s.turnJ htjn
            have hj := inv.jout
            rw [hhj] at hj
            simp only [pendJ, List.append_nil] at hj
            have htj := inv.turnJ
            rw [hj] at htj
            rw [hl] at hm'
            exact splitSpec_head n s.turnJ s.tk.length x l htj.symm (by rw [← hm']; exact hm)
        apply splitSide
        · intro v hv
          have := inv.mids s.turn htn
          rw [hlater] at this
          rw [this]; simp [splitSpec]; omega
        · intro hd
          have := hp.closedAll hd s.turnJ htjn
          rw [hmc] at this; cases this
  | done =>
    have hoc := hp.jdone hhj
    have hfin := inv.jfin (Or.inr hhj)
    cases hd : s.rdDone with
    | false => exact Or.inr (reader hd (Or.inr hoc))
    | true =>
      have hob := (hp.rdClosed hd).2
      by_cases hdone : s.h = .done
      · left
        refine ⟨hdone, hhj, fun k hk => ⟨hp.closedAll hdone k hk, ?_⟩, hoc, hob, hd⟩
        rw [inv.mids k hk, hfin.1]; rfl
      · right
        apply splitSide
        · intro v hv
          have := inv.mids s.turn htn
          rw [hfin.1] at this
          rw [this]; simp [splitSpec]; omega
        · exact hdone

theorem sjPot_init (input : List α) (n : Nat) : sjPot n (initSJ input) = 6 * input.length + (n + 5) := by
  simp only [sjPot, initSJ, hpotSJ, hjpot, List.length_nil, Bool.false_eq_true, if_false]
  rw [sumTo_const]; omega

/-- **Split followed by Join terminates** — for every input, fan-out ≥ 1, capacity ≥ 1 and every
    interleaving: no run is longer than 6·|input| + n + 5 steps, and a run that cannot be extended
    has reached the final state (both helper goroutines at `group.Done()`, the queues between them
    and the joined queue closed and drained, the reader has seen ok=false) in which the reader has
    read exactly the input, in order. -/
theorem C06_splitjoin_terminates (input : List α) (n cap : Nat) (hn : 1 ≤ n) (hcap : 1 ≤ cap) (m : Nat) (u : SJ α)
    (hrun : JRun n cap (initSJ input) m u) :
    m ≤ 6 * input.length + (n + 5) ∧
    ((¬ ∃ t, JStep n cap u t) → SJFinal n u ∧ u.rd = input) := by
  refine ⟨?_, fun hstuck => ?_⟩
  · have := C06_splitjoin_run_bounded input n cap hn m _ u JReach.init hrun
    rw [sjPot_init] at this; omega
  · have hr := jreach_of_run n cap (initSJ input) m _ u JReach.init hrun
    rcases C06_splitjoin_no_deadlock input n cap hn hcap u hr with hf | hstep
    · exact ⟨hf, C06_splitjoin_final input n cap (by omega) u hr hf.2.1 hf.2.2.2.2.1⟩
    · exact absurd hstep hstuck

end CM
