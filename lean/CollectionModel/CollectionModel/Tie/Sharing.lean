/-
  C19 obligation over the sharing table regenerated from the Go source
  (Generated/Sharing.lean): nothing that several instances or goroutines can
  reach is written through the methods invoked on it, unless every access sits
  inside one mutex section.  This is the hypothesis `hsh`/`hdisj` of
  `C19_owned_independent` read off the code: instance methods write only what
  their own instance owns; what is shared is read-only or locked.
-/
import CollectionModel.Generated.Sharing
namespace CM
namespace Tie

def rowSafe (r : String × String × String × Bool × Bool) : Bool := !r.2.2.2.1 || r.2.2.2.2

/-- **no shared mutable state**: every row of the table is write-free or guarded -/
theorem sharing_safe : Generated.sharing.all rowSafe = true := by decide

/-- the class registries are the only shared objects that are written, and each is guarded -/
theorem registries_guarded :
    (Generated.sharing.filter (fun r => r.2.2.2.1)).all (fun r => r.2.1 == "map" && r.2.2.2.2) = true := by decide

/-- the table is not empty: it lists the registries, the class notation, the default ranker
    and the operand's collator (a vacuous table would prove nothing) -/
theorem sharing_covers :
    (Generated.sharing.any (fun r => r.1 == "class-held NotationLike")) = true ∧
    (Generated.sharing.any (fun r => r.1 == "class field sorterClass_.defaultRanker_")) = true ∧
    (Generated.sharing.any (fun r => r.1 == "operand's CollatorLike handed to a new instance")) = true ∧
    (Generated.sharing.filter (fun r => r.2.1 == "map" && r.2.2.2.1)).length = 11 := by decide

end Tie
end CM
