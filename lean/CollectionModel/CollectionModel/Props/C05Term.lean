/-
  C05, second sentence — every well-formed producer/consumer program terminates:
  all producers finish, the queue is then closed, consumers read until ok = false; under
  EVERY schedule the program ends with every goroutine finished and every value consumed.

  Proved for any capacity ≥ 1, any number of producers with any value lists, any number
  ≥ 1 of consumers, and any number ≥ 1 of closers racing to close once:
    * `C05_step_decreases`   every step of every thread strictly decreases `potential`
    * `C05_run_bounded`      hence no run is longer than the potential of its first state
    * `C05_no_deadlock`      in every reachable state that is not final some thread can step
    * `C05_final_consumed`   in a final state the queue is empty and popped = appended
    * `C05_program_terminates` the three together, from the initial state of a program
    * `C05_steps_are_queue_steps` every program step is one or two events of the queue model
-/
import CollectionModel.Model.QProg
import CollectionModel.Lemmas.QueueLemmas
namespace CM
open CM.QProg

variable {α : Type}

/-! ### the potential -/

theorem sum_map_set (f : T α → Nat) : ∀ (l : List (T α)) (t : Nat) (a b : T α), l[t]? = some a →
    ((l.set t b).map f).sum + f a = (l.map f).sum + f b
  | [], t, a, b, h => by simp at h
  | x :: xs, 0, a, b, h => by
    simp at h; subst h
    simp only [List.set_cons_zero, List.map_cons, List.sum_cons]; omega
  | x :: xs, t + 1, a, b, h => by
    simp at h
    have := sum_map_set f xs t a b h
    simp only [List.set_cons_succ, List.map_cons, List.sum_cons]; omega

theorem C05_step_decreases (s s' : PS α) (h : Step s s') : potential s' < potential s := by
  cases h with
  | prodAppend t v r h =>
    have := sum_map_set weight s.threads t _ (T.prod r true) h
    simp only [potential, weight, List.length_cons, List.length_append, List.length_nil] at this ⊢
    simp only [if_true, Bool.false_eq_true, if_false] at this
    omega
  | prodSend t r h h2 h3 =>
    have := sum_map_set weight s.threads t _ (T.prod r false) h
    simp only [potential, weight] at this ⊢
    simp only [if_true, Bool.false_eq_true, if_false] at this
    omega
  | consRecv t h h2 =>
    have := sum_map_set weight s.threads t _ (T.cons true false) h
    simp only [potential, weight] at this ⊢
    simp only [if_true, Bool.false_eq_true, if_false] at this
    omega
  | consRecvClosed t h h2 h3 =>
    have := sum_map_set weight s.threads t _ (T.cons false true) h
    simp only [potential, weight] at this ⊢
    simp only [if_true, Bool.false_eq_true, if_false] at this
    omega
  | consPop t x xs h h2 =>
    have := sum_map_set weight s.threads t _ (T.cons false false) h
    simp only [potential, weight, h2, List.length_cons] at this ⊢
    simp only [if_true, Bool.false_eq_true, if_false] at this
    omega
  | close t h h2 h3 =>
    simp only [potential, h3, Bool.false_eq_true, if_false, if_true]
    omega

/-- **no infinite run**: a run of n steps exists only if n ≤ potential of its first state -/
theorem C05_run_bounded : ∀ (n : Nat) (s u : PS α), Run s n u → n + potential u ≤ potential s
  | 0, s, u, h => by cases h; omega
  | n + 1, s, u, h => by
    cases h with
    | cons hst hr =>
      have := C05_run_bounded n _ u hr
      have := C05_step_decreases _ _ hst
      omega

/-! ### invariants -/

structure PInv (s : PS α) : Prop where
  acct : s.vals.length = s.tokens + s.threads.countP isClaimed + s.threads.countP isSending
  capOk : s.tokens ≤ s.cap
  ghost : s.appended = s.popped ++ s.vals
  closedDone : s.closed = true → allProducersDone s = true
  finClosed : s.threads.any isFin = true → s.closed = true ∧ s.tokens = 0
  finUnclaimed : ∀ x ∈ s.threads, isFin x = true → isClaimed x = false

theorem all_set_of (p : T α → Bool) (l : List (T α)) (t : Nat) (b : T α) (hall : l.all p = true) (hb : p b = true) :
    (l.set t b).all p = true := by
  rw [List.all_eq_true] at hall ⊢
  intro x hx
  rcases List.mem_or_eq_of_mem_set hx with h | h
  · exact hall x h
  · subst h; exact hb

theorem any_set_false (p : T α → Bool) (l : List (T α)) (t : Nat) (b : T α) (h : (l.set t b).any p = true)
    (hb : p b = false) : l.any p = true := by
  rw [List.any_eq_true] at h ⊢
  obtain ⟨x, hx, hp⟩ := h
  rcases List.mem_or_eq_of_mem_set hx with h | h
  · exact ⟨x, h, hp⟩
  · subst h; rw [hb] at hp; cases hp

theorem not_done_of_mem (l : List (T α)) (t : Nat) (a : T α) (h : l[t]? = some a) (hall : l.all prodDone = true) :
    prodDone a = true := by
  rw [List.all_eq_true] at hall
  exact hall a (List.mem_of_getElem? h)

theorem forall_set (P : T α → Prop) (l : List (T α)) (t : Nat) (b : T α) (hall : ∀ x ∈ l, P x) (hb : P b) :
    ∀ x ∈ l.set t b, P x := by
  intro x hx
  rcases List.mem_or_eq_of_mem_set hx with h | h
  · exact hall x h
  · subst h; exact hb

theorem step_pinv (s s' : PS α) (hi : PInv s) (h : Step s s') : PInv s' := by
  have fu : ∀ (t : Nat) (b : T α), (isFin b = true → isClaimed b = false) →
      ∀ x ∈ s.threads.set t b, isFin x = true → isClaimed x = false :=
    fun t b hb => forall_set (fun x => isFin x = true → isClaimed x = false) _ t b hi.finUnclaimed hb
  cases h with
  | prodAppend t v r h =>
    have c1 := Q.countP_set isClaimed s.threads t _ (T.prod r true) h
    have c2 := Q.countP_set isSending s.threads t _ (T.prod r true) h
    simp only [isClaimed, isSending, Bool.false_eq_true, if_false, if_true] at c1 c2
    refine ⟨?_, hi.capOk, ?_, ?_, ?_, fu t _ (by simp [isFin])⟩
    · have := hi.acct
      simp only [List.length_append, List.length_singleton]
      omega
    · simp only; rw [hi.ghost, List.append_assoc]
    · intro hc
      -- a closed queue has no producer left with work: this step is impossible
      have := not_done_of_mem _ _ _ h (hi.closedDone hc)
      simp [prodDone] at this
    · intro hf
      have := hi.finClosed (any_set_false isFin _ _ _ hf rfl)
      have hd := not_done_of_mem _ _ _ h (hi.closedDone this.1)
      simp [prodDone] at hd
  | prodSend t r h h2 h3 =>
    have c1 := Q.countP_set isClaimed s.threads t _ (T.prod r false) h
    have c2 := Q.countP_set isSending s.threads t _ (T.prod r false) h
    simp only [isClaimed, isSending, Bool.false_eq_true, if_false, if_true] at c1 c2
    refine ⟨?_, by simp only; omega, hi.ghost, ?_, ?_, fu t _ (by simp [isFin])⟩
    · have := hi.acct; simp only; omega
    · intro hc; simp only at hc; rw [h2] at hc; cases hc
    · intro hf
      have := hi.finClosed (any_set_false isFin _ _ _ hf rfl)
      rw [h2] at this; cases this.1
  | consRecv t h h2 =>
    have c1 := Q.countP_set isClaimed s.threads t _ (T.cons true false) h
    have c2 := Q.countP_set isSending s.threads t _ (T.cons true false) h
    simp only [isClaimed, isSending, Bool.false_eq_true, if_false, if_true] at c1 c2
    refine ⟨?_, by simp only; have := hi.capOk; omega, hi.ghost, ?_, ?_, fu t _ (by simp [isFin])⟩
    · have := hi.acct; simp only; omega
    · intro hc
      have hd := hi.closedDone hc
      unfold allProducersDone at hd ⊢
      exact all_set_of prodDone _ _ _ hd rfl
    · intro hf
      have := hi.finClosed (any_set_false isFin _ _ _ hf rfl)
      omega
  | consRecvClosed t h h2 h3 =>
    have c1 := Q.countP_set isClaimed s.threads t _ (T.cons false true) h
    have c2 := Q.countP_set isSending s.threads t _ (T.cons false true) h
    simp only [isClaimed, isSending, Bool.false_eq_true, if_false] at c1 c2
    refine ⟨?_, hi.capOk, hi.ghost, ?_, fun _ => ⟨h3, h2⟩, fu t _ (by simp [isClaimed])⟩
    · have := hi.acct; simp only; omega
    · intro hc
      have hd := hi.closedDone hc
      unfold allProducersDone at hd ⊢
      exact all_set_of prodDone _ _ _ hd rfl
  | consPop t x xs h h2 =>
    have c1 := Q.countP_set isClaimed s.threads t _ (T.cons false false) h
    have c2 := Q.countP_set isSending s.threads t _ (T.cons false false) h
    simp only [isClaimed, isSending, Bool.false_eq_true, if_false, if_true] at c1 c2
    refine ⟨?_, hi.capOk, ?_, ?_, ?_, fu t _ (by simp [isFin])⟩
    · have := hi.acct; rw [h2] at this; simp only [List.length_cons] at this ⊢; omega
    · simp only; rw [hi.ghost, h2]; simp
    · intro hc
      have hd := hi.closedDone hc
      unfold allProducersDone at hd ⊢
      exact all_set_of prodDone _ _ _ hd rfl
    · intro hf
      exact hi.finClosed (any_set_false isFin _ _ _ hf rfl)
  | close t h h2 h3 =>
    refine ⟨hi.acct, hi.capOk, hi.ghost, fun _ => h2, ?_, hi.finUnclaimed⟩
    intro hf
    have := hi.finClosed hf
    rw [h3] at this; cases this.1

theorem init_pinv (cap : Nat) (producers : List (List α)) (consumers : Nat) :
    PInv (initial cap producers consumers) := by
  have hc : ∀ (l : List (T α)), (∀ x ∈ l, isClaimed x = false ∧ isSending x = false ∧ isFin x = false) →
      l.countP isClaimed = 0 ∧ l.countP isSending = 0 ∧ l.any isFin = false := by
    intro l hl
    refine ⟨?_, ?_, ?_⟩
    · rw [List.countP_eq_zero]; intro x hx; simp [(hl x hx).1]
    · rw [List.countP_eq_zero]; intro x hx; simp [(hl x hx).2.1]
    · rw [List.any_eq_false]; intro x hx; simp [(hl x hx).2.2]
  have hall : ∀ x ∈ (initial cap producers consumers).threads, isClaimed x = false ∧ isSending x = false ∧ isFin x = false := by
    intro x hx
    simp only [initial, List.mem_append, List.mem_map, List.mem_replicate, List.mem_singleton] at hx
    rcases hx with (⟨vs, _, rfl⟩ | ⟨_, rfl⟩) | rfl <;> simp [isClaimed, isSending, isFin]
  obtain ⟨h1, h2, h3⟩ := hc _ hall
  refine ⟨?_, by simp [initial], by simp [initial], ?_, ?_, ?_⟩
  · rw [h1, h2]; simp [initial]
  · intro h; simp [initial] at h
  · intro h; rw [h3] at h; cases h
  · intro x hx _; exact (hall x hx).1

theorem reach_pinv (s0 s : PS α) (h0 : PInv s0) (h : Reach s0 s) : PInv s := by
  induction h with
  | init => exact h0
  | step _ hst ih => exact step_pinv _ _ ih hst

/-- the shape of the program does not change: consumers stay consumers, closers stay closers -/
theorem step_roles (s s' : PS α) (h : Step s s') :
    s'.cap = s.cap ∧ (s.threads.any isCons = true → s'.threads.any isCons = true) ∧
    (s.threads.any isCloser = true → s'.threads.any isCloser = true) := by
  have key : ∀ (p : T α → Bool) (t : Nat) (a b : T α), s.threads[t]? = some a → p b = p a →
      s.threads.any p = true → (s.threads.set t b).any p = true := by
    intro p t a b ha hp hany
    rw [List.any_eq_true] at hany ⊢
    obtain ⟨x, hx, hpx⟩ := hany
    obtain ⟨i, hi, rfl⟩ := List.getElem_of_mem hx
    by_cases hit : i = t
    · subst hit
      refine ⟨b, ?_, ?_⟩
      · exact List.mem_iff_getElem.mpr ⟨i, by simpa using hi, by simp⟩
      · have : s.threads[i]? = some s.threads[i] := List.getElem?_eq_getElem hi
        rw [this] at ha; injection ha with ha
        rw [hp, ← ha]; exact hpx
    · refine ⟨s.threads[i], ?_, hpx⟩
      exact List.mem_iff_getElem.mpr ⟨i, by simpa using hi, by simp [List.getElem_set, Ne.symm hit]⟩
  cases h with
  | prodAppend t v r h => exact ⟨rfl, key isCons t _ _ h rfl, key isCloser t _ _ h rfl⟩
  | prodSend t r h h2 h3 => exact ⟨rfl, key isCons t _ _ h rfl, key isCloser t _ _ h rfl⟩
  | consRecv t h h2 => exact ⟨rfl, key isCons t _ _ h rfl, key isCloser t _ _ h rfl⟩
  | consRecvClosed t h h2 h3 => exact ⟨rfl, key isCons t _ _ h rfl, key isCloser t _ _ h rfl⟩
  | consPop t x xs h h2 => exact ⟨rfl, key isCons t _ _ h rfl, key isCloser t _ _ h rfl⟩
  | close t h h2 h3 => exact ⟨rfl, id, id⟩

/-! ### deadlock freedom -/

/-- **no lost wake-up at program level**: in every state satisfying the invariant, with capacity
    ≥ 1, at least one consumer and at least one closer, either every goroutine has finished or
    some goroutine can take a step -/
theorem C05_no_deadlock (s : PS α) (hi : PInv s) (hcap : 1 ≤ s.cap)
    (hcons : s.threads.any isCons = true) (hclo : s.threads.any isCloser = true) :
    AllFinished s ∨ ∃ s', Step s s' := by
  -- a consumer that has not finished can always move when there is a token or the queue is closed
  have consumerMoves : (0 < s.tokens ∨ s.closed = true) → s.threads.all threadDone = false → s.threads.all prodDone = true →
      ∃ s', Step s s' := by
    intro hen hnd hpd
    rw [List.all_eq_false] at hnd
    obtain ⟨x, hx, hxd⟩ := hnd
    obtain ⟨t, ht, rfl⟩ := List.getElem_of_mem hx
    have hget : s.threads[t]? = some s.threads[t] := List.getElem?_eq_getElem ht
    have hpx := (List.all_eq_true.mp hpd) _ hx
    cases hth : s.threads[t] with
    | prod todo sending =>
      rw [hth] at hxd hpx
      cases todo <;> cases sending <;> simp [threadDone, prodDone] at hxd hpx
    | closer => rw [hth] at hxd; simp [threadDone] at hxd
    | cons claimed fin =>
      rw [hth] at hxd hget
      cases fin with
      | true => simp [threadDone] at hxd
      | false =>
        cases claimed with
        | true =>
          -- holds a token: the list is not empty (accounting), it pops
          have hc : 1 ≤ s.threads.countP isClaimed := by
            apply List.countP_pos_iff.mpr
            exact ⟨_, List.mem_of_getElem? hget, rfl⟩
          have := hi.acct
          cases hv : s.vals with
          | nil => rw [hv] at this; simp at this; omega
          | cons y ys => exact ⟨_, Step.consPop s t y ys hget hv⟩
        | false =>
          by_cases htok : 0 < s.tokens
          · exact ⟨_, Step.consRecv s t hget htok⟩
          · rcases hen with h | h
            · omega
            · exact ⟨_, Step.consRecvClosed s t hget (by omega) h⟩
  by_cases hpd : s.threads.all prodDone = true
  · -- every producer has finished
    by_cases hcl : s.closed = true
    · by_cases hd : s.threads.all threadDone = true
      · exact Or.inl ⟨hcl, hd⟩
      · exact Or.inr (consumerMoves (Or.inr hcl) (by simpa using hd) hpd)
    · -- a closer closes
      rw [List.any_eq_true] at hclo
      obtain ⟨x, hx, hxc⟩ := hclo
      obtain ⟨t, ht, rfl⟩ := List.getElem_of_mem hx
      cases hth : s.threads[t] with
      | closer =>
        have hget : s.threads[t]? = some .closer := by rw [← hth]; exact List.getElem?_eq_getElem ht
        exact Or.inr ⟨_, Step.close s t hget hpd (by simpa using hcl)⟩
      | prod a b => rw [hth] at hxc; simp [isCloser] at hxc
      | cons a b => rw [hth] at hxc; simp [isCloser] at hxc
  · -- some producer still has work
    have hnotclosed : s.closed = false := by
      cases hc : s.closed with
      | false => rfl
      | true => exact absurd (hi.closedDone hc) hpd
    have hpd' : s.threads.all prodDone = false := by simpa using hpd
    rw [List.all_eq_false] at hpd'
    obtain ⟨x, hx, hxd⟩ := hpd'
    obtain ⟨t, ht, rfl⟩ := List.getElem_of_mem hx
    have hget : s.threads[t]? = some s.threads[t] := List.getElem?_eq_getElem ht
    cases hth : s.threads[t] with
    | closer => rw [hth] at hxd; simp [prodDone] at hxd
    | cons a b => rw [hth] at hxd; simp [prodDone] at hxd
    | prod todo sending =>
      rw [hth] at hget
      cases sending with
      | false =>
        cases todo with
        | nil => rw [hth] at hxd; simp [prodDone] at hxd
        | cons v r => exact Or.inr ⟨_, Step.prodAppend s t v r hget⟩
      | true =>
        by_cases hroom : s.tokens < s.cap
        · exact Or.inr ⟨_, Step.prodSend s t todo hget hnotclosed hroom⟩
        · -- the queue is full: a consumer that has not finished can receive
          have htok : 0 < s.tokens := by have := hi.capOk; omega
          -- no consumer has finished (that needs a closed queue)
          rw [List.any_eq_true] at hcons
          obtain ⟨c, hc, hcc⟩ := hcons
          obtain ⟨u, hu, rfl⟩ := List.getElem_of_mem hc
          have hgetu : s.threads[u]? = some s.threads[u] := List.getElem?_eq_getElem hu
          cases hcu : s.threads[u] with
          | prod a b => rw [hcu] at hcc; simp [isCons] at hcc
          | closer => rw [hcu] at hcc; simp [isCons] at hcc
          | cons claimed fin =>
            rw [hcu] at hgetu
            cases fin with
            | true =>
              have : s.threads.any isFin = true := by
                rw [List.any_eq_true]; exact ⟨_, List.mem_of_getElem? hgetu, rfl⟩
              have := (hi.finClosed this).1
              rw [hnotclosed] at this; cases this
            | false =>
              cases claimed with
              | false => exact Or.inr ⟨_, Step.consRecv s u hgetu htok⟩
              | true =>
                have hc1 : 1 ≤ s.threads.countP isClaimed := by
                  apply List.countP_pos_iff.mpr
                  exact ⟨_, List.mem_of_getElem? hgetu, rfl⟩
                have := hi.acct
                cases hv : s.vals with
                | nil => rw [hv] at this; simp at this; omega
                | cons y ys => exact Or.inr ⟨_, Step.consPop s u y ys hgetu hv⟩

/-! ### final states -/

/-- **every value consumed**: when every goroutine has finished (and there was a consumer) the
    queue is empty, holds no token, and what was popped is exactly what was appended, in order -/
theorem C05_final_consumed (s : PS α) (hi : PInv s) (hcons : s.threads.any isCons = true) (hf : AllFinished s) :
    s.vals = [] ∧ s.tokens = 0 ∧ s.popped = s.appended := by
  obtain ⟨hcl, hd⟩ := hf
  rw [List.all_eq_true] at hd
  -- some consumer has finished
  have hfin : s.threads.any isFin = true := by
    rw [List.any_eq_true] at hcons ⊢
    obtain ⟨c, hc, hcc⟩ := hcons
    refine ⟨c, hc, ?_⟩
    have := hd c hc
    cases c with
    | cons a b => cases b <;> simp [threadDone, isFin] at this ⊢
    | prod a b => simp [isCons] at hcc
    | closer => simp [isCons] at hcc
  have htok := (hi.finClosed hfin).2
  have hcl0 : s.threads.countP isClaimed = 0 := by
    rw [List.countP_eq_zero]
    intro x hx
    have hdx := hd x hx
    cases x with
    | cons a b =>
      have hb : b = true := by simpa [threadDone] using hdx
      subst hb
      have := hi.finUnclaimed _ hx rfl
      simp [this]
    | prod a b => simp [isClaimed]
    | closer => simp [isClaimed]
  have hse0 : s.threads.countP isSending = 0 := by
    rw [List.countP_eq_zero]
    intro x hx
    have hdx := hd x hx
    cases x with
    | prod a b =>
      cases a <;> cases b <;> simp [threadDone] at hdx <;> simp [isSending]
    | cons a b => simp [isSending]
    | closer => simp [isSending]
  have hlen := hi.acct
  rw [htok, hcl0, hse0] at hlen
  have hv : s.vals = [] := List.eq_nil_of_length_eq_zero (by omega)
  refine ⟨hv, htok, ?_⟩
  have := hi.ghost
  rw [hv] at this; simpa using this.symm

/-- every program step is one or two events of the queue model of `Queue.lean` (the call
    event that enters the operation, then its synchronisation step): the program model adds
    nothing to the protocol -/
theorem C05_steps_are_queue_steps [DecidableEq α] (s s' : PS α) (h : Step s s') :
    ∃ evs : List (Q.Ev α), evs.length ≤ 2 ∧ Q.run (toQ s) evs = some (toQ s') := by
  -- setting a thread's program counter twice / back to what it was
  have back : ∀ (l : List (Q.PC α)) (t : Nat) (x : Q.PC α) (hl : t < l.length), l[t] = .idle →
      (l.set t x).set t .idle = l := by
    intro l t x hl hidle
    rw [List.set_set]
    apply List.ext_getElem?
    intro i
    by_cases hit : t = i
    · subst hit; simp [List.getElem?_set, hl, ← hidle]
    · simp [List.getElem?_set, hit]
  cases h with
  | prodAppend t v r h =>
    obtain ⟨hl, heq⟩ := List.getElem?_eq_some_iff.mp h
    refine ⟨[.call t (.addLock v), .addLock t], by simp, ?_⟩
    simp [Q.run, Q.step, toQ, Q.setPC, List.getElem?_set, List.getElem?_map, hl, heq, pcOf, List.map_set, List.set_set]
  | prodSend t r h h2 h3 =>
    obtain ⟨hl, heq⟩ := List.getElem?_eq_some_iff.mp h
    refine ⟨[.addSend t], by simp, ?_⟩
    simp [Q.run, Q.step, toQ, Q.setPC, List.getElem?_map, hl, heq, pcOf, List.map_set, h2, h3]
  | consRecv t h h2 =>
    obtain ⟨hl, heq⟩ := List.getElem?_eq_some_iff.mp h
    refine ⟨[.call t .remRecv, .remRecv t true], by simp, ?_⟩
    simp [Q.run, Q.step, toQ, Q.setPC, List.getElem?_set, List.getElem?_map, hl, heq, pcOf, List.map_set, List.set_set, h2]
  | consRecvClosed t h h2 h3 =>
    obtain ⟨hl, heq⟩ := List.getElem?_eq_some_iff.mp h
    refine ⟨[.call t .remRecv, .remRecv t false], by simp, ?_⟩
    have hb := back (s.threads.map pcOf) t .remRecv (by simpa using hl) (by simp [heq, pcOf])
    have hm : (s.threads.set t (T.cons false true)).map pcOf = s.threads.map pcOf := by
      rw [List.map_set]
      apply List.ext_getElem?
      intro i
      by_cases hit : t = i
      · subst hit; simp [List.getElem?_set, hl, heq, pcOf]
      · simp [List.getElem?_set, hit]
    simp [Q.run, Q.step, toQ, Q.setPC, List.getElem?_set, List.getElem?_map, hl, heq, pcOf, h2, h3, hb, hm]
  | consPop t x xs h h2 =>
    obtain ⟨hl, heq⟩ := List.getElem?_eq_some_iff.mp h
    refine ⟨[.remLock t x], by simp, ?_⟩
    simp [Q.run, Q.step, toQ, Q.setPC, List.getElem?_map, hl, heq, pcOf, List.map_set, h2]
  | close t h h2 h3 =>
    obtain ⟨hl, heq⟩ := List.getElem?_eq_some_iff.mp h
    refine ⟨[.call t .closeLock, .closeLock t], by simp, ?_⟩
    have hb := back (s.threads.map pcOf) t .closeLock (by simpa using hl) (by simp [heq, pcOf])
    simp [Q.run, Q.step, toQ, Q.setPC, List.getElem?_set, List.getElem?_map, hl, heq, pcOf, h3, hb]

/-! ### the program-level statement -/

/-- the shape of a program is preserved along every run -/
theorem reach_shape (cap : Nat) (producers : List (List α)) (consumers : Nat) (hc : 1 ≤ consumers) (s : PS α)
    (hr : Reach (initial cap producers consumers) s) :
    s.cap = cap ∧ s.threads.any isCons = true ∧ s.threads.any isCloser = true := by
  induction hr with
  | init =>
    refine ⟨rfl, ?_, ?_⟩
    · simp only [initial, List.any_append, List.any_replicate]
      have : consumers ≠ 0 := by omega
      simp [isCons, this]
    · simp [initial, isCloser]
  | step _ hst ih =>
    obtain ⟨c1, c2, c3⟩ := ih
    exact ⟨by rw [(step_roles _ _ hst).1, c1], (step_roles _ _ hst).2.1 c2, (step_roles _ _ hst).2.2 c3⟩

/-- **every well-formed producer/consumer program terminates with everything consumed**:
    from the initial state of a program with capacity ≥ 1, any producers, at least one
    consumer and a closer, under every schedule
      (1) no run is longer than the initial potential,
      (2) a reachable state in which no thread can step has every goroutine finished,
      (3) and then the queue is empty and exactly the appended values were popped, in order. -/
theorem C05_program_terminates (cap : Nat) (hcap : 1 ≤ cap) (producers : List (List α)) (consumers : Nat)
    (hc : 1 ≤ consumers) (s : PS α) (hr : Reach (initial cap producers consumers) s) :
    (∀ n u, Run (initial cap producers consumers) n u → n ≤ potential (initial cap producers consumers)) ∧
    ((¬ ∃ s', Step s s') → AllFinished s ∧ s.vals = [] ∧ s.tokens = 0 ∧ s.popped = s.appended) := by
  constructor
  · intro n u hrun
    have := C05_run_bounded n _ u hrun
    omega
  · intro hstuck
    have hi := reach_pinv _ s (init_pinv cap producers consumers) hr
    have shape := reach_shape cap producers consumers hc s hr
    rcases C05_no_deadlock s hi (by rw [shape.1]; exact hcap) shape.2.1 shape.2.2 with hfin | hstep
    · exact ⟨hfin, C05_final_consumed s hi shape.2.1 hfin⟩
    · exact absurd hstep hstuck

end CM
