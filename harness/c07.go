package main

// C07 (RankValues is a total preorder) and C08 (CompareValues is structural
// equality, agrees with ranking, depth-limit panics, collator stays usable).

import (
	"fmt"
	"math"

	age "github.com/craterdog/go-collection-framework/v4/agent"
	col "github.com/craterdog/go-collection-framework/v4/collection"
)

// ---- structured universe -------------------------------------------------

type valGen struct {
	rng   Rng
	width int // which integer/unsigned/float Go type this case uses (canonical: one per case)
}

func (g *valGen) intOf(i int64) any {
	switch g.width {
	case 1:
		if i >= math.MinInt16 && i <= math.MaxInt16 {
			return int16(i)
		}
	case 2:
		if i >= math.MinInt8 && i <= math.MaxInt8 {
			return int8(i)
		}
	case 3:
		return int(i)
	}
	return i
}

func (g *valGen) unsOf(u uint64) any {
	switch g.width {
	case 1:
		if u <= math.MaxUint16 {
			return uint16(u)
		}
	case 2:
		if u <= math.MaxUint32 {
			return uint32(u)
		}
	case 3:
		return uint(u)
	}
	return u
}

func (g *valGen) floatOf(f float64) any {
	if g.width == 2 {
		return float32(f)
	}
	return f
}

var intBoundaries = []int64{0, 1, -1, 2, 127, -128, 32767, -32768, math.MaxInt64, math.MinInt64, 42,
	// neighbours that no float64 tells apart
	1 << 53, 1<<53 + 1, math.MaxInt64 - 1, math.MinInt64 + 1}
var unsBoundaries = []uint64{0, 1, 2, 255, 65535, math.MaxUint32, math.MaxUint64, 42}
var floatBoundaries = []float64{0, math.Copysign(0, -1), 1, -1, 0.5, 1.5, math.Inf(1), math.Inf(-1), math.SmallestNonzeroFloat64,
	-math.SmallestNonzeroFloat64, math.MaxFloat64, 1e-310, 3.25, 1e6, 2.5e-7}
var runeBoundaries = []rune{0, 'a', 'b', 'A', '\n', '\'', 0x7f, 0xff, 0x20ac, 0x1F600, -1}
var stringBoundaries = []string{"", "a", "ab", "abc", "b", "A", "a\x00", "\xff", "\xfe\xff", "é", "日本", "ab\x80"}
var complexBoundaries = []complex128{0, 1, -1, 1i, -1i, complex(1, 1), complex(-1, 1), complex(0.5, -0.5), complex(3, 4), complex(-3, 4), complex(5, 0), complex(0, 5)}

func (g *valGen) leaf(kind int) any {
	r := g.rng
	switch kind % 9 {
	case 0:
		return r.Intn(2) == 0
	case 1:
		return uint8(r.pick([]int{0, 1, 2, 127, 128, 255}))
	case 2:
		return g.unsOf(unsBoundaries[r.Intn(len(unsBoundaries))])
	case 3:
		return g.intOf(intBoundaries[r.Intn(len(intBoundaries))])
	case 4:
		return runeBoundaries[r.Intn(len(runeBoundaries))]
	case 5:
		return g.floatOf(floatBoundaries[r.Intn(len(floatBoundaries))])
	case 6:
		return complexBoundaries[r.Intn(len(complexBoundaries))]
	case 7:
		return stringBoundaries[r.Intn(len(stringBoundaries))]
	}
	return nil
}

// key: a comparable leaf for Go map keys
func (g *valGen) key() any {
	return g.leaf([]int{0, 3, 3, 4, 7, 7, 7}[g.rng.Intn(7)])
}

// value of the `any` universe with containers nested up to `depth`
func (g *valGen) value(depth int) any {
	r := g.rng
	if depth == 0 || r.Intn(3) == 0 {
		return g.leaf(r.Intn(9))
	}
	n := r.pick([]int{0, 1, 1, 2, 2, 3})
	items := make([]any, n)
	for i := range items {
		items[i] = g.value(depth - 1)
	}
	switch r.Intn(10) {
	case 0:
		if n == 0 && r.Intn(2) == 0 {
			return []any(nil)
		}
		return items
	case 1:
		m := map[any]any{}
		for _, it := range items {
			m[g.key()] = it
		}
		if n == 0 && r.Intn(2) == 0 {
			return map[any]any(nil)
		}
		return m
	case 2:
		return col.Array[any](notation).MakeFromArray(items)
	case 3:
		return col.List[any](notation).MakeFromArray(items)
	case 4:
		return col.Set[any](notation).MakeFromArray(items)
	case 5:
		return col.Stack[any](notation).MakeFromArray(items)
	case 6:
		return col.Queue[any](notation).MakeFromArray(items)
	case 7:
		c := col.Catalog[any, any](notation).Make()
		for _, it := range items {
			c.SetValue(g.key(), it)
		}
		return c
	case 8:
		m := col.Map[any, any](notation).Make()
		for _, it := range items {
			m.SetValue(g.key(), it)
		}
		return m
	case 9:
		return col.Association[any, any](notation).Make(g.key(), g.value(depth-1))
	}
	return items
}

// typed: homogeneously typed Go containers (compared only with values of the same Go type)
func (g *valGen) typed(kind int) any {
	r := g.rng
	n := r.pick([]int{0, 1, 2, 3})
	switch kind % 3 {
	case 0:
		if n == 0 && r.Intn(2) == 0 {
			return []int(nil)
		}
		xs := make([]int, n)
		for i := range xs {
			xs[i] = r.Intn(4)
		}
		return xs
	case 1:
		m := map[string]int{}
		for i := 0; i < n; i++ {
			m[stringBoundaries[r.Intn(5)]] = r.Intn(3)
		}
		return m
	}
	xs := make([]string, n)
	for i := range xs {
		xs[i] = stringBoundaries[r.Intn(6)]
	}
	return xs
}

// rebuild: an independently built equal copy (maps filled in another order)
func rebuild(v any) any {
	switch x := v.(type) {
	case []any:
		if x == nil {
			return []any(nil)
		}
		out := make([]any, len(x))
		for i := range x {
			out[i] = rebuild(x[i])
		}
		return out
	case []int:
		if x == nil {
			return []int(nil)
		}
		return append([]int{}, x...)
	case []string:
		if x == nil {
			return []string(nil)
		}
		return append([]string{}, x...)
	case map[string]int:
		out := map[string]int{}
		keys := []string{}
		for k := range x {
			keys = append(keys, k)
		}
		for i := len(keys) - 1; i >= 0; i-- {
			out[keys[i]] = x[keys[i]]
		}
		return out
	case map[any]any:
		if x == nil {
			return map[any]any(nil)
		}
		out := map[any]any{}
		keys := []any{}
		for k := range x {
			keys = append(keys, k)
		}
		for i := len(keys) - 1; i >= 0; i-- {
			out[keys[i]] = rebuild(x[keys[i]])
		}
		return out
	case col.ArrayLike[any]:
		return col.Array[any](notation).MakeFromArray(rebuildAll(x.AsArray()))
	case col.ListLike[any]:
		return col.List[any](notation).MakeFromArray(rebuildAll(x.AsArray()))
	case col.SetLike[any]:
		items := rebuildAll(x.AsArray())
		for i, j := 0, len(items)-1; i < j; i, j = i+1, j-1 {
			items[i], items[j] = items[j], items[i]
		}
		return col.Set[any](notation).MakeFromArray(items)
	case col.StackLike[any]:
		return col.Stack[any](notation).MakeFromArray(rebuildAll(x.AsArray()))
	case col.QueueLike[any]:
		return col.Queue[any](notation).MakeFromArray(rebuildAll(x.AsArray()))
	case col.CatalogLike[any, any]:
		c := col.Catalog[any, any](notation).Make()
		for _, a := range x.AsArray() {
			c.SetValue(a.GetKey(), rebuild(a.GetValue()))
		}
		return c
	case col.MapLike[any, any]:
		m := col.Map[any, any](notation).Make()
		as := x.AsArray()
		for i := len(as) - 1; i >= 0; i-- {
			m.SetValue(as[i].GetKey(), rebuild(as[i].GetValue()))
		}
		return m
	case col.AssociationLike[any, any]:
		return col.Association[any, any](notation).Make(x.GetKey(), rebuild(x.GetValue()))
	}
	return v
}

func rebuildAll(xs []any) []any {
	out := make([]any, len(xs))
	for i := range xs {
		out[i] = rebuild(xs[i])
	}
	return out
}

// mutate: a copy of v with exactly one part changed; ok=false when v has no mutable part here
func (g *valGen) mutate(v any) (any, bool) {
	r := g.rng
	diff := func(x any) any { // a leaf different from x
		for i := 0; i < 20; i++ {
			y := g.leaf(r.Intn(8))
			if encKey(y) != encKey(x) {
				return y
			}
		}
		return "zz-mutated"
	}
	switch x := v.(type) {
	case []any:
		out := append([]any{}, x...)
		switch {
		case len(out) == 0 || r.Intn(4) == 0:
			return append(out, diff(nil)), true
		case r.Intn(3) == 0:
			return out[:len(out)-1], true
		default:
			i := r.Intn(len(out))
			if m, ok := g.mutate(out[i]); ok {
				out[i] = m
			} else {
				out[i] = diff(out[i])
			}
			return out, true
		}
	case col.ListLike[any]:
		m, _ := g.mutate(x.AsArray())
		return col.List[any](notation).MakeFromArray(m.([]any)), true
	case col.StackLike[any]:
		m, _ := g.mutate(x.AsArray())
		if len(m.([]any)) > 16 {
			return nil, false
		}
		return col.Stack[any](notation).MakeFromArray(m.([]any)), true
	case col.ArrayLike[any]:
		m, _ := g.mutate(x.AsArray())
		return col.Array[any](notation).MakeFromArray(m.([]any)), true
	case map[any]any:
		out := map[any]any{}
		for k, val := range x {
			out[k] = val
		}
		if len(out) == 0 || r.Intn(3) == 0 {
			out["zz-new-key"] = 1
			return out, true
		}
		for k, val := range out { // rename one key or change one value
			if r.Intn(2) == 0 {
				delete(out, k)
				out["zz-renamed"] = val
			} else {
				out[k] = diff(val)
			}
			break
		}
		return out, true
	case col.CatalogLike[any, any]:
		c := col.Catalog[any, any](notation).Make()
		as := x.AsArray()
		if len(as) == 0 {
			c.SetValue("zz-new-key", 1)
			return c, true
		}
		which := r.Intn(len(as))
		for i, a := range as {
			if i == which {
				c.SetValue(a.GetKey(), diff(a.GetValue()))
			} else {
				c.SetValue(a.GetKey(), a.GetValue())
			}
		}
		return c, true
	case col.AssociationLike[any, any]:
		return col.Association[any, any](notation).Make(x.GetKey(), diff(x.GetValue())), true
	case nil:
		return nil, false
	case col.SetLike[any], col.QueueLike[any], col.MapLike[any, any], []int, []string, map[string]int:
		return nil, false
	}
	return diff(v), true
}

func encKey(v any) string {
	b, _ := jsonMarshal(encVal(v))
	return string(b)
}

// ---- running the collator --------------------------------------------------

type collRes struct {
	kind string // ret | panic | hang
	pc   string
	rank string
	eq   bool
	d1   int
}

func rankStr(r age.Rank) string {
	switch r {
	case age.LesserRank:
		return "lt"
	case age.GreaterRank:
		return "gt"
	}
	return "eq"
}

func doRank(c age.CollatorLike[any], a, b any) collRes {
	var res collRes
	cr := guarded(opTimeout, func() { res.rank = rankStr(c.RankValues(a, b)) })
	res.kind, res.pc, res.d1 = cr.kind, cr.pc, c.GetDepth()
	return res
}

func doCmp(c age.CollatorLike[any], a, b any) collRes {
	var res collRes
	cr := guarded(opTimeout, func() { res.eq = c.CompareValues(a, b) })
	res.kind, res.pc, res.d1 = cr.kind, cr.pc, c.GetDepth()
	return res
}

func resJ(r collRes, isRank bool) J {
	j := J{"out": r.kind, "d1": r.d1}
	if r.kind == "ret" {
		if isRank {
			j["r"] = r.rank
		} else {
			j["r"] = r.eq
		}
	} else if r.kind == "panic" {
		j["pc"] = r.pc
	}
	return j
}

// pairLine: everything the laws need about one ordered pair, on ONE reused collator
func pairLine(out *Out, caseID int, c age.CollatorLike[any], a, b any, extra J) {
	j := J{"k": "coll", "pid": curPid, "case": caseID, "max": c.GetMaximum(), "d0": c.GetDepth(), "a": encVal(a), "b": encVal(b),
		"rab": resJ(doRank(c, a, b), true), "rba": resJ(doRank(c, b, a), true),
		"raa": resJ(doRank(c, a, a), true), "rbb": resJ(doRank(c, b, b), true),
		"cab": resJ(doCmp(c, a, b), false), "cba": resJ(doCmp(c, b, a), false),
		"caa": resJ(doCmp(c, a, a), false),
		// the same question asked of independently rebuilt copies on a fresh collator
		"rab2": resJ(doRank(age.Collator[any]().Make(), rebuild(a), rebuild(b)), true),
		"cab2": resJ(doCmp(age.Collator[any]().Make(), rebuild(a), rebuild(b)), false),
	}
	for k, v := range extra {
		j[k] = v
	}
	out.emit(j)
}

func tripleLine(out *Out, caseID int, c age.CollatorLike[any], a, b, x any) {
	out.emit(J{"k": "coll3", "pid": curPid, "case": caseID, "max": c.GetMaximum(), "a": encVal(a), "b": encVal(b), "c": encVal(x),
		"rab": resJ(doRank(c, a, b), true), "rbc": resJ(doRank(c, b, x), true), "rac": resJ(doRank(c, a, x), true),
		"cab": resJ(doCmp(c, a, b), false), "cbc": resJ(doCmp(c, b, x), false), "cac": resJ(doCmp(c, a, x), false)})
}

// nested builds a value nested `n` levels deep (lists of one element)
func nested(n int, leaf any) any {
	v := leaf
	for i := 0; i < n; i++ {
		v = col.List[any](notation).MakeFromArray([]any{v})
	}
	return v
}

var curPid string

func runCollator(id, tier string, seed int64, out *Out) {
	curPid = id
	rng := newRng(seed)
	caseID := 0
	g := &valGen{rng: rng}
	shared := age.Collator[any]().Make() // one collator reused for the whole run
	// 1. every pair of boundary leaves within each primitive kind, and across kinds
	var leaves []any
	for _, b := range []bool{false, true} {
		leaves = append(leaves, b)
	}
	for _, u := range []uint8{0, 1, 255} {
		leaves = append(leaves, u)
	}
	for _, u := range unsBoundaries {
		leaves = append(leaves, u)
	}
	for _, i := range intBoundaries {
		leaves = append(leaves, i)
	}
	for _, r := range runeBoundaries {
		leaves = append(leaves, r)
	}
	for _, f := range floatBoundaries {
		leaves = append(leaves, f)
	}
	leaves = append(leaves, math.NaN())
	for _, z := range complexBoundaries {
		leaves = append(leaves, z)
	}
	leaves = append(leaves, complex(-1, math.Copysign(0, -1)), complex(1e300, 1e-300), complex(1e300, 2e-300))
	for _, s := range stringBoundaries {
		leaves = append(leaves, s)
	}
	leaves = append(leaves, nil)
	for i, a := range leaves {
		for jx, b := range leaves {
			if tier != "thorough" && (i*31+jx)%3 != 0 && encVal(a)["t"] != encVal(b)["t"] {
				continue // quick: every third cross-kind pair, all same-kind pairs
			}
			caseID++
			pairLine(out, caseID, shared, a, b, nil)
		}
	}
	// narrower widths (typed the same on both sides)
	for w := 1; w <= 3; w++ {
		gw := &valGen{rng: rng, width: w}
		for i := 0; i < 60; i++ {
			kind := []int{2, 3, 5}[i%3]
			caseID++
			pairLine(out, caseID, shared, gw.leaf(kind), gw.leaf(kind), J{"w": w})
		}
	}
	// 2. structured values nested up to depth 3: pairs, rebuilt copies, single-point mutations, triples
	pairs, triples := 2500, 1500
	if tier == "thorough" {
		pairs, triples = 25000, 15000
	}
	var pool []any
	for i := 0; i < 400; i++ {
		pool = append(pool, g.value(1+rng.Intn(3)))
	}
	for i := 0; i < pairs; i++ {
		a := pool[rng.Intn(len(pool))]
		b := pool[rng.Intn(len(pool))]
		switch rng.Intn(6) {
		case 0:
			b = rebuild(a)
			caseID++
			pairLine(out, caseID, shared, a, b, J{"copy": true})
		case 1, 2:
			if m, ok := g.mutate(a); ok {
				caseID++
				pairLine(out, caseID, shared, a, m, J{"mut": true})
			}
		default:
			caseID++
			pairLine(out, caseID, shared, a, b, nil)
		}
	}
	// homogeneously typed Go containers: pairs and triples of one Go type
	for i := 0; i < pairs/5; i++ {
		kind := rng.Intn(3)
		caseID++
		pairLine(out, caseID, shared, g.typed(kind), g.typed(kind), nil)
		caseID++
		tripleLine(out, caseID, shared, g.typed(kind), g.typed(kind), g.typed(kind))
	}
	// triples drawn so that related values meet (a value, a mutation of it, a prefix...)
	for i := 0; i < triples; i++ {
		a := pool[rng.Intn(len(pool))]
		b := pool[rng.Intn(len(pool))]
		c := pool[rng.Intn(len(pool))]
		if rng.Intn(2) == 0 {
			if m, ok := g.mutate(a); ok {
				b = m
			}
		}
		if rng.Intn(3) == 0 {
			if m, ok := g.mutate(b); ok {
				c = m
			}
		}
		caseID++
		tripleLine(out, caseID, shared, a, b, c)
	}
	// the signed-zero complex corner: -1+0i == -1-0i but their phases are +pi and -pi
	caseID++
	tripleLine(out, caseID, shared, complex(-1, 0), complex(-1, math.Copysign(0, -1)), complex(0, 1))
	caseID++
	tripleLine(out, caseID, shared, complex(-1, math.Copysign(0, -1)), complex(0, 1), complex(-1, 0))
	// leaf triples incl. NaN / complex corner cases
	for i := 0; i < 3000; i++ {
		k := rng.Intn(len(leaves))
		a, b, c := leaves[k], leaves[rng.Intn(len(leaves))], leaves[rng.Intn(len(leaves))]
		if rng.Intn(2) == 0 { // same kind
			same := []any{}
			for _, l := range leaves {
				if encVal(l)["t"] == encVal(a)["t"] {
					same = append(same, l)
				}
			}
			b, c = same[rng.Intn(len(same))], same[rng.Intn(len(same))]
		}
		caseID++
		tripleLine(out, caseID, shared, a, b, c)
	}
	// 2b. targeted families: nil values under renamed keys, wide maps of collections, keys of equal rank
	for _, n := range []int{1, 2, 3} {
		a, b := map[any]any{}, map[any]any{}
		for i := 0; i < n; i++ {
			a[fmt.Sprintf("k%d", i)] = int64(i)
			b[fmt.Sprintf("k%d", i)] = int64(i)
		}
		a["alpha"], b["gamma"] = nil, nil // same size, the nil sits under differently named keys
		caseID++
		pairLine(out, caseID, shared, a, b, J{"mut": true, "fam": "nil-under-renamed-key"})
		ma, mb := col.Map[any, any](notation).MakeFromMap(a), col.Map[any, any](notation).MakeFromMap(b)
		caseID++
		pairLine(out, caseID, shared, ma, mb, J{"mut": true, "fam": "nil-under-renamed-key"})
		ca, cb := col.Catalog[any, any](notation).MakeFromMap(a), col.Catalog[any, any](notation).MakeFromMap(a)
		cb.SetValue("alpha", int64(0))
		caseID++
		pairLine(out, caseID, shared, ca, cb, J{"mut": true, "fam": "nil-vs-zero"})
	}
	for _, n := range []int{8, 15, 16, 17, 20, 40} {
		a := map[any]any{}
		for i := 0; i < n; i++ {
			a[int64(i)] = col.List[any](notation).MakeFromArray([]any{int64(i), "x"})
		}
		caseID++
		pairLine(out, caseID, shared, a, rebuild(a), J{"copy": true, "fam": "wide-map-of-collections"})
		caseID++
		pairLine(out, caseID, shared, col.Map[any, any](notation).MakeFromMap(a), rebuild(col.Map[any, any](notation).MakeFromMap(a)), J{"copy": true, "fam": "wide-map-of-collections"})
		xs := make([]any, n)
		for i := range xs {
			xs[i] = []any{int64(i)}
		}
		caseID++
		pairLine(out, caseID, shared, xs, rebuild(xs), J{"copy": true, "fam": "wide-array-of-collections"})
	}
	// sequences of different lengths right at, just below and just above the traversal limit, the longer
	// one first and second: the depth accounting must not depend on which operand is longer
	for _, max := range []int{1, 2, 3, 5, 16} {
		for _, levels := range []int{max - 2, max - 1, max} {
			if levels < 0 {
				continue
			}
			wrap := func(v any) any {
				for i := 0; i < levels; i++ {
					v = []any{v}
				}
				return v
			}
			for _, pair := range [][2]any{{[]any{int64(1), int64(2), int64(3)}, []any{int64(1), int64(2)}},
				{col.List[any](notation).MakeFromArray([]any{int64(1), int64(2)}), col.List[any](notation).MakeFromArray([]any{int64(1)})},
				{[]any{int64(1), int64(2)}, []any{int64(1), int64(2)}}} {
				c := age.Collator[any]().MakeWithMaximum(max)
				caseID++
				pairLine(out, caseID, c, wrap(pair[0]), wrap(pair[1]), J{"fam": "longer-first-at-limit"})
				c2 := age.Collator[any]().MakeWithMaximum(max)
				caseID++
				pairLine(out, caseID, c2, wrap(pair[1]), wrap(pair[0]), J{"fam": "longer-first-at-limit"})
			}
		}
	}
	// Go maps of every size up to 48 (the collator sorts the keys of both maps with the merge sorter:
	// every length class of its passes is met), compared with an equal copy and with a changed copy
	for n := 1; n <= 48; n++ {
		a := map[any]any{}
		for i := 0; i < n; i++ {
			a[int64((i*37)%101)] = int64(i)
		}
		caseID++
		pairLine(out, caseID, shared, a, rebuild(a), J{"copy": true, "fam": "map-every-size"})
		b := rebuild(a).(map[any]any)
		for k := range b {
			b[k] = int64(-1)
			break
		}
		caseID++
		pairLine(out, caseID, shared, a, b, J{"mut": true, "fam": "map-every-size"})
	}
	// one Go map ranked, changed in place without changing its size (one key deleted, another added; one value
	// overwritten), and ranked again by the SAME collator: the answer must follow the contents, not the map's identity
	for n := 1; n <= 12; n++ {
		m := map[any]any{}
		for i := 0; i < n; i++ {
			m[int64(i*3)] = int64(i)
		}
		other := rebuild(m)
		caseID++
		pairLine(out, caseID, shared, m, other, J{"fam": "map-mutated-in-place", "step": 0})
		delete(m, int64((n-1)*3))
		m[int64(1000+n)] = int64(7)
		caseID++
		pairLine(out, caseID, shared, m, other, J{"fam": "map-mutated-in-place", "step": 1})
		m[int64(1000+n)] = int64(8)
		caseID++
		pairLine(out, caseID, shared, m, rebuild(m), J{"fam": "map-mutated-in-place", "step": 2})
		delete(m, int64(1000+n))
		m[int64(-5)] = int64(9)
		caseID++
		pairLine(out, caseID, shared, m, other, J{"fam": "map-mutated-in-place", "step": 3})
		caseID++
		pairLine(out, caseID, shared, other, m, J{"fam": "map-mutated-in-place", "step": 4})
	}
	// keys that rank Equal without being the identical Go key (ranking only: CompareValues is
	// not defined across integer widths, which lie outside the canonical universe)
	for _, pair := range [][2]any{{int(1), int64(1)}, {int8(1), int(1)}, {uint16(7), uint64(7)}, {float32(0.5), float64(0.5)}} {
		a := map[any]any{pair[0]: "x"}
		b := map[any]any{pair[1]: "x"}
		c := map[any]any{pair[1]: "y"}
		caseID++
		pairLine(out, caseID, shared, a, b, J{"rankonly": true, "fam": "keys-of-equal-rank"})
		caseID++
		pairLine(out, caseID, shared, a, c, J{"rankonly": true, "fam": "keys-of-equal-rank"})
	}
	// 3. depth limit: nests around the maximum, self-containing values, and the collator afterwards
	for _, max := range []int{0, 1, 2, 3, 16} {
		for n := 0; n <= max+2 && n <= 19; n++ {
			caseID++
			c := age.Collator[any]().MakeWithMaximum(max)
			v := nested(n, int64(7))
			pairLine(out, caseID, c, v, nested(n, int64(7)), J{"nest": n})
			// the same collator must still work on a flat pair afterwards
			pairLine(out, caseID, c, []any{int64(1)}, []any{int64(1)}, J{"after": "nest"})
		}
	}
	for shape := 0; shape < 6; shape++ {
		for _, max := range []int{1, 3, 16} {
			caseID++
			c := age.Collator[any]().MakeWithMaximum(max)
			v := cyclic(shape)
			r1 := doRank(c, v, v)
			c1 := doCmp(c, v, v)
			other := age.Collator[any]().Make()
			out.emit(J{"k": "collcyc", "pid": curPid, "case": caseID, "shape": shape, "max": max, "rvv": resJ(r1, true), "cvv": resJ(c1, false),
				"after_r": resJ(doRank(c, []any{int64(1), "x"}, []any{int64(1), "y"}), true),
				"after_c": resJ(doCmp(c, []any{int64(1), "x"}, []any{int64(1), "x"}), false),
				"other_c": resJ(doCmp(other, []any{int64(1)}, []any{int64(1)}), false)})
		}
	}
}

// cyclic: self-containing collections (alone or next to siblings, cycle length 1..3)
func cyclic(shape int) any {
	l := col.List[any](notation).Make()
	switch shape {
	case 0:
		l.AppendValue(l)
	case 1:
		l.AppendValue(int64(1))
		l.AppendValue(l)
		l.AppendValue("x")
	case 2:
		l2 := col.List[any](notation).MakeFromArray([]any{l})
		l.AppendValue(l2)
	case 3:
		l2 := col.List[any](notation).Make()
		l3 := col.List[any](notation).MakeFromArray([]any{int64(2), l})
		l2.AppendValue(l3)
		l.AppendValue(l2)
	case 4:
		c := col.Catalog[any, any](notation).Make()
		c.SetValue("self", c)
		return c
	default:
		m := map[any]any{}
		m["self"] = m
		return m
	}
	return l
}
