/-
  Facts about the memory model of `Model/GoSem.lean`, stated on whole arrays (`Mem.arr`)
  so that loop invariants can be written as equations between lists.
-/
import CollectionModel.Model.GoSem
namespace CM
namespace GoSem

variable {α : Type}

/-- `a` with the values from position `p` on replaced by `r` (as many as `r` has) -/
def splice (a : List α) (p : Nat) (r : List α) : List α := a.take p ++ r ++ a.drop (p + r.length)

theorem splice_length (a : List α) (p : Nat) (r : List α) (h : p + r.length ≤ a.length) :
    (splice a p r).length = a.length := by
  simp [splice]; omega

theorem splice_getElem? (a : List α) (p : Nat) (r : List α) (hp : p ≤ a.length) (i : Nat) :
    (splice a p r)[i]? = if i < p then a[i]? else if i < p + r.length then r[i - p]? else a[i]? := by
  unfold splice
  grind

theorem splice_nil (a : List α) (p : Nat) : splice a p [] = a := by
  simp [splice]

/-- writing one value and then the rest = writing all of them -/
theorem splice_set (a : List α) (p : Nat) (x : α) (xs : List α) (h : p + 1 + xs.length ≤ a.length) :
    splice (a.set p x) (p + 1) xs = splice a p (x :: xs) := by
  apply List.ext_getElem?
  intro i
  rw [splice_getElem? _ _ _ (by simp; omega), splice_getElem? _ _ _ (by omega)]
  grind

/-- copying the tail again over what a bulk copy already wrote changes nothing -/
theorem splice_splice_tail (a : List α) (p : Nat) (x : α) (xs : List α) (h : p + 1 + xs.length ≤ a.length) :
    splice (splice a p (x :: xs)) (p + 1) xs = splice a p (x :: xs) := by
  apply List.ext_getElem?
  intro i
  have hl : (splice a p (x :: xs)).length = a.length := by simp [splice]; omega
  rw [splice_getElem? _ _ _ (by omega), splice_getElem? _ _ _ (by omega)]
  grind

theorem splice_append (a : List α) (p : Nat) (r1 r2 : List α) (h : p + r1.length + r2.length ≤ a.length) :
    splice (splice a p r1) (p + r1.length) r2 = splice a p (r1 ++ r2) := by
  apply List.ext_getElem?
  intro i
  have hl : (splice a p r1).length = a.length := by simp [splice]; omega
  rw [splice_getElem? _ _ _ (by omega), splice_getElem? _ _ _ (by omega), splice_getElem? _ _ _ (by omega)]
  grind

theorem splice_full (a r : List α) (h : r.length = a.length) : splice a 0 r = r := by
  simp [splice, h]

/-! ### arrays of the memory -/

theorem arr_setArr (m : Mem α) (a c : Nat) (l : List α) :
    (m.setArr a l).arr c = if c = a ∧ a < m.length then l else m.arr c := by
  unfold Mem.setArr Mem.arr
  by_cases h : c = a
  · subst h
    by_cases h2 : c < m.length
    · simp [h2, List.getD_eq_getElem?_getD]
    · simp [h2, List.getD_eq_getElem?_getD]
  · have : ¬ a = c := fun e => h e.symm
    simp [h, List.getD_eq_getElem?_getD, this]

@[simp] theorem setArr_length (m : Mem α) (a : Nat) (l : List α) : (m.setArr a l).length = m.length := by
  simp [Mem.setArr]

theorem arr_append_new (m : Mem α) (l : List α) (c : Nat) :
    (m ++ [l]).arr c = if c = m.length then l else m.arr c := by
  unfold Mem.arr
  simp only [List.getD_eq_getElem?_getD]
  grind

/-! ### the operations, when they are in bounds -/

theorem read_ok [Inhabited α] (m : Mem α) (s : Slice) (i : Nat) (h : i < s.len) :
    Mem.read m s (i : Int) = .ok ((m.arr s.arr).getD (s.off + i) default) := by
  unfold Mem.read
  have : (0 : Int) ≤ (i : Int) ∧ (i : Int) < (s.len : Int) := by omega
  simp [this]

theorem write_ok (m : Mem α) (s : Slice) (i : Nat) (v : α) (h : i < s.len) :
    Mem.write m s (i : Int) v = .ok (m.setArr s.arr ((m.arr s.arr).set (s.off + i) v)) := by
  unfold Mem.write
  have : (0 : Int) ≤ (i : Int) ∧ (i : Int) < (s.len : Int) := by omega
  simp [this]

theorem sub_ok (s : Slice) (lo hi : Nat) (h1 : lo ≤ hi) (h2 : hi ≤ s.cap) :
    Slice.sub s (lo : Int) (hi : Int) = .ok ⟨s.arr, s.off + lo, hi - lo, s.cap - lo⟩ := by
  unfold Slice.sub
  have : (0 : Int) ≤ (lo : Int) ∧ (lo : Int) ≤ (hi : Int) ∧ (hi : Int) ≤ (s.cap : Int) := by omega
  simp only [this, and_self, if_true]
  congr 2
  omega

theorem make_ok [Inhabited α] (m : Mem α) (n : Nat) (h : IsInt64 (n : Int)) :
    Mem.make m (n : Int) = .ok (m ++ [List.replicate n default], ⟨m.length, 0, n, n⟩) := by
  unfold Mem.make
  have : (0 : Int) ≤ (n : Int) ∧ (n : Int) < 9223372036854775808 := by unfold IsInt64 at h; omega
  simp [this]

theorem copy_eq (m : Mem α) (dst src : Slice) :
    Mem.copy m dst src = m.setArr dst.arr (splice (m.arr dst.arr) dst.off ((m.view src).take (min dst.len src.len))) := by
  simp [Mem.copy, splice]

end GoSem
end CM
