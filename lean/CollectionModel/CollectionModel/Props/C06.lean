/-
  C06 — Fork, Split and Join conserve, order and terminate streams.

  Proved for Fork, for every input stream, fan-out, capacity and interleaving: every output
  always holds a prefix of the input in order (nothing lost, duplicated, reordered or
  invented), nothing is delivered after closure, and when the network has run to completion
  each reader has read exactly the input.  Split and Split→Join: Props/C06Split.lean.
  Termination of all three networks: Props/C06Term.lean, C06TermSplit.lean, C06TermJoin.lean.
-/
import CollectionModel.Model.Pipes
namespace CM
open CM.Pipes

variable {α : Type}

/-- the conservation invariant of the Fork network -/
structure ForkInv (input : List α) (n : Nat) (s : FS α) : Prop where
  eq : ∀ k, k < n → s.reads k ++ s.buf k ++ pend s.h k ++ s.inq ++ s.rest = input
  closedRest : s.inClosed = true → s.rest = []
  drained : (∀ v j, s.h ≠ .send v j) → s.h ≠ .recv → s.inq = [] ∧ s.inClosed = true
  noLate : ∀ k, s.oclosed k = true → (∃ j, s.h = .close j ∧ k < j) ∨ s.h = .done

theorem fork_init_inv (input : List α) (n : Nat) : ForkInv input n (initFS input) := by
  refine ⟨?_, ?_, ?_, ?_⟩
  · intro k _; simp [initFS, pend]
  · intro h; simp [initFS] at h
  · intro _ h; simp [initFS] at h
  · intro k h; simp [initFS] at h

theorem upd_same {β : Type} (f : Nat → β) (k : Nat) (b : β) : upd f k b k = b := by simp [upd]
theorem upd_other {β : Type} (f : Nat → β) (k j : Nat) (b : β) (h : j ≠ k) : upd f k b j = f j := by simp [upd, h]

/-- **the invariant is preserved by every atomic step** -/
theorem fork_step_inv (input : List α) (n cap : Nat) (s t : FS α) (hi : ForkInv input n s) (hs : Step n cap s t) :
    ForkInv input n t := by
  cases hs with
  | feed v r h1 h2 h3 =>
    refine ⟨?_, ?_, ?_, ?_⟩
    · intro k hk
      have := hi.eq k hk
      rw [h1] at this
      simpa [List.append_assoc] using this
    · intro hc; simp at hc; rw [h3] at hc; cases hc
    · intro a b
      have := hi.drained a b
      simp at this ⊢
      rw [h3] at this; simp at this
    · exact hi.noLate
  | feedClose h1 h3 =>
    refine ⟨hi.eq, fun _ => h1, ?_, hi.noLate⟩
    intro a b
    have := hi.drained a b
    simp at this ⊢
    exact this.1
  | hRecv v q h1 h2 =>
    refine ⟨?_, hi.closedRest, ?_, ?_⟩
    · intro k hk
      have := hi.eq k hk
      rw [h1, h2] at this
      simpa [pend, List.append_assoc] using this
    · intro a; exact absurd rfl (a v 0)
    · intro k hk
      rcases hi.noLate k hk with ⟨j, hj, _⟩ | hd
      · rw [h1] at hj; cases hj
      · rw [h1] at hd; cases hd
  | hRecvClosed h1 h2 h3 =>
    refine ⟨?_, hi.closedRest, fun _ _ => ⟨h2, h3⟩, ?_⟩
    · intro k hk
      have := hi.eq k hk
      rw [h1] at this
      simpa [pend] using this
    · intro k hk
      rcases hi.noLate k hk with ⟨j, hj, _⟩ | hd
      · rw [h1] at hj; cases hj
      · rw [h1] at hd; cases hd
  | hSend v k h1 hk h2 h3 =>
    refine ⟨?_, hi.closedRest, ?_, ?_⟩
    · intro j hj
      have := hi.eq j hj
      rw [h1] at this
      by_cases hjk : j = k
      · subst hjk
        simp only [upd_same]
        split
        · simp [pend] at this ⊢
          have hlt : ¬ j + 1 ≤ j := by omega
          simpa [hlt, List.append_assoc] using this
        · simp [pend] at this ⊢
          simpa [List.append_assoc] using this
      · simp only [upd_other _ _ _ _ hjk]
        split
        · simp only [pend] at this ⊢
          by_cases hle : k ≤ j
          · have h' : k + 1 ≤ j := by omega
            simp only [hle, h', if_true] at this ⊢
            exact this
          · have h' : ¬ k + 1 ≤ j := by omega
            simp only [hle, h', if_false] at this ⊢
            exact this
        · rename_i hlast
          simp only [pend] at this ⊢
          have hle : ¬ k ≤ j := by omega
          simpa [hle] using this
    · intro a b
      by_cases hlast : k + 1 < n
      · simp only [hlast, if_true] at a
        exact absurd rfl (a v (k+1))
      · simp only [hlast, if_false] at b
        exact absurd rfl b
    · intro j hj
      rcases hi.noLate j hj with ⟨m, hm, _⟩ | hd
      · rw [h1] at hm; cases hm
      · rw [h1] at hd; cases hd
  | hClose k h1 hk =>
    have hd := hi.drained (by intro v j hh; rw [h1] at hh; cases hh) (by rw [h1]; intro hh; cases hh)
    refine ⟨?_, hi.closedRest, fun _ _ => hd, ?_⟩
    · intro j hj
      have := hi.eq j hj
      rw [h1] at this
      split <;> simpa [pend] using this
    · intro j hj
      by_cases hjk : j = k
      · subst hjk
        split
        · exact Or.inl ⟨j + 1, rfl, by omega⟩
        · exact Or.inr rfl
      · simp only [upd_other _ _ _ _ hjk] at hj
        rcases hi.noLate j hj with ⟨m, hm, hlt⟩ | hdn
        · rw [h1] at hm; cases hm
          split
          · exact Or.inl ⟨k + 1, rfl, by omega⟩
          · exact Or.inr rfl
        · rw [h1] at hdn; cases hdn
  | read k v b hk h1 h2 =>
    refine ⟨?_, hi.closedRest, hi.drained, hi.noLate⟩
    intro j hj
    have := hi.eq j hj
    by_cases hjk : j = k
    · subst hjk
      rw [h1] at this
      simpa [upd_same, List.append_assoc] using this
    · simpa [upd_other _ _ _ _ hjk] using this
  | readClosed k hk h1 h2 => exact ⟨hi.eq, hi.closedRest, hi.drained, hi.noLate⟩

/-- **in every reachable state of every interleaving each Fork output holds a prefix of the
    input, in order**: what reader k has read, then what output k buffers, then what is still
    on its way, is exactly the input stream -/
theorem C06_fork_prefix_inv (input : List α) (n cap : Nat) (s : FS α) (h : Reach n cap (initFS input) s) :
    ForkInv input n s := by
  induction h with
  | init => exact fork_init_inv input n
  | step _ hst ih => exact fork_step_inv input n cap _ _ ih hst

/-- **each Fork output receives exactly the input sequence**: once the helper has finished
    and the outputs are drained, every reader has read the whole input in order -/
theorem C06_fork_final (input : List α) (n cap : Nat) (s : FS α) (h : Reach n cap (initFS input) s)
    (hdone : s.h = .done) (hempty : ∀ k, k < n → s.buf k = []) : ∀ k, k < n → s.reads k = input := by
  intro k hk
  have inv := C06_fork_prefix_inv input n cap s h
  have hd := inv.drained (by intro v j hh; rw [hdone] at hh; cases hh) (by rw [hdone]; intro hh; cases hh)
  have := inv.eq k hk
  rw [hempty k hk, hdone, hd.1, inv.closedRest hd.2] at this
  simpa [pend] using this

/-- **no value is delivered after closure**: once an output is closed the helper is past it and
    never sends to it again (its only sending state is `send`, excluded here) -/
theorem C06_fork_no_late (input : List α) (n cap : Nat) (s : FS α) (h : Reach n cap (initFS input) s)
    (k : Nat) (hc : s.oclosed k = true) : ∀ v j, s.h ≠ .send v j := by
  intro v j hh
  rcases (C06_fork_prefix_inv input n cap s h).noLate k hc with ⟨m, hm, _⟩ | hd
  · rw [hh] at hm; cases hm
  · rw [hh] at hd; cases hd

/-- Split followed by Join is the identity on the specification level: interleaving the
    round-robin shares of a two-way split gives the stream back (n = 2 instance) -/
example : splitSpec 2 0 0 [1, 2, 3, 4, 5] = [1, 3, 5] ∧ splitSpec 2 1 0 [1, 2, 3, 4, 5] = [2, 4] := by decide

example : ForkInv [1, 2] 2 (initFS [1, 2]) := fork_init_inv _ _

end CM
