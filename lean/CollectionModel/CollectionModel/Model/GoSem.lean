/-
  The fragment of Go's semantics that the statement-by-statement translations of
  `/verif/extract` (Generated/Loops*.lean) are written in:

  * `w64` / `u64`: `int` and `uint` arithmetic on a 64-bit platform;
  * `Slice`, `Mem`: a slice is a window (array, offset, length, capacity) on a memory of
    arrays; indexing and re-slicing are bounds-checked (a Go runtime error otherwise),
    `copy` is a memmove of `min(len dst, len src)` values, `make` allocates a fresh
    zero-filled array;
  * `bindE` / `bindO`: sequencing of calls that may panic / may not return.
  Core Lean only.
-/
import CollectionModel.Model.Basic
namespace CM
namespace GoSem

/-- Go's `uint` arithmetic on a 64-bit platform -/
def u64 (x : Int) : Int := x % 18446744073709551616

def IsUint64 (x : Int) : Prop := 0 ≤ x ∧ x < 18446744073709551616

theorem u64_id {x : Int} (h : IsUint64 x) : u64 x = x := by
  unfold u64; unfold IsUint64 at h; omega

/-- sequencing after a call that may panic -/
def bindE {β γ : Type} (x : Except Panic β) (f : β → Option (Except Panic γ)) : Option (Except Panic γ) :=
  match x with
  | .error p => some (.error p)
  | .ok b => f b

/-- sequencing after a call that may panic or not return -/
def bindO {β γ : Type} (x : Option (Except Panic β)) (f : β → Option (Except Panic γ)) : Option (Except Panic γ) :=
  match x with
  | none => none
  | some (.error p) => some (.error p)
  | some (.ok b) => f b

@[simp] theorem bindE_ok {β γ : Type} (b : β) (f : β → Option (Except Panic γ)) : bindE (.ok b) f = f b := rfl
@[simp] theorem bindE_error {β γ : Type} (p : Panic) (f : β → Option (Except Panic γ)) : bindE (.error p) f = some (.error p) := rfl
@[simp] theorem bindO_ok {β γ : Type} (b : β) (f : β → Option (Except Panic γ)) : bindO (some (.ok b)) f = f b := rfl
@[simp] theorem bindO_error {β γ : Type} (p : Panic) (f : β → Option (Except Panic γ)) : bindO (some (.error p)) f = some (.error p) := rfl
@[simp] theorem bindO_none {β γ : Type} (f : β → Option (Except Panic γ)) : bindO none f = none := rfl

/-- a result that is a non-negative `int` (an index computed by a model function over `Nat`) -/
def natResult (x : Except Panic Nat) : Except Panic Int :=
  match x with
  | .ok p => .ok (p : Int)
  | .error e => .error e

@[simp] theorem natResult_ok (p : Nat) : natResult (.ok p) = .ok (p : Int) := rfl
@[simp] theorem natResult_error (e : Panic) : natResult (.error e) = .error e := rfl

/-- a Go slice value: a window on array `arr` -/
structure Slice where
  arr : Nat
  off : Nat
  len : Nat
  cap : Nat
  deriving Repr, DecidableEq

/-- the memory: array id ↦ contents -/
abbrev Mem (α : Type) := List (List α)

variable {α : Type}

/-- contents of array `a` -/
def Mem.arr (m : Mem α) (a : Nat) : List α := m.getD a []

/-- replace the contents of array `a` -/
def Mem.setArr (m : Mem α) (a : Nat) (l : List α) : Mem α := m.set a l

/-- the values a slice shows -/
def Mem.view (m : Mem α) (s : Slice) : List α := ((m.arr s.arr).drop s.off).take s.len

/-- `s[i]` -/
def Mem.read [Inhabited α] (m : Mem α) (s : Slice) (i : Int) : Except Panic α :=
  if 0 ≤ i ∧ i < s.len then .ok ((m.arr s.arr).getD (s.off + i.toNat) default) else .error .rt

/-- `s[i] = v` -/
def Mem.write (m : Mem α) (s : Slice) (i : Int) (v : α) : Except Panic (Mem α) :=
  if 0 ≤ i ∧ i < s.len then .ok (m.setArr s.arr ((m.arr s.arr).set (s.off + i.toNat) v)) else .error .rt

/-- `make([]V, n)`: a length outside the range of `int` is a Go runtime error ("makeslice: len out of range") -/
def Mem.make [Inhabited α] (m : Mem α) (n : Int) : Except Panic (Mem α × Slice) :=
  if 0 ≤ n ∧ n < 9223372036854775808 then .ok (m ++ [List.replicate n.toNat default], ⟨m.length, 0, n.toNat, n.toNat⟩) else .error .rt

/-- `s[lo:hi]` -/
def Slice.sub (s : Slice) (lo hi : Int) : Except Panic Slice :=
  if 0 ≤ lo ∧ lo ≤ hi ∧ hi ≤ s.cap then .ok ⟨s.arr, s.off + lo.toNat, (hi - lo).toNat, s.cap - lo.toNat⟩ else .error .rt

/-- `copy(dst, src)`: the source values are read before anything is written (memmove) -/
def Mem.copy (m : Mem α) (dst src : Slice) : Mem α :=
  let n := min dst.len src.len
  let data := (m.view src).take n
  let a := m.arr dst.arr
  m.setArr dst.arr (a.take dst.off ++ data ++ a.drop (dst.off + data.length))

/-- `make([]V, n)` seen as a value (`Array.Make(size uint)`): a length beyond the range of `int` is a Go runtime
    error ("makeslice: len out of range") -/
def makeArray [Inhabited α] (n : Int) : Except Panic (List α) :=
  if 0 ≤ n ∧ n < 9223372036854775808 then .ok (List.replicate n.toNat default) else .error .rt

/-- a fresh array holding the given values (what `AsArray()` of an operand hands out) -/
def Mem.alloc (m : Mem α) (l : List α) : Mem α × Slice := (m ++ [l], ⟨m.length, 0, l.length, l.length⟩)

/-- a slice lies inside its array -/
def Mem.Wf (m : Mem α) (s : Slice) : Prop :=
  s.arr < m.length ∧ s.len ≤ s.cap ∧ s.off + s.cap ≤ (m.arr s.arr).length

end GoSem
end CM
