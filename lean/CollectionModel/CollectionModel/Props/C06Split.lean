/-
  C06, continued — Split and Split followed by Join, proved for every input stream,
  fan-out n ≥ 1, capacity and interleaving of feeder, helper goroutine(s) and readers:

    * `C06_split_inv`: in every reachable state output k has received (read or buffered)
      exactly the values at positions ≡ k (mod n) of what has been distributed so far, in
      order, and distributed ++ in-flight ++ queued ++ unfed = input;
    * `C06_split_final`: after completion reader k has read `splitSpec n k 0 input`
      (round robin: every value to exactly one output);
    * `C06_split_no_late`: nothing is sent to an output after its closure;
    * `C06_splitjoin_inv` / `C06_splitjoin_final`: Split followed by Join delivers exactly
      the input sequence, in order; when Join stops at the first closed-and-drained input
      no other input holds a value (nothing is lost).
-/
import CollectionModel.Model.Pipes2
import CollectionModel.Props.C06
namespace CM
open CM.Pipes

variable {α : Type}

theorem splitSpec_append (n k : Nat) (v : α) : ∀ (l : List α) (i : Nat),
    splitSpec n k i (l ++ [v]) = splitSpec n k i l ++ (if (i + l.length) % n = k then [v] else [])
  | [], i => by simp [splitSpec]
  | x :: xs, i => by
    have ih := splitSpec_append n k v xs (i + 1)
    have e : i + 1 + xs.length = i + (xs.length + 1) := by omega
    simp only [List.cons_append, splitSpec, List.length_cons]
    split
    · rw [ih, e]; simp
    · rw [ih, e]

theorem nextTurn_mod (n turn m : Nat) (hn : 0 < n) (h : turn = m % n) : nextTurn n turn = (m + 1) % n := by
  unfold nextTurn
  have hlt : turn < n := by rw [h]; exact Nat.mod_lt _ hn
  rw [Nat.add_mod, ← h]
  by_cases h1 : turn + 1 < n
  · simp only [h1, if_true]
    by_cases hn1 : n = 1
    · omega
    · have : 1 % n = 1 := Nat.mod_eq_of_lt (by omega)
      rw [this, Nat.mod_eq_of_lt h1]
  · simp only [h1, if_false]
    have he : turn + 1 = n := by omega
    by_cases hn1 : n = 1
    · subst hn1; simp; omega
    · have : 1 % n = 1 := Nat.mod_eq_of_lt (by omega)
      rw [this, he, Nat.mod_self]

/-- the conservation invariant of the Split network -/
structure SplitInv (input : List α) (n : Nat) (s : SS α) : Prop where
  eq : s.dist ++ pendS s.h ++ s.inq ++ s.rest = input
  outs : ∀ k, k < n → s.reads k ++ s.buf k = splitSpec n k 0 s.dist
  turn : s.turn = s.dist.length % n
  closedRest : s.inClosed = true → s.rest = []
  drained : (∀ v, s.h ≠ .send v) → s.h ≠ .recv → s.inq = [] ∧ s.inClosed = true
  noLate : ∀ k, s.oclosed k = true → (∃ j, s.h = .close j ∧ k < j) ∨ s.h = .done

theorem split_init_inv (input : List α) (n : Nat) : SplitInv input n (initSS input) := by
  refine ⟨by simp [initSS, pendS], ?_, by simp [initSS], ?_, ?_, ?_⟩
  · intro k _; simp [initSS, splitSpec]
  · intro h; simp [initSS] at h
  · intro _ h; simp [initSS] at h
  · intro k h; simp [initSS] at h

theorem split_step_inv (input : List α) (n cap : Nat) (hn : 0 < n) (s t : SS α) (hi : SplitInv input n s)
    (hs : SStep n cap s t) : SplitInv input n t := by
  cases hs with
  | feed v r h1 h2 h3 =>
    refine ⟨?_, hi.outs, hi.turn, ?_, ?_, hi.noLate⟩
    · have := hi.eq; rw [h1] at this; simpa [List.append_assoc] using this
    · intro hc; simp at hc; rw [h3] at hc; cases hc
    · intro a b
      have := hi.drained a b
      rw [h3] at this; simp at this
  | feedClose h1 h3 =>
    refine ⟨hi.eq, hi.outs, hi.turn, fun _ => h1, ?_, hi.noLate⟩
    intro a b
    exact ⟨(hi.drained a b).1, rfl⟩
  | hRecv v q h1 h2 =>
    refine ⟨?_, hi.outs, hi.turn, hi.closedRest, ?_, ?_⟩
    · have := hi.eq; rw [h1, h2] at this; simpa [pendS, List.append_assoc] using this
    · intro a; exact absurd rfl (a v)
    · intro k hk
      rcases hi.noLate k hk with ⟨j, hj, _⟩ | hd
      · rw [h1] at hj; cases hj
      · rw [h1] at hd; cases hd
  | hRecvClosed h1 h2 h3 =>
    refine ⟨?_, hi.outs, hi.turn, hi.closedRest, fun _ _ => ⟨h2, h3⟩, ?_⟩
    · have := hi.eq; rw [h1] at this; simpa [pendS] using this
    · intro k hk
      rcases hi.noLate k hk with ⟨j, hj, _⟩ | hd
      · rw [h1] at hj; cases hj
      · rw [h1] at hd; cases hd
  | hSend v h1 h2 h3 =>
    have hlt : s.turn < n := by rw [hi.turn]; exact Nat.mod_lt _ hn
    refine ⟨?_, ?_, ?_, hi.closedRest, ?_, ?_⟩
    · have := hi.eq; rw [h1] at this; simpa [pendS, List.append_assoc] using this
    · intro k hk
      have := hi.outs k hk
      simp only
      rw [splitSpec_append, Nat.zero_add, ← hi.turn]
      by_cases hkt : k = s.turn
      · subst hkt
        simp only [upd_same, if_true]
        rw [← this, List.append_assoc]
      · have hne : ¬ s.turn = k := fun h => hkt h.symm
        simp only [upd_other _ _ _ _ hkt, hne, if_false, List.append_nil]
        exact this
    · simp only [List.length_append, List.length_singleton]
      exact nextTurn_mod n s.turn s.dist.length hn hi.turn
    · intro _ b; exact absurd rfl b
    · intro k hk
      rcases hi.noLate k hk with ⟨j, hj, _⟩ | hd
      · rw [h1] at hj; cases hj
      · rw [h1] at hd; cases hd
  | hClose k h1 hk =>
    have hd := hi.drained (by intro v hh; rw [h1] at hh; cases hh) (by rw [h1]; intro hh; cases hh)
    refine ⟨?_, hi.outs, hi.turn, hi.closedRest, fun _ _ => hd, ?_⟩
    · have := hi.eq; rw [h1] at this
      split <;> simpa [pendS] using this
    · intro j hj
      by_cases hjk : j = k
      · subst hjk
        split
        · exact Or.inl ⟨j + 1, rfl, by omega⟩
        · exact Or.inr rfl
      · simp only [upd_other _ _ _ _ hjk] at hj
        rcases hi.noLate j hj with ⟨m, hm, hlt⟩ | hdn
        · rw [h1] at hm; cases hm
          split
          · exact Or.inl ⟨k + 1, rfl, by omega⟩
          · exact Or.inr rfl
        · rw [h1] at hdn; cases hdn
  | read k v b hk h1 h2 =>
    refine ⟨hi.eq, ?_, hi.turn, hi.closedRest, hi.drained, hi.noLate⟩
    intro j hj
    have := hi.outs j hj
    by_cases hjk : j = k
    · subst hjk
      rw [h1] at this
      simpa [upd_same, List.append_assoc] using this
    · simpa [upd_other _ _ _ _ hjk] using this
  | readClosed k hk h1 h2 => exact ⟨hi.eq, hi.outs, hi.turn, hi.closedRest, hi.drained, hi.noLate⟩

/-- **Split, every reachable state of every interleaving** -/
theorem C06_split_inv (input : List α) (n cap : Nat) (hn : 0 < n) (s : SS α) (h : SReach n cap (initSS input) s) :
    SplitInv input n s := by
  induction h with
  | init => exact split_init_inv input n
  | step _ hst ih => exact split_step_inv input n cap hn _ _ ih hst

/-- **Split gives every input value to exactly one output in round-robin order** -/
theorem C06_split_final (input : List α) (n cap : Nat) (hn : 0 < n) (s : SS α) (h : SReach n cap (initSS input) s)
    (hdone : s.h = .done) (hempty : ∀ k, k < n → s.buf k = []) : ∀ k, k < n → s.reads k = splitSpec n k 0 input := by
  intro k hk
  have inv := C06_split_inv input n cap hn s h
  have hd := inv.drained (by intro v hh; rw [hdone] at hh; cases hh) (by rw [hdone]; intro hh; cases hh)
  have e := inv.eq
  rw [hdone, hd.1, inv.closedRest hd.2] at e
  have o := inv.outs k hk
  rw [hempty k hk] at o
  simp [pendS] at e
  rw [← e]; simpa using o

theorem C06_split_no_late (input : List α) (n cap : Nat) (hn : 0 < n) (s : SS α) (h : SReach n cap (initSS input) s)
    (k : Nat) (hc : s.oclosed k = true) : ∀ v, s.h ≠ .send v := by
  intro v hh
  rcases (C06_split_inv input n cap hn s h).noLate k hc with ⟨m, hm, _⟩ | hd
  · rw [hh] at hm; cases hm
  · rw [hh] at hd; cases hd

/-! ### Split followed by Join -/

/-- the invariant of the Split → Join network -/
structure SJInv (input : List α) (n : Nat) (s : SJ α) : Prop where
  eq : s.dist ++ pendS s.h ++ s.inq ++ s.rest = input
  pre : s.tk ++ s.later = s.dist
  mids : ∀ k, k < n → s.mid k = splitSpec n k s.tk.length s.later
  turn : s.turn = s.dist.length % n
  jout : s.rd ++ s.ob ++ pendJ s.hj = s.tk
  turnJ : s.turnJ = (s.rd ++ s.ob).length % n
  closedRest : s.inClosed = true → s.rest = []
  drained : (∀ v, s.h ≠ .send v) → s.h ≠ .recv → s.inq = [] ∧ s.inClosed = true
  noLate : ∀ k, s.mclosed k = true → (∃ j, s.h = .close j ∧ k < j) ∨ s.h = .done
  jfin : (s.hj = .close ∨ s.hj = .done) → s.later = [] ∧ s.dist = input
  oLate : s.oClosed = true → s.hj = .done

theorem sj_init_inv (input : List α) (n : Nat) : SJInv input n (initSJ input) := by
  refine ⟨by simp [initSJ, pendS], by simp [initSJ], ?_, by simp [initSJ], by simp [initSJ, pendJ], by simp [initSJ],
    ?_, ?_, ?_, ?_, ?_⟩
  · intro k _; simp [initSJ, splitSpec]
  · intro h; simp [initSJ] at h
  · intro _ h; simp [initSJ] at h
  · intro k h; simp [initSJ] at h
  · intro h; rcases h with h | h <;> simp [initSJ] at h
  · intro h; simp [initSJ] at h

theorem sj_step_inv (input : List α) (n cap : Nat) (hn : 0 < n) (s t : SJ α) (hi : SJInv input n s)
    (hs : JStep n cap s t) : SJInv input n t := by
  cases hs with
  | feed v r h1 h2 h3 =>
    refine ⟨?_, hi.pre, hi.mids, hi.turn, hi.jout, hi.turnJ, ?_, ?_, hi.noLate, hi.jfin, hi.oLate⟩
    · have := hi.eq; rw [h1] at this; simpa [List.append_assoc] using this
    · intro hc; simp at hc; rw [h3] at hc; cases hc
    · intro a b
      have := hi.drained a b
      rw [h3] at this; simp at this
  | feedClose h1 h3 =>
    refine ⟨hi.eq, hi.pre, hi.mids, hi.turn, hi.jout, hi.turnJ, fun _ => h1, ?_, hi.noLate, hi.jfin, hi.oLate⟩
    intro a b
    exact ⟨(hi.drained a b).1, rfl⟩
  | hRecv v q h1 h2 =>
    refine ⟨?_, hi.pre, hi.mids, hi.turn, hi.jout, hi.turnJ, hi.closedRest, ?_, ?_, hi.jfin, hi.oLate⟩
    · have := hi.eq; rw [h1, h2] at this; simpa [pendS, List.append_assoc] using this
    · intro a; exact absurd rfl (a v)
    · intro k hk
      rcases hi.noLate k hk with ⟨j, hj, _⟩ | hd
      · rw [h1] at hj; cases hj
      · rw [h1] at hd; cases hd
  | hRecvClosed h1 h2 h3 =>
    refine ⟨?_, hi.pre, hi.mids, hi.turn, hi.jout, hi.turnJ, hi.closedRest, fun _ _ => ⟨h2, h3⟩, ?_, hi.jfin, hi.oLate⟩
    · have := hi.eq; rw [h1] at this; simpa [pendS] using this
    · intro k hk
      rcases hi.noLate k hk with ⟨j, hj, _⟩ | hd
      · rw [h1] at hj; cases hj
      · rw [h1] at hd; cases hd
  | hSend v h1 h2 h3 =>
    have hlt : s.turn < n := by rw [hi.turn]; exact Nat.mod_lt _ hn
    have hlen : s.tk.length + s.later.length = s.dist.length := by
      rw [← hi.pre]; simp
    refine ⟨?_, ?_, ?_, ?_, hi.jout, hi.turnJ, hi.closedRest, ?_, ?_, ?_, hi.oLate⟩
    · have := hi.eq; rw [h1] at this; simpa [pendS, List.append_assoc] using this
    · simp only; rw [← hi.pre, List.append_assoc]
    · intro k hk
      have := hi.mids k hk
      simp only
      rw [splitSpec_append, hlen, ← hi.turn]
      by_cases hkt : k = s.turn
      · subst hkt
        simp only [upd_same, if_true]
        rw [this]
      · have hne : ¬ s.turn = k := fun h => hkt h.symm
        simp only [upd_other _ _ _ _ hkt, hne, if_false, List.append_nil]
        exact this
    · simp only [List.length_append, List.length_singleton]
      exact nextTurn_mod n s.turn s.dist.length hn hi.turn
    · intro _ b; exact absurd rfl b
    · intro k hk
      rcases hi.noLate k hk with ⟨j, hj, _⟩ | hd
      · rw [h1] at hj; cases hj
      · rw [h1] at hd; cases hd
    · -- Join cannot have finished while Split still holds a value
      intro hf
      exfalso
      have hd := (hi.jfin hf).2
      have e := hi.eq
      rw [h1, hd] at e
      have := congrArg List.length e
      simp [pendS] at this
      try omega
  | hClose k h1 hk =>
    have hd := hi.drained (by intro v hh; rw [h1] at hh; cases hh) (by rw [h1]; intro hh; cases hh)
    refine ⟨?_, hi.pre, hi.mids, hi.turn, hi.jout, hi.turnJ, hi.closedRest, fun _ _ => hd, ?_, hi.jfin, hi.oLate⟩
    · have := hi.eq; rw [h1] at this
      split <;> simpa [pendS] using this
    · intro j hj
      by_cases hjk : j = k
      · subst hjk
        split
        · exact Or.inl ⟨j + 1, rfl, by omega⟩
        · exact Or.inr rfl
      · simp only [upd_other _ _ _ _ hjk] at hj
        rcases hi.noLate j hj with ⟨m, hm, hlt⟩ | hdn
        · rw [h1] at hm; cases hm
          split
          · exact Or.inl ⟨k + 1, rfl, by omega⟩
          · exact Or.inr rfl
        · rw [h1] at hdn; cases hdn
  | jRecv v b h1 h2 =>
    -- Join is at `recv`: everything it took has been forwarded, so its turn is |tk| mod n
    have hjo := hi.jout
    rw [h1] at hjo
    simp only [pendJ, List.append_nil] at hjo
    have htj : s.turnJ = s.tk.length % n := by rw [hi.turnJ, hjo]
    have hlt : s.turnJ < n := by rw [htj]; exact Nat.mod_lt _ hn
    have hm := hi.mids s.turnJ hlt
    rw [h2] at hm
    -- the head of that input is the oldest value not yet taken
    cases hl : s.later with
    | nil => rw [hl] at hm; simp [splitSpec] at hm
    | cons x l' =>
      rw [hl] at hm
      simp only [splitSpec, ← htj, if_true] at hm
      injection hm with hx hb
      subst hx
      refine ⟨hi.eq, ?_, ?_, hi.turn, ?_, hi.turnJ, hi.closedRest, hi.drained, hi.noLate, ?_,
        fun hc => by have := hi.oLate hc; rw [h1] at this; cases this⟩
      · simp only [hl, List.tail_cons]
        rw [← hi.pre, hl]; simp
      · intro k hk
        simp only [hl, List.tail_cons, List.length_append, List.length_singleton]
        by_cases hkt : k = s.turnJ
        · subst hkt
          simp only [upd_same]; exact hb
        · simp only [upd_other _ _ _ _ hkt]
          have := hi.mids k hk
          rw [hl] at this
          have hne : ¬ s.tk.length % n = k := by rw [← htj]; exact fun h => hkt h.symm
          simpa [splitSpec, hne] using this
      · simp only [pendJ]; rw [← hjo]
      · intro hf; rcases hf with hf | hf <;> cases hf
  | jRecvClosed h1 h2 h3 =>
    have hjo := hi.jout
    rw [h1] at hjo
    simp only [pendJ, List.append_nil] at hjo
    have htj : s.turnJ = s.tk.length % n := by rw [hi.turnJ, hjo]
    have hlt : s.turnJ < n := by rw [htj]; exact Nat.mod_lt _ hn
    have hm := hi.mids s.turnJ hlt
    rw [h2] at hm
    have hlater : s.later = [] := by
      cases hl : s.later with
      | nil => rfl
      | cons x l' => rw [hl] at hm; simp [splitSpec, ← htj] at hm
    have hdist : s.dist = input := by
      have hst : (∀ v, s.h ≠ .send v) ∧ s.h ≠ .recv := by
        rcases hi.noLate _ h3 with ⟨j, hj, _⟩ | hd
        · constructor
          · intro v hh; rw [hj] at hh; cases hh
          · intro hh; rw [hj] at hh; cases hh
        · constructor
          · intro v hh; rw [hd] at hh; cases hh
          · intro hh; rw [hd] at hh; cases hh
      have hd := hi.drained hst.1 hst.2
      have e := hi.eq
      rw [hd.1, hi.closedRest hd.2] at e
      have hp : pendS s.h = [] := by
        cases hh : s.h with
        | send v => exact absurd hh (hst.1 v)
        | _ => rfl
      rw [hp] at e; simpa using e
    refine ⟨hi.eq, hi.pre, hi.mids, hi.turn, ?_, hi.turnJ, hi.closedRest, hi.drained, hi.noLate, fun _ => ⟨hlater, hdist⟩,
      fun hc => by have := hi.oLate hc; rw [h1] at this; cases this⟩
    simp only [pendJ, List.append_nil]; exact hjo
  | jSend v h1 h2 h3 =>
    have hjo := hi.jout
    rw [h1] at hjo
    refine ⟨hi.eq, hi.pre, hi.mids, hi.turn, ?_, ?_, hi.closedRest, hi.drained, hi.noLate, ?_, ?_⟩
    · simp only [pendJ, List.append_nil]; rw [← hjo]; simp [pendJ]
    · have := nextTurn_mod n s.turnJ (s.rd ++ s.ob).length hn hi.turnJ
      have e : (s.rd ++ (s.ob ++ [v])).length = (s.rd ++ s.ob).length + 1 := by
        simp only [List.length_append, List.length_singleton]; omega
      simp only []; rw [e]; exact this
    · intro hf; rcases hf with hf | hf <;> cases hf
    · intro hc; rw [h3] at hc; cases hc
  | jClose h1 =>
    have hjo := hi.jout
    rw [h1] at hjo
    refine ⟨hi.eq, hi.pre, hi.mids, hi.turn, ?_, hi.turnJ, hi.closedRest, hi.drained, hi.noLate,
      fun _ => hi.jfin (Or.inl h1), fun _ => rfl⟩
    simpa [pendJ] using hjo
  | read v b h1 h2 =>
    have hjo := hi.jout
    rw [h1] at hjo
    refine ⟨hi.eq, hi.pre, hi.mids, hi.turn, ?_, ?_, hi.closedRest, hi.drained, hi.noLate, hi.jfin, hi.oLate⟩
    · rw [← hjo]; simp [List.append_assoc]
    · have := hi.turnJ; rw [h1] at this; simpa using this
  | readClosed h1 h2 =>
    exact ⟨hi.eq, hi.pre, hi.mids, hi.turn, hi.jout, hi.turnJ, hi.closedRest, hi.drained, hi.noLate, hi.jfin, hi.oLate⟩

/-- **Split → Join, every reachable state of every interleaving** -/
theorem C06_splitjoin_inv (input : List α) (n cap : Nat) (hn : 0 < n) (s : SJ α) (h : JReach n cap (initSJ input) s) :
    SJInv input n s := by
  induction h with
  | init => exact sj_init_inv input n
  | step _ hst ih => exact sj_step_inv input n cap hn _ _ ih hst

/-- **Split followed by Join delivers exactly the input sequence in order**: once the Join
    helper has finished and the joined queue is drained, its reader has read the input -/
theorem C06_splitjoin_final (input : List α) (n cap : Nat) (hn : 0 < n) (s : SJ α) (h : JReach n cap (initSJ input) s)
    (hdone : s.hj = .done) (hempty : s.ob = []) : s.rd = input := by
  have inv := C06_splitjoin_inv input n cap hn s h
  have hf := inv.jfin (Or.inr hdone)
  have hp := inv.pre
  rw [hf.1, hf.2] at hp
  have hj := inv.jout
  rw [hdone, hempty] at hj
  simp [pendJ] at hj hp
  rw [hj, hp]

/-- **nothing is lost when Join stops** at the first closed and drained input: no other
    intermediate queue still holds a value, and Split has distributed the whole input -/
theorem C06_join_stops_only_when_empty (input : List α) (n cap : Nat) (hn : 0 < n) (s : SJ α)
    (h : JReach n cap (initSJ input) s) (hj : s.hj = .close ∨ s.hj = .done) :
    (∀ k, k < n → s.mid k = []) ∧ s.dist = input := by
  have inv := C06_splitjoin_inv input n cap hn s h
  have hf := inv.jfin hj
  refine ⟨?_, hf.2⟩
  intro k hk
  rw [inv.mids k hk, hf.1]; rfl

/-- **nothing reaches the joined queue after its closure** -/
theorem C06_join_no_late (input : List α) (n cap : Nat) (hn : 0 < n) (s : SJ α) (h : JReach n cap (initSJ input) s)
    (hc : s.oClosed = true) : ∀ v, s.hj ≠ .send v := by
  intro v hh
  have := (C06_splitjoin_inv input n cap hn s h).oLate hc
  rw [hh] at this; cases this

example : splitSpec 3 1 0 [10, 11, 12, 13, 14] = [11, 14] := by decide

end CM
