/-
  Model of `cdcn/scanner.go` and `cdcn/token.go`.  The source is a list of runes
  (code points); every token pattern of the scanner's `const` block is a hand-written
  recogniser returning the number of runes matched (Go regexp: anchored, leftmost-first).
  The pattern texts themselves are pinned by generated facts (Generated/Facts.lean).
-/
import CollectionModel.Model.Basic
namespace CM
namespace Cdcn

inductive TT
  | error | boolean | complex | delimiter | eof | eol | float | hexadecimal | integer | nil | rune | space | string | type
  deriving DecidableEq, Repr, Inhabited

structure Token where
  tt : TT
  value : List Nat     -- the runes of the token (before the <EOLN>-style renaming of control characters)
  line : Nat
  pos : Nat
  deriving DecidableEq, Repr, Inhabited

abbrev Src := List Nat

def ch (c : Char) : Nat := c.toNat

def isDigit (c : Nat) : Bool := ch '0' ≤ c && c ≤ ch '9'
def isDigit19 (c : Nat) : Bool := ch '1' ≤ c && c ≤ ch '9'
def isHex (c : Nat) : Bool := isDigit c || (ch 'a' ≤ c && c ≤ ch 'f')
def isSign (c : Nat) : Bool := c == ch '+' || c == ch '-'

/-- `lit s` : does the source start with the literal text -/
def startsWith (s : String) (src : Src) : Bool := (s.toList.map ch).isPrefixOf src

def lit (s : String) (src : Src) : Option Nat := if startsWith s src then some s.length else none

/-- number of leading runes satisfying `p` -/
def spanLen (p : Nat → Bool) : Src → Nat
  | [] => 0
  | c :: cs => if p c then 1 + spanLen p cs else 0

/-- `ordinal_ = [1-9][0-9]*` -/
def mOrdinal : Src → Option Nat
  | c :: cs => if isDigit19 c then some (1 + spanLen isDigit cs) else none
  | [] => none

/-- `(?:zero_|ordinal_)` (leftmost-first: "0" first) -/
def mZeroOrOrdinal : Src → Option Nat
  | c :: cs => if c == ch '0' then some 1 else mOrdinal (c :: cs)
  | [] => none

/-- `exponent_ = [eE][+-]ordinal_` -/
def mExponent : Src → Option Nat
  | e :: s :: rest =>
    if (e == ch 'e' || e == ch 'E') && isSign s then (mOrdinal rest).map (· + 2) else none
  | _ => none

/-- `float_ = sign_?(?:scalar_)(?:exponent_)?` with `scalar_ = (?:zero_|ordinal_)\.[0-9]+` -/
def mFloat (src : Src) : Option Nat :=
  let s := match src with | c :: _ => if isSign c then 1 else 0 | [] => 0
  match mZeroOrOrdinal (src.drop s) with
  | none => none
  | some n =>
    match src.drop (s + n) with
    | d :: rest =>
      if d == ch '.' then
        let f := spanLen isDigit rest
        if f == 0 then none else
        let base := s + n + 1 + f
        match mExponent (src.drop base) with
        | some e => some (base + e)
        | none => some base
      else none
    | [] => none

/-- `integer_ = zero_|sign_?ordinal_` -/
def mInteger : Src → Option Nat
  | c :: cs =>
    if c == ch '0' then some 1
    else if isSign c then (mOrdinal cs).map (· + 1)
    else mOrdinal (c :: cs)
  | [] => none

/-- `hexadecimal_ = 0x[0-9a-f]+` -/
def mHex : Src → Option Nat
  | z :: x :: rest =>
    if z == ch '0' && x == ch 'x' then
      let n := spanLen isHex rest
      if n == 0 then none else some (2 + n)
    else none
  | _ => none

/-- `complex_ = \((float_)sign_(float_)i\)` -/
def mComplex : Src → Option Nat
  | p :: rest =>
    if p != ch '(' then none else
    match mFloat rest with
    | none => none
    | some a =>
      match rest.drop a with
      | s :: rest2 =>
        if !isSign s then none else
        match mFloat rest2 with
        | none => none
        | some b =>
          match rest2.drop b with
          | i :: q :: _ => if i == ch 'i' && q == ch ')' then some (1 + a + 1 + b + 2) else none
          | _ => none
      | [] => none
  | [] => none

def mBoolean (src : Src) : Option Nat := (lit "false" src).orElse fun _ => lit "true" src
def mNil (src : Src) : Option Nat := lit "nil" src
def mEol : Src → Option Nat
  | c :: _ => if c == 10 then some 1 else none
  | [] => none
def mSpace (src : Src) : Option Nat := let n := spanLen (· == 32) src; if n == 0 then none else some n
def mDelimiter : Src → Option Nat
  | c :: _ => if c == ch '[' || c == ch ']' || c == ch '(' || c == ch ')' || c == ch ':' || c == ch ',' then some 1 else none
  | [] => none
def mType (src : Src) : Option Nat :=
  ["Array", "Catalog", "List", "Map", "Queue", "Set", "Stack"].foldl (fun acc s => acc.orElse fun _ => lit s src) none

/-- exactly `n` lower-case hex digits -/
def hexN : Nat → Src → Bool
  | 0, _ => true
  | n+1, c :: cs => isHex c && hexN n cs
  | _+1, [] => false

/-- `escape_ = \\(?:(?:x..|u....|U........)|[abfnrtv'"\\])` : length of the escape at the start -/
def mEscape : Src → Option Nat
  | b :: c :: rest =>
    if b != ch '\\' then none
    else if c == ch 'x' && hexN 2 rest then some 4
    else if c == ch 'u' && hexN 4 rest then some 6
    else if c == ch 'U' && hexN 8 rest then some 10
    else if c == ch 'a' || c == ch 'b' || c == ch 'f' || c == ch 'n' || c == ch 'r' || c == ch 't' || c == ch 'v'
         || c == ch '\'' || c == ch '"' || c == ch '\\' then some 2
    else none
  | _ => none

/-- `rune_ = '(escape_|[^'\n])'` (escape first, then any single rune) -/
def mRune : Src → Option Nat
  | q :: rest =>
    if q != ch '\'' then none else
    let viaEscape := match mEscape rest with
      | some k => (match rest.drop k with | c :: _ => if c == ch '\'' then some (1 + k + 1) else none | [] => none)
      | none => none
    viaEscape.orElse fun _ =>
      match rest with
      | c :: c2 :: _ => if c != ch '\'' && c != 10 && c2 == ch '\'' then some 3 else none
      | _ => none
  | [] => none

/-- body of `string_ = "(escape_|[^"\n])*"` by dynamic programming from the right: entry `j`
    is, for the suffix starting `j` runes further, the number of runes up to and including
    the closing quote chosen by Go's leftmost-first matching (escape, then ordinary rune,
    then the closing quote), or `none` when no match exists from there -/
def strBody : Src → List (Option Nat)
  | [] => [none]
  | c :: r =>
    let t := strBody r
    let viaEsc := match mEscape (c :: r) with
      | some k => ((t.getD (k - 1) none).map (· + k))
      | none => none
    let viaChar := if c != ch '"' && c != 10 then (t.headD none).map (· + 1) else none
    let viaClose := if c == ch '"' then some 1 else none
    (viaEsc.orElse fun _ => viaChar.orElse fun _ => viaClose) :: t

def mString : Src → Option Nat
  | q :: rest => if q != ch '"' then none else ((strBody rest).headD none).map (· + 1)
  | [] => none

/-- the token patterns in the order of the `switch` in `scanTokens` -/
def matchers : List (TT × (Src → Option Nat)) :=
  [(.boolean, mBoolean), (.complex, mComplex), (.delimiter, mDelimiter), (.eol, mEol), (.float, mFloat),
   (.hexadecimal, mHex), (.integer, mInteger), (.nil, mNil), (.rune, mRune), (.space, mSpace),
   (.string, mString), (.type, mType)]

def firstMatch : List (TT × (Src → Option Nat)) → Src → Option (TT × Nat)
  | [], _ => none
  | (tt, m) :: rest, src => match m src with
    | some n => some (tt, n)
    | none => firstMatch rest src

/-- the `switch` of `scanTokens`: first pattern (in source order) that matches -/
def matchToken (src : Src) : Option (TT × Nat) := firstMatch matchers src

/-- line/column bookkeeping of `foundToken`: every newline in the matched text starts a new
    line (`line_ += count`, `position_ = indexOfLastEOL`), every other rune advances the column -/
def advance (lc : Nat × Nat) (text : List Nat) : Nat × Nat :=
  text.foldl (fun lc c => if c == 10 then (lc.1 + 1, 1) else (lc.1, lc.2 + 1)) lc

/-- `scanTokens`: the token stream the scanner goroutine puts on the queue
    (spaces are matched but not emitted; an unmatched rune becomes an error token and ends
    the scan; the stream always ends with EOF) -/
def scanLoop : Nat → Src → Nat × Nat → List Token
  | 0, _, lc => [{ tt := .eof, value := [], line := lc.1, pos := lc.2 }]
  | _, [], lc => [{ tt := .eof, value := [], line := lc.1, pos := lc.2 }]
  | fuel+1, c :: cs, lc =>
    match matchToken (c :: cs) with
    | none =>
      [{ tt := .error, value := [c], line := lc.1, pos := lc.2 },
       { tt := .eof, value := [], line := lc.1, pos := lc.2 }]
    | some (tt, n) =>
      let n := if n == 0 then 1 else n
      let text := (c :: cs).take n
      let rest := (c :: cs).drop n
      let lc' := advance lc text
      if tt == .space then scanLoop fuel rest lc'
      else { tt := tt, value := text, line := lc.1, pos := lc.2 } :: scanLoop fuel rest lc'

def scan (src : Src) : List Token := scanLoop (src.length + 1) src (1, 1)

end Cdcn
end CM
