/-
  C20 — Universal constructors build what the class constructors and the
  parser build.

  Statement (properties.jsonl): for every documented argument form (none, size
  or capacity, Go array, Go map, sequence, collator, CDCN source, each
  optionally with a notation) and element type, each module-level constructor
  returns a collection of the same kind, contents, order and capacity as the
  corresponding class-level constructor given the same data; the CDCN-source
  form yields the contents and order of parsing that source; Association(k, v)
  has key k and value v for every pair of types, identical ones included.

  The theorems are about `Model/Facade.lean` (the dispatch of `v4/Module.go`)
  and are generic in the element type: nothing depends on which of the seven
  element types instantiates `α`.
-/
import CollectionModel.Model.Facade
import CollectionModel.Lemmas.SeqLemmas
import CollectionModel.Lemmas.SetLemmas
import CollectionModel.Lemmas.AssocLemmas
namespace CM
open CM.Seq CM.Facade CM.SeqSpec

variable {α : Type}

/-- notation arguments only -/
def AllNotation (l : List (Arg α)) : Prop := ∀ x ∈ l, x = Arg.notation

theorem foldl_store_notation (s : Slots α) : ∀ (l : List (Arg α)), AllNotation l → l.foldl store s = s
  | [], _ => rfl
  | x :: xs, h => by
    have hx : x = Arg.notation := h x (by simp)
    subst hx
    simp only [List.foldl_cons, store]
    exact foldl_store_notation s xs (fun y hy => h y (by simp [hy]))

/-- **notation placement**: notation arguments before and after the data
    argument, in any number, change nothing about the slots -/
theorem collect_with_notations (pre post : List (Arg α)) (a : Arg α)
    (hp : AllNotation pre) (hq : AllNotation post) :
    collect (pre ++ [a] ++ post) = store {} a := by
  unfold collect
  rw [List.foldl_append, List.foldl_append, foldl_store_notation _ pre hp]
  simp only [List.foldl_cons, List.foldl_nil]
  exact foldl_store_notation _ post hq

theorem collect_notations_only (pre : List (Arg α)) (hp : AllNotation pre) : collect pre = {} := by
  unfold collect; exact foldl_store_notation _ pre hp

/-! ### Array -/
section
variable [Inhabited α]

theorem setValue_at (done : List α) (x : α) (rest : List α) (v : α) :
    setValue (done ++ x :: rest) ((done.length : Int) + 1) v = .ok (done ++ v :: rest) := by
  have hp : pos (done ++ x :: rest).length ((done.length : Int) + 1) = some done.length := by
    unfold pos
    have : (1 : Int) ≤ (done.length : Int) + 1 ∧ (done.length : Int) + 1 ≤ ((done ++ x :: rest).length : Int) := by
      simp only [List.length_append, List.length_cons]; omega
    rw [if_pos this]; congr 1; omega
  unfold setValue
  rw [toZeroBased_some _ _ _ hp]
  simp

/-- the fill loop of the source branch writes the parsed values in order -/
theorem fillFrom_spec : ∀ (rest done : List α),
    fillFrom (done ++ List.replicate rest.length default) ((done.length : Int) + 1) rest = .ok (done ++ rest)
  | [], done => by simp [fillFrom]
  | v :: vs, done => by
    simp only [List.length_cons, List.replicate_succ, fillFrom]
    rw [setValue_at]
    have := fillFrom_spec vs (done ++ [v])
    simp only [List.length_append, List.length_singleton, List.append_assoc, List.singleton_append,
      Int.natCast_add, Int.natCast_one] at this
    simpa using this

/-- **C20, Array**: size, Go array, sequence and CDCN source, with notation
    arguments anywhere, build what `Make(size)` / `MakeFromArray` /
    `MakeFromSequence` build from the same data; the source form has the
    contents and order of the parsed array; no data argument is the documented
    panic. -/
theorem C20_array (pre post : List (Arg α)) (hp : AllNotation pre) (hq : AllNotation post) :
    (∀ n, buildArray (collect (pre ++ [.size n] ++ post)) = some (.ok (clsArrayMake n))) ∧
    (∀ vs, buildArray (collect (pre ++ [.goarray vs] ++ post)) = some (.ok (clsArrayFrom vs))) ∧
    (∀ vs, buildArray (collect (pre ++ [.sequence vs] ++ post)) = some (.ok (clsArrayFrom vs))) ∧
    (∀ items, buildArray (collect (pre ++ [.source items] ++ post)) = some (.ok (clsArrayFrom items))) ∧
    buildArray (collect pre) = some (.error .lib) := by
  refine ⟨?_, ?_, ?_, ?_, ?_⟩
  · intro n; rw [collect_with_notations _ _ _ hp hq]; rfl
  · intro vs; rw [collect_with_notations _ _ _ hp hq]; rfl
  · intro vs; rw [collect_with_notations _ _ _ hp hq]; rfl
  · intro items
    rw [collect_with_notations _ _ _ hp hq]
    have := fillFrom_spec items ([] : List α)
    simp only [List.nil_append, List.length_nil, Int.natCast_zero, Int.zero_add] at this
    simp only [buildArray, store, clsArrayMake, clsArrayFrom, this]
  · rw [collect_notations_only _ hp]; rfl

/-! ### List -/

theorem foldl_append_nil (items : List α) : items.foldl appendValue [] = items := by
  rw [foldl_append_singleton]; simp

/-- **C20, List** -/
theorem C20_list (pre post : List (Arg α)) (hp : AllNotation pre) (hq : AllNotation post) :
    (∀ vs, buildList (collect (pre ++ [.goarray vs] ++ post)) = some (.ok (clsListFrom vs))) ∧
    (∀ vs, buildList (collect (pre ++ [.sequence vs] ++ post)) = some (.ok (clsListFrom vs))) ∧
    (∀ items, buildList (collect (pre ++ [.source items] ++ post)) = some (.ok (clsListFrom items))) ∧
    (∀ items : List α, (clsListFrom items).items = items) ∧
    buildList (collect pre) = some (.ok (clsListFrom [])) := by
  refine ⟨?_, ?_, ?_, ?_, ?_⟩
  · intro vs; rw [collect_with_notations _ _ _ hp hq]
    cases vs <;> simp [buildList, store, nonEmpty, clsListFrom, makeFromSequence_spec]
  · intro vs; rw [collect_with_notations _ _ _ hp hq]; rfl
  · intro items; rw [collect_with_notations _ _ _ hp hq]
    simp [buildList, store, nonEmpty, clsListFrom, makeFromSequence_spec, foldl_append_nil]
  · intro items; simp [clsListFrom, makeFromSequence_spec]
  · rw [collect_notations_only _ hp]; simp [buildList, nonEmpty, clsListFrom, makeFromSequence_spec]

/-! ### Stack and Queue -/

/-- **C20, Stack**: capacity, Go array, sequence, source; the source form keeps
    the order of the parsed stack (top first) and a capacity that holds it. -/
theorem C20_stack (dflt : Nat) (pre post : List (Arg α)) (hp : AllNotation pre) (hq : AllNotation post) :
    (∀ c, 1 ≤ c → buildStack dflt (collect (pre ++ [.size c] ++ post)) = some (.ok ({ items := [], cap := some c } : Built α))) ∧
    (∀ vs, buildStack dflt (collect (pre ++ [.goarray vs] ++ post)) = some (.ok (clsStackFrom dflt vs))) ∧
    (∀ vs, buildStack dflt (collect (pre ++ [.sequence vs] ++ post)) = some (.ok (clsStackFrom dflt vs))) ∧
    (∀ items, buildStack dflt (collect (pre ++ [.source items] ++ post)) = some (.ok (clsStackFrom dflt items))) ∧
    (∀ items : List α, (clsStackFrom dflt items).items = items ∧
       ∃ c, (clsStackFrom dflt items).cap = some c ∧ items.length ≤ c ∧ dflt ≤ c) ∧
    buildStack dflt (collect pre) = some (.ok (clsStackMake dflt)) := by
  refine ⟨?_, ?_, ?_, ?_, ?_, ?_⟩
  · intro c hc; rw [collect_with_notations _ _ _ hp hq]
    cases c with
    | zero => omega
    | succ c => rfl
  · intro vs; rw [collect_with_notations _ _ _ hp hq]
    cases vs with
    | nil => simp [buildStack, store, nonEmpty, clsStackFrom, clsStackMake, Stack.makeFrom, makeFromSequence_spec]
    | cons v vs => rfl
  · intro vs; rw [collect_with_notations _ _ _ hp hq]; rfl
  · intro items; rw [collect_with_notations _ _ _ hp hq]
    simp [buildStack, store, nonEmpty, foldl_append_nil]
  · intro items
    simp only [clsStackFrom, Stack.makeFrom, makeFromSequence_spec, true_and]
    refine ⟨_, rfl, ?_, ?_⟩ <;> split <;> omega
  · rw [collect_notations_only _ hp]; rfl

/-- **C20, Queue**: as for Stack; the capacity of the source form is the one
    `MakeFromSequence` chooses, so a source of more values than the default
    capacity does not block the constructor (the model's class constructor is
    total; that the real one terminates is C05). -/
theorem C20_queue (dflt : Nat) (pre post : List (Arg α)) (hp : AllNotation pre) (hq : AllNotation post) :
    (∀ c, 1 ≤ c → buildQueue dflt (collect (pre ++ [.size c] ++ post)) = some (.ok (clsQueueCap dflt c))) ∧
    (∀ vs, buildQueue dflt (collect (pre ++ [.goarray vs] ++ post)) = some (.ok (clsQueueFrom dflt vs))) ∧
    (∀ vs, buildQueue dflt (collect (pre ++ [.sequence vs] ++ post)) = some (.ok (clsQueueFrom dflt vs))) ∧
    (∀ items, buildQueue dflt (collect (pre ++ [.source items] ++ post)) = some (.ok (clsQueueFrom dflt items))) ∧
    (∀ items : List α, (clsQueueFrom dflt items).items = items ∧
       ∃ c, (clsQueueFrom dflt items).cap = some c ∧ items.length ≤ c ∧ dflt ≤ c) ∧
    buildQueue dflt (collect pre) = some (.ok (clsQueueCap dflt 0)) := by
  refine ⟨?_, ?_, ?_, ?_, ?_, ?_⟩
  · intro c hc; rw [collect_with_notations _ _ _ hp hq]
    cases c with
    | zero => omega
    | succ c => rfl
  · intro vs; rw [collect_with_notations _ _ _ hp hq]
    cases vs with
    | nil => simp [buildQueue, store, nonEmpty, clsQueueFrom, clsQueueCap, makeFromSequence_spec]
    | cons v vs => rfl
  · intro vs; rw [collect_with_notations _ _ _ hp hq]; rfl
  · intro items; rw [collect_with_notations _ _ _ hp hq]
    simp [buildQueue, store, nonEmpty, foldl_append_nil]
  · intro items
    simp only [clsQueueFrom, makeFromSequence_spec, true_and]
    refine ⟨_, rfl, ?_, ?_⟩ <;> split <;> omega
  · rw [collect_notations_only _ hp]; rfl

/-! ### Set -/

/-- **C20, Set** (the collator in effect, explicit or default, is `rank`) -/
theorem C20_set (rank : α → α → Rank) (pre post : List (Arg α)) (hp : AllNotation pre) (hq : AllNotation post) :
    (∀ vs, buildSet rank (collect (pre ++ [.goarray vs] ++ post)) = clsSetFrom rank vs) ∧
    (∀ vs, buildSet rank (collect (pre ++ [.sequence vs] ++ post)) = clsSetFrom rank vs) ∧
    (∀ items, buildSet rank (collect (pre ++ [.source items] ++ post)) = clsSetFrom rank items) ∧
    (∀ vs, buildSet rank (collect (pre ++ [.collator, .goarray vs] ++ post)) = clsSetFrom rank vs) ∧
    (∀ vs, buildSet rank (collect (pre ++ [.collator, .sequence vs] ++ post)) = clsSetFrom rank vs) ∧
    (∀ items, buildSet rank (collect (pre ++ [.collator, .source items] ++ post)) = clsSetFrom rank items) ∧
    buildSet rank (collect pre) = clsSetFrom rank [] := by
  have hempty : clsSetFrom rank ([] : List α) = some (.ok { items := [] }) := by
    simp [clsSetFrom, SetM.makeFrom, SetM.addValues]
  have two : ∀ a : Arg α, collect (pre ++ [Arg.collator, a] ++ post) = store (store {} .collator) a := by
    intro a
    unfold collect
    rw [List.foldl_append, List.foldl_append, foldl_store_notation _ pre hp]
    simp only [List.foldl_cons, List.foldl_nil]
    exact foldl_store_notation _ post hq
  refine ⟨?_, ?_, ?_, ?_, ?_, ?_, ?_⟩
  · intro vs; rw [collect_with_notations _ _ _ hp hq]
    cases vs with
    | nil => simp [buildSet, store, nonEmpty, hempty]
    | cons v vs => rfl
  · intro vs; rw [collect_with_notations _ _ _ hp hq]; rfl
  · intro items; rw [collect_with_notations _ _ _ hp hq]; rfl
  · intro vs
    rw [two]
    cases vs with
    | nil => simp [buildSet, store, nonEmpty, hempty]
    | cons v vs => rfl
  · intro vs; rw [two]; rfl
  · intro items; rw [two]; rfl
  · rw [collect_notations_only _ hp]; simp [buildSet, nonEmpty, hempty]

/-- a parsed set is strictly ascending under the collator; adding its values
    one at a time to an empty set rebuilds exactly that sequence -/
theorem set_source_is_parse (rank : α → α → Rank) (h : TotalPreorder rank) (items : List α)
    (hs : SetM.SSorted rank items) : clsSetFrom rank items = some (.ok { items := items }) := by
  suffices hh : ∀ (rest l : List α), SetM.SSorted rank (l ++ rest) →
      SetM.addValues rank l rest = some (.ok (l ++ rest)) by
    have := hh items [] (by simpa using hs)
    simp only [clsSetFrom, SetM.makeFrom, this, List.nil_append]
  intro rest
  induction rest with
  | nil => intro l _; simp [SetM.addValues]
  | cons v rest ih =>
    intro l hsl
    have hl : SetM.SSorted rank l := by
      unfold SetM.SSorted at *; exact (List.pairwise_append.mp hsl).1
    have hlt : ∀ x ∈ l, rank x v = .lt := by
      intro x hx
      unfold SetM.SSorted at hsl
      exact (List.pairwise_append.mp hsl).2.2 x hx v (by simp)
    have hnm : SetM.mem rank l v = false := by
      apply SetM.mem_false_iff.mpr
      intro x hx
      have := (SetM.tp_lt_gt h x v).mp (hlt x hx)
      rw [this]; decide
    obtain ⟨k, hk, he, hso⟩ := (SetM.addValue_spec rank h l v hl).2 hnm
    have hdrop : l.drop k = [] := by
      cases hd : l.drop k with
      | nil => rfl
      | cons x xs =>
        exfalso
        rw [hd] at hso
        unfold SetM.SSorted at hso
        have h1 : rank v x = .lt := by
          have := (List.pairwise_append.mp hso).2.1
          exact (List.pairwise_cons.mp this).1 x (by simp)
        have hx : x ∈ l := List.mem_of_mem_drop (by rw [hd]; simp)
        have h2 := (SetM.tp_lt_gt h x v).mp (hlt x hx)
        rw [h1] at h2; cases h2
    have htake : l.take k = l := by
      have := List.take_append_drop k l
      rw [hdrop, List.append_nil] at this; exact this
    rw [hdrop, htake] at he
    simp only [SetM.addValues, he, SetM.bindR]
    have := ih (l ++ [v]) (by simpa using hsl)
    simpa using this

end

/-! ### Catalog and Map -/
section keyed
variable {K V : Type} [DecidableEq K]
open CM.Assoc

theorem C20_catalog (pre post : List (Arg (K × V))) (hp : AllNotation pre) (hq : AllNotation post) :
    (∀ ps, buildCatalog (collect (pre ++ [.goarray ps] ++ post)) = clsCatalogFrom ps) ∧
    (∀ ps, buildCatalog (collect (pre ++ [.gomap ps] ++ post)) = clsCatalogFrom ps) ∧
    (∀ ps, buildCatalog (collect (pre ++ [.sequence ps] ++ post)) = clsCatalogFrom ps) ∧
    (∀ ps, buildCatalog (collect (pre ++ [.source ps] ++ post)) = clsCatalogFrom ps) ∧
    buildCatalog (collect pre) = clsCatalogFrom ([] : List (K × V)) := by
  refine ⟨?_, ?_, ?_, ?_, ?_⟩
  · intro ps; rw [collect_with_notations _ _ _ hp hq]
    cases ps <;> simp [buildCatalog, store, nonEmpty, clsCatalogFrom, catMakeFrom, catEmpty]
  · intro ps; rw [collect_with_notations _ _ _ hp hq]
    cases ps <;> simp [buildCatalog, store, nonEmpty, clsCatalogFrom, catMakeFrom, catEmpty]
  · intro ps; rw [collect_with_notations _ _ _ hp hq]; rfl
  · intro ps; rw [collect_with_notations _ _ _ hp hq]; rfl
  · rw [collect_notations_only _ hp]; simp [buildCatalog, nonEmpty, clsCatalogFrom, catMakeFrom, catEmpty]

theorem C20_map (pre post : List (Arg (K × V))) (hp : AllNotation pre) (hq : AllNotation post) :
    (∀ ps, buildMap (collect (pre ++ [.goarray ps] ++ post)) = clsMapFrom ps) ∧
    (∀ ps, buildMap (collect (pre ++ [.gomap ps] ++ post)) = clsMapFrom ps) ∧
    (∀ ps, buildMap (collect (pre ++ [.sequence ps] ++ post)) = clsMapFrom ps) ∧
    (∀ ps, buildMap (collect (pre ++ [.source ps] ++ post)) = clsMapFrom ps) ∧
    buildMap (collect pre) = clsMapFrom ([] : List (K × V)) := by
  refine ⟨?_, ?_, ?_, ?_, ?_⟩
  · intro ps; rw [collect_with_notations _ _ _ hp hq]
    cases ps <;> simp [buildMap, store, nonEmpty, clsMapFrom, mapMakeFrom]
  · intro ps; rw [collect_with_notations _ _ _ hp hq]
    cases ps <;> simp [buildMap, store, nonEmpty, clsMapFrom, mapMakeFrom]
  · intro ps; rw [collect_with_notations _ _ _ hp hq]; rfl
  · intro ps; rw [collect_with_notations _ _ _ hp hq]; rfl
  · rw [collect_notations_only _ hp]; simp [buildMap, nonEmpty, clsMapFrom, mapMakeFrom]

/-- a parsed catalog has distinct keys; rebuilding it pair by pair gives the
    same associations in the same order -/
theorem catalog_source_is_parse : ∀ (ps : List (K × V)), NodupKeys ps →
    (clsCatalogFrom ps).items = ps := by
  intro ps hn
  suffices h : ∀ (rest : List (K × V)) (c : Cat K V), CatInv c → NodupKeys (c.assocs ++ rest) →
      (rest.foldl (fun c p => catSetValue c p.1 p.2) c).assocs = c.assocs ++ rest by
    have := h ps catEmpty catEmpty_inv (by simpa [catEmpty] using hn)
    simpa [clsCatalogFrom, catMakeFrom, catEmpty] using this
  intro rest
  induction rest with
  | nil => intro c _ _; simp
  | cons p rest ih =>
    intro c hc hn
    have hfresh : lookup p.1 c.keys = none := by
      rw [hc.same, lookup_none_iff]
      intro q hq hqk
      unfold NodupKeys at hn
      rw [List.map_append, List.nodup_append] at hn
      exact hn.2.2 q.1 (List.mem_map_of_mem hq) p.1 (by simp) hqk
    have hstep : (catSetValue c p.1 p.2).assocs = c.assocs ++ [p] := by
      simp [catSetValue, hfresh, appendValue]
    simp only [List.foldl_cons]
    rw [ih _ (catSetValue_inv c hc p.1 p.2) (by rw [hstep]; simpa using hn), hstep]
    simp

/-- a parsed map has distinct keys; rebuilding it entry by entry gives the same entries -/
theorem map_source_is_parse : ∀ (ps : List (K × V)), NodupKeys ps → (clsMapFrom ps).items = ps := by
  intro ps hn
  suffices h : ∀ (rest m : List (K × V)), NodupKeys (m ++ rest) →
      rest.foldl (fun m p => mset m p.1 p.2) m = m ++ rest by
    simpa [clsMapFrom, mapMakeFrom] using h ps [] (by simpa using hn)
  intro rest
  induction rest with
  | nil => intro m _; simp
  | cons p rest ih =>
    intro m hn
    have hfresh : lookup p.1 m = none := by
      rw [lookup_none_iff]
      intro q hq hqk
      unfold NodupKeys at hn
      rw [List.map_append, List.nodup_append] at hn
      exact hn.2.2 q.1 (List.mem_map_of_mem hq) p.1 (by simp) hqk
    have hstep : mset m p.1 p.2 = m ++ [p] := by simp [mset, hfresh]
    simp only [List.foldl_cons]
    rw [hstep, ih _ (by simpa using hn)]
    simp

end keyed

/-! ### Association(k, v) -/
section assoc

def NotationsOnly (l : List (AArg α)) : Prop := ∀ x ∈ l, x.isNotation = true

theorem assocCollect_notations (s : AState α) : ∀ (l : List (AArg α)), NotationsOnly l → assocCollect s l = .ok s
  | [], _ => rfl
  | x :: xs, h => by
    have hx : x.isNotation = true := h x (by simp)
    simp only [assocCollect, assocStore, hx, if_true]
    exact assocCollect_notations s xs (fun y hy => h y (by simp [hy]))

theorem assocCollect_append (s : AState α) (l1 l2 : List (AArg α)) (s1 : AState α)
    (h : assocCollect s l1 = .ok s1) : assocCollect s (l1 ++ l2) = assocCollect s1 l2 := by
  induction l1 generalizing s with
  | nil => simp [assocCollect] at h; subst h; rfl
  | cons a as ih =>
    simp only [List.cons_append, assocCollect] at h ⊢
    cases hst : assocStore s a with
    | error p => rw [hst] at h; simp at h
    | ok s' => rw [hst] at h; simp only; exact ih s' h

/-- **C20, Association**: whatever the two types are — disjoint, overlapping or
    identical (then every argument is both a K and a V) — and wherever notation
    arguments stand, `Association(k, v)` has key `k` and value `v`. -/
theorem C20_association (n1 n2 n3 : List (AArg α)) (k v : AArg α)
    (h1 : NotationsOnly n1) (h2 : NotationsOnly n2) (h3 : NotationsOnly n3)
    (hk : k.isNotation = false ∧ k.isK = true) (hv : v.isNotation = false ∧ v.isV = true) :
    assocCollect {} (n1 ++ [k] ++ n2 ++ [v] ++ n3) =
      .ok { key := some k.val, value := some v.val, hasKey := true } := by
  have e1 := assocCollect_notations ({} : AState α) n1 h1
  have ek : assocCollect ({} : AState α) [k] = .ok { key := some k.val, hasKey := true } := by
    cases hkv : k.isV <;> simp [assocCollect, assocStore, hk.1, hk.2, hkv]
  have e2 := assocCollect_notations ({ key := some k.val, hasKey := true } : AState α) n2 h2
  have ev : assocCollect ({ key := some k.val, hasKey := true } : AState α) [v] =
      .ok { key := some k.val, value := some v.val, hasKey := true } := by
    cases hvk : v.isK <;> simp [assocCollect, assocStore, hv.1, hv.2, hvk]
  have e3 := assocCollect_notations ({ key := some k.val, value := some v.val, hasKey := true } : AState α) n3 h3
  rw [List.append_assoc, List.append_assoc, List.append_assoc, assocCollect_append _ _ _ _ e1,
    assocCollect_append _ _ _ _ ek, assocCollect_append _ _ _ _ e2, assocCollect_append _ _ _ _ ev, e3]

/-- the defect that was repaired (D20c), kept as a theorem about the *old*
    dispatch: with identical types every argument took the `case K` branch, so
    the second argument overwrote the key and the value stayed zero. -/
def assocStoreOld (s : AState α) (a : AArg α) : AState α :=
  if a.isK then { s with key := some a.val, hasKey := true }
  else if a.isV then { s with value := some a.val }
  else s

theorem D20c_old_dispatch_loses_value (k v : AArg α) (hk : k.isK = true) (hv : v.isK = true) :
    ([k, v].foldl assocStoreOld {}) = { key := some v.val, value := none, hasKey := true } := by
  simp [assocStoreOld, hk, hv]

end assoc

/-! ### non-vacuity: concrete instances of the hypotheses -/

example : buildStack 16 (collect [Arg.notation, Arg.source [3, 1, 2], Arg.notation])
    = some (.ok ({ items := [3, 1, 2], cap := some 16 } : Built Nat)) := by
  have := (C20_stack (α := Nat) 16 [Arg.notation] [Arg.notation] (by intro x hx; simpa using hx)
    (by intro x hx; simpa using hx)).2.2.2.1 [3, 1, 2]
  simpa [clsStackFrom, Stack.makeFrom, makeFromSequence_spec] using this

example : assocCollect ({} : AState Nat)
    [⟨true, true, true, 0⟩, ⟨false, true, true, 7⟩, ⟨false, true, true, 9⟩] =
      .ok { key := some 7, value := some 9, hasKey := true } := by
  simp [assocCollect, assocStore]

end CM
