/-
  C15 — Set algebra equals intersection, union, difference and symmetric difference.
-/
import CollectionModel.Props.C02
namespace CM
open CM.Seq CM.SetM

variable {α : Type} [Inhabited α] [DecidableEq α]

/-- **And = intersection**: a new strictly ascending (duplicate-free) set holding exactly
    the members of `a` that `b` contains (up to rank-equivalence) -/
theorem C15_and (rank rank2 : α → α → Rank) (h : TotalPreorder rank) (h2 : TotalPreorder rank2)
    (a b : List α) (hb : SSorted rank2 b) :
    ∃ r, setAnd rank rank2 a b = some (.ok r) ∧ SSorted rank r ∧
      (∀ x ∈ r, x ∈ a ∧ mem rank2 b x = true) ∧ (∀ x ∈ a, mem rank2 b x = true → mem rank r x = true) :=
  setAnd_spec rank rank2 h h2 a b hb

/-- **Or = union** -/
theorem C15_or (rank : α → α → Rank) (h : TotalPreorder rank) (a b : List α) :
    ∃ r, setOr rank a b = some (.ok r) ∧ SSorted rank r ∧
      (∀ x ∈ r, x ∈ a ∨ x ∈ b) ∧ (∀ x ∈ a ++ b, mem rank r x = true) :=
  setOr_spec rank h a b

/-- **Sans = difference** -/
theorem C15_sans (rank : α → α → Rank) (h : TotalPreorder rank) (a b : List α) :
    ∃ r, setSans rank a b = some (.ok r) ∧ SSorted rank r ∧
      (∀ x ∈ r, x ∈ a ∧ mem rank b x = false) ∧ (∀ x ∈ a, mem rank b x = false → mem rank r x = true) :=
  setSans_spec rank h a b

/-- **Xor = symmetric difference** -/
theorem C15_xor (rank rank2 : α → α → Rank) (h : TotalPreorder rank) (h2 : TotalPreorder rank2)
    (hcompat : ∀ x y, rank2 x y = .eq → rank x y = .eq) (a b : List α) :
    ∃ r, setXor rank rank2 a b = some (.ok r) ∧ SSorted rank r ∧
      (∀ x ∈ r, (x ∈ a ∧ mem rank b x = false) ∨ (x ∈ b ∧ mem rank2 a x = false)) ∧
      (∀ x ∈ a, mem rank b x = false → mem rank r x = true) ∧
      (∀ x ∈ b, mem rank2 a x = false → mem rank r x = true) :=
  setXor_spec rank rank2 h h2 hcompat a b

/-- **the four class functions refine the executable set-algebra specification**
    (the form the driver evaluates on the real observations) -/
theorem C15_step_refines (rank rank2 : α → α → Rank) (h : TotalPreorder rank) (h2 : TotalPreorder rank2)
    (hcompat : ∀ x y, rank2 x y = .eq → rank x y = .eq) (s a b : List α) (hb : SSorted rank2 b) :
    SetM.allowed2 rank rank2 s (.setAnd a b) (SetM.step2 rank rank2 s (.setAnd a b)) = true ∧
    SetM.allowed2 rank rank2 s (.setOr a b) (SetM.step2 rank rank2 s (.setOr a b)) = true ∧
    SetM.allowed2 rank rank2 s (.setSans a b) (SetM.step2 rank rank2 s (.setSans a b)) = true ∧
    SetM.allowed2 rank rank2 s (.setXor a b) (SetM.step2 rank rank2 s (.setXor a b)) = true := by
  refine ⟨?_, ?_, ?_, ?_⟩
  · obtain ⟨r, hr, h1, h2, h3⟩ := setAnd_spec rank rank2 h h2 a b hb
    simp only [SetM.allowed, SetM.allowed2, SetM.step, SetM.step2, hr, obsR, retWhere, member_eq_mem]
    simp only [beq_self_eq_true, Bool.true_and, Bool.and_eq_true, List.all_eq_true, Bool.or_eq_true,
      List.contains_iff_mem, Bool.not_eq_true']
    refine ⟨⟨(strictAsc_iff rank r).mpr h1, h2⟩, ?_⟩
    intro x hx
    cases hm : mem rank2 b x with
    | false => exact Or.inl rfl
    | true => exact Or.inr (h3 x hx hm)
  · obtain ⟨r, hr, h1, h2, h3⟩ := setOr_spec rank h a b
    simp only [SetM.allowed, SetM.allowed2, SetM.step, SetM.step2, hr, obsR, retWhere, member_eq_mem]
    simp only [beq_self_eq_true, Bool.true_and, Bool.and_eq_true, List.all_eq_true, Bool.or_eq_true,
      List.contains_iff_mem]
    exact ⟨⟨(strictAsc_iff rank r).mpr h1, h2⟩, h3⟩
  · obtain ⟨r, hr, h1, h2, h3⟩ := setSans_spec rank h a b
    simp only [SetM.allowed, SetM.allowed2, SetM.step, SetM.step2, hr, obsR, retWhere, member_eq_mem]
    simp only [beq_self_eq_true, Bool.true_and, Bool.and_eq_true, List.all_eq_true, Bool.or_eq_true,
      List.contains_iff_mem, Bool.not_eq_true']
    refine ⟨⟨(strictAsc_iff rank r).mpr h1, h2⟩, ?_⟩
    intro x hx
    cases hm : mem rank b x with
    | true => exact Or.inl rfl
    | false => exact Or.inr (h3 x hx hm)
  · obtain ⟨r, hr, h1, h2, h3, h4⟩ := setXor_spec rank rank2 h h2 hcompat a b
    simp only [SetM.allowed, SetM.allowed2, SetM.step, SetM.step2, hr, obsR, retWhere, member_eq_mem]
    simp only [beq_self_eq_true, Bool.true_and, Bool.and_eq_true, List.all_eq_true, Bool.or_eq_true,
      List.contains_iff_mem, Bool.not_eq_true']
    refine ⟨⟨⟨(strictAsc_iff rank r).mpr h1, h2⟩, ?_⟩, ?_⟩
    · intro x hx
      cases hm : mem rank b x with
      | true => exact Or.inl rfl
      | false => exact Or.inr (h3 x hx hm)
    · intro x hx
      cases hm : mem rank2 a x with
      | true => exact Or.inl rfl
      | false => exact Or.inr (h4 x hx hm)

/-- the operands are values of the model: computing a result cannot change them, and the
    same set passed twice is handled like two equal sets (`A op A`) -/
theorem C15_same_operand (rank : α → α → Rank) (h : TotalPreorder rank) (a : List α) (ha : SSorted rank a) :
    (∃ r, setSans rank a a = some (.ok r) ∧ r = []) ∧
    (∃ r, setXor rank rank a a = some (.ok r) ∧ r = []) := by
  have hself : ∀ x ∈ a, mem rank a x = true := fun x hx => mem_iff.mpr ⟨x, hx, h.refl x⟩
  obtain ⟨r, hr, _, h2, _⟩ := setSans_spec rank h a a
  have hnil : r = [] := by
    cases r with
    | nil => rfl
    | cons y ys =>
      have := h2 y (by simp)
      rw [hself y this.1] at this
      exact absurd this.2 (by simp)
  obtain ⟨q, hq, _, g2, _, _⟩ := setXor_spec rank rank h h (fun _ _ e => e) a a
  have hqnil : q = [] := by
    cases q with
    | nil => rfl
    | cons y ys =>
      rcases g2 y (by simp) with g | g
      · rw [hself y g.1] at g; exact absurd g.2 (by simp)
      · rw [hself y g.1] at g; exact absurd g.2 (by simp)
  exact ⟨⟨r, hr, hnil⟩, ⟨q, hq, hqnil⟩⟩

example : TotalPreorder (fun (a b : Int) => rankInt (a / 3) (b / 3)) := rankInt_total.comap (· / 3)
example : TotalPreorder (fun (a b : Int) => rankInt b a) := rankInt_total.reverse

end CM
